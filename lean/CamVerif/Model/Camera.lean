/-
Hand-written executable model of `cameleon/src/camera.rs` (`Camera<Ctrl, Strm, Ctxt>`:
`open`, `close`, `load_context`, `start_streaming`, `stop_streaming`, `params_ctxt`) over
abstract `DeviceControl` / `PayloadStream` / `GenApiCtxt` behaviours.

The model is a state machine with an EFFECT TRACE: every fallible call the camera makes on
its control handle or stream handle (a *sub-operation*) is appended to the trace together
with its outcome.  Sub-operations fail according to a fault plan `plan : Nat → Bool` indexed
by the global number of sub-operations performed so far; a control-handle operation that
needs an opened device also fails (`NotOpened`) when the handle is closed.

Node operations (`expect_node!(..).set_value / execute`, `cameleon/src/genapi/node_kind.rs`)
on the SFNC nodes `TLParamsLocked`, `AcquisitionStart`, `AcquisitionStop` are modelled by
what they do on the control handle for a description that maps them to plain registers: one
register write each (`lockSet v`, `acqStart`, `acqStop`), cached write-through by the
`DefaultGenApiCtxt`.  "params access" is a read of one cached integer feature.

Tied to the source by the correspondence harness `harness/src/bin/c16.rs` (the real generic
`Camera` with recording fakes), which diffs results, per-call states and the whole trace.
-/
import CamVerif.Prelude.Basic
namespace CamVerif.Camera

/-- Kinds of fallible sub-operations the camera performs on its two handles. -/
inductive Sub where
  | ctrlOpen            -- `DeviceControl::open`
  | strmOpen            -- `PayloadStream::open`
  | ctrlClose           -- `DeviceControl::close`
  | strmClose           -- `PayloadStream::close`
  | genapi              -- `DeviceControl::genapi`
  | enable              -- `DeviceControl::enable_streaming`
  | disable             -- `DeviceControl::disable_streaming`
  | lockSet (v : Nat)   -- `TLParamsLocked.set_value(v)`  = register write
  | acqStart            -- `AcquisitionStart.execute()`    = register write
  | acqStop             -- `AcquisitionStop.execute()`     = register write
  | paramRead           -- read of a feature register (params access, cache miss)
  | gateSet (v : Nat)   -- params access: WRITE of another feature (e.g. one that the description
                        -- lets gate the access mode of `TLParamsLocked`)
  | loopStart           -- `PayloadStream::start_streaming_loop`
  | loopStop            -- `PayloadStream::stop_streaming_loop`
  deriving Repr, DecidableEq, Inhabited

/-- Outcome of one sub-operation. -/
inductive Out where
  | ok
  | fault       -- failure injected by the fault plan
  | notOpened   -- control handle operation on a closed device
  deriving Repr, DecidableEq, Inhabited

structure Effect where
  sub : Sub
  out : Out
  deriving Repr, DecidableEq, Inhabited

/-- Error classes of `CameleonError` (variant level). -/
inductive Err where
  | controlIo            -- ControlError::Io
  | controlNotOpened     -- ControlError::NotOpened
  | controlInvalidData   -- ControlError::InvalidData (description does not parse)
  | streamIo             -- StreamError::Io
  | streamPoisoned       -- StreamError::Poisoned
  | inStreaming          -- StreamError::InStreaming
  | ctxtMissing          -- CameleonError::GenApiContextMissing
  | invalidXml           -- CameleonError::InvalidGenApiXml (expect_node!)
  | genApiDevice         -- GenApiError::Device (a node operation's device access failed)
  deriving Repr, DecidableEq, Inhabited

/-- What matters of a GenApi description: does it parse, and is each of the three SFNC nodes
present with the interface `expect_node!` asks for. -/
structure Xml where
  parseOk : Bool
  lockOk : Bool
  startOk : Bool
  stopOk : Bool
  deriving Repr, DecidableEq, Inhabited

def Xml.full : Xml := ⟨true, true, true, true⟩

/-- Which registers have a cached value in the GenApi context. -/
structure Cache where
  lock : Bool := false
  start : Bool := false
  stop : Bool := false
  gain : Bool := false
  gate : Bool := false
  deriving Repr, DecidableEq, Inhabited

def Cache.empty : Cache := {}

/-- Device + handle + camera state (everything except the bookkeeping of the trace). -/
structure Dev where
  ctrlOpen : Bool := false
  strmOpen : Bool := false
  /-- `camera.ctxt` -/
  ctxt : Option Xml := none
  cache : Cache := {}
  /-- what `strm.is_loop_running()` answers -/
  loopFlag : Bool := false
  /-- number of live receive loops -/
  loops : Nat := 0
  /-- streaming enabled on the device (`enable_streaming` / `disable_streaming`) -/
  enabled : Bool := false
  /-- device register behind `TLParamsLocked` -/
  lock : Nat := 0
  /-- device acquiring (`AcquisitionStart` written, `AcquisitionStop` not yet) -/
  acquiring : Bool := false
  /-- device register behind the feature written by `gateSet` -/
  gate : Nat := 0
  /-- the payload channel that connects the live receive loop with the `PayloadReceiver` that
  `start_streaming` returned to the caller: `(payload capacity, buffer capacity)`; `none` when
  no loop holds a sender whose peer the caller has -/
  chan : Option (Nat × Nat) := none
  deriving Repr, DecidableEq, Inhabited

structure State where
  dev : Dev := {}
  /-- number of sub-operations performed so far = index into the fault plan -/
  counter : Nat := 0
  /-- effect trace, oldest first -/
  trace : List Effect := []
  deriving Repr, Inhabited

def State.init : State := {}

/-- Which `PayloadStream` implementation the camera drives.
* `fake`: the recording fake of the correspondence harness — flag and loop change together, a
  `stop_streaming_loop` fails when the fault plan says so (and then either leaves everything or
  kills the loop, `stopFailKills`).
* `u3v`: mirrors `cameleon::u3v::StreamHandle` — `is_loop_running() = cancellation_tx.is_some()`;
  `start_streaming_loop` reads the stream parameters through the control handle (can fail),
  then refuses with `InStreaming` when the flag is set, else stores the sender and spawns the
  loop; `stop_streaming_loop` TAKES the sender (flag cleared) and then sends the cancellation,
  which fails (`Poisoned`) exactly when the loop thread is gone.  The loop thread can die on its
  own (panic) between calls: environment event `loopDies`. -/
inductive HandleKind where
  | fake
  | u3v
  deriving Repr, DecidableEq, Inhabited

/-- Environment of a run: the fault plan, the description served by the device, and how the
stream handle behaves when `stop_streaming_loop` fails (`true`: the loop is gone and the
flag is cleared, like `u3v::StreamHandle`; `false`: nothing changes). -/
structure Env where
  plan : Nat → Bool
  xml : Xml
  stopFailKills : Bool
  /-- `Camera::open` opens the control handle before the stream handle (`true`, what the code
  does today) or after it.  The two operations are independent and the property does not order
  them, so the order is a parameter: the correspondence run reads it off the implementation's
  own trace and every theorem holds for both values. -/
  openCtrlFirst : Bool := true
  /-- same for the two handle closes of `Camera::close` -/
  closeCtrlFirst : Bool := true
  /-- the stream handle implementation -/
  handle : HandleKind := .fake

/-- Camera computations: state transformer with `Res` outcome (`?` = bind). -/
def M (α : Type) : Type := State → Res Err α × State

@[inline] def M.pure {α} (a : α) : M α := fun s => (.ok a, s)

@[inline] def M.bind {α β} (x : M α) (f : α → M β) : M β := fun s =>
  match x s with
  | (.ok a, s') => f a s'
  | (.err e, s') => (.err e, s')
  | (.panic, s') => (.panic, s')

instance : Monad M where
  pure := M.pure
  bind := M.bind

def throwErr {α} (e : Err) : M α := fun s => (.err e, s)
def panicM {α} : M α := fun s => (.panic, s)
def getDev : M Dev := fun s => (.ok s.dev, s)
def modifyDev (f : Dev → Dev) : M Unit := fun s => (.ok (), { s with dev := f s.dev })

/-- Outcome of the next sub-operation. -/
def outcome (env : Env) (needsOpen : Bool) (s : State) : Out :=
  if env.plan s.counter then .fault
  else if needsOpen && !s.dev.ctrlOpen then .notOpened
  else .ok

/-- One fallible call on a handle: consumes one fault-plan index, is recorded in the trace,
applies `upd` on success (`failUpd` on failure) and returns `onFail out` on failure. -/
def subOp (env : Env) (k : Sub) (needsOpen : Bool) (onFail : Out → Err)
    (upd : Dev → Dev) (failUpd : Dev → Dev := id) : M Unit := fun s =>
  let out := outcome env needsOpen s
  let s1 : State := { s with counter := s.counter + 1, trace := s.trace ++ [⟨k, out⟩] }
  match out with
  | .ok => (.ok (), { s1 with dev := upd s1.dev })
  | o => (.err (onFail o), { s1 with dev := failUpd s1.dev })

/-! ### The fake handles (behaviour of `DeviceControl` / `PayloadStream` implementations) -/

def ctrlErr : Out → Err
  | .notOpened => .controlNotOpened
  | _ => .controlIo

/-- a control handle error wrapped by the GenApi layer -/
def nodeErr : Out → Err := fun _ => .genApiDevice

def ctrlOpenOp (env : Env) : M Unit :=
  subOp env .ctrlOpen false ctrlErr (fun d => { d with ctrlOpen := true })
def ctrlCloseOp (env : Env) : M Unit :=
  subOp env .ctrlClose false ctrlErr (fun d => { d with ctrlOpen := false })
/-- The environment that decides the outcome of `PayloadStream::open`: the fault plan, except
that the `u3v` handle returns `Ok` at once while its loop runs (`if self.is_loop_running()
{ return Ok(()) }`: the loop owns the receive channel and keeps its lock for its whole life —
no lock is taken, nothing can fail). -/
def openEnv (env : Env) (d : Dev) : Env :=
  match env.handle with
  | .fake => env
  | .u3v => if d.loopFlag then { env with plan := fun _ => false } else env

def strmOpenOp (env : Env) : M Unit := do
  let d ← getDev
  subOp (openEnv env d) .strmOpen false (fun _ => .streamIo) (fun d => { d with strmOpen := true })
def strmCloseOp (env : Env) : M Unit :=
  subOp env .strmClose false (fun _ => .streamIo) (fun d => { d with strmOpen := false })
def genapiOp (env : Env) : M Xml := do
  subOp env .genapi true ctrlErr id
  pure env.xml
def enableOp (env : Env) : M Unit :=
  subOp env .enable true ctrlErr (fun d => { d with enabled := true })
def disableOp (env : Env) : M Unit :=
  subOp env .disable true ctrlErr (fun d => { d with enabled := false })

/-- `DEFAULT_BUFFER_CAP` of `start_streaming` (capacity of the give-back channel). -/
def DEFAULT_BUFFER_CAP : Nat := 5

/-- `start_streaming_loop(sender, ..)`.  First the part that can fail (the recording fake: an
injected fault; `u3v::StreamHandle`: `StreamParams::from_control(ctrl)`), one sub-operation.
Then the `u3v` handle refuses with `InStreaming` when its flag is set (the fake is permissive on
purpose: it does not itself refuse a second loop, so that the camera's own check is what the
theorems are about).  Then the loop is started: it keeps the `sender` end of
`channel(cap, DEFAULT_BUFFER_CAP)`; the caller gets the `receiver` end of the SAME channel. -/
def loopStartOp (env : Env) (cap : Nat) : M Unit := do
  subOp env .loopStart false (fun _ => .streamIo) id
  let d ← getDev
  if env.handle = .u3v ∧ d.loopFlag = true then throwErr .inStreaming
  else modifyDev (fun d =>
    { d with loops := d.loops + 1, loopFlag := true, chan := some (cap, DEFAULT_BUFFER_CAP) })

/-- The environment that decides the outcome of `stop_streaming_loop`: the fault plan for the
fake; for the `u3v` handle the send of the cancellation signal fails exactly when the handle
holds a sender (`loopFlag`) whose loop thread is gone (`loops = 0`). -/
def stopEnv (env : Env) (d : Dev) : Env :=
  match env.handle with
  | .fake => env
  | .u3v => { env with plan := fun _ => d.loopFlag && d.loops == 0 }

/-- successful `stop_streaming_loop` -/
def loopStopUpd (env : Env) (d : Dev) : Dev :=
  match env.handle with
  | .fake => { d with loops := d.loops - 1, loopFlag := decide (0 < d.loops - 1), chan := none }
  | .u3v =>
    -- `if self.is_loop_running() { take the sender; send }`: nothing to do without a sender
    if d.loopFlag then { d with loops := d.loops - 1, loopFlag := false, chan := none } else d

/-- failed `stop_streaming_loop` -/
def loopStopFail (env : Env) (d : Dev) : Dev :=
  match env.handle with
  | .fake =>
    if env.stopFailKills then { d with loops := d.loops - 1, loopFlag := false, chan := none } else d
  | .u3v =>
    -- the sender was taken before the send failed: the flag is cleared, the loop was gone already
    { d with loopFlag := false, chan := none }

def loopStopOp (env : Env) : M Unit := do
  let d ← getDev
  subOp (stopEnv env d) .loopStop false (fun _ => .streamPoisoned) (loopStopUpd env) (loopStopFail env)

/-- Environment event (not a call of the camera): the receive loop thread dies on its own
(a panic in the loop).  Only the `u3v` handle has a thread; its flag is NOT updated. -/
def loopDies (env : Env) : M Unit :=
  match env.handle with
  | .fake => pure ()
  | .u3v => modifyDev (fun d => if 0 < d.loops then { d with loops := d.loops - 1, chan := none } else d)

/-! ### GenApi node operations through `ParamsCtxt` -/

/-- `IntegerNode::set_value` on `TLParamsLocked` (register write, cached write-through; a write
the port reports as failed drops the register's cached value, `register_base.rs`). -/
def lockSetOp (env : Env) (v : Nat) : M Unit :=
  subOp env (.lockSet v) true nodeErr
    (fun d => { d with lock := v, cache := { d.cache with lock := true } })
    (fun d => { d with cache := { d.cache with lock := false } })

/-- `CommandNode::execute` on `AcquisitionStart`. -/
def acqStartOp (env : Env) : M Unit :=
  subOp env .acqStart true nodeErr
    (fun d => { d with acquiring := true, cache := { d.cache with start := true } })
    (fun d => { d with cache := { d.cache with start := false } })

/-- `CommandNode::execute` on `AcquisitionStop`. -/
def acqStopOp (env : Env) : M Unit :=
  subOp env .acqStop true nodeErr
    (fun d => { d with acquiring := false, cache := { d.cache with stop := true } })
    (fun d => { d with cache := { d.cache with stop := false } })

/-- `expect_node!`: `InvalidGenApiXml` when the node is missing or has the wrong interface. -/
def expectNode (present : Bool) : M Unit :=
  if present then pure () else throwErr .invalidXml

/-! ### `Camera` methods, statement by statement -/

/-- `Camera::params_ctxt` -/
def paramsCtxt : M Xml := fun s =>
  match s.dev.ctxt with
  | some x => (.ok x, s)
  | none => (.err .ctxtMissing, s)

/-- two independent handle operations, each with `?`, in the order given by `ctrlFirst` -/
def handlePair (ctrlFirst : Bool) (c s : M Unit) : M Unit :=
  if ctrlFirst then (do c; s) else (do s; c)

/-- `Camera::open`: `self.ctrl.open()?; self.strm.open()?; Ok(())` -/
def openCam (env : Env) : M Unit :=
  handlePair env.openCtrlFirst (ctrlOpenOp env) (strmOpenOp env)

/-- `Camera::load_context`: `let xml = self.ctrl.genapi()?; self.ctxt = Some(Ctxt::from_xml(&xml)?)`.
A new context has an empty cache. -/
def loadContext (env : Env) : M Unit := do
  let xml ← genapiOp env
  if xml.parseOk then
    modifyDev (fun d => { d with ctxt := some xml, cache := Cache.empty })
  else
    throwErr .controlInvalidData

/-- `Camera::start_streaming(cap)` -/
def startStreaming (env : Env) (cap : Nat) : M Unit := do
  let d ← getDev
  -- if self.strm.is_loop_running() { return Err(StreamError::InStreaming.into()); }
  if d.loopFlag then throwErr .inStreaming
  -- if self.ctxt.is_none() { return Err(CameleonError::GenApiContextMissing); }
  else if d.ctxt.isNone then throwErr .ctxtMissing
  -- let (sender, receiver) = channel(cap, DEFAULT_BUFFER_CAP);   panics when cap == 0
  else if cap = 0 then panicM
  else do
    -- self.ctrl.enable_streaming()?;
    enableOp env
    -- let mut ctxt = self.params_ctxt()?;
    let x ← paramsCtxt
    -- expect_node!(&ctxt, "TLParamsLocked", as_integer).set_value(&mut ctxt, 1)?;
    expectNode x.lockOk
    lockSetOp env 1
    -- expect_node!(&ctxt, "AcquisitionStart", as_command).execute(&mut ctxt)?;
    expectNode x.startOk
    acqStartOp env
    -- self.strm.start_streaming_loop(sender, &mut self.ctrl)?;
    loopStartOp env cap

/-- `Camera::stop_streaming` -/
def stopStreaming (env : Env) : M Unit := do
  let d ← getDev
  -- if !self.strm.is_loop_running() { return Ok(()); }
  if !d.loopFlag then pure ()
  else do
    -- self.strm.stop_streaming_loop()?;
    loopStopOp env
    -- let mut ctxt = self.params_ctxt()?;
    let x ← paramsCtxt
    -- expect_node!(&ctxt, "AcquisitionStop", as_command).execute(&mut ctxt)?;
    expectNode x.stopOk
    acqStopOp env
    -- expect_node!(&ctxt, "TLParamsLocked", as_integer).set_value(&mut ctxt, 0)?;
    expectNode x.lockOk
    lockSetOp env 0
    -- self.ctrl.disable_streaming()?;
    disableOp env

/-- `Camera::close`: `self.stop_streaming()?; self.ctrl.close()?; self.strm.close()?;`
then `ctxt.clear_cache()` when a context is loaded. -/
def closeCam (env : Env) : M Unit := do
  stopStreaming env
  handlePair env.closeCtrlFirst (ctrlCloseOp env) (strmCloseOp env)
  modifyDev (fun d => { d with cache := Cache.empty })

/-- "params access": `camera.params_ctxt()?` then the value of one cacheable integer
feature: a device read on a cache miss, no device access on a hit. -/
def paramAccess (env : Env) : M Unit := do
  let _ ← paramsCtxt
  let d ← getDev
  if d.cache.gain then pure ()
  else subOp env .paramRead true nodeErr (fun d => { d with cache := { d.cache with gain := true } })

/-- params access that WRITES another feature: `camera.params_ctxt()?` then
`node.set_value(v)` (register write, cached write-through, dropped when the write fails).
A description may let this feature gate the access mode the `TLParamsLocked` node reports
(`pIsLocked`, `pIsAvailable`); `start_streaming` / `stop_streaming` do not consult that access
mode — `IntegerNode::set_value` writes regardless — so the value written here does not occur
anywhere else in the model. -/
def gateAccess (env : Env) (v : Nat) : M Unit := do
  let _ ← paramsCtxt
  subOp env (.gateSet v) true nodeErr
    (fun d => { d with gate := v, cache := { d.cache with gate := true } })
    (fun d => { d with cache := { d.cache with gate := false } })

/-! ### Call sequences -/

inductive Op where
  | open
  | load
  | start (cap : Nat)
  | stop
  | close
  | param
  | gate (v : Nat)
  deriving Repr, DecidableEq, Inhabited

def call (env : Env) : Op → M Unit
  | .open => openCam env
  | .load => loadContext env
  | .start cap => startStreaming env cap
  | .stop => stopStreaming env
  | .close => closeCam env
  | .param => paramAccess env
  | .gate v => gateAccess env v

/-- One call: its result and the state after it (a caught panic leaves the state as it was
at the point of the panic). -/
def step (env : Env) (op : Op) (s : State) : Res Err Unit × State := call env op s

/-- State after a whole call sequence. -/
def runOps (env : Env) : List Op → State → State
  | [], s => s
  | op :: ops, s => runOps env ops (step env op s).2

/-- Results of the calls of a sequence, in order. -/
def runResults (env : Env) : List Op → State → List (Res Err Unit)
  | [], _ => []
  | op :: ops, s => (step env op s).1 :: runResults env ops (step env op s).2

/-- A history: calls of the camera interleaved with environment events. -/
inductive Ev where
  | call (op : Op)
  | loopDies
  deriving Repr, DecidableEq, Inhabited

def stepEv (env : Env) : Ev → State → Res Err Unit × State
  | .call op, s => step env op s
  | .loopDies, s => loopDies env s

def runEvs (env : Env) : List Ev → State → State
  | [], s => s
  | ev :: evs, s => runEvs env evs (stepEv env ev s).2

/-- Effect of one trace entry on the number of live loops. -/
def loopDelta (stopFailKills : Bool) (n : Nat) (e : Effect) : Nat :=
  match e.sub, e.out with
  | .loopStart, .ok => n + 1
  | .loopStop, .ok => n - 1
  | .loopStop, .fault => if stopFailKills then n - 1 else n
  | _, _ => n

/-- Number of live loops according to the trace alone (oldest effect first): successful
loop starts minus loop stops that ended a loop. -/
def liveLoops (stopFailKills : Bool) (t : List Effect) : Nat :=
  t.foldl (loopDelta stopFailKills) 0

end CamVerif.Camera
