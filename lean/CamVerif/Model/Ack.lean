/-
Hand-written executable model of `device/src/u3v/protocol/ack.rs` and `event.rs`
(acknowledge / event packet decoding) over `Bytes` with a `std::io::Cursor`.
Tied to the source by the correspondence harness (`harness/src/bin/c08.rs`).

u16/u32/u64 values are `Nat` carriers produced by `fromLE` of 2/4/8 bytes; `usize`
is 64 bit.  `debug_assert!` is a panic when `Profile.debugAsserts`, `-=` on `usize`
goes through `subW`.
-/
import CamVerif.Prelude.Basic
namespace CamVerif.Ack

inductive Err where
  | invalidPacket
  | bufferIo
  deriving Repr, DecidableEq, Inhabited

abbrev R := Res Err

/-! ### `std::io::Cursor<&[u8]>` + `ReadBytes::read_bytes_le` (`bytes_io.rs`) -/

structure Cursor where
  buf : Bytes
  pos : Nat
  deriving Repr, DecidableEq

/-- `read_bytes_le::<uN>()` with `n = N/8`: `read_exact` of `n` bytes at the current
position (`UnexpectedEof` → `Error::BufferIo` when fewer remain), `from_le_bytes`. -/
def Cursor.readLE (c : Cursor) (n : Nat) : R (Nat × Cursor) :=
  let rest := c.buf.drop c.pos
  if rest.length < n then .err .bufferIo
  else .ok (fromLE (rest.take n), ⟨c.buf, c.pos + n⟩)

/-! ### Status (`ack.rs:114-283`) -/

inductive GenCpStatus where
  | success | notImplemented | invalidParameter | invalidAddress | writeProtect
  | badAlignment | accessDenied | busy | timeout | invalidHeader | wrongConfig | genericError
  deriving Repr, DecidableEq

inductive UsbSpecificStatus where
  | resendNotSupported | streamEndpointHalted | payloadSizeNotAligned
  | eventEndpointHalted | invalidSiState
  deriving Repr, DecidableEq

inductive StatusKind where
  | genCp (s : GenCpStatus)
  | usbSpecific (s : UsbSpecificStatus)
  | deviceSpecific
  deriving Repr, DecidableEq

structure Status where
  code : Nat
  kind : StatusKind
  deriving Repr, DecidableEq

/-- `Status::is_success` -/
def Status.isSuccess (s : Status) : Bool := s.kind == .genCp .success
/-- `Status::is_fatal` : `self.code >> 15 == 1` -/
def Status.isFatal (s : Status) : Bool := s.code >>> 15 == 1

/-- `u16::trailing_zeros` (16 for zero). -/
def trailingZeros16 (v : Nat) : Nat :=
  let rec go : Nat → Nat → Nat
    | 0, _ => 0
    | w + 1, v => if v % 2 = 1 then 0 else 1 + go w (v / 2)
  go 16 v

/-- `debug_assert!(cond)` -/
def debugAssert (p : Profile) (cond : Bool) : R Unit :=
  if p.debugAsserts && !cond then .panic else .ok ()

/-- `Status::parse_gencp_status` -/
def Status.parseGencp (p : Profile) (code : Nat) : R Status := do
  debugAssert p (decide (trailingZeros16 (code >>> 13) ≥ 2))
  let k (s : GenCpStatus) : R Status := .ok ⟨code, .genCp s⟩
  if code = 0x0000 then k .success
  else if code = 0x8001 then k .notImplemented
  else if code = 0x8002 then k .invalidParameter
  else if code = 0x8003 then k .invalidAddress
  else if code = 0x8004 then k .writeProtect
  else if code = 0x8005 then k .badAlignment
  else if code = 0x8006 then k .accessDenied
  else if code = 0x8007 then k .busy
  else if code = 0x800B then k .timeout
  else if code = 0x800E then k .invalidHeader
  else if code = 0x800F then k .wrongConfig
  else if code = 0x8FFF then k .genericError
  else .err .invalidPacket

/-- `Status::parse_usb_status` -/
def Status.parseUsb (p : Profile) (code : Nat) : R Status := do
  debugAssert p (decide ((code >>> 13) &&& 0b11 = 0b01))
  let k (s : UsbSpecificStatus) : R Status := .ok ⟨code, .usbSpecific s⟩
  if code = 0xA001 then k .resendNotSupported
  else if code = 0xA002 then k .streamEndpointHalted
  else if code = 0xA003 then k .payloadSizeNotAligned
  else if code = 0xA004 then k .invalidSiState
  else if code = 0xA005 then k .eventEndpointHalted
  else .err .invalidPacket

/-- Namespace mask used by `Status::parse` (`ack.rs:209`). -/
def NAMESPACE_MASK : Nat := 0b11

/-- `Status::parse` after the code has been read. -/
def Status.ofCode (p : Profile) (code : Nat) : R Status :=
  let ns := (code >>> 13) &&& NAMESPACE_MASK
  if ns = 0b00 then Status.parseGencp p code
  else if ns = 0b01 then Status.parseUsb p code
  else if ns = 0b10 then .ok ⟨code, .deviceSpecific⟩
  else .err .invalidPacket

/-- `Status::parse` -/
def Status.parse (p : Profile) (c : Cursor) : R (Status × Cursor) := do
  let (code, c) ← c.readLE 2
  let s ← Status.ofCode p code
  pure (s, c)

/-! ### ScdKind (`ack.rs:285-308`) -/

inductive ScdKind where
  | readMem | writeMem | readMemStacked | writeMemStacked | pending
  deriving Repr, DecidableEq

def ScdKind.ofId (id : Nat) : R ScdKind :=
  if id = 0x0801 then .ok .readMem
  else if id = 0x0803 then .ok .writeMem
  else if id = 0x0805 then .ok .pending
  else if id = 0x0807 then .ok .readMemStacked
  else if id = 0x0809 then .ok .writeMemStacked
  else .err .invalidPacket

def ScdKind.parse (c : Cursor) : R (ScdKind × Cursor) := do
  let (id, c) ← c.readLE 2
  let k ← ScdKind.ofId id
  pure (k, c)

/-! ### AckPacket (`ack.rs:11-112`) -/

structure AckCcd where
  status : Status
  scdKind : ScdKind
  requestId : Nat
  scdLen : Nat
  deriving Repr, DecidableEq

/-- `raw_scd: &[u8]` is kept as its offset in the parsed buffer and its bytes. -/
structure AckPacket where
  ccd : AckCcd
  rawOff : Nat
  rawScd : Bytes
  deriving Repr, DecidableEq

def ACK_PREFIX_MAGIC : Nat := 0x43563355

/-- `AckCcd::parse` -/
def AckCcd.parse (p : Profile) (c : Cursor) : R (AckCcd × Cursor) := do
  let (status, c) ← Status.parse p c
  let (kind, c) ← ScdKind.parse c
  let (scdLen, c) ← c.readLE 2
  let (requestId, c) ← c.readLE 2
  pure (⟨status, kind, requestId, scdLen⟩, c)

/-- `AckPacket::parse` -/
def AckPacket.parse (p : Profile) (bs : Bytes) : R AckPacket := do
  let c : Cursor := ⟨bs, 0⟩
  let (magic, c) ← c.readLE 4
  if magic ≠ ACK_PREFIX_MAGIC then .err .invalidPacket else
  let (ccd, c) ← AckCcd.parse p c
  -- `&cursor.get_ref()[cursor.position() as usize..]` : slice index panics past the end
  if c.buf.length < c.pos then .panic else
  pure ⟨ccd, c.pos, c.buf.drop c.pos⟩

/-! ### Typed SCD views (`ParseScd` impls, `ack.rs:338-415`) -/

/-- `ReadMem::parse` / `ReadMemStacked::parse` (identical bodies): `data = &buf[..scd_len]`. -/
def parseDataScd (buf : Bytes) (ccd : AckCcd) : R Bytes :=
  if buf.length < ccd.scdLen then .err .invalidPacket
  else .ok (buf.take ccd.scdLen)

def ReadMem.parse := parseDataScd
def ReadMemStacked.parse := parseDataScd

/-- `WriteMem::parse` (returns `length`) and `Pending::parse` (returns the timeout in
ms; `Duration::from_millis(u16)` cannot fail): `scd_len >= 4`, `reserved u16 == 0`, then a
`u16`. -/
def parseReservedU16 (buf : Bytes) (ccd : AckCcd) : R Nat :=
  if ccd.scdLen < 4 then .err .invalidPacket else do
  let c : Cursor := ⟨buf, 0⟩
  let (reserved, c) ← c.readLE 2
  if reserved ≠ 0 then .err .invalidPacket else
  let (v, _) ← c.readLE 2
  pure v

def WriteMem.parse (buf : Bytes) (ccd : AckCcd) : R Nat := parseReservedU16 buf ccd
def Pending.parse (buf : Bytes) (ccd : AckCcd) : R Nat := parseReservedU16 buf ccd

/-- The `while to_read > 0` loop of `WriteMemStacked::parse`.  Every iteration that
does not return consumes 4 bytes of the cursor, so `fuel = buf.len() + 1` suffices. -/
def writeMemStackedLoop (p : Profile) : Nat → Cursor → Nat → R (List Nat)
  | 0, _, _ => .panic   -- out of fuel: unreachable (theorem `parse_total`)
  | fuel + 1, c, toRead =>
    if toRead > 0 then do
      let (reserved, c) ← c.readLE 2
      if reserved ≠ 0 then .err .invalidPacket else
      let (length, c) ← c.readLE 2
      let toRead ← subW p 64 toRead 4
      let rest ← writeMemStackedLoop p fuel c toRead
      pure (length :: rest)
    else pure []

/-- `WriteMemStacked::parse` -/
def WriteMemStacked.parse (p : Profile) (buf : Bytes) (ccd : AckCcd) : R (List Nat) :=
  let toRead := ccd.scdLen
  if toRead % 4 ≠ 0 then .err .invalidPacket else
  writeMemStackedLoop p (buf.length + 1) ⟨buf, 0⟩ toRead

/-! ### EventPacket (`event.rs`) -/

def EVENT_PREFIX_MAGIC : Nat := 0x45563355
def EVENT_COMMAND_ID : Nat := 0x0c00

structure EventCcd where
  flag : Nat
  commandId : Nat
  scdLen : Nat
  requestId : Nat
  deriving Repr, DecidableEq

/-- `data: &[u8]` is kept as its offset in the parsed buffer and its bytes. -/
structure EventScd where
  eventSize : Nat
  eventId : Nat
  timestamp : Nat
  dataOff : Nat
  data : Bytes
  deriving Repr, DecidableEq

structure EventPacket where
  ccd : EventCcd
  scd : List EventScd
  deriving Repr, DecidableEq

/-- `EventCcd::parse` -/
def EventCcd.parse (c : Cursor) : R (EventCcd × Cursor) := do
  let (flag, c) ← c.readLE 2
  let (commandId, c) ← c.readLE 2
  if commandId ≠ EVENT_COMMAND_ID then .err .invalidPacket else
  let (scdLen, c) ← c.readLE 2
  let (requestId, c) ← c.readLE 2
  pure (⟨flag, commandId, scdLen, requestId⟩, c)

/-- `read_and_seek` : `&buf[pos .. pos+len]`, `UnexpectedEof` (→ BufferIo) when short. -/
def readAndSeek (c : Cursor) (len : Nat) : R (Nat × Bytes × Cursor) :=
  let endPos := len + c.pos
  if c.buf.length < endPos then .err .bufferIo
  else .ok (c.pos, (c.buf.drop c.pos).take len, ⟨c.buf, c.pos + len⟩)

/-- `u16::checked_sub(..).ok_or_else(|| InvalidPacket)` -/
def checkedSub (a b : Nat) : R Nat :=
  if b ≤ a then .ok (a - b) else .err .invalidPacket

/-- The `while remained > 0` loop of `EventScd::parse`.  Every iteration that does not
return lowers `remained` by ≥ 12 or sets it to 0, so `fuel = scd_len + 1` suffices. -/
def eventLoop : Nat → Cursor → Nat → R (List EventScd)
  | 0, _, _ => .panic   -- out of fuel: unreachable (theorem `parse_total`)
  | fuel + 1, c, remained =>
    if remained > 0 then do
      let (eventSize, c) ← c.readLE 2
      let (eventId, c) ← c.readLE 2
      let (timestamp, c) ← c.readLE 8
      if eventSize = 0 then do
        let remained ← checkedSub remained 12
        let (off, data, _) ← readAndSeek c remained
        -- `remained = 0`: the loop condition fails, the walk ends here
        pure [⟨eventSize, eventId, timestamp, off, data⟩]
      else do
        let dataLen ← checkedSub eventSize 12
        let remained ← checkedSub remained eventSize
        let (off, data, c) ← readAndSeek c dataLen
        let rest ← eventLoop fuel c remained
        pure (⟨eventSize, eventId, timestamp, off, data⟩ :: rest)
    else pure []

/-- `EventPacket::parse` -/
def EventPacket.parse (bs : Bytes) : R EventPacket := do
  let c : Cursor := ⟨bs, 0⟩
  let (magic, c) ← c.readLE 4
  if magic ≠ EVENT_PREFIX_MAGIC then .err .invalidPacket else
  let (ccd, c) ← EventCcd.parse c
  let scd ← eventLoop (ccd.scdLen + 1) c ccd.scdLen
  pure ⟨ccd, scd⟩

end CamVerif.Ack
