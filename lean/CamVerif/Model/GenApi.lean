/-
Hand-written executable model of the GenApi node-graph interpreter (caching OFF =
`CacheSink`): `genapi/src/{ivalue,integer,float,boolean,enumeration,command,converter,
int_converter,swiss_knife,int_swiss_knife,string,elem_type,node_base,register_base,
int_reg,masked_int_reg,float_reg,string_reg,register,port,utils,store}.rs`.

Design
* The Rust code is generic in the device, the stores and (through `formula.rs`,
  `utils.rs` codecs, `BitMask`) in pure helper layers owned by other models.  The
  interpreter is therefore parametric in one record `Ops F E` (float conversions,
  register codecs, bit-mask arithmetic, formula evaluation; `F` = the float carrier,
  `E` = the formula expression type), exactly as the Rust is generic.
* Effects are typed.  Read-class calls (`value`, `min`, `max`, `inc`, `is_readable`,
  `is_writable`, `current_entry`, `is_done`, register `read`/`address`/`length` …) run in
  `R α = S → Res α × Log`: they can read value store and device memory and append to
  the access log, and by construction cannot change either store (with `CacheSink`
  the Rust read paths mutate nothing but the cache, which is a no-op).  Write-class
  calls run in `M α = S → Res α × S × Log`.  The log is an output only.
* Recursion through node references is open: every helper takes the record `Rec` of
  the interface calls "one level down"; `execRec (fuel+1) = step (execRec fuel)`.
  Running out of fuel is the dedicated error `Err.outOfFuel` (never caught by any
  code path, so it surfaces unchanged).
* The case structure mirrors the Rust dispatch one to one (see the section headers).
-/
import CamVerif.Prelude.Basic
namespace CamVerif.GenApi

abbrev NodeId := Nat
abbrev SlotId := Nat

/-- `GenApiError` variants (payload dropped) plus the model-only `outOfFuel`. -/
inductive Err where
  | device
  | notWritable
  | invalidNode
  | invalidData
  | chunkDataMissing
  | invalidBuffer
  | outOfFuel
  deriving Repr, DecidableEq, Inhabited

inductive AccessMode where
  | ro | wo | rw
  deriving Repr, DecidableEq, Inhabited

inductive Endian where
  | le | be
  deriving Repr, DecidableEq, Inhabited

inductive Sign where
  | signed | unsigned
  deriving Repr, DecidableEq, Inhabited

inductive BitMask where
  | single (bit : Nat)
  | range (lsb msb : Nat)
  deriving Repr, DecidableEq, Inhabited

/-- `store::ValueData` -/
inductive ValueData (F : Type) where
  | int (i : Int)
  | float (f : F)
  | str (s : Bytes)
  | bool (b : Bool)
  deriving Repr, Inhabited

/-- `formula::EvaluationResult` -/
inductive EvalResult (F : Type) where
  | int (i : Int)
  | float (f : F)
  deriving Repr, Inhabited

/-- `elem_type::ImmOrPNode<T>`.  For `T = i64 / f64` the payload is a true immediate,
for `T = IntegerId / FloatId / StringId` it is a value-store slot. -/
inductive ImmOrPNode (α : Type) where
  | imm (a : α)
  | pnode (n : NodeId)
  deriving Repr, Inhabited

/-- `elem_type::ValueKind<IntegerId | FloatId>` (`PValue`, `PIndex` inlined). -/
inductive ValueKind where
  | value (s : SlotId)
  | pValue (p : NodeId) (copies : List NodeId)
  | pIndex (sel : NodeId) (entries : List (Int × ImmOrPNode SlotId)) (dflt : ImmOrPNode SlotId)
  deriving Repr, Inhabited

/-- `elem_type::AddressKind` (`RegPIndex` inlined). -/
inductive AddressKind where
  | address (a : ImmOrPNode Int)
  | intSwissKnife (n : NodeId)
  | pIndex (sel : NodeId) (offset : Option (ImmOrPNode Int))
  deriving Repr, Inhabited

/-- The semantically relevant part of `NodeElementBase`. -/
structure Base where
  pIsImplemented : Option NodeId := none
  pIsAvailable : Option NodeId := none
  pIsLocked : Option NodeId := none
  imposed : AccessMode := .rw
  deriving Repr, Inhabited

/-- The semantically relevant part of `RegisterBase`. -/
structure RegBase where
  base : Base
  addrs : List AddressKind
  length : ImmOrPNode Int
  accessMode : AccessMode
  port : NodeId
  deriving Repr, Inhabited

/-- A `<Constant>`: `NamedValue<f64>` (Converter, SwissKnife) or `NamedValue<i64>`. -/
inductive NumLit (F : Type) where
  | int (i : Int)
  | float (f : F)
  deriving Repr, Inhabited

/-- `p_variables`, `constants`, `expressions` shared by the four formula node kinds. -/
structure Formulaic (F E : Type) where
  vars : List (String × NodeId)
  consts : List (String × NumLit F)
  exprs : List (String × E)
  deriving Inhabited

/-- `store::NodeData`, semantically relevant fields only. -/
inductive Node (F E : Type) where
  | integer (b : Base) (vk : ValueKind) (min max : ImmOrPNode SlotId) (inc : ImmOrPNode Int)
  | intReg (r : RegBase) (sign : Sign) (endian : Endian)
  | maskedIntReg (r : RegBase) (mask : BitMask) (sign : Sign) (endian : Endian)
  | boolean (b : Base) (value : ImmOrPNode SlotId) (onV offV : Int)
  | command (b : Base) (value cmdValue : ImmOrPNode SlotId)
  | enumeration (b : Base) (entries : List NodeId) (value : ImmOrPNode SlotId)
  | enumEntry (b : Base) (value : Int) (numeric : Option F) (symbolic : String)
  | float (b : Base) (vk : ValueKind) (min max : ImmOrPNode SlotId) (inc : Option (ImmOrPNode F))
  | floatReg (r : RegBase) (endian : Endian)
  | string (b : Base) (value : ImmOrPNode SlotId)
  | stringReg (r : RegBase)
  | register (r : RegBase)
  | converter (b : Base) (fm : Formulaic F E) (formulaTo formulaFrom : E) (pValue : NodeId)
  | intConverter (b : Base) (fm : Formulaic F E) (formulaTo formulaFrom : E) (pValue : NodeId)
  | swissKnife (b : Base) (fm : Formulaic F E) (formula : E)
  | intSwissKnife (b : Base) (fm : Formulaic F E) (formula : E)
  | port (b : Base) (chunk : Bool)
  | category (b : Base) (features : List NodeId)
  | node (b : Base)
  deriving Inhabited

abbrev Graph (F E : Type) := NodeId → Option (Node F E)

/-! ## Device, value store, access log -/

/-- The recording in-memory device of the harness: `mem.length` bytes at address 0;
an access outside `[0, mem.length)` is refused; writes that touch `[roLo, roHi)` are
refused (lets write fan-outs fail half way). -/
structure Dev where
  mem : Bytes
  roLo : Nat := 0
  roHi : Nat := 0
  deriving Repr, Inhabited

/-- One call of `Device::read_mem` / `write_mem` (refused ones included). -/
inductive Access where
  | read (addr : Int) (len : Nat) (ok : Bool)
  | write (addr : Int) (data : Bytes) (ok : Bool)
  deriving Repr, DecidableEq, Inhabited

abbrev Log := List Access

def Dev.inRange (d : Dev) (addr : Int) (len : Nat) : Bool :=
  decide (0 ≤ addr) && decide (addr.toNat + len ≤ d.mem.length)

/-- `Device::read_mem` -/
def Dev.read (d : Dev) (addr : Int) (len : Nat) : Option Bytes :=
  if d.inRange addr len then some ((d.mem.drop addr.toNat).take len) else none

def Dev.writable (d : Dev) (addr : Int) (len : Nat) : Bool :=
  d.inRange addr len && !(decide (addr.toNat < d.roHi) && decide (d.roLo < addr.toNat + len))

/-- `Device::write_mem` -/
def Dev.write (d : Dev) (addr : Int) (data : Bytes) : Option Dev :=
  if d.writable addr data.length then
    some { d with mem := d.mem.take addr.toNat ++ data ++ d.mem.drop (addr.toNat + data.length) }
  else none

/-- What node evaluation can observe and change: value store + device. -/
structure S (F : Type) where
  vs : List (ValueData F)
  dev : Dev
  deriving Inhabited

/-- Read-class computations. -/
def R (F α : Type) : Type := S F → Res Err α × Log
/-- Write-class computations. -/
def M (F α : Type) : Type := S F → Res Err α × S F × Log

namespace R
variable {F α β : Type}
@[inline] def pure (a : α) : R F α := fun _ => (.ok a, [])
@[inline] def bind (m : R F α) (f : α → R F β) : R F β := fun s =>
  match m s with
  | (.ok a, l) => match f a s with | (r, l') => (r, l ++ l')
  | (.err e, l) => (.err e, l)
  | (.panic, l) => (.panic, l)
instance : Monad (R F) where
  pure := R.pure
  bind := R.bind
@[inline] def ofRes (x : Res Err α) : R F α := fun _ => (x, [])
@[inline] def err (e : Err) : R F α := fun _ => (.err e, [])
@[inline] def panic : R F α := fun _ => (.panic, [])
@[inline] def get : R F (S F) := fun s => (.ok s, [])
@[inline] def emit (a : Access) : R F Unit := fun _ => (.ok (), [a])
end R

namespace M
variable {F α β : Type}
@[inline] def pure (a : α) : M F α := fun s => (.ok a, s, [])
@[inline] def bind (m : M F α) (f : α → M F β) : M F β := fun s =>
  match m s with
  | (.ok a, s', l) => match f a s' with | (r, s'', l') => (r, s'', l ++ l')
  | (.err e, s', l) => (.err e, s', l)
  | (.panic, s', l) => (.panic, s', l)
instance : Monad (M F) where
  pure := M.pure
  bind := M.bind
@[inline] def ofRes (x : Res Err α) : M F α := fun s => (x, s, [])
@[inline] def err (e : Err) : M F α := fun s => (.err e, s, [])
@[inline] def panic : M F α := fun s => (.panic, s, [])
/-- Run a read-class computation inside a write-class one. -/
@[inline] def ofR (m : R F α) : M F α := fun s => match m s with | (r, l) => (r, s, l)
@[inline] def modify (f : S F → S F) : M F Unit := fun s => (.ok (), f s, [])
@[inline] def emit (a : Access) : M F Unit := fun s => (.ok (), s, [a])
end M

instance {F : Type} : MonadLift (R F) (M F) := ⟨M.ofR⟩

/-! ## Pure helper layers the interpreter is generic in -/

/-- Float conversions, register codecs (`utils.rs`), `BitMask` arithmetic
(`masked_int_reg.rs`) and formula evaluation (`formula.rs`).  Owned by the models of
C01 / C02 / C05; instantiated in the driver. -/
structure Ops (F E : Type) where
  /-- `i as f64` -/
  i2f : Int → F
  /-- `f as i64` (saturating, NaN ↦ 0) -/
  f2i : F → Int
  /-- `f != 0.0` -/
  fNonZero : F → Bool
  /-- `f64::MIN`, `f64::MAX` -/
  fMin : F
  fMax : F
  intFromSlice : Bytes → Endian → Sign → Res Err Int
  bytesFromInt : Int → Nat → Endian → Sign → Res Err Bytes
  floatFromSlice : Bytes → Endian → Res Err F
  bytesFromFloat : F → Nat → Endian → Res Err Bytes
  /-- `String::from_utf8_lossy(&data[..first NUL])` as UTF-8 bytes -/
  strDecode : Bytes → Bytes
  /-- `BitMask::apply_mask reg_value reg_byte_len endianness sign` -/
  applyMask : Profile → BitMask → Int → Nat → Endian → Sign → Res Err Int
  /-- `BitMask::masked_value old value reg_byte_len endianness sign` -/
  maskedValue : Profile → BitMask → Int → Int → Nat → Endian → Sign → Res Err Int
  maskMin : Profile → BitMask → Nat → Endian → Sign → Res Err Int
  maskMax : Profile → BitMask → Nat → Endian → Sign → Res Err Int
  /-- `Expr::from(i64)`, `Expr::from(f64)` -/
  exprOfInt : Int → E
  exprOfFloat : F → E
  /-- `Formula::eval` over an environment (a `HashMap`, given as its lookup function) -/
  eval : Profile → (String → Option E) → E → Res Err (EvalResult F)

/-- Everything fixed during one run. -/
structure Ctx (F E : Type) where
  ops : Ops F E
  profile : Profile
  graph : Graph F E

/-! ## i64 arithmetic on `Int` carriers -/

def I64_MIN : Int := -(2 ^ 63)
def I64_MAX : Int := 2 ^ 63 - 1

def inI64 (x : Int) : Bool := decide (I64_MIN ≤ x) && decide (x ≤ I64_MAX)

/-- two's-complement wrap into the `i64` range -/
def wrapI64 (x : Int) : Int := (x + 2 ^ 63) % 2 ^ 64 - 2 ^ 63

/-- `a + b` on `i64` (`address += …`, `register_base.rs:149`) -/
def addI64 (p : Profile) (a b : Int) : Res Err Int :=
  if inI64 (a + b) then .ok (a + b)
  else if p.overflowChecks then .panic else .ok (wrapI64 (a + b))

/-- `a * b` on `i64` (`base * offset`, `elem_type.rs:315`) -/
def mulI64 (p : Profile) (a b : Int) : Res Err Int :=
  if inI64 (a * b) then .ok (a * b)
  else if p.overflowChecks then .panic else .ok (wrapI64 (a * b))

/-- `length as usize` followed by `vec![0; n]` / `Vec::resize(n, 0)`: a negative `i64`
becomes a size above `isize::MAX` and the standard library panics ("capacity
overflow").  (Allocation failure for huge positive lengths is outside the model.) -/
def allocLen (length : Int) : Res Err Nat :=
  if 0 ≤ length then .ok length.toNat else .panic

/-- `x as usize` (64-bit) -/
def asUsize (x : Int) : Nat := (x % 2 ^ 64).toNat

/-- `length as usize` compared with a real buffer length -/
def lenMatches (bufLen : Nat) (length : Int) : Bool :=
  decide (0 ≤ length) && decide (bufLen = length.toNat)

/-! ## The interface calls one level down (open recursion) -/

/-- One field per interface call that node evaluation itself performs on referenced
nodes (`IInteger`, `IFloat`, `IString`, `IBoolean`, `IEnumeration`). -/
structure Rec (F : Type) where
  intValue : NodeId → R F Int
  intSet : NodeId → Int → M F Unit
  intMin : NodeId → R F Int
  intMax : NodeId → R F Int
  intInc : NodeId → R F (Option Int)
  intIsReadable : NodeId → R F Bool
  intIsWritable : NodeId → R F Bool
  floatValue : NodeId → R F F
  floatSet : NodeId → F → M F Unit
  floatMin : NodeId → R F F
  floatMax : NodeId → R F F
  floatInc : NodeId → R F (Option F)
  floatIsReadable : NodeId → R F Bool
  floatIsWritable : NodeId → R F Bool
  strValue : NodeId → R F Bytes
  strSet : NodeId → Bytes → M F Unit
  strMaxLength : NodeId → R F Int
  strIsReadable : NodeId → R F Bool
  strIsWritable : NodeId → R F Bool
  boolValue : NodeId → R F Bool
  boolSet : NodeId → Bool → M F Unit
  boolIsReadable : NodeId → R F Bool
  boolIsWritable : NodeId → R F Bool
  enumCurrentValue : NodeId → R F Int
  enumCurrentEntry : NodeId → R F NodeId
  enumSetByValue : NodeId → Int → M F Unit
  enumIsReadable : NodeId → R F Bool
  enumIsWritable : NodeId → R F Bool

/-- No fuel left: every call answers `outOfFuel`. -/
def Rec.bottom (F : Type) : Rec F where
  intValue _ := R.err .outOfFuel
  intSet _ _ := M.err .outOfFuel
  intMin _ := R.err .outOfFuel
  intMax _ := R.err .outOfFuel
  intInc _ := R.err .outOfFuel
  intIsReadable _ := R.err .outOfFuel
  intIsWritable _ := R.err .outOfFuel
  floatValue _ := R.err .outOfFuel
  floatSet _ _ := M.err .outOfFuel
  floatMin _ := R.err .outOfFuel
  floatMax _ := R.err .outOfFuel
  floatInc _ := R.err .outOfFuel
  floatIsReadable _ := R.err .outOfFuel
  floatIsWritable _ := R.err .outOfFuel
  strValue _ := R.err .outOfFuel
  strSet _ _ := M.err .outOfFuel
  strMaxLength _ := R.err .outOfFuel
  strIsReadable _ := R.err .outOfFuel
  strIsWritable _ := R.err .outOfFuel
  boolValue _ := R.err .outOfFuel
  boolSet _ _ := M.err .outOfFuel
  boolIsReadable _ := R.err .outOfFuel
  boolIsWritable _ := R.err .outOfFuel
  enumCurrentValue _ := R.err .outOfFuel
  enumCurrentEntry _ := R.err .outOfFuel
  enumSetByValue _ _ := M.err .outOfFuel
  enumIsReadable _ := R.err .outOfFuel
  enumIsWritable _ := R.err .outOfFuel

section Interp
variable {F E : Type} (cx : Ctx F E)

/-! ### `interface.rs`: which interface kinds a stored node offers -/

/-- `IIntegerKind::maybe_from` succeeds -/
def isIntKind (n : NodeId) : Bool :=
  match cx.graph n with
  | some (.integer ..) | some (.intReg ..) | some (.maskedIntReg ..)
  | some (.intConverter ..) | some (.intSwissKnife ..) => true
  | _ => false

/-- `IFloatKind::maybe_from` succeeds -/
def isFloatKind (n : NodeId) : Bool :=
  match cx.graph n with
  | some (.float ..) | some (.floatReg ..) | some (.converter ..) | some (.swissKnife ..) => true
  | _ => false

def isStrKind (n : NodeId) : Bool :=
  match cx.graph n with
  | some (.string ..) | some (.stringReg ..) => true
  | _ => false

def isBoolKind (n : NodeId) : Bool :=
  match cx.graph n with
  | some (.boolean ..) => true
  | _ => false

def isEnumKind (n : NodeId) : Bool :=
  match cx.graph n with
  | some (.enumeration ..) => true
  | _ => false

/-! ### `store.rs`: value ids with the `as` conversions (`ivalue.rs:93-178`) -/

/-- `ValueStore::integer_value(id).unwrap()` -/
def slotIntegerValue (id : SlotId) : R F Int := fun s =>
  match s.vs[id]? with
  | some (.int i) => (.ok i, [])
  | some (.float f) => (.ok (cx.ops.f2i f), [])
  | _ => (.panic, [])

/-- `ValueStore::float_value(id).unwrap()` -/
def slotFloatValue (id : SlotId) : R F F := fun s =>
  match s.vs[id]? with
  | some (.int i) => (.ok (cx.ops.i2f i), [])
  | some (.float f) => (.ok f, [])
  | _ => (.panic, [])

/-- `ValueStore::str_value(id).unwrap()` -/
def slotStrValue (id : SlotId) : R F Bytes := fun s =>
  match s.vs[id]? with
  | some (.str b) => (.ok b, [])
  | _ => (.panic, [])

/-- `ValueStore::update(id, v)` (`DefaultValueStore`: out of range is ignored) -/
def slotUpdate (id : SlotId) (v : ValueData F) : M F Unit :=
  M.modify fun s => { s with vs := if id < s.vs.length then s.vs.set id v else s.vs }

/-- `IValue<i64> for IntegerId` -/
def intIdValue (id : SlotId) : R F Int := slotIntegerValue cx id
/-- `IValue<f64> for IntegerId`: `integer_value(..) as f64` -/
def intIdValueF (id : SlotId) : R F F := do let i ← slotIntegerValue cx id; pure (cx.ops.i2f i)
/-- `IValue<f64> for FloatId` -/
def floatIdValue (id : SlotId) : R F F := slotFloatValue cx id
/-- `IValue<i64> for FloatId`: `float_value(..) as i64` -/
def floatIdValueI (id : SlotId) : R F Int := do let f ← slotFloatValue cx id; pure (cx.ops.f2i f)

/-! ### `ivalue.rs:180-362`: `IValue<T> for NodeId` (integer → float → enumeration) -/

/-- `IValue<i64> for NodeId :: value` -/
def nidIntValue (r : Rec F) (n : NodeId) : R F Int :=
  if isIntKind cx n then r.intValue n
  else if isFloatKind cx n then do let f ← r.floatValue n; pure (cx.ops.f2i f)
  else if isEnumKind cx n then r.enumCurrentValue n
  else R.err .invalidNode

/-- `IValue<i64> for NodeId :: set_value` -/
def nidIntSet (r : Rec F) (n : NodeId) (v : Int) : M F Unit :=
  if isIntKind cx n then r.intSet n v
  else if isFloatKind cx n then r.floatSet n (cx.ops.i2f v)
  else if isEnumKind cx n then r.enumSetByValue n v
  else M.err .notWritable

/-- `IValue<f64> for NodeId :: value` -/
def nidFloatValue (r : Rec F) (n : NodeId) : R F F :=
  if isIntKind cx n then do let i ← r.intValue n; pure (cx.ops.i2f i)
  else if isFloatKind cx n then r.floatValue n
  else if isEnumKind cx n then do let i ← r.enumCurrentValue n; pure (cx.ops.i2f i)
  else R.err .invalidNode

/-- `IValue<f64> for NodeId :: set_value` -/
def nidFloatSet (r : Rec F) (n : NodeId) (v : F) : M F Unit :=
  if isIntKind cx n then r.intSet n (cx.ops.f2i v)
  else if isFloatKind cx n then r.floatSet n v
  else if isEnumKind cx n then r.enumSetByValue n (cx.ops.f2i v)
  else M.err .notWritable

/-- `IValue<i64|f64> for NodeId :: is_readable` (identical for both instances) -/
def nidIsReadable (r : Rec F) (n : NodeId) : R F Bool :=
  if isIntKind cx n then r.intIsReadable n
  else if isFloatKind cx n then r.floatIsReadable n
  else if isEnumKind cx n then r.enumIsReadable n
  else pure false

/-- `IValue<i64|f64> for NodeId :: is_writable` (identical for both instances;
the enumeration arm is the repair of F-C18-2) -/
def nidIsWritable (r : Rec F) (n : NodeId) : R F Bool :=
  if isIntKind cx n then r.intIsWritable n
  else if isFloatKind cx n then r.floatIsWritable n
  else if isEnumKind cx n then r.enumIsWritable n
  else pure false

/-- `IValue<String> for NodeId`: `expect_istring_kind(store)?` first, for all four calls -/
def nidStrValue (r : Rec F) (n : NodeId) : R F Bytes :=
  if isStrKind cx n then r.strValue n else R.err .invalidNode
def nidStrSet (r : Rec F) (n : NodeId) (v : Bytes) : M F Unit :=
  if isStrKind cx n then r.strSet n v else M.err .invalidNode
def nidStrIsReadable (r : Rec F) (n : NodeId) : R F Bool :=
  if isStrKind cx n then r.strIsReadable n else R.err .invalidNode
def nidStrIsWritable (r : Rec F) (n : NodeId) : R F Bool :=
  if isStrKind cx n then r.strIsWritable n else R.err .invalidNode

/-! ### `ivalue.rs:46-91, 364-417`: immediates and `ImmOrPNode` -/

/-- `ImmOrPNode<i64> as IValue<i64> :: value` (true immediate: `Ok(*self)`) -/
def immIntValue (r : Rec F) : ImmOrPNode Int → R F Int
  | .imm i => pure i
  | .pnode n => nidIntValue cx r n

/-- `ImmOrPNode<f64> as IValue<f64> :: value` -/
def immFloatValue (r : Rec F) : ImmOrPNode F → R F F
  | .imm f => pure f
  | .pnode n => nidFloatValue cx r n

/-- `ImmOrPNode<i64|f64> :: set_value`: a true immediate is `NotWritable` -/
def immIntSet (r : Rec F) : ImmOrPNode Int → Int → M F Unit
  | .imm _, _ => M.err .notWritable
  | .pnode n, v => nidIntSet cx r n v

/-- `ImmOrPNode<i64|f64> :: is_readable`: a true immediate is readable -/
def immIsReadable {α : Type} (r : Rec F) : ImmOrPNode α → R F Bool
  | .imm _ => pure true
  | .pnode n => nidIsReadable cx r n

/-- `ImmOrPNode<i64|f64> :: is_writable`: a true immediate is never writable -/
def immIsWritable {α : Type} (r : Rec F) : ImmOrPNode α → R F Bool
  | .imm _ => pure false
  | .pnode n => nidIsWritable cx r n

/-- `ImmOrPNode<IntegerId> as IValue<i64> :: value` -/
def slotOrNodeIntValue (r : Rec F) : ImmOrPNode SlotId → R F Int
  | .imm id => intIdValue cx id
  | .pnode n => nidIntValue cx r n

/-- `ImmOrPNode<IntegerId> as IValue<i64> :: set_value` -/
def slotOrNodeIntSet (r : Rec F) : ImmOrPNode SlotId → Int → M F Unit
  | .imm id, v => slotUpdate id (.int v)
  | .pnode n, v => nidIntSet cx r n v

/-- `ImmOrPNode<FloatId> as IValue<f64> :: value` -/
def slotOrNodeFloatValue (r : Rec F) : ImmOrPNode SlotId → R F F
  | .imm id => floatIdValue cx id
  | .pnode n => nidFloatValue cx r n

/-- `ImmOrPNode<FloatId> as IValue<f64> :: set_value` -/
def slotOrNodeFloatSet (r : Rec F) : ImmOrPNode SlotId → F → M F Unit
  | .imm id, v => slotUpdate id (.float v)
  | .pnode n, v => nidFloatSet cx r n v

/-- `ImmOrPNode<IntegerId|FloatId> :: is_readable`: a value-store slot is readable -/
def slotOrNodeIsReadable (r : Rec F) : ImmOrPNode SlotId → R F Bool
  | .imm _ => pure true
  | .pnode n => nidIsReadable cx r n

/-- `ImmOrPNode<IntegerId|FloatId> :: is_writable`: a value-store slot is writable -/
def slotOrNodeIsWritable (r : Rec F) : ImmOrPNode SlotId → R F Bool
  | .imm _ => pure true
  | .pnode n => nidIsWritable cx r n

/-- `ImmOrPNode<StringId> as IValue<String>` -/
def slotOrNodeStrValue (r : Rec F) : ImmOrPNode SlotId → R F Bytes
  | .imm id => slotStrValue id
  | .pnode n => nidStrValue cx r n
def slotOrNodeStrSet (r : Rec F) : ImmOrPNode SlotId → Bytes → M F Unit
  | .imm id, v => slotUpdate id (.str v)
  | .pnode n, v => nidStrSet cx r n v
def slotOrNodeStrIsReadable (r : Rec F) : ImmOrPNode SlotId → R F Bool
  | .imm _ => pure true
  | .pnode n => nidStrIsReadable cx r n
def slotOrNodeStrIsWritable (r : Rec F) : ImmOrPNode SlotId → R F Bool
  | .imm _ => pure true
  | .pnode n => nidStrIsWritable cx r n

/-! ### `ivalue.rs:479-528`: `PValue` (+ `pValueCopy` fan-out) -/

/-- `for nid in p_value_copies { nid.set_value(value)?; }` -/
def copiesIntSet (r : Rec F) : List NodeId → Int → M F Unit
  | [], _ => pure ()
  | c :: cs, v => do nidIntSet cx r c v; copiesIntSet r cs v

def copiesFloatSet (r : Rec F) : List NodeId → F → M F Unit
  | [], _ => pure ()
  | c :: cs, v => do nidFloatSet cx r c v; copiesFloatSet r cs v

/-- `PValue::set_value`: pValue first, then every copy in order, same value; `?` stops -/
def pValueIntSet (r : Rec F) (p : NodeId) (copies : List NodeId) (v : Int) : M F Unit := do
  nidIntSet cx r p v
  copiesIntSet cx r copies v

def pValueFloatSet (r : Rec F) (p : NodeId) (copies : List NodeId) (v : F) : M F Unit := do
  nidFloatSet cx r p v
  copiesFloatSet cx r copies v

/-- `for nid in p_value_copies { b &= nid.is_writable()?; }` (no short circuit) -/
def copiesIsWritable (r : Rec F) : List NodeId → Bool → R F Bool
  | [], b => pure b
  | c :: cs, b => do let w ← nidIsWritable cx r c; copiesIsWritable r cs (b && w)

/-- `PValue::is_writable` -/
def pValueIsWritable (r : Rec F) (p : NodeId) (copies : List NodeId) : R F Bool := do
  let b ← nidIsWritable cx r p
  copiesIsWritable cx r copies b

/-! ### `ivalue.rs:530-618`: `PIndex` -/

/-- `PIndex::index`: `p_index.expect_iinteger_kind(store)?.value(..)` -/
def pIndexIndex (r : Rec F) (sel : NodeId) : R F Int :=
  if isIntKind cx sel then r.intValue sel else R.err .invalidNode

/-- `value_indexed.iter().find(|vi| vi.index == index)` else `value_default` -/
def pIndexSelect (entries : List (Int × ImmOrPNode SlotId)) (dflt : ImmOrPNode SlotId)
    (index : Int) : ImmOrPNode SlotId :=
  match entries.find? (fun e => e.1 == index) with
  | some e => e.2
  | none => dflt

/-- `p_index.expect_iinteger_kind(store)?.is_readable(..)?` -/
def pIndexSelReadable (r : Rec F) (sel : NodeId) : R F Bool :=
  if isIntKind cx sel then r.intIsReadable sel else R.err .invalidNode

/-- `PIndex::is_readable` -/
def pIndexIsReadable (r : Rec F) (sel : NodeId) (entries : List (Int × ImmOrPNode SlotId))
    (dflt : ImmOrPNode SlotId) : R F Bool := do
  let sr ← pIndexSelReadable cx r sel
  if !sr then pure false else
  let index ← pIndexIndex cx r sel
  slotOrNodeIsReadable cx r (pIndexSelect entries dflt index)

/-- `PIndex::is_writable` (the selector must be *readable*) -/
def pIndexIsWritable (r : Rec F) (sel : NodeId) (entries : List (Int × ImmOrPNode SlotId))
    (dflt : ImmOrPNode SlotId) : R F Bool := do
  let sr ← pIndexSelReadable cx r sel
  if !sr then pure false else
  let index ← pIndexIndex cx r sel
  slotOrNodeIsWritable cx r (pIndexSelect entries dflt index)

/-! ### `ivalue.rs:419-477`: `ValueKind` -/

/-- `ValueKind<IntegerId> as IValue<i64> :: value` -/
def vkIntValue (r : Rec F) : ValueKind → R F Int
  | .value id => intIdValue cx id
  | .pValue p _ => nidIntValue cx r p
  | .pIndex sel entries dflt => do
    let index ← pIndexIndex cx r sel
    slotOrNodeIntValue cx r (pIndexSelect entries dflt index)

/-- `ValueKind<IntegerId> as IValue<i64> :: set_value` -/
def vkIntSet (r : Rec F) : ValueKind → Int → M F Unit
  | .value id, v => slotUpdate id (.int v)
  | .pValue p copies, v => pValueIntSet cx r p copies v
  | .pIndex sel entries dflt, v => do
    let index ← M.ofR (pIndexIndex cx r sel)
    slotOrNodeIntSet cx r (pIndexSelect entries dflt index) v

/-- `ValueKind<FloatId> as IValue<f64> :: value` -/
def vkFloatValue (r : Rec F) : ValueKind → R F F
  | .value id => floatIdValue cx id
  | .pValue p _ => nidFloatValue cx r p
  | .pIndex sel entries dflt => do
    let index ← pIndexIndex cx r sel
    slotOrNodeFloatValue cx r (pIndexSelect entries dflt index)

/-- `ValueKind<FloatId> as IValue<f64> :: set_value` -/
def vkFloatSet (r : Rec F) : ValueKind → F → M F Unit
  | .value id, v => slotUpdate id (.float v)
  | .pValue p copies, v => pValueFloatSet cx r p copies v
  | .pIndex sel entries dflt, v => do
    let index ← M.ofR (pIndexIndex cx r sel)
    slotOrNodeFloatSet cx r (pIndexSelect entries dflt index) v

/-- `ValueKind::is_readable` (value-store slot: `Ok(true)`) -/
def vkIsReadable (r : Rec F) : ValueKind → R F Bool
  | .value _ => pure true
  | .pValue p _ => nidIsReadable cx r p
  | .pIndex sel entries dflt => pIndexIsReadable cx r sel entries dflt

/-- `ValueKind::is_writable` (value-store slot: `Ok(true)`) -/
def vkIsWritable (r : Rec F) : ValueKind → R F Bool
  | .value _ => pure true
  | .pValue p copies => pValueIsWritable cx r p copies
  | .pIndex sel entries dflt => pIndexIsWritable cx r sel entries dflt

/-! ### `utils.rs:16-31` + `node_base.rs:137-190` -/

/-- `utils::bool_from_id`: boolean node → its value; integer node → `value != 0`
(after the repair of F-C18-3; it was `== 1`) -/
def boolFromId (r : Rec F) (n : NodeId) : R F Bool :=
  if isBoolKind cx n then r.boolValue n
  else if isIntKind cx n then do let v ← r.intValue n; pure (v != 0)
  else R.err .invalidNode

/-- `NodeElementBase::is_implemented` -/
def baseIsImplemented (r : Rec F) (b : Base) : R F Bool :=
  match b.pIsImplemented with
  | none => pure true
  | some n => boolFromId cx r n

/-- `NodeElementBase::is_available` -/
def baseIsAvailable (r : Rec F) (b : Base) : R F Bool :=
  match b.pIsAvailable with
  | none => pure true
  | some n => boolFromId cx r n

/-- `NodeElementBase::is_locked` -/
def baseIsLocked (r : Rec F) (b : Base) : R F Bool :=
  match b.pIsLocked with
  | none => pure false
  | some n => boolFromId cx r n

/-- `matches!(mode, RO | RW)` -/
def AccessMode.permitsRead : AccessMode → Bool
  | .ro | .rw => true
  | .wo => false

/-- `matches!(mode, WO | RW)` -/
def AccessMode.permitsWrite : AccessMode → Bool
  | .wo | .rw => true
  | .ro => false

/-- `NodeElementBase::is_readable` (`&&` short-circuits, `?` propagates) -/
def baseIsReadable (r : Rec F) (b : Base) : R F Bool := do
  let i ← baseIsImplemented cx r b
  if !i then pure false else
  let a ← baseIsAvailable cx r b
  if !a then pure false else
  pure b.imposed.permitsRead

/-- `NodeElementBase::is_writable` -/
def baseIsWritable (r : Rec F) (b : Base) : R F Bool := do
  let i ← baseIsImplemented cx r b
  if !i then pure false else
  let a ← baseIsAvailable cx r b
  if !a then pure false else
  let l ← baseIsLocked cx r b
  if l then pure false else
  pure b.imposed.permitsWrite

/-! ### `register_base.rs` + `elem_type.rs:266-320` + `port.rs` -/

/-- `AddressKind::value` / `RegPIndex::value` -/
def addrKindValue (r : Rec F) : AddressKind → R F Int
  | .address a => immIntValue cx r a
  | .intSwissKnife n => nidIntValue cx r n
  | .pIndex sel offset => do
    let base ← nidIntValue cx r sel
    match offset with
    | some o => do
      let off ← immIntValue cx r o
      R.ofRes (mulI64 cx.profile base off)
    | none => pure base

/-- `for k in address_kinds { address += k.value()?; }` -/
def sumAddrs (r : Rec F) : List AddressKind → Int → R F Int
  | [], acc => pure acc
  | k :: ks, acc => do
    let v ← addrKindValue cx r k
    let acc' ← R.ofRes (addI64 cx.profile acc v)
    sumAddrs r ks acc'

/-- `RegisterBase::address` -/
def regAddress (r : Rec F) (rb : RegBase) : R F Int := sumAddrs cx r rb.addrs 0

/-- `RegisterBase::length` -/
def regLength (r : Rec F) (rb : RegBase) : R F Int := immIntValue cx r rb.length

/-- `p_port.expect_iport_kind(store)?.read(address, buf)` -/
def portRead (port : NodeId) (address : Int) (len : Nat) : R F Bytes :=
  match cx.graph port with
  | some (.port _ chunk) =>
    if chunk then R.err .chunkDataMissing
    else fun s =>
      match s.dev.read address len with
      | some bs => (.ok bs, [.read address len true])
      | none => (.err .device, [.read address len false])
  | _ => R.err .invalidNode

/-- `p_port.expect_iport_kind(store)?.write(address, buf)` (`todo!()` on chunk ports) -/
def portWrite (port : NodeId) (address : Int) (data : Bytes) : M F Unit :=
  match cx.graph port with
  | some (.port _ chunk) =>
    if chunk then M.panic
    else fun s =>
      match s.dev.write address data with
      | some d => (.ok (), { s with dev := d }, [.write address data true])
      | none => (.err .device, s, [.write address data false])
  | _ => M.err .invalidNode

/-- `RegisterBase::read_and_cache` (no cache) with a buffer of `bufLen` bytes -/
def readAndCache (rb : RegBase) (address length : Int) (bufLen : Nat) : R F Bytes :=
  if !lenMatches bufLen length then R.err .invalidBuffer
  else portRead cx rb.port address bufLen

/-- `RegisterBase::with_cache_or_read` on a miss: length, address, allocate, read, decode -/
def withRead {α : Type} (r : Rec F) (rb : RegBase) (f : Bytes → Res Err α) : R F α := do
  let length ← regLength cx r rb
  let address ← regAddress cx r rb
  let n ← R.ofRes (allocLen length)
  let data ← readAndCache cx rb address length n
  R.ofRes (f data)

/-- `RegisterBase::write_and_cache`: length, buffer check, address, port write -/
def writeAndCache (r : Rec F) (rb : RegBase) (buf : Bytes) : M F Unit := do
  let length ← M.ofR (regLength cx r rb)
  if !lenMatches buf.length length then M.err .invalidBuffer else
  let address ← M.ofR (regAddress cx r rb)
  portWrite cx rb.port address buf

/-- `RegisterBase::is_readable` -/
def regIsReadable (r : Rec F) (rb : RegBase) : R F Bool := do
  let b ← baseIsReadable cx r rb.base
  if !b then pure false else
  pure (rb.accessMode != .wo)

/-- `RegisterBase::is_writable` -/
def regIsWritable (r : Rec F) (rb : RegBase) : R F Bool := do
  let b ← baseIsWritable cx r rb.base
  if !b then pure false else
  pure (rb.accessMode != .ro)

/-- `IRegister::read` of the five register kinds: address, length, `read_and_cache` -/
def regRead (r : Rec F) (rb : RegBase) (bufLen : Nat) : R F Bytes := do
  let address ← regAddress cx r rb
  let length ← regLength cx r rb
  readAndCache cx rb address length bufLen

/-! ### `int_reg.rs`, `masked_int_reg.rs`, `float_reg.rs`, `string_reg.rs` -/

def intRegValue (r : Rec F) (rb : RegBase) (sign : Sign) (endian : Endian) : R F Int :=
  withRead cx r rb fun data => cx.ops.intFromSlice data endian sign

def intRegSet (r : Rec F) (rb : RegBase) (sign : Sign) (endian : Endian) (v : Int) : M F Unit := do
  let len ← M.ofR (regLength cx r rb)
  let n ← M.ofRes (allocLen len)
  let buf ← M.ofRes (cx.ops.bytesFromInt v n endian sign)
  writeAndCache cx r rb buf

def maskedValue (r : Rec F) (rb : RegBase) (mask : BitMask) (sign : Sign) (endian : Endian) :
    R F Int := do
  let regValue ← withRead cx r rb fun data => cx.ops.intFromSlice data endian sign
  let len ← regLength cx r rb
  R.ofRes (cx.ops.applyMask cx.profile mask regValue (asUsize len) endian sign)

def maskedSet (r : Rec F) (rb : RegBase) (mask : BitMask) (sign : Sign) (endian : Endian)
    (v : Int) : M F Unit := do
  let old ← M.ofR (withRead cx r rb fun data => cx.ops.intFromSlice data endian sign)
  let length ← M.ofR (regLength cx r rb)
  let new ← M.ofRes (cx.ops.maskedValue cx.profile mask old v (asUsize length) endian sign)
  let n ← M.ofRes (allocLen length)
  let buf ← M.ofRes (cx.ops.bytesFromInt new n endian sign)
  writeAndCache cx r rb buf

def maskedMin (r : Rec F) (rb : RegBase) (mask : BitMask) (sign : Sign) (endian : Endian) :
    R F Int := do
  let len ← regLength cx r rb
  R.ofRes (cx.ops.maskMin cx.profile mask (asUsize len) endian sign)

def maskedMax (r : Rec F) (rb : RegBase) (mask : BitMask) (sign : Sign) (endian : Endian) :
    R F Int := do
  let len ← regLength cx r rb
  R.ofRes (cx.ops.maskMax cx.profile mask (asUsize len) endian sign)

def floatRegValue (r : Rec F) (rb : RegBase) (endian : Endian) : R F F :=
  withRead cx r rb fun data => cx.ops.floatFromSlice data endian

def floatRegSet (r : Rec F) (rb : RegBase) (endian : Endian) (v : F) : M F Unit := do
  let len ← M.ofR (regLength cx r rb)
  let n ← M.ofRes (allocLen len)
  let buf ← M.ofRes (cx.ops.bytesFromFloat v n endian)
  writeAndCache cx r rb buf

def strRegValue (r : Rec F) (rb : RegBase) : R F Bytes :=
  withRead cx r rb fun data => .ok (cx.ops.strDecode (data.takeWhile (· != 0)))

/-- `StringRegNode::set_value`: `max_length = length()? as usize`, ASCII check, NUL check,
length check, zero padding (`Vec::resize`, panics for a negative length), write -/
def strRegSet (r : Rec F) (rb : RegBase) (v : Bytes) : M F Unit := do
  let length ← M.ofR (regLength cx r rb)
  if !v.all (· < 128) then M.err .invalidData else
  if v.any (· == 0) then M.err .invalidData else
  if decide (0 ≤ length) && decide (v.length > length.toNat) then M.err .invalidData else
  let n ← M.ofRes (allocLen length)
  writeAndCache cx r rb (v ++ List.replicate (n - v.length) 0)

/-! ### `utils.rs:118-384`: formula environment -/

/-- `VariableKind` -/
inductive VarKind where
  | value | min | max | inc
  | enumEntry (name : String)
  deriving Repr, DecidableEq

/-- `VariableKind::from_str` on the dot-separated parts of the name (`s.splitn(3, '.')`:
everything after the second dot belongs to the third part) -/
def VarKind.ofParts : List String → Res Err VarKind
  | [_] => .ok .value
  | [_, k] =>
    if k == "Value" then .ok .value
    else if k == "Min" then .ok .min
    else if k == "Max" then .ok .max
    else if k == "Inc" then .ok .inc
    else .err .invalidNode
  | _ :: k :: rest =>
    if k == "Enum" then .ok (.enumEntry (".".intercalate rest)) else .err .invalidNode
  | [] => .err .invalidNode

/-- `VariableKind::from_str` -/
def VarKind.ofName (s : String) : Res Err VarKind := VarKind.ofParts (s.splitOn ".")

/-- An environment is the insertion history, newest first; `HashMap::insert`
overwrites, so lookup returns the newest binding. -/
abbrev Env (E : Type) := List (String × E)

def Env.lookup {E : Type} (env : Env E) (k : String) : Option E :=
  match env.find? (fun e => e.1 == k) with
  | some e => some e.2
  | none => none

/-- `EnumEntryNode::numeric_value` of entry node `e` (`expect_enum_entry(..).unwrap()`) -/
def entryNumeric (e : NodeId) : R F F :=
  match cx.graph e with
  | some (.enumEntry _ v numeric _) =>
    match numeric with
    | some f => pure f
    | none => pure (cx.ops.i2f v)
  | _ => R.panic

/-- `utils::expr_from_nid` -/
def exprFromNid (r : Rec F) (n : NodeId) : R F E :=
  if isIntKind cx n then do let v ← r.intValue n; pure (cx.ops.exprOfInt v)
  else if isFloatKind cx n then do let v ← r.floatValue n; pure (cx.ops.exprOfFloat v)
  else if isBoolKind cx n then do
    let v ← r.boolValue n; pure (cx.ops.exprOfInt (if v then 1 else 0))
  else if isEnumKind cx n then do
    let e ← r.enumCurrentEntry n
    let f ← entryNumeric cx e
    pure (cx.ops.exprOfFloat f)
  else R.err .invalidNode

/-- `IEnumeration::entry_by_symbolic(name)` then `.value()` -/
def entryValueBySymbolic (entries : List NodeId) (name : String) : Res Err (Option Int) :=
  match entries with
  | [] => .ok none
  | e :: es =>
    match cx.graph e with
    | some (.enumEntry _ v _ sym) =>
      if sym == name then .ok (some v) else entryValueBySymbolic es name
    | _ => .panic

/-- `VariableKind::get_value` -/
def varGetValue (r : Rec F) (k : VarKind) (n : NodeId) : R F E :=
  match k with
  | .value => exprFromNid cx r n
  | .min =>
    if isIntKind cx n then do let v ← r.intMin n; pure (cx.ops.exprOfInt v)
    else if isFloatKind cx n then do let v ← r.floatMin n; pure (cx.ops.exprOfFloat v)
    else R.err .invalidNode
  | .max =>
    if isIntKind cx n then do let v ← r.intMax n; pure (cx.ops.exprOfInt v)
    else if isFloatKind cx n then do let v ← r.floatMax n; pure (cx.ops.exprOfFloat v)
    else R.err .invalidNode
  | .inc =>
    if isIntKind cx n then do
      let v ← r.intInc n
      match v with
      | some i => pure (cx.ops.exprOfInt i)
      | none => R.err .invalidNode
    else if isFloatKind cx n then do
      let v ← r.floatInc n
      match v with
      | some f => pure (cx.ops.exprOfFloat f)
      | none => R.err .invalidNode
    else R.err .invalidNode
  | .enumEntry name =>
    match cx.graph n with
    | some (.enumeration _ entries _) => do
      let v ← R.ofRes (entryValueBySymbolic cx entries name)
      match v with
      | some i => pure (cx.ops.exprOfInt i)
      | none => R.err .invalidNode
    | _ => R.err .invalidNode

/-- `FormulaEnvCollector::collect_variables` -/
def collectVars (r : Rec F) : List (String × NodeId) → Env E → R F (Env E)
  | [], env => pure env
  | (name, n) :: vs, env => do
    let k ← R.ofRes (VarKind.ofName name)
    let e ← varGetValue cx r k n
    collectVars r vs ((name, e) :: env)

def numLitExpr : NumLit F → E
  | .int i => cx.ops.exprOfInt i
  | .float f => cx.ops.exprOfFloat f

/-- `FormulaEnvCollector::collect` starting from the bindings inserted before
(`TO` / `FROM`): variables, then constants, then expressions; later shadows earlier. -/
def collectEnv (r : Rec F) (fm : Formulaic F E) (env0 : Env E) : R F (Env E) := do
  let env1 ← collectVars cx r fm.vars env0
  let env2 := fm.consts.foldl (fun env c => (c.1, numLitExpr cx c.2) :: env) env1
  let env3 := fm.exprs.foldl (fun env e => (e.1, e.2) :: env) env2
  pure env3

def evalFormula (env : Env E) (e : E) : Res Err (EvalResult F) :=
  cx.ops.eval cx.profile env.lookup e

/-- `EvaluationResult::as_integer / as_float / as_bool` -/
def EvalResult.asInteger : EvalResult F → Int
  | .int i => i
  | .float f => cx.ops.f2i f
def EvalResult.asFloat : EvalResult F → F
  | .int i => cx.ops.i2f i
  | .float f => f
def EvalResult.asBool : EvalResult F → Bool
  | .int i => i != 0
  | .float f => cx.ops.fNonZero f

/-- `utils::is_nid_readable` (integer → float → boolean → enumeration, else error) -/
def isNidReadable (r : Rec F) (n : NodeId) : R F Bool :=
  if isIntKind cx n then r.intIsReadable n
  else if isFloatKind cx n then r.floatIsReadable n
  else if isBoolKind cx n then r.boolIsReadable n
  else if isEnumKind cx n then r.enumIsReadable n
  else R.err .invalidNode

/-- `utils::is_nid_writable` -/
def isNidWritable (r : Rec F) (n : NodeId) : R F Bool :=
  if isIntKind cx n then r.intIsWritable n
  else if isFloatKind cx n then r.floatIsWritable n
  else if isBoolKind cx n then r.boolIsWritable n
  else if isEnumKind cx n then r.enumIsWritable n
  else R.err .invalidNode

/-- `FormulaEnvCollector::is_readable`: `res &= is_nid_readable(v)?` over all variables -/
def varsReadable (r : Rec F) : List (String × NodeId) → Bool → R F Bool
  | [], b => pure b
  | (_, n) :: vs, b => do let x ← isNidReadable cx r n; varsReadable r vs (b && x)

/-- `utils::set_eval_result` -/
def setEvalResult (r : Rec F) (n : NodeId) (res : EvalResult F) : M F Unit :=
  if isIntKind cx n then r.intSet n (EvalResult.asInteger cx res)
  else if isFloatKind cx n then r.floatSet n (EvalResult.asFloat cx res)
  else if isBoolKind cx n then r.boolSet n (EvalResult.asBool cx res)
  else if isEnumKind cx n then r.enumSetByValue n (EvalResult.asInteger cx res)
  else M.err .invalidNode

/-! ### `converter.rs`, `int_converter.rs`, `swiss_knife.rs`, `int_swiss_knife.rs` -/

/-- `ConverterNode::value` / `IntConverterNode::value` up to the final `as_*` -/
def converterEvalFrom (r : Rec F) (fm : Formulaic F E) (formulaFrom : E) (pValue : NodeId) :
    R F (EvalResult F) := do
  let to ← exprFromNid cx r pValue
  let env ← collectEnv cx r fm [("TO", to)]
  R.ofRes (evalFormula cx env formulaFrom)

/-- `ConverterNode::set_value` / `IntConverterNode::set_value` given `Expr::from(value)` -/
def converterSet (r : Rec F) (fm : Formulaic F E) (formulaTo : E) (pValue : NodeId) (from_ : E) :
    M F Unit := do
  let env ← M.ofR (collectEnv cx r fm [("FROM", from_)])
  let res ← M.ofRes (evalFormula cx env formulaTo)
  setEvalResult cx r pValue res

/-- `SwissKnifeNode::value` / `IntSwissKnifeNode::value` up to the final `as_*` -/
def swissKnifeEval (r : Rec F) (fm : Formulaic F E) (formula : E) : R F (EvalResult F) := do
  let env ← collectEnv cx r fm []
  R.ofRes (evalFormula cx env formula)

/-- `(Int)ConverterNode::is_readable` -/
def converterIsReadable (r : Rec F) (b : Base) (fm : Formulaic F E) (pValue : NodeId) :
    R F Bool := do
  let x ← baseIsReadable cx r b
  if !x then pure false else
  let y ← isNidReadable cx r pValue
  if !y then pure false else
  varsReadable cx r fm.vars true

/-- `(Int)ConverterNode::is_writable` (variables must be *readable*) -/
def converterIsWritable (r : Rec F) (b : Base) (fm : Formulaic F E) (pValue : NodeId) :
    R F Bool := do
  let x ← baseIsWritable cx r b
  if !x then pure false else
  let y ← isNidWritable cx r pValue
  if !y then pure false else
  varsReadable cx r fm.vars true

/-- `IntSwissKnifeNode::is_readable`, and `SwissKnifeNode::is_readable` after the
repair of F-C18-1 -/
def swissKnifeIsReadable (r : Rec F) (b : Base) (fm : Formulaic F E) : R F Bool := do
  let x ← baseIsReadable cx r b
  if !x then pure false else
  varsReadable cx r fm.vars true

/-! ### `enumeration.rs`, `boolean.rs`, `command.rs` -/

/-- first entry of `entries` whose `value()` equals `v` (`expect_enum_entry(..).unwrap()`) -/
def findEntryByValue (entries : List NodeId) (v : Int) : Res Err (Option NodeId) :=
  match entries with
  | [] => .ok none
  | e :: es =>
    match cx.graph e with
    | some (.enumEntry _ ev _ _) => if ev == v then .ok (some e) else findEntryByValue es v
    | _ => .panic

/-- `EnumerationNode::current_entry` -/
def enumCurrentEntryOf (r : Rec F) (entries : List NodeId) (value : ImmOrPNode SlotId) :
    R F NodeId := do
  let v ← slotOrNodeIntValue cx r value
  let e ← R.ofRes (findEntryByValue cx entries v)
  match e with
  | some e => pure e
  | none => R.err .invalidNode

/-- `EnumerationNode::set_entry_by_value`: refuse undeclared values before any write -/
def enumSetByValueOf (r : Rec F) (entries : List NodeId) (value : ImmOrPNode SlotId) (v : Int) :
    M F Unit := do
  let e ← M.ofRes (findEntryByValue cx entries v)
  match e with
  | none => M.err .invalidData
  | some _ => slotOrNodeIntSet cx r value v

/-- `BooleanNode::value` -/
def boolValueOf (r : Rec F) (value : ImmOrPNode SlotId) (onV offV : Int) : R F Bool := do
  let v ← slotOrNodeIntValue cx r value
  if v == onV then pure true
  else if v == offV then pure false
  else R.err .invalidNode

/-- `CommandNode::execute` -/
def commandExecute (r : Rec F) (value cmdValue : ImmOrPNode SlotId) : M F Unit := do
  let v ← M.ofR (slotOrNodeIntValue cx r cmdValue)
  slotOrNodeIntSet cx r value v

/-- `CommandNode::is_done` -/
def commandIsDone (r : Rec F) (value cmdValue : ImmOrPNode SlotId) : R F Bool :=
  match value with
  | .imm _ => pure true
  | .pnode n => do
    let rd ← nidIsReadable cx r n
    if rd then do
      let cv ← slotOrNodeIntValue cx r cmdValue
      let rv ← nidIntValue cx r n
      pure (cv != rv)
    else pure true

/-! ### Node-kind dispatch of every interface (`interface.rs` delegation enums) -/

def Node.base : Node F E → Base
  | .integer b .. | .boolean b .. | .command b .. | .enumeration b .. | .enumEntry b ..
  | .float b .. | .string b .. | .converter b .. | .intConverter b .. | .swissKnife b ..
  | .intSwissKnife b .. | .port b .. | .category b .. | .node b => b
  | .intReg r .. | .maskedIntReg r .. | .floatReg r .. | .stringReg r | .register r => r.base

/-- `IRegisterKind::maybe_from` -/
def Node.regBase? : Node F E → Option RegBase
  | .intReg r .. | .maskedIntReg r .. | .floatReg r .. | .stringReg r | .register r => some r
  | _ => none

/-- `IInteger::value` -/
def intValueF (r : Rec F) (n : NodeId) : R F Int :=
  match cx.graph n with
  | some (.integer _ vk _ _ _) => vkIntValue cx r vk
  | some (.intReg rb sign endian) => intRegValue cx r rb sign endian
  | some (.maskedIntReg rb mask sign endian) => maskedValue cx r rb mask sign endian
  | some (.intConverter _ fm _ formulaFrom pv) => do
    let res ← converterEvalFrom cx r fm formulaFrom pv
    pure (EvalResult.asInteger cx res)
  | some (.intSwissKnife _ fm formula) => do
    let res ← swissKnifeEval cx r fm formula
    pure (EvalResult.asInteger cx res)
  | _ => R.err .invalidNode

/-- `IInteger::set_value` -/
def intSetF (r : Rec F) (n : NodeId) (v : Int) : M F Unit :=
  match cx.graph n with
  | some (.integer _ vk _ _ _) => vkIntSet cx r vk v
  | some (.intReg rb sign endian) => intRegSet cx r rb sign endian v
  | some (.maskedIntReg rb mask sign endian) => maskedSet cx r rb mask sign endian v
  | some (.intConverter _ fm formulaTo _ pv) => converterSet cx r fm formulaTo pv (cx.ops.exprOfInt v)
  | some (.intSwissKnife ..) => M.err .notWritable
  | _ => M.err .invalidNode

/-- `IInteger::min` -/
def intMinF (r : Rec F) (n : NodeId) : R F Int :=
  match cx.graph n with
  | some (.integer _ _ min _ _) => slotOrNodeIntValue cx r min
  | some (.intReg _ sign _) => pure (match sign with | .signed => I64_MIN | .unsigned => 0)
  | some (.maskedIntReg rb mask sign endian) => maskedMin cx r rb mask sign endian
  | some (.intConverter ..) => pure I64_MIN
  | some (.intSwissKnife _ fm formula) => do
    let res ← swissKnifeEval cx r fm formula
    pure (EvalResult.asInteger cx res)
  | _ => R.err .invalidNode

/-- `IInteger::max` -/
def intMaxF (r : Rec F) (n : NodeId) : R F Int :=
  match cx.graph n with
  | some (.integer _ _ _ max _) => slotOrNodeIntValue cx r max
  | some (.intReg ..) => pure I64_MAX
  | some (.maskedIntReg rb mask sign endian) => maskedMax cx r rb mask sign endian
  | some (.intConverter ..) => pure I64_MAX
  | some (.intSwissKnife _ fm formula) => do
    let res ← swissKnifeEval cx r fm formula
    pure (EvalResult.asInteger cx res)
  | _ => R.err .invalidNode

/-- `IInteger::inc` -/
def intIncF (r : Rec F) (n : NodeId) : R F (Option Int) :=
  match cx.graph n with
  | some (.integer _ _ _ _ inc) => do let v ← immIntValue cx r inc; pure (some v)
  | some (.intReg ..) | some (.maskedIntReg ..) | some (.intConverter ..)
  | some (.intSwissKnife ..) => pure none
  | _ => R.err .invalidNode

/-- `IInteger::set_min` -/
def intSetMinF (r : Rec F) (n : NodeId) (v : Int) : M F Unit :=
  match cx.graph n with
  | some (.integer _ _ min _ _) => slotOrNodeIntSet cx r min v
  | some (.intReg ..) | some (.maskedIntReg ..) | some (.intConverter ..)
  | some (.intSwissKnife ..) => M.err .notWritable
  | _ => M.err .invalidNode

/-- `IInteger::set_max` -/
def intSetMaxF (r : Rec F) (n : NodeId) (v : Int) : M F Unit :=
  match cx.graph n with
  | some (.integer _ _ _ max _) => slotOrNodeIntSet cx r max v
  | some (.intReg ..) | some (.maskedIntReg ..) | some (.intConverter ..)
  | some (.intSwissKnife ..) => M.err .notWritable
  | _ => M.err .invalidNode

/-- `IInteger::is_readable` -/
def intIsReadableF (r : Rec F) (n : NodeId) : R F Bool :=
  match cx.graph n with
  | some (.integer b vk _ _ _) => do
    let x ← baseIsReadable cx r b
    if !x then pure false else vkIsReadable cx r vk
  | some (.intReg rb ..) | some (.maskedIntReg rb ..) => regIsReadable cx r rb
  | some (.intConverter b fm _ _ pv) => converterIsReadable cx r b fm pv
  | some (.intSwissKnife b fm _) => swissKnifeIsReadable cx r b fm
  | _ => R.err .invalidNode

/-- `IInteger::is_writable` -/
def intIsWritableF (r : Rec F) (n : NodeId) : R F Bool :=
  match cx.graph n with
  | some (.integer b vk _ _ _) => do
    let x ← baseIsWritable cx r b
    if !x then pure false else vkIsWritable cx r vk
  | some (.intReg rb ..) | some (.maskedIntReg rb ..) => regIsWritable cx r rb
  | some (.intConverter b fm _ _ pv) => converterIsWritable cx r b fm pv
  | some (.intSwissKnife ..) => pure false
  | _ => R.err .invalidNode

/-- `IFloat::value` -/
def floatValueF (r : Rec F) (n : NodeId) : R F F :=
  match cx.graph n with
  | some (.float _ vk _ _ _) => vkFloatValue cx r vk
  | some (.floatReg rb endian) => floatRegValue cx r rb endian
  | some (.converter _ fm _ formulaFrom pv) => do
    let res ← converterEvalFrom cx r fm formulaFrom pv
    pure (EvalResult.asFloat cx res)
  | some (.swissKnife _ fm formula) => do
    let res ← swissKnifeEval cx r fm formula
    pure (EvalResult.asFloat cx res)
  | _ => R.err .invalidNode

/-- `IFloat::set_value` -/
def floatSetF (r : Rec F) (n : NodeId) (v : F) : M F Unit :=
  match cx.graph n with
  | some (.float _ vk _ _ _) => vkFloatSet cx r vk v
  | some (.floatReg rb endian) => floatRegSet cx r rb endian v
  | some (.converter _ fm formulaTo _ pv) => converterSet cx r fm formulaTo pv (cx.ops.exprOfFloat v)
  | some (.swissKnife ..) => M.err .notWritable
  | _ => M.err .invalidNode

/-- `IFloat::min` -/
def floatMinF (r : Rec F) (n : NodeId) : R F F :=
  match cx.graph n with
  | some (.float _ _ min _ _) => slotOrNodeFloatValue cx r min
  | some (.floatReg ..) | some (.converter ..) => pure cx.ops.fMin
  | some (.swissKnife _ fm formula) => do
    let res ← swissKnifeEval cx r fm formula
    pure (EvalResult.asFloat cx res)
  | _ => R.err .invalidNode

/-- `IFloat::max` -/
def floatMaxF (r : Rec F) (n : NodeId) : R F F :=
  match cx.graph n with
  | some (.float _ _ _ max _) => slotOrNodeFloatValue cx r max
  | some (.floatReg ..) | some (.converter ..) => pure cx.ops.fMax
  | some (.swissKnife _ fm formula) => do
    let res ← swissKnifeEval cx r fm formula
    pure (EvalResult.asFloat cx res)
  | _ => R.err .invalidNode

/-- `IFloat::inc` -/
def floatIncF (r : Rec F) (n : NodeId) : R F (Option F) :=
  match cx.graph n with
  | some (.float _ _ _ _ inc) =>
    match inc with
    | some i => do let v ← immFloatValue cx r i; pure (some v)
    | none => pure none
  | some (.floatReg ..) | some (.converter ..) | some (.swissKnife ..) => pure none
  | _ => R.err .invalidNode

/-- `IFloat::set_min` -/
def floatSetMinF (r : Rec F) (n : NodeId) (v : F) : M F Unit :=
  match cx.graph n with
  | some (.float _ _ min _ _) => slotOrNodeFloatSet cx r min v
  | some (.floatReg ..) | some (.converter ..) | some (.swissKnife ..) => M.err .notWritable
  | _ => M.err .invalidNode

/-- `IFloat::set_max` -/
def floatSetMaxF (r : Rec F) (n : NodeId) (v : F) : M F Unit :=
  match cx.graph n with
  | some (.float _ _ _ max _) => slotOrNodeFloatSet cx r max v
  | some (.floatReg ..) | some (.converter ..) | some (.swissKnife ..) => M.err .notWritable
  | _ => M.err .invalidNode

/-- `IFloat::is_readable` -/
def floatIsReadableF (r : Rec F) (n : NodeId) : R F Bool :=
  match cx.graph n with
  | some (.float b vk _ _ _) => do
    let x ← baseIsReadable cx r b
    if !x then pure false else vkIsReadable cx r vk
  | some (.floatReg rb _) => regIsReadable cx r rb
  | some (.converter b fm _ _ pv) => converterIsReadable cx r b fm pv
  | some (.swissKnife b fm _) => swissKnifeIsReadable cx r b fm
  | _ => R.err .invalidNode

/-- `IFloat::is_writable` -/
def floatIsWritableF (r : Rec F) (n : NodeId) : R F Bool :=
  match cx.graph n with
  | some (.float b vk _ _ _) => do
    let x ← baseIsWritable cx r b
    if !x then pure false else vkIsWritable cx r vk
  | some (.floatReg rb _) => regIsWritable cx r rb
  | some (.converter b fm _ _ pv) => converterIsWritable cx r b fm pv
  | some (.swissKnife ..) => pure false
  | _ => R.err .invalidNode

/-- `IString::value` -/
def strValueF (r : Rec F) (n : NodeId) : R F Bytes :=
  match cx.graph n with
  | some (.string _ value) => slotOrNodeStrValue cx r value
  | some (.stringReg rb) => strRegValue cx r rb
  | _ => R.err .invalidNode

/-- `IString::set_value` -/
def strSetF (r : Rec F) (n : NodeId) (v : Bytes) : M F Unit :=
  match cx.graph n with
  | some (.string _ value) => slotOrNodeStrSet cx r value v
  | some (.stringReg rb) => strRegSet cx r rb v
  | _ => M.err .invalidNode

/-- `IString::max_length` -/
def strMaxLengthF (r : Rec F) (n : NodeId) : R F Int :=
  match cx.graph n with
  | some (.string _ value) =>
    match value with
    | .imm _ => pure I64_MAX
    | .pnode p => if isStrKind cx p then r.strMaxLength p else R.err .invalidNode
  | some (.stringReg rb) => regLength cx r rb
  | _ => R.err .invalidNode

/-- `IString::is_readable` -/
def strIsReadableF (r : Rec F) (n : NodeId) : R F Bool :=
  match cx.graph n with
  | some (.string b value) => do
    let x ← baseIsReadable cx r b
    if !x then pure false else slotOrNodeStrIsReadable cx r value
  | some (.stringReg rb) => regIsReadable cx r rb
  | _ => R.err .invalidNode

/-- `IString::is_writable` -/
def strIsWritableF (r : Rec F) (n : NodeId) : R F Bool :=
  match cx.graph n with
  | some (.string b value) => do
    let x ← baseIsWritable cx r b
    if !x then pure false else slotOrNodeStrIsWritable cx r value
  | some (.stringReg rb) => regIsWritable cx r rb
  | _ => R.err .invalidNode

/-- `IBoolean::value` -/
def boolValueF (r : Rec F) (n : NodeId) : R F Bool :=
  match cx.graph n with
  | some (.boolean _ value onV offV) => boolValueOf cx r value onV offV
  | _ => R.err .invalidNode

/-- `IBoolean::set_value` -/
def boolSetF (r : Rec F) (n : NodeId) (v : Bool) : M F Unit :=
  match cx.graph n with
  | some (.boolean _ value onV offV) => slotOrNodeIntSet cx r value (if v then onV else offV)
  | _ => M.err .invalidNode

/-- `IBoolean::is_readable` -/
def boolIsReadableF (r : Rec F) (n : NodeId) : R F Bool :=
  match cx.graph n with
  | some (.boolean b value _ _) => do
    let x ← baseIsReadable cx r b
    if !x then pure false else slotOrNodeIsReadable cx r value
  | _ => R.err .invalidNode

/-- `IBoolean::is_writable` -/
def boolIsWritableF (r : Rec F) (n : NodeId) : R F Bool :=
  match cx.graph n with
  | some (.boolean b value _ _) => do
    let x ← baseIsWritable cx r b
    if !x then pure false else slotOrNodeIsWritable cx r value
  | _ => R.err .invalidNode

/-- `IEnumeration::current_value` -/
def enumCurrentValueF (r : Rec F) (n : NodeId) : R F Int :=
  match cx.graph n with
  | some (.enumeration _ _ value) => slotOrNodeIntValue cx r value
  | _ => R.err .invalidNode

/-- `IEnumeration::current_entry` -/
def enumCurrentEntryF (r : Rec F) (n : NodeId) : R F NodeId :=
  match cx.graph n with
  | some (.enumeration _ entries value) => enumCurrentEntryOf cx r entries value
  | _ => R.err .invalidNode

/-- `IEnumeration::set_entry_by_value` -/
def enumSetByValueF (r : Rec F) (n : NodeId) (v : Int) : M F Unit :=
  match cx.graph n with
  | some (.enumeration _ entries value) => enumSetByValueOf cx r entries value v
  | _ => M.err .invalidNode

/-- `IEnumeration::set_entry_by_symbolic` -/
def enumSetByNameF (r : Rec F) (n : NodeId) (name : String) : M F Unit :=
  match cx.graph n with
  | some (.enumeration _ entries value) => do
    let v ← M.ofRes (entryValueBySymbolic cx entries name)
    match v with
    | none => M.err .invalidData
    | some v => enumSetByValueOf cx r entries value v
  | _ => M.err .invalidNode

/-- `IEnumeration::entries` -/
def enumEntriesF (n : NodeId) : R F (List NodeId) :=
  match cx.graph n with
  | some (.enumeration _ entries _) => pure entries
  | _ => R.err .invalidNode

/-- `IEnumeration::is_readable` -/
def enumIsReadableF (r : Rec F) (n : NodeId) : R F Bool :=
  match cx.graph n with
  | some (.enumeration b _ value) => do
    let x ← baseIsReadable cx r b
    if !x then pure false else slotOrNodeIsReadable cx r value
  | _ => R.err .invalidNode

/-- `IEnumeration::is_writable` -/
def enumIsWritableF (r : Rec F) (n : NodeId) : R F Bool :=
  match cx.graph n with
  | some (.enumeration b _ value) => do
    let x ← baseIsWritable cx r b
    if !x then pure false else slotOrNodeIsWritable cx r value
  | _ => R.err .invalidNode

/-- `ICommand::execute` -/
def cmdExecuteF (r : Rec F) (n : NodeId) : M F Unit :=
  match cx.graph n with
  | some (.command _ value cmdValue) => commandExecute cx r value cmdValue
  | _ => M.err .invalidNode

/-- `ICommand::is_done` -/
def cmdIsDoneF (r : Rec F) (n : NodeId) : R F Bool :=
  match cx.graph n with
  | some (.command _ value cmdValue) => commandIsDone cx r value cmdValue
  | _ => R.err .invalidNode

/-- `ICommand::is_writable` -/
def cmdIsWritableF (r : Rec F) (n : NodeId) : R F Bool :=
  match cx.graph n with
  | some (.command b value _) => do
    let x ← baseIsWritable cx r b
    if !x then pure false else slotOrNodeIsWritable cx r value
  | _ => R.err .invalidNode

/-- `IRegister::read` with a caller buffer of `bufLen` bytes -/
def regReadF (r : Rec F) (n : NodeId) (bufLen : Nat) : R F Bytes :=
  match cx.graph n with
  | some nd => match nd.regBase? with
    | some rb => regRead cx r rb bufLen
    | none => R.err .invalidNode
  | none => R.err .invalidNode

/-- `IRegister::write` -/
def regWriteF (r : Rec F) (n : NodeId) (data : Bytes) : M F Unit :=
  match cx.graph n with
  | some nd => match nd.regBase? with
    | some rb => writeAndCache cx r rb data
    | none => M.err .invalidNode
  | none => M.err .invalidNode

/-- `IRegister::address` -/
def regAddressF (r : Rec F) (n : NodeId) : R F Int :=
  match cx.graph n with
  | some nd => match nd.regBase? with
    | some rb => regAddress cx r rb
    | none => R.err .invalidNode
  | none => R.err .invalidNode

/-- `IRegister::length` -/
def regLengthF (r : Rec F) (n : NodeId) : R F Int :=
  match cx.graph n with
  | some nd => match nd.regBase? with
    | some rb => regLength cx r rb
    | none => R.err .invalidNode
  | none => R.err .invalidNode

/-- `NodeElementBase::is_implemented / is_available / is_locked` of any stored node
(public on `EnumEntryNode`) -/
def isImplementedF (r : Rec F) (n : NodeId) : R F Bool :=
  match cx.graph n with
  | some nd => baseIsImplemented cx r nd.base
  | none => R.err .invalidNode
def isAvailableF (r : Rec F) (n : NodeId) : R F Bool :=
  match cx.graph n with
  | some nd => baseIsAvailable cx r nd.base
  | none => R.err .invalidNode
def isLockedF (r : Rec F) (n : NodeId) : R F Bool :=
  match cx.graph n with
  | some nd => baseIsLocked cx r nd.base
  | none => R.err .invalidNode

/-- `is_readable` of whichever value interface the node offers -/
def isReadableF (r : Rec F) (n : NodeId) : R F Bool :=
  if isIntKind cx n then intIsReadableF cx r n
  else if isFloatKind cx n then floatIsReadableF cx r n
  else if isStrKind cx n then strIsReadableF cx r n
  else if isBoolKind cx n then boolIsReadableF cx r n
  else if isEnumKind cx n then enumIsReadableF cx r n
  else R.err .invalidNode

/-- `is_writable` of whichever value interface the node offers (incl. `ICommand`) -/
def isWritableF (r : Rec F) (n : NodeId) : R F Bool :=
  if isIntKind cx n then intIsWritableF cx r n
  else if isFloatKind cx n then floatIsWritableF cx r n
  else if isStrKind cx n then strIsWritableF cx r n
  else if isBoolKind cx n then boolIsWritableF cx r n
  else if isEnumKind cx n then enumIsWritableF cx r n
  else match cx.graph n with
    | some (.command ..) => cmdIsWritableF cx r n
    | _ => R.err .invalidNode

/-! ### Fuel -/

/-- One unfolding: the interface calls at depth `d+1` in terms of those at depth `d`. -/
def step (r : Rec F) : Rec F where
  intValue := intValueF cx r
  intSet := intSetF cx r
  intMin := intMinF cx r
  intMax := intMaxF cx r
  intInc := intIncF cx r
  intIsReadable := intIsReadableF cx r
  intIsWritable := intIsWritableF cx r
  floatValue := floatValueF cx r
  floatSet := floatSetF cx r
  floatMin := floatMinF cx r
  floatMax := floatMaxF cx r
  floatInc := floatIncF cx r
  floatIsReadable := floatIsReadableF cx r
  floatIsWritable := floatIsWritableF cx r
  strValue := strValueF cx r
  strSet := strSetF cx r
  strMaxLength := strMaxLengthF cx r
  strIsReadable := strIsReadableF cx r
  strIsWritable := strIsWritableF cx r
  boolValue := boolValueF cx r
  boolSet := boolSetF cx r
  boolIsReadable := boolIsReadableF cx r
  boolIsWritable := boolIsWritableF cx r
  enumCurrentValue := enumCurrentValueF cx r
  enumCurrentEntry := enumCurrentEntryF cx r
  enumSetByValue := enumSetByValueF cx r
  enumIsReadable := enumIsReadableF cx r
  enumIsWritable := enumIsWritableF cx r

/-- The interface calls with `fuel` levels of node references available. -/
def execRec : Nat → Rec F
  | 0 => Rec.bottom F
  | fuel + 1 => step cx (execRec fuel)

end Interp

/-! ## Requests, answers, the interpreter -/

/-- The interface calls a client can make on a node. -/
inductive Req (F : Type) where
  | intValue (n : NodeId) | intSet (n : NodeId) (v : Int)
  | intMin (n : NodeId) | intMax (n : NodeId) | intInc (n : NodeId)
  | intSetMin (n : NodeId) (v : Int) | intSetMax (n : NodeId) (v : Int)
  | floatValue (n : NodeId) | floatSet (n : NodeId) (v : F)
  | floatMin (n : NodeId) | floatMax (n : NodeId) | floatInc (n : NodeId)
  | floatSetMin (n : NodeId) (v : F) | floatSetMax (n : NodeId) (v : F)
  | strValue (n : NodeId) | strSet (n : NodeId) (v : Bytes) | strMaxLength (n : NodeId)
  | boolValue (n : NodeId) | boolSet (n : NodeId) (v : Bool)
  | enumCurrentValue (n : NodeId) | enumCurrentEntry (n : NodeId)
  | enumSetByValue (n : NodeId) (v : Int) | enumSetByName (n : NodeId) (name : String)
  | enumEntries (n : NodeId)
  | cmdExecute (n : NodeId) | cmdIsDone (n : NodeId)
  | regRead (n : NodeId) (bufLen : Nat) | regWrite (n : NodeId) (data : Bytes)
  | regAddress (n : NodeId) | regLength (n : NodeId)
  | isReadable (n : NodeId) | isWritable (n : NodeId)
  | isImplemented (n : NodeId) | isAvailable (n : NodeId) | isLocked (n : NodeId)
  deriving Inhabited

inductive Val (F : Type) where
  | unit
  | int (i : Int)
  | float (f : F)
  | bool (b : Bool)
  | str (s : Bytes)
  | bytes (b : Bytes)
  | node (n : NodeId)
  | nodes (ns : List NodeId)
  | optInt (o : Option Int)
  | optFloat (o : Option F)
  deriving Inhabited

/-- Interpreter state: value store, device, access log (oldest first). -/
structure St (F : Type) where
  vs : List (ValueData F)
  dev : Dev
  log : Log := []
  deriving Inhabited

def St.s {F : Type} (st : St F) : S F := ⟨st.vs, st.dev⟩

section Exec
variable {F E : Type} (cx : Ctx F E)

def runR {α : Type} (m : R F α) (f : α → Val F) (st : St F) : Res Err (Val F) × St F :=
  match m st.s with
  | (.ok a, l) => (.ok (f a), { st with log := st.log ++ l })
  | (.err e, l) => (.err e, { st with log := st.log ++ l })
  | (.panic, l) => (.panic, { st with log := st.log ++ l })

def runM (m : M F Unit) (st : St F) : Res Err (Val F) × St F :=
  match m st.s with
  | (.ok (), s, l) => (.ok .unit, ⟨s.vs, s.dev, st.log ++ l⟩)
  | (.err e, s, l) => (.err e, ⟨s.vs, s.dev, st.log ++ l⟩)
  | (.panic, s, l) => (.panic, ⟨s.vs, s.dev, st.log ++ l⟩)

/-- One request against the interface calls `r` available for referenced nodes. -/
def top (r : Rec F) (req : Req F) (st : St F) : Res Err (Val F) × St F :=
  match req with
  | .intValue n => runR (intValueF cx r n) .int st
  | .intSet n v => runM (intSetF cx r n v) st
  | .intMin n => runR (intMinF cx r n) .int st
  | .intMax n => runR (intMaxF cx r n) .int st
  | .intInc n => runR (intIncF cx r n) .optInt st
  | .intSetMin n v => runM (intSetMinF cx r n v) st
  | .intSetMax n v => runM (intSetMaxF cx r n v) st
  | .floatValue n => runR (floatValueF cx r n) .float st
  | .floatSet n v => runM (floatSetF cx r n v) st
  | .floatMin n => runR (floatMinF cx r n) .float st
  | .floatMax n => runR (floatMaxF cx r n) .float st
  | .floatInc n => runR (floatIncF cx r n) .optFloat st
  | .floatSetMin n v => runM (floatSetMinF cx r n v) st
  | .floatSetMax n v => runM (floatSetMaxF cx r n v) st
  | .strValue n => runR (strValueF cx r n) .str st
  | .strSet n v => runM (strSetF cx r n v) st
  | .strMaxLength n => runR (strMaxLengthF cx r n) .int st
  | .boolValue n => runR (boolValueF cx r n) .bool st
  | .boolSet n v => runM (boolSetF cx r n v) st
  | .enumCurrentValue n => runR (enumCurrentValueF cx r n) .int st
  | .enumCurrentEntry n => runR (enumCurrentEntryF cx r n) .node st
  | .enumSetByValue n v => runM (enumSetByValueF cx r n v) st
  | .enumSetByName n name => runM (enumSetByNameF cx r n name) st
  | .enumEntries n => runR (enumEntriesF cx n) .nodes st
  | .cmdExecute n => runM (cmdExecuteF cx r n) st
  | .cmdIsDone n => runR (cmdIsDoneF cx r n) .bool st
  | .regRead n len => runR (regReadF cx r n len) .bytes st
  | .regWrite n data => runM (regWriteF cx r n data) st
  | .regAddress n => runR (regAddressF cx r n) .int st
  | .regLength n => runR (regLengthF cx r n) .int st
  | .isReadable n => runR (isReadableF cx r n) .bool st
  | .isWritable n => runR (isWritableF cx r n) .bool st
  | .isImplemented n => runR (isImplementedF cx r n) .bool st
  | .isAvailable n => runR (isAvailableF cx r n) .bool st
  | .isLocked n => runR (isLockedF cx r n) .bool st

/-- **The interpreter.**  `fuel` bounds the depth of node references followed. -/
def exec (fuel : Nat) (req : Req F) (st : St F) : Res Err (Val F) × St F :=
  match fuel with
  | 0 => (.err .outOfFuel, st)
  | fuel + 1 => top cx (execRec cx fuel) req st

/-- A history of requests; stops at the first panic (as the process would). -/
def execAll (fuel : Nat) : List (Req F) → St F → List (Res Err (Val F)) × St F
  | [], st => ([], st)
  | q :: qs, st =>
    match exec cx fuel q st with
    | (.panic, st') => ([.panic], st')
    | (r, st') => match execAll fuel qs st' with | (rs, st'') => (r :: rs, st'')

end Exec
end CamVerif.GenApi
