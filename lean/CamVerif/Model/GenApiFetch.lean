/-
Hand-written executable model of `ControlHandle::genapi` (`cameleon/src/u3v/control_handle.rs`)
with the register-map pieces it uses (`cameleon/src/u3v/register_map.rs`):
`ControlHandle::manifest_table` (cache), `ManifestTable::entries`, `ManifestEntry::{file_info,
genicam_file_version, file_address, file_size, sha1_hash}`, `GenICamFileInfo::{file_type,
compression_type}`, `register_address`, `verify_xml`.

The device is abstract: a state type `σ` and `read : addr → len → σ → Res Bytes × σ`
(`DeviceControl::read` of the opened handle; its chunking into commands is C06/C10).  The
external crates are **parameters** (trusted, exercised for real on the Rust side of the
differential run):
* `sha1  : Bytes → Bytes`                         — `sha1::Sha1::digest`
* `unzip : Bytes → Option (List (Option Bytes))`  — `zip::ZipArchive::new` (`none` = the archive
  cannot be opened), its members in directory order (`zip.len()` counts directory entries too),
  each `some content` when the member is a FILE and `by_index(i)` + `read_to_end` succeed, and
  `none` when it is a directory entry (`ZipFile::is_dir`, refused by `genapi`) or when
  `by_index` / `read_to_end` fail (encrypted, unsupported method, corrupt data, CRC mismatch)
* `lossy : Bytes → Bytes`                         — `String::from_utf8_lossy` (UTF-8 bytes of the
  resulting `String`; the identity on valid UTF-8)

`semver::Version` values built by `Version::new(major, minor, patch)` have empty pre-release and
build metadata, so their order is the lexicographic order of the three numbers.

Tied to the source by `harness/src/bin/c14.rs`.
-/
import CamVerif.Prelude.Basic
namespace CamVerif.GenApiFetch

/-- `ControlError` variant (payload text dropped). -/
inductive Err where
  | io
  | busy
  | disconnected
  | timeout
  | invalidDevice
  | invalidData
  deriving Repr, DecidableEq, Inhabited

abbrev R := Res Err

/-- device + external functions -/
structure Ops (σ : Type) where
  read : Nat → Nat → σ → R Bytes × σ
  sha1 : Bytes → Bytes
  unzip : Bytes → Option (List (Option Bytes))
  lossy : Bytes → Bytes

/-- handle state: device state and the `ControlHandle::manifest_table` cache -/
structure St (σ : Type) where
  dev : σ
  manifest : Option Nat

def M (σ α : Type) : Type := St σ → R α × St σ

namespace M
variable {σ α β : Type}

@[inline] def pure (a : α) : M σ α := fun s => (.ok a, s)

@[inline] def bind (x : M σ α) (f : α → M σ β) : M σ β := fun s =>
  match x s with
  | (.ok a, s') => f a s'
  | (.err e, s') => (.err e, s')
  | (.panic, s') => (.panic, s')

instance : Monad (M σ) where
  pure := M.pure
  bind := M.bind

@[inline] def lift (r : R α) : M σ α := fun s => (r, s)
@[inline] def fail (e : Err) : M σ α := fun s => (.err e, s)
@[inline] def get : M σ (St σ) := fun s => (.ok s, s)

end M

variable {σ : Type}

def devRead (o : Ops σ) (a n : Nat) : M σ Bytes := fun s =>
  let (r, d) := o.read a n s.dev
  (r, { s with dev := d })

def setManifest (a : Nat) : M σ Unit := fun s => (.ok (), { s with manifest := some a })

/-! ## Register map -/

def ABRM_MANIFEST_TABLE_ADDRESS : Nat := 0x01D0
def ENTRY_FILE_VERSION : Nat := 0x00
def ENTRY_FILE_FORMAT_INFO : Nat := 0x04
def ENTRY_REGISTER_ADDRESS : Nat := 0x08
def ENTRY_FILE_SIZE : Nat := 0x10
def ENTRY_SHA1_HASH : Nat := 0x18
def ENTRY_LEN : Nat := 64

/-- `register_address`: `base.checked_add(offset)` or `InvalidDevice`. -/
def regAddr (base off : Nat) : R Nat :=
  if base + off < 2 ^ 64 then .ok (base + off) else .err .invalidDevice

/-- `read_register::<uN>`: one `DeviceControl::read` of `len` bytes, LE decode. -/
def readReg (o : Ops σ) (base off len : Nat) : M σ Nat := do
  let a ← M.lift (regAddr base off)
  -- `parse_bytes` gets the `len` byte buffer that `read` filled, so its `try_into().unwrap()`
  -- cannot fail (`Ops.read` returns exactly `len` bytes on success: hypothesis `ReadExact`)
  let bs ← devRead o a len
  pure (fromLE bs)

/-- `ControlHandle::manifest_table` (with `abrm` cached by `open`). -/
def manifestTable (o : Ops σ) : M σ Nat := do
  let st ← M.get
  match st.manifest with
  | some a => pure a
  | none => do
    let a ← readReg o 0 ABRM_MANIFEST_TABLE_ADDRESS 8
    setManifest a
    pure a

/-! ## File info / version decoding -/

inductive FileType where
  | deviceXml | bufferXml
  deriving Repr, DecidableEq

inductive Compression where
  | uncompressed | zip
  deriving Repr, DecidableEq

/-- `GenICamFileInfo::file_type`: bits 2:0 -/
def fileType (info : Nat) : R FileType :=
  if info % 8 = 0 then .ok .deviceXml
  else if info % 8 = 1 then .ok .bufferXml
  else .err .invalidDevice

/-- `GenICamFileInfo::compression_type`: bits 15:10 -/
def compressionType (info : Nat) : R Compression :=
  if (info / 2 ^ 10) % 64 = 0 then .ok .uncompressed
  else if (info / 2 ^ 10) % 64 = 1 then .ok .zip
  else .err .invalidDevice

structure Version where
  major : Nat
  minor : Nat
  subminor : Nat
  deriving Repr, DecidableEq

/-- `ManifestEntry::genicam_file_version` decode: major 31:24, minor 23:16, subminor 15:0. -/
def decodeVersion (v : Nat) : Version :=
  ⟨(v / 2 ^ 24) % 256, (v / 2 ^ 16) % 256, v % 2 ^ 16⟩

/-- `semver::Version` `<=` for versions without pre-release / build metadata. -/
def Version.le (a b : Version) : Bool :=
  a.major < b.major || (a.major = b.major && (a.minor < b.minor ||
    (a.minor = b.minor && a.subminor ≤ b.subminor)))

/-- `(entry, version, file_info)` of the loop variable `newest_ent` -/
structure Candidate where
  entry : Nat
  version : Version
  info : Nat
  deriving Repr, DecidableEq

/-- the `match &newest_ent` of the loop body: a candidate replaces the current one unless its
version is `<=` the current one's (so the earlier of two equal versions is kept) -/
def pick (cur : Option Candidate) (c : Candidate) : Option Candidate :=
  match cur with
  | some b => if c.version.le b.version then cur else some c
  | none => some c

/-- one iteration of the `for ent in entries` loop -/
def scanEntry (o : Ops σ) (ent : Nat) (cur : Option Candidate) : M σ (Option Candidate) := do
  let info ← readReg o ent ENTRY_FILE_FORMAT_INFO 4
  let ft ← M.lift (fileType info)
  if ft = .deviceXml then do
    let v ← readReg o ent ENTRY_FILE_VERSION 4
    pure (pick cur ⟨ent, decodeVersion v, info⟩)
  else pure cur

/-- the loop over `(0..entry_num).map(|i| first + i * 64)`: `k` entries left, next index `i` -/
def scan (o : Ops σ) (first : Nat) : (k i : Nat) → Option Candidate → M σ (Option Candidate)
  | 0, _, cur => pure cur
  | k + 1, i, cur => do
    let cur' ← scanEntry o (first + i * ENTRY_LEN) cur
    scan o first k (i + 1) cur'

/-- `ManifestTable::entries` up to the iterator: entry count, address of the first entry, and
the check that the whole table (8 byte count + 64 byte entries) lies within the 64 bit address
space (computed in `u128`; it guarantees that no entry address overflows). -/
def entries (o : Ops σ) (table : Nat) : M σ (Nat × Nat) := do
  let n ← readReg o table 0 8
  if table + 8 + n * 64 ≤ 2 ^ 64 then pure (n, table + 8) else M.fail .invalidDevice

/-- `XML_READ_STEP` -/
def XML_READ_STEP : Nat := 1024 * 1024

/-- The `while buf.len() < file_size` loop of `genapi`: the buffer grows by at most
`XML_READ_STEP` bytes per iteration and each step is one `DeviceControl::read` into the new
tail; the address of a step that leaves the 64 bit address space is `InvalidDevice`.  Nothing is
allocated from the advertised size.  `fuel` bounds the iterations (`size / XML_READ_STEP + 1`
suffice); `offset` = `buf.len()`. -/
def readFileLoop (o : Ops σ) (addr size : Nat) : (fuel offset : Nat) → Bytes → M σ Bytes
  | 0, _, buf => pure buf
  | fuel + 1, offset, buf =>
    if offset < size then do
      let step := min XML_READ_STEP (size - offset)
      let a ← M.lift (if addr + offset < 2 ^ 64 then .ok (addr + offset) else .err .invalidDevice)
      let bs ← devRead o a step
      readFileLoop o addr size fuel (offset + step) (buf ++ bs)
    else pure buf

/-- whole-file read of `genapi` -/
def readFile (o : Ops σ) (addr size : Nat) : M σ Bytes :=
  readFileLoop o addr size (size / XML_READ_STEP + 1) 0 []

/-- `ManifestEntry::sha1_hash`: 20 raw bytes, all zero = not available -/
def sha1Hash (o : Ops σ) (ent : Nat) : M σ (Option Bytes) := do
  let a ← M.lift (regAddr ent ENTRY_SHA1_HASH)
  let h ← devRead o a 20
  if h.all (· == 0) then pure none else pure (some h)

/-- `verify_xml` -/
def verifyXml (o : Ops σ) (xml : Bytes) (ent : Nat) : M σ Unit := do
  match ← sha1Hash o ent with
  | some hash => if o.sha1 xml = hash then pure () else M.fail .invalidDevice
  | none => pure ()

/-- the `match comp_type` at the end of `genapi` -/
def decodeFile (o : Ops σ) (comp : Compression) (buf : Bytes) : R Bytes :=
  match comp with
  | .uncompressed => .ok (o.lossy buf)
  | .zip =>
    match o.unzip buf with
    | none => .err .invalidDevice              -- `ZipArchive::new(..).map_err(zip_err)?`
    | some members =>
      if members.length ≠ 1 then .err .invalidDevice
      else match members with
        | [some xml] => .ok (o.lossy xml)
        | _ => .err .invalidDevice             -- directory entry, or `by_index(0)` / `read_to_end` failed

/-- `genapi` after `self.manifest_table()` -/
def genapiFrom (o : Ops σ) (table : Nat) : M σ Bytes := do
  let (n, first) ← entries o table
  let newest ← scan o first n 0 none
  match newest with
  | none => M.fail .invalidDevice
  | some c => do
    let addr ← readReg o c.entry ENTRY_REGISTER_ADDRESS 8
    let size ← readReg o c.entry ENTRY_FILE_SIZE 8      -- u64 -> usize: never fails (64 bit)
    let comp ← M.lift (compressionType c.info)
    let buf ← readFile o addr size
    verifyXml o buf c.entry
    M.lift (decodeFile o comp buf)

/-- `DeviceControl::genapi` -/
def genapi (o : Ops σ) : M σ Bytes := do
  let table ← manifestTable o
  genapiFrom o table

end CamVerif.GenApiFetch
