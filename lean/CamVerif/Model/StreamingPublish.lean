/-
C15 growth: a device that reconfigures itself when the host disables the stream.

USB3 Vision: the required leader / payload / trailer sizes "never change while the stream is
enabled".  A device that was left streaming by a host that died, and whose configuration was
changed meanwhile, therefore keeps showing the OLD required sizes and publishes the sizes of its
current configuration at the moment the host clears the stream-enable bit.  `enable_streaming`
disables a still-enabled stream first and reads the required sizes afterwards, so it must program
sizes that cover the PUBLISHED requirements.

Device model: a `Publication` (address of the byte that holds the enable bit, address and bytes of
the registers to publish).  Whenever the device EXECUTES a write that covers the enable-bit byte
with an even value (clears the bit), it overwrites the published registers (if mapped); this is
not a host access and is not logged.  (The scripted endpoint of the harness,
`FakeUsb::publish_on_disable`, publishes once; the two coincide as long as nothing else writes the
published registers in between — they are read-only for the host and the harness cases with a
publication contain no device-side pokes.)

The register-level code is the generic text of `Model/StreamingLimits.lean` instantiated with
`Prim.publishing` (reads = single commands of `Model/Streaming.lean`, writes = `devWriteP`).
-/
import CamVerif.Model.StreamingLimits
namespace CamVerif.Streaming

structure Publication where
  /-- address of the low byte of SI_CONTROL -/
  ctrl : Nat
  addr : Nat
  data : Bytes
  deriving Repr, DecidableEq

/-- does the device execute the next write of `data` at `a`?  (mirror of `Dev.write`: served and
mapped, or faulted with `applied` — acknowledge lost after execution — and mapped) -/
def Dev.executes (d : Dev) (a : Nat) (data : Bytes) : Bool :=
  match popFault d.faults with
  | (some f, _) => f.applied && d.mem.rangeMapped a data.length
  | (none, _) => d.mem.rangeMapped a data.length

/-- the write covers the byte at `ctrl` with an even value -/
def clearsEnable (ctrl a : Nat) (data : Bytes) : Bool :=
  a ≤ ctrl &&
    match data[ctrl - a]? with
    | some b => b.toNat % 2 == 0
    | none => false

/-- one write command to the publishing device -/
def devWriteP (P : Publication) (a : Nat) (data : Bytes) : M Unit := fun s =>
  let fire := s.dev.executes a data && clearsEnable P.ctrl a data &&
    s.dev.mem.rangeMapped P.addr P.data.length
  let (r, s') := devWrite a data s
  if fire then (r, { s' with dev := { s'.dev with mem := s'.dev.mem.write P.addr P.data } })
  else (r, s')

/-- the handle (one command per register) over the publishing device -/
def Prim.publishing (P : Publication) : Prim := ⟨devRead, devWriteP P⟩

end CamVerif.Streaming
