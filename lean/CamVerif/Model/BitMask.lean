/-
Hand-written executable model of `genapi/src/masked_int_reg.rs` (after the two `fix:`
commits: logical shift in `apply_mask`, `u64` arithmetic in `mask`/`max`):

* `BitMask::{lsb,msb,min,max,mask,apply_mask,masked_value}` exactly as coded — `usize`
  arithmetic with underflow/overflow (panic with overflow checks, wrap without), shifts
  whose amount `≥ 64` panics with checks and is taken `mod 64` without, arithmetic `>>`
  on `i64`, big-endian bit renumbering;
* `MaskedIntRegNode::{value,set_value,min,max}` with caching off = read the old word →
  `masked_value` → `bytes_from_int` → guarded write, on top of `CamVerif.Model.Reg`.
  `StructReg` entries are such nodes (byte order from the `StructReg`, sign and mask from
  the entry).

`usize`, `u64`, `i64` are all `BitVec 64`.  Tied to the source by `harness/src/bin/c02.rs`.
-/
import CamVerif.Model.Reg
namespace CamVerif.BitMask
open CamVerif CamVerif.Reg

/- `usize` is written `BitVec 64` throughout (no abbreviation: `bv_decide` reflects on the
syntactic type). -/

/-! ## Profile-aware machine arithmetic on 64-bit vectors -/

/-- `a - b` on `usize`/`u64` -/
def subU (p : Profile) (a b : BitVec 64) : R (BitVec 64) :=
  if b ≤ a then .ok (a - b) else if p.overflowChecks then .panic else .ok (a - b)

/-- `a + b` on `usize` -/
def addU (p : Profile) (a b : BitVec 64) : R (BitVec 64) :=
  if a ≤ a + b then .ok (a + b) else if p.overflowChecks then .panic else .ok (a + b)

/-- `a * 8` on `usize` -/
def mul8U (p : Profile) (a : BitVec 64) : R (BitVec 64) :=
  if (a <<< 3) >>> 3 = a then .ok (a <<< 3) else if p.overflowChecks then .panic else .ok (a <<< 3)

/-- shift amount of a 64-bit shift: `≥ 64` panics with overflow checks, else is masked -/
def shiftAmount (p : Profile) (k : BitVec 64) : R (BitVec 64) :=
  if k < 64 then .ok k else if p.overflowChecks then .panic else .ok (k &&& 63)

/-- `x << k` on `i64`/`u64` -/
def shlW (p : Profile) (x : BitVec 64) (k : BitVec 64) : R (BitVec 64) := do
  let k ← shiftAmount p k
  pure (x <<< k)

/-- `x >> k` on `u64` (logical) -/
def lshrW (p : Profile) (x : BitVec 64) (k : BitVec 64) : R (BitVec 64) := do
  let k ← shiftAmount p k
  pure (x >>> k)

/-- `x >> k` on `i64` (arithmetic) -/
def ashrW (p : Profile) (x : BitVec 64) (k : BitVec 64) : R (BitVec 64) := do
  let k ← shiftAmount p k
  pure (x.sshiftRight' k)

/-- signed overflow of `a - b`: the operands differ in sign and the result's sign differs
from the minuend's -/
def ssubOvf (a b : BitVec 64) : Bool := (a.msb != b.msb) && ((a - b).msb != a.msb)

/-- `a - b` on `i64` -/
def subI (p : Profile) (a b : I64) : R I64 :=
  if ssubOvf a b then (if p.overflowChecks then .panic else .ok (a - b)) else .ok (a - b)

/-- `-a` on `i64` -/
def negI (p : Profile) (a : I64) : R I64 :=
  if a = BitVec.intMin 64 then (if p.overflowChecks then .panic else .ok (-a)) else .ok (-a)

def I64_MAX : I64 := BitVec.intMax 64
def I64_MIN : I64 := BitVec.intMin 64

/-! ## `BitMask` -/

/-- `elem_type::BitMask` (`u64` fields) -/
inductive BitMask where
  | singleBit (bit : BitVec 64)
  | range (lsb msb : BitVec 64)
  deriving Repr, DecidableEq, Inhabited

/-- the `lsb as usize` of the `match self` in `BitMask::lsb` -/
def BitMask.rawLsb : BitMask → BitVec 64
  | .singleBit b => b
  | .range l _ => l

/-- the `msb as usize` of the `match self` in `BitMask::msb` -/
def BitMask.rawMsb : BitMask → BitVec 64
  | .singleBit b => b
  | .range _ m => m

/-- the normalisation shared by `lsb()` and `msb()` -/
def normalise (p : Profile) (raw : BitVec 64) (regByteLen : BitVec 64) (e : Endianness) : R (BitVec 64) := do
  let bitsLen ← mul8U p regByteLen
  match e with
  | .le => pure raw
  | .be => do
    let t ← subU p bitsLen raw
    subU p t 1

/-- `BitMask::lsb` -/
def BitMask.lsb (p : Profile) (bm : BitMask) (regByteLen : BitVec 64) (e : Endianness) : R (BitVec 64) :=
  normalise p bm.rawLsb regByteLen e

/-- `BitMask::msb` -/
def BitMask.msb (p : Profile) (bm : BitMask) (regByteLen : BitVec 64) (e : Endianness) : R (BitVec 64) :=
  normalise p bm.rawMsb regByteLen e

/-- body of `BitMask::min` after `(lsb, msb)` have been computed -/
def minCore (p : Profile) (lsb msb : BitVec 64) (s : Sign) : R I64 :=
  match s with
  | .signed => do
    let d ← subU p msb lsb
    if d = 63 then pure I64_MIN
    else do
      let value ← shlW p 1 d   -- `1 << (msb - lsb) as i64`
      negI p value
  | .unsigned => pure 0

/-- body of `BitMask::max` after `(lsb, msb)` have been computed -/
def maxCore (p : Profile) (lsb msb : BitVec 64) (s : Sign) : R I64 := do
  let d ← subU p msb lsb
  if d = 63 then pure I64_MAX
  else
    match s with
    | .signed => do
      let t ← shlW p 1 d
      subI p t 1
    | .unsigned => do
      -- (the inner `if msb - lsb == 63` of the source is unreachable here)
      let w ← addU p d 1
      let t ← shlW p 1 w        -- `1_u64 << (msb - lsb + 1)`
      subU p t 1                -- `- 1` on `u64`, then `as i64`

/-- body of `BitMask::mask` after `(lsb, msb)` have been computed -/
def maskCore (p : Profile) (lsb msb : BitVec 64) : R I64 := do
  let d ← subU p msb lsb
  if d = 63 then pure (-1)
  else do
    let w ← addU p d 1
    let t ← shlW p 1 w
    let t ← subU p t 1
    shlW p t lsb

/-- `BitMask::min` -/
def BitMask.min (p : Profile) (bm : BitMask) (regByteLen : BitVec 64) (e : Endianness) (s : Sign) :
    R I64 := do
  let lsb ← bm.lsb p regByteLen e
  let msb ← bm.msb p regByteLen e
  minCore p lsb msb s

/-- `BitMask::max` -/
def BitMask.max (p : Profile) (bm : BitMask) (regByteLen : BitVec 64) (e : Endianness) (s : Sign) :
    R I64 := do
  let lsb ← bm.lsb p regByteLen e
  let msb ← bm.msb p regByteLen e
  maxCore p lsb msb s

/-- `BitMask::mask` -/
def BitMask.mask (p : Profile) (bm : BitMask) (regByteLen : BitVec 64) (e : Endianness) : R I64 := do
  let lsb ← bm.lsb p regByteLen e
  let msb ← bm.msb p regByteLen e
  maskCore p lsb msb

/-- the extraction of `BitMask::apply_mask` once `mask`, `lsb`, `msb` are known -/
def applyCore (p : Profile) (mask : I64) (lsb msb : BitVec 64) (regValue : I64) (s : Sign) : R I64 := do
  let res ← lshrW p (regValue &&& mask) lsb
  let fieldMask ← lshrW p mask lsb
  match s with
  | .signed => do
    let d ← subU p msb lsb
    let top ← ashrW p res d
    if top = 1 then pure (res ||| ((-1) ^^^ fieldMask)) else pure res
  | .unsigned => pure res

/-- `BitMask::apply_mask` -/
def BitMask.applyMask (p : Profile) (bm : BitMask) (regValue : I64) (regByteLen : BitVec 64)
    (e : Endianness) (s : Sign) : R I64 := do
  let mask ← bm.mask p regByteLen e
  let lsb ← bm.lsb p regByteLen e
  let msb ← bm.msb p regByteLen e
  applyCore p mask lsb msb regValue s

/-- `BitMask::masked_value` -/
def BitMask.maskedValue (p : Profile) (bm : BitMask) (oldRegValue value : I64) (regByteLen : BitVec 64)
    (e : Endianness) (s : Sign) : R I64 := do
  let mx ← bm.max p regByteLen e s
  let tooBig := mx.slt value
  -- `||` short-circuits: `min` is evaluated only when `value <= max`
  let bad ← if tooBig then pure true else do
    let mn ← bm.min p regByteLen e s
    pure (value.slt mn)
  if bad then .err .invalidData
  else do
    let mask ← bm.mask p regByteLen e
    let lsb ← bm.lsb p regByteLen e
    let shifted ← shlW p value lsb
    pure ((oldRegValue &&& ~~~mask) ||| (shifted &&& mask))

/-! ## `MaskedIntRegNode` (and `StructReg` entries), caching off -/

/-- `length as usize` as a 64-bit vector -/
def lenUsize (length : Int) : BitVec 64 := BitVec.ofNat 64 (asUsize length)

/-- `IInteger::min` -/
def MaskedIntReg.min (p : Profile) (bm : BitMask) (e : Endianness) (s : Sign) (length : Int) : R I64 :=
  bm.min p (lenUsize length) e s

/-- `IInteger::max` -/
def MaskedIntReg.max (p : Profile) (bm : BitMask) (e : Endianness) (s : Sign) (length : Int) : R I64 :=
  bm.max p (lenUsize length) e s

/-- `IInteger::value`: read the register word, extract the field. -/
def MaskedIntReg.value (p : Profile) (port : Port) (bm : BitMask) (e : Endianness) (s : Sign)
    (address length : Int) (d : Dev) : R I64 × Dev :=
  match withRead port address length d (fun data => intFromSlice data e s) with
  | (.ok regValue, d') => (bm.applyMask p regValue (lenUsize length) e s, d')
  | (.err er, d') => (.err er, d')
  | (.panic, d') => (.panic, d')

/-- `IInteger::set_value`: read the old word, merge (`masked_value`, which also range
checks), encode, guarded write. -/
def MaskedIntReg.setValue (p : Profile) (port : Port) (bm : BitMask) (e : Endianness) (s : Sign)
    (address length : Int) (v : I64) (d : Dev) : R Unit × Dev :=
  match withRead port address length d (fun data => intFromSlice data e s) with
  | (.ok old, d1) =>
    match bm.maskedValue p old v (lenUsize length) e s with
    | .ok new =>
      match allocLen length with
      | .ok n =>
        match bytesFromInt new n e s with
        | .ok buf => writeAndCache port address length buf d1
        | .err er => (.err er, d1)
        | .panic => (.panic, d1)
      | .err er => (.err er, d1)
      | .panic => (.panic, d1)
    | .err er => (.err er, d1)
    | .panic => (.panic, d1)
  | (.err er, d1) => (.err er, d1)
  | (.panic, d1) => (.panic, d1)

end CamVerif.BitMask
