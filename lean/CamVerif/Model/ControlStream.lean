/-
Hand-written executable model of `ControlHandle::disable_streaming` and of the register-map
caches it consults (`ControlHandle::{sbrm, sirm}`, `Sbrm::new`, `Sbrm::sirm_address`,
`Sirm::disable_stream` in `cameleon/src/u3v/{control_handle,register_map}.rs`), on top of
`Model/Control.lean` (`abrm`, `readReg`, `readSbrmReg`, `registerAddress`, `write`).
Tied to the source by `harness/src/bin/c07.rs` (op `disable`).
-/
import CamVerif.Model.Control
namespace CamVerif.Control

/-- the caches `sbrm : Option<Sbrm>` (SBRM address and U3VCP capability) and
`sirm : Option<Sirm>` (SIRM address) of the handle (`abrm` is `Handle.abrm`) -/
structure Caches where
  sbrm : Option (Nat × Nat)
  sirm : Option Nat
  deriving Repr, DecidableEq

def Caches.empty : Caches := ⟨none, none⟩

def SBRM_SIRM_ADDRESS : Nat × Nat := (0x0020, 8)
def SIRM_SI_CONTROL : Nat × Nat := (0x0004, 4)

/-- `ControlHandle::sbrm()`: cached, else `abrm()?.sbrm_address(self)?` and `Sbrm::new` (which
reads the U3VCP capability register). -/
def sbrmOf {σ} (dev : Dev σ) (p : Profile) (s : St σ) (c : Caches) : St σ × Caches × R (Nat × Nat) :=
  match c.sbrm with
  | some v => (s, c, .ok v)
  | none =>
    match abrm dev p s with
    | (s, .panic) => (s, c, .panic)
    | (s, .err e) => (s, c, .err e)
    | (s, .ok _) =>
      match readReg dev p s ABRM_SBRM_ADDRESS.1 ABRM_SBRM_ADDRESS.2 with
      | (s, .panic) => (s, c, .panic)
      | (s, .err e) => (s, c, .err e)
      | (s, .ok addr) =>
        match readSbrmReg dev p s addr SBRM_U3VCP_CAPABILITY_REGISTER with
        | (s, .panic) => (s, c, .panic)
        | (s, .err e) => (s, c, .err e)
        | (s, .ok cap) => (s, { c with sbrm := some (addr, cap) }, .ok (addr, cap))

/-- `ControlHandle::sirm()`: cached, else `sbrm()?.sirm_address(self)?` — `None` (capability
bit 0 clear) is `InvalidDevice`. -/
def sirmOf {σ} (dev : Dev σ) (p : Profile) (s : St σ) (c : Caches) : St σ × Caches × R Nat :=
  match c.sirm with
  | some a => (s, c, .ok a)
  | none =>
    match sbrmOf dev p s c with
    | (s, c, .panic) => (s, c, .panic)
    | (s, c, .err e) => (s, c, .err e)
    | (s, c, .ok (addr, cap)) =>
      -- `is_sirm_available`: bit 0 of the capability
      if cap % 2 = 1 then
        match readSbrmReg dev p s addr SBRM_SIRM_ADDRESS with
        | (s, .panic) => (s, c, .panic)
        | (s, .err e) => (s, c, .err e)
        | (s, .ok a) => (s, { c with sirm := some a }, .ok a)
      else (s, c, .err .invalidDevice)

/-- `DeviceControl::disable_streaming`: `sirm()?.disable_stream(self)` = write `0_u32` to
SI_CONTROL (`register_address(sirm, 4)?`, a 4-byte buffer filled by `dump_bytes`, whose
`debug_assert_eq!(4, 4)` holds). -/
def disableStreaming {σ} (dev : Dev σ) (p : Profile) (s : St σ) (c : Caches) :
    St σ × Caches × R Unit :=
  match sirmOf dev p s c with
  | (s, c, .panic) => (s, c, .panic)
  | (s, c, .err e) => (s, c, .err e)
  | (s, c, .ok sirm) =>
    match registerAddress sirm SIRM_SI_CONTROL.1 with
    | .panic => (s, c, .panic)
    | .err e => (s, c, .err e)
    | .ok a =>
      match write dev p s a (toLE SIRM_SI_CONTROL.2 0) with
      | (s, r) => (s, c, r)

end CamVerif.Control
