/- gen_regmap.py refused the current /repo sources:
gen_regmap: REFUSED: `impl DumpBytes for &str` changed; the model mirrors
    if !self.is_ascii() { return Err(ControlError::InvalidData("string encoding must be ascii".into())); } if self.contains('\0') { return Err(ControlError::InvalidData("string must not contain NUL character".into())); } let data_len = self.len(); if data_len > buf.len() { return Err(ControlError::InvalidData("too large string".into())); } buf[..data_len].copy_from_slice(self.as_bytes()); if data_len < buf.len() { buf[data_len] = 0; } Ok(())
  but the source has
    if !self.is_ascii() { return Err(ControlError::InvalidData("string encoding must be ascii".into())); } if self.contains('\0') { return Err(ControlError::InvalidData("string must not contain NUL character".into())); } let data_len = self.len(); if data_len > buf.len() { return Err(ControlError::InvalidData("too large string".into())); } buf[..data_len].copy_from_slice(self.as_bytes()); let terminator = data_len.min(buf.len().saturating_sub(1)); if let Some(byte) = buf.get_mut(terminator) { *byte = 0; } Ok(())
-/
#eval (throw (IO.userError "CamVerif.Gen.RegMap: generator refused the source, see comment above") : IO Unit)
theorem CamVerif.Gen.RegMap.generator_refused : False := by decide
