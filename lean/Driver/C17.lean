/-
C17 driver.  One request per line:

  c17 doc <profile> <nform> (<hex text> <digest>){nform} <nlook> <hex name>{nlook} <TREE>

* `<nform>` pairs: every element text of the document `formula::parse` accepts, with the
  digest (16 hex digits, FNV-1a of the AST's `Debug` text) — the abstract `formulaOk` and the
  value printed for formulas (`#digest`); formula syntax itself is property C05.
* `<TREE>` prefix encoding of the root element as roxmltree reports it:
  `E <hex tag> <nattrs> (<hex name> <hex value>)* <nchildren> TREE*` | `T <hex text>` | `C <hex comment>` | `P`
  (tags / attribute names are LOCAL names, namespace declarations are not attributes; `P` = processing instruction)
  (hex of the UTF-8 bytes, `-` for the empty string).

Answer: `panic` or
  `ok rd{..} nodes[KIND{k=v;..}|..] inval[@inv>@target,..] look["name:KIND|-|?,..] store[VAL,..] imm[id,..]`
(`store` = the value-store cells in the order the immediates of `nodes[..]` first refer to them,
then `n=<number of cells>`; `imm` = the value ids of the immediates in the order `nodes[..]`
prints them, renumbered by first use)
nodes in `visit_nodes` order (ascending id) with every public getter (references as `@hex name`,
value-store contents behind value ids, floats as bit patterns); `inval` = `store_invalidator`
calls in call order; `look` = `id_by_name` + `node_opt` of the requested names.  The field
list per kind is `dNode` below and `D::node` in harness/src/bin/c17.rs.
-/
import CamVerif.Model.XmlParse
import Driver.Util
namespace Driver.C17
open CamVerif CamVerif.XmlParse CamVerif.Wire Driver

/-! ## Exact decimal → f64 (Rust `str::parse::<f64>` is correctly rounded) -/

/-- bits of the double nearest (ties to even) to `num/den > 0` -/
def roundToBits (num den : Nat) : UInt64 :=
  let e0 : Int := (num.log2 : Int) - (den.log2 : Int) - 53
  let q0 := if e0 ≥ 0 then num / (den <<< e0.toNat) else (num <<< (-e0).toNat) / den
  let e1 : Int := if q0 ≥ 2 ^ 53 then e0 + 1 else e0
  let e : Int := if e1 < -1074 then -1074 else e1
  let num' := if e ≥ 0 then num else num <<< (-e).toNat
  let den' := if e ≥ 0 then den <<< e.toNat else den
  let q := num' / den'
  let r := num' % den'
  let q := if 2 * r > den' ∨ (2 * r = den' ∧ q % 2 = 1) then q + 1 else q
  let (q, e) := if q ≥ 2 ^ 53 then (q / 2, e + 1) else (q, e)
  if q < 2 ^ 52 then q.toUInt64
  else
    let biased := e + 1075
    if biased ≥ 2047 then 0x7ff0000000000000
    else ((biased.toNat <<< 52) + (q - 2 ^ 52)).toUInt64

def decToBits (neg : Bool) (m : Nat) (e10 : Int) : UInt64 :=
  let mag : UInt64 :=
    if m = 0 then 0
    else
      let digits := (Nat.toDigits 10 m).length
      if e10 > 400 then 0x7ff0000000000000
      else if e10 + digits < -400 then 0
      else if e10 ≥ 0 then roundToBits (m * 10 ^ e10.toNat) 1
      else roundToBits m (10 ^ (-e10).toNat)
  if neg then mag ||| 0x8000000000000000 else mag

def lower (s : List Char) : List Char := s.map Char.toLower

def takeDigits : List Char → List Char × List Char
  | c :: r => if c.isDigit then let (d, r') := takeDigits r; (c :: d, r') else ([], c :: r)
  | [] => ([], [])

def digitsToNat (ds : List Char) : Nat := ds.foldl (fun a c => a * 10 + (c.toNat - '0'.toNat)) 0

/-- Rust `f64::from_str` grammar: sign? (inf|infinity|nan | digits[.digits][e sign? digits]) -/
def parseF64Bits (s : List Char) : Option UInt64 :=
  let (neg, body) := match s with
    | '+' :: r => (false, r)
    | '-' :: r => (true, r)
    | _ => (false, s)
  let sgn : UInt64 := if neg then 0x8000000000000000 else 0
  let lb := lower body
  if lb = "inf".toList ∨ lb = "infinity".toList then some (0x7ff0000000000000 ||| sgn)
  else if lb = "nan".toList then some (0x7ff8000000000000 ||| sgn)
  else
    let (ip, r1) := takeDigits body
    let (fp, r2) := match r1 with
      | '.' :: r => takeDigits r
      | _ => ([], r1)
    if ip.isEmpty ∧ fp.isEmpty then none
    else
      let m := digitsToNat (ip ++ fp)
      match r2 with
      | [] => some (decToBits neg m (-(fp.length : Int)))
      | c :: r =>
        if c = 'e' ∨ c = 'E' then
          let (eneg, r) := match r with
            | '+' :: r' => (false, r')
            | '-' :: r' => (true, r')
            | _ => (false, r)
          let (ed, r3) := takeDigits r
          if ed.isEmpty ∨ !r3.isEmpty then none
          else
            -- clamp absurd exponents (same result: overflow to inf / underflow to 0)
            let ev : Int := if ed.length > 6 then 1000000 else (digitsToNat ed : Int)
            let ev := if eneg then -ev else ev
            some (decToBits neg m (ev - fp.length))
        else none

/-- f64 values are carried as their bit patterns (`F := UInt64`): the parser never computes
with them, and Lean's `Float.toBits` canonicalises NaNs (the sign of `-nan` would be lost). -/
abbrev F64 := UInt64

/-- `formulas`: the texts `formula::parse` accepts, with the digest of the parsed AST
(supplied by the harness with every request; formula syntax is property C05). -/
@[reducible] def floatLit (formulas : List (Str × String)) : FloatLit F64 where
  inf := 0x7ff0000000000000
  negInf := 0xfff0000000000000
  f64Min := 0xffefffffffffffff
  f64Max := 0x7fefffffffffffff
  parse s := parseF64Bits s
  ofInt i := (Float.ofInt i).toBits
  formulaOk s := formulas.any fun x => x.1 == s

/-! ## Request decoding -/

def hexToStr (h : String) : Option Str :=
  if h = "-" then some [] else
  match hexToBytes h with
  | some bs => (String.fromUTF8? (ByteArray.mk bs.toArray)).map String.toList
  | none => none

/-- prefix-encoded tree (`E tag nattrs (name value)* nchildren child*`, `T hex`, `C hex`). -/
def decAttrs : Nat → List String → Option (List (Str × Str) × List String)
  | 0, ts => some ([], ts)
  | n + 1, k :: v :: ts =>
    match hexToStr k, hexToStr v, decAttrs n ts with
    | some k, some v, some (as, ts') => some ((k, v) :: as, ts')
    | _, _, _ => none
  | _, _ => none

mutual
def decTree : Nat → List String → Option (Elem × List String)
  | 0, _ => none
  | fuel + 1, ts =>
    match ts with
    | "T" :: h :: r => (hexToStr h).map fun s => (.text s, r)
    | "C" :: h :: r => (hexToStr h).map fun s => (.comment s, r)
    | "P" :: r => some (.pi, r)
    | "E" :: tag :: na :: r =>
      match hexToStr tag, na.toNat? with
      | some tag, some na =>
        match decAttrs na r with
        | some (attrs, nc :: r') =>
          match nc.toNat? with
          | some nc =>
            match decTrees fuel nc r' with
            | some (cs, r'') => some (.node tag attrs cs, r'')
            | none => none
          | none => none
        | _ => none
      | _, _ => none
    | _ => none
def decTrees : Nat → Nat → List String → Option (List Elem × List String)
  | 0, _, _ => none
  | _ + 1, 0, ts => some ([], ts)
  | fuel + 1, n + 1, ts =>
    match decTree fuel ts with
    | some (e, ts') =>
      match decTrees fuel n ts' with
      | some (es, ts'') => some (e :: es, ts'')
      | none => none
    | none => none
end

/-! ## Canonical dump (PROTOCOL.md) -/

def strHex (s : Str) : String := 
  let bs := (String.ofList s).toUTF8
  if bs.size = 0 then "" else bytesToHex bs.toList

def dS (s : Str) : String := "\"" ++ strHex s
def dOS : Option Str → String | none => "~" | some s => dS s
def dB (b : Bool) : String := if b then "T" else "F"
def dOB : Option Bool → String | none => "~" | some b => dB b
def dOU : Option Nat → String | none => "~" | some n => toString n
def dInt (i : Int) : String := toString i

def dFB (f : F64) : String := natToHex 16 f.toNat

structure Ctx where
  st : St F64
  formulas : List (Str × String)

def Ctx.name (c : Ctx) (id : Nat) : Str := c.st.names.getD id ['?']
def dR (c : Ctx) (id : Nat) : String := "@" ++ strHex (c.name id)
def dOR (c : Ctx) : Option Nat → String | none => "~" | some id => dR c id
def dList {α} (f : α → String) (l : List α) : String := "[" ++ ",".intercalate (l.map f) ++ "]"
def dLR (c : Ctx) (l : List Nat) : String := dList (dR c) l

def dVal (c : Ctx) (vid : Nat) : String :=
  match c.st.values[vid]? with
  | some (.int i) => "i" ++ dInt i
  | some (.float f) => "f" ++ dFB f
  | some (.str s) => "s" ++ dS s
  | some (.bool b) => "b" ++ dB b
  | none => "!"

def dIPV (c : Ctx) : ImmOrP Nat → String
  | .imm v => "I(" ++ dVal c v ++ ")"
  | .pnode id => "P(" ++ dR c id ++ ")"
def dIPI (c : Ctx) : ImmOrP Int → String
  | .imm v => "I(" ++ dInt v ++ ")"
  | .pnode id => "P(" ++ dR c id ++ ")"
def dIPF (c : Ctx) : ImmOrP F64 → String
  | .imm v => "I(" ++ dFB v ++ ")"
  | .pnode id => "P(" ++ dR c id ++ ")"
def dIPU (c : Ctx) : ImmOrP Nat → String
  | .imm v => "I(" ++ toString v ++ ")"
  | .pnode id => "P(" ++ dR c id ++ ")"

def dVK (c : Ctx) : ValueKind Nat → String
  | .value v => "V(" ++ dVal c v ++ ")"
  | .pValue p => "PV(" ++ dR c p.pValue ++ ";" ++ dLR c p.pValueCopies ++ ")"
  | .pIndex p => "PI(" ++ dR c p.pIndex ++ ";" ++
      dList (fun vi => dInt vi.index ++ ":" ++ dIPV c vi.indexed) p.valueIndexed ++ ";" ++
      dIPV c p.valueDefault ++ ")"

def dAK (c : Ctx) : AddressKind → String
  | .address a => "A(" ++ dIPI c a ++ ")"
  | .intSwissKnife id => "K(" ++ dR c id ++ ")"
  | .pIndex p => "X(" ++ (match p.offset with | none => "~" | some o => dIPI c o) ++ ";" ++ dR c p.pIndex ++ ")"

def dBM : BitMask → String
  | .singleBit b => s!"B({b})"
  | .range l m => s!"R({l},{m})"

def dNameSpace : NameSpace → String | .standard => "Standard" | .custom => "Custom"
def dMergePriority : MergePriority → String | .high => "High" | .mid => "Mid" | .low => "Low"
def dVisibility : Visibility → String
  | .beginner => "Beginner" | .expert => "Expert" | .guru => "Guru" | .invisible => "Invisible"
def dAccessMode : AccessMode → String | .ro => "RO" | .wo => "WO" | .rw => "RW"
def dIntRepr : IntRepr → String
  | .linear => "Linear" | .logarithmic => "Logarithmic" | .boolean => "Boolean"
  | .pureNumber => "PureNumber" | .hexNumber => "HexNumber" | .ipV4 => "IpV4Address" | .mac => "MacAddress"
def dFloatRepr : FloatRepr → String
  | .linear => "Linear" | .logarithmic => "Logarithmic" | .pureNumber => "PureNumber"
def dSlope : Slope → String
  | .increasing => "Increasing" | .decreasing => "Decreasing" | .varying => "Varying" | .automatic => "Automatic"
def dDisplayNotation : DisplayNotation → String
  | .automatic => "Automatic" | .fixed => "Fixed" | .scientific => "Scientific"
def dStdNameSpace : StdNameSpace → String
  | .none => "None" | .iidc => "IIDC" | .gev => "GEV" | .cl => "CL" | .usb => "USB"
def dCachingMode : CachingMode → String
  | .writeThrough => "WriteThrough" | .writeAround => "WriteAround" | .noCache => "NoCache"
def dEndianness : Endianness → String | .le => "LE" | .be => "BE"
def dSign : Sign → String | .signed => "Signed" | .unsigned => "Unsigned"

def dBase (c : Ctx) (a : AttrBase) (e : ElemBase) (streamable : Bool) : String :=
  ";".intercalate [
    "n=" ++ dS (c.name a.id), "ns=" ++ dNameSpace a.nameSpace, "mp=" ++ dMergePriority a.mergePriority,
    "es=" ++ dOB a.exposeStatic, "tt=" ++ dOS e.tooltip, "de=" ++ dOS e.description,
    "dn=" ++ dOS e.displayName, "vi=" ++ dVisibility e.visibility, "du=" ++ dOS e.docuUrl,
    "dp=" ++ dB e.isDeprecated, "ev=" ++ dOU e.eventId, "imp=" ++ dOR c e.pIsImplemented,
    "av=" ++ dOR c e.pIsAvailable, "lk=" ++ dOR c e.pIsLocked, "bp=" ++ dOR c e.pBlockPolling,
    "iam=" ++ dAccessMode e.imposedAccessMode, "err=" ++ dLR c e.pErrors, "al=" ++ dOR c e.pAlias,
    "ca=" ++ dOR c e.pCastAlias, "st=" ++ dB streamable]

def dRB (c : Ctx) (r : RegBase) : String :=
  ";".intercalate [
    "rst=" ++ dB r.streamable, "ad=" ++ dList (dAK c) r.addressKinds, "len=" ++ dIPI c r.length,
    "am=" ++ dAccessMode r.accessMode, "port=" ++ dR c r.pPort, "cm=" ++ dCachingMode r.cacheable,
    "pt=" ++ dOU r.pollingTime, "inv=" ++ dLR c r.pInvalidators]

def dX (c : Ctx) (s : Str) : String :=
  match c.formulas.find? fun x => x.1 == s with
  | some x => "#" ++ x.2
  | none => "?"
def dNVR (c : Ctx) (v : NamedValue Nat) : String := dS v.name ++ ":" ++ dR c v.value
def dNVI (v : NamedValue Int) : String := dS v.name ++ ":" ++ dInt v.value
def dNVF (v : NamedValue F64) : String := dS v.name ++ ":" ++ dFB v.value
def dNVX (c : Ctx) (v : NamedValue Str) : String := dS v.name ++ ":" ++ dX c v.value

def kindName : NodeData F64 → String
  | .node _ => "Node" | .category _ => "Category" | .integer _ => "Integer" | .intReg _ => "IntReg"
  | .maskedIntReg _ => "MaskedIntReg" | .boolean _ => "Boolean" | .command _ => "Command"
  | .enumeration _ => "Enumeration" | .enumEntry _ => "EnumEntry" | .float _ => "Float"
  | .floatReg _ => "FloatReg" | .string _ => "String" | .stringReg _ => "StringReg"
  | .register _ => "Register" | .converter _ => "Converter" | .intConverter _ => "IntConverter"
  | .swissKnife _ => "SwissKnife" | .intSwissKnife _ => "IntSwissKnife" | .port _ => "Port"

def dNode (c : Ctx) (d : NodeData F64) : String :=
  let body : List String := match d with
    | .node n => [dBase c n.attr n.elem false]
    | .category n => [dBase c n.attr n.elem false, "pf=" ++ dLR c n.pFeatures]
    | .integer n => [dBase c n.attr n.elem n.streamable, "vk=" ++ dVK c n.valueKind,
        "min=" ++ dIPV c n.min, "max=" ++ dIPV c n.max, "inc=" ++ dIPI c n.inc, "un=" ++ dOS n.unit,
        "rep=" ++ dIntRepr n.representation, "sel=" ++ dLR c n.pSelected]
    | .intReg n => [dBase c n.attr n.reg.elemBase n.reg.streamable, dRB c n.reg, "sg=" ++ dSign n.sign,
        "en=" ++ dEndianness n.endianness, "un=" ++ dOS n.unit, "rep=" ++ dIntRepr n.representation,
        "sel=" ++ dLR c n.pSelected]
    | .maskedIntReg n => [dBase c n.attr n.reg.elemBase n.reg.streamable, dRB c n.reg,
        "bm=" ++ dBM n.bitMask, "sg=" ++ dSign n.sign, "en=" ++ dEndianness n.endianness,
        "un=" ++ dOS n.unit, "rep=" ++ dIntRepr n.representation, "sel=" ++ dLR c n.pSelected]
    | .boolean n => [dBase c n.attr n.elem n.streamable, "val=" ++ dIPV c n.value,
        "on=" ++ dInt n.onValue, "off=" ++ dInt n.offValue, "sel=" ++ dLR c n.pSelected]
    | .command n => [dBase c n.attr n.elem false, "val=" ++ dIPV c n.value,
        "cv=" ++ dIPV c n.commandValue, "pt=" ++ dOU n.pollingTime]
    | .enumeration n => [dBase c n.attr n.elem n.streamable, "ent=" ++ dLR c n.entries,
        "val=" ++ dIPV c n.value, "sel=" ++ dLR c n.pSelected, "pt=" ++ dOU n.pollingTime]
    | .enumEntry n => [dBase c n.attr n.elem false, "v=" ++ dInt n.value,
        "nv=" ++ dFB (n.numericValue.getD (Float.ofInt n.value).toBits), "sym=" ++ dS n.symbolic,
        "sc=" ++ dB n.isSelfClearing]
    | .float n => [dBase c n.attr n.elem n.streamable, "vk=" ++ dVK c n.valueKind,
        "min=" ++ dIPV c n.min, "max=" ++ dIPV c n.max,
        "inc=" ++ (match n.inc with | none => "~" | some i => dIPF c i), "un=" ++ dOS n.unit,
        "rep=" ++ dFloatRepr n.representation, "dno=" ++ dDisplayNotation n.displayNotation,
        "dpr=" ++ dInt n.displayPrecision]
    | .floatReg n => [dBase c n.attr n.reg.elemBase n.reg.streamable, dRB c n.reg,
        "en=" ++ dEndianness n.endianness, "un=" ++ dOS n.unit, "rep=" ++ dFloatRepr n.representation,
        "dno=" ++ dDisplayNotation n.displayNotation, "dpr=" ++ dInt n.displayPrecision]
    | .string n => [dBase c n.attr n.elem n.streamable, "val=" ++ dIPV c n.value]
    | .stringReg n => [dBase c n.attr n.reg.elemBase n.reg.streamable, dRB c n.reg]
    | .register n => [dBase c n.attr n.reg.elemBase n.reg.streamable, dRB c n.reg]
    | .port n => [dBase c n.attr n.elem false,
        "cid=" ++ (match n.chunkId with | none => "~" | some i => dIPU c i),
        "se=" ++ dB n.swapEndianness, "ccd=" ++ dB n.cacheChunkData]
    | .converter n => [dBase c n.attr n.elem n.streamable, "pv=" ++ dList (dNVR c) n.pVariables,
        "co=" ++ dList dNVF n.constants, "ex=" ++ dList (dNVX c) n.expressions, "fto=" ++ dX c n.formulaTo,
        "ffr=" ++ dX c n.formulaFrom, "pval=" ++ dR c n.pValue, "un=" ++ dOS n.unit,
        "rep=" ++ dFloatRepr n.representation, "dno=" ++ dDisplayNotation n.displayNotation,
        "dpr=" ++ dInt n.displayPrecision, "sl=" ++ dSlope n.slope, "lin=" ++ dB n.isLinear]
    | .intConverter n => [dBase c n.attr n.elem n.streamable, "pv=" ++ dList (dNVR c) n.pVariables,
        "co=" ++ dList dNVI n.constants, "ex=" ++ dList (dNVX c) n.expressions, "fto=" ++ dX c n.formulaTo,
        "ffr=" ++ dX c n.formulaFrom, "pval=" ++ dR c n.pValue, "un=" ++ dOS n.unit,
        "rep=" ++ dIntRepr n.representation, "sl=" ++ dSlope n.slope]
    | .swissKnife n => [dBase c n.attr n.elem n.streamable, "pv=" ++ dList (dNVR c) n.pVariables,
        "co=" ++ dList dNVF n.constants, "ex=" ++ dList (dNVX c) n.expressions, "f=" ++ dX c n.formula,
        "un=" ++ dOS n.unit, "rep=" ++ dFloatRepr n.representation,
        "dno=" ++ dDisplayNotation n.displayNotation, "dpr=" ++ dInt n.displayPrecision]
    | .intSwissKnife n => [dBase c n.attr n.elem n.streamable, "pv=" ++ dList (dNVR c) n.pVariables,
        "co=" ++ dList dNVI n.constants, "ex=" ++ dList (dNVX c) n.expressions, "f=" ++ dX c n.formula,
        "un=" ++ dOS n.unit, "rep=" ++ dIntRepr n.representation]
  kindName d ++ "{" ++ ";".intercalate body ++ "}"

def dRD (rd : RegisterDescription) : String :=
  ";".intercalate [
    "mn=" ++ dS rd.modelName, "vn=" ++ dS rd.vendorName, "tt=" ++ dOS rd.tooltip,
    "sns=" ++ dStdNameSpace rd.standardNameSpace,
    s!"sv={rd.schemaMajor}.{rd.schemaMinor}.{rd.schemaSubMinor}",
    s!"v={rd.major}.{rd.minor}.{rd.subMinor}", "pg=" ++ dS rd.productGuid, "vg=" ++ dS rd.versionGuid]

/-- nodes in `visit_nodes` order = ascending id -/
def sortedNodes (st : St F64) : List (Nat × NodeData F64) :=
  st.nodes.mergeSort (fun a b => a.1 ≤ b.1)

def ipIds : ImmOrP Nat → List Nat
  | .imm v => [v]
  | .pnode _ => []

def vkIds : ValueKind Nat → List Nat
  | .value v => [v]
  | .pValue _ => []
  | .pIndex p => (p.valueIndexed.flatMap fun vi => ipIds vi.indexed) ++ ipIds p.valueDefault

/-- value-store ids of the immediates of a node, in the order `dNode` prints them -/
def immIds : NodeData F64 → List Nat
  | .integer n => vkIds n.valueKind ++ ipIds n.min ++ ipIds n.max
  | .float n => vkIds n.valueKind ++ ipIds n.min ++ ipIds n.max
  | .boolean n => ipIds n.value
  | .command n => ipIds n.value ++ ipIds n.commandValue
  | .enumeration n => ipIds n.value
  | .string n => ipIds n.value
  | _ => []

def dCell : Value F64 → String
  | .int i => "i" ++ dInt i
  | .float f => "f" ++ dFB f
  | .str s => "s" ++ dS s
  | .bool b => "b" ++ dB b

def dLook (st : St F64) (name : Str) : String :=
  dS name ++ ":" ++
    match findName name st.names with
    | none => "?"
    | some id =>
      match st.nodes.find? (fun x => x.1 == id) with
      | some (_, d) => kindName d
      | none => "-"

def dDoc (rd : RegisterDescription) (st : St F64) (formulas : List (Str × String))
    (looks : List Str) : String :=
  let c : Ctx := ⟨st, formulas⟩
  "ok rd{" ++ dRD rd ++ "} nodes[" ++ "|".intercalate ((sortedNodes st).map fun x => dNode c x.2) ++
  "] inval[" ++ ",".intercalate (st.invals.map fun x => dR c x.1 ++ ">" ++ dR c x.2) ++
  "] look[" ++ ",".intercalate (looks.map (dLook st)) ++
  let raw := (sortedNodes st).flatMap fun x => immIds x.2
  -- first-use order of the cells; ids renumbered by first use (a pure renumbering of the cells
  -- does not show, two immediates sharing a cell do)
  let order := raw.foldl (fun acc i => if acc.contains i then acc else acc ++ [i]) []
  let cells := order.map fun i => match st.values[i]? with | some v => dCell v | none => "!"
  "] store[" ++ ",".intercalate (cells ++ [s!"n={st.values.length}"]) ++
  "] imm[" ++ ",".intercalate (raw.map fun i => toString (order.idxOf i)) ++ "]"

def takeLooks : Nat → List String → Option (List Str × List String)
  | 0, ts => some ([], ts)
  | n + 1, h :: ts =>
    match hexToStr h, takeLooks n ts with
    | some s, some (ls, r) => some (s :: ls, r)
    | _, _ => none
  | _, _ => none

def takeFormulas : Nat → List String → Option (List (Str × String) × List String)
  | 0, ts => some ([], ts)
  | n + 1, h :: d :: ts =>
    match hexToStr h, takeFormulas n ts with
    | some s, some (ls, r) => some ((s, d) :: ls, r)
    | _, _ => none
  | _, _ => none

def handleDoc (pr : Profile) (formulas : List (Str × String)) (looks : List Str) (root : Elem) :
    String :=
  letI : FloatLit F64 := floatLit formulas
  match (parseDocument pr root : R (RegisterDescription × St F64)) with
  | .ok (rd, st) => dDoc rd st formulas looks
  | .err _ => "err"
  | .panic => "panic"

def handle : List String → String
  | "doc" :: p :: nform :: rest =>
    match profileOf p, nform.toNat? with
    | some pr, some nf =>
      match takeFormulas nf rest with
      | some (formulas, nlook :: rest) =>
        match nlook.toNat? with
        | some nl =>
          match takeLooks nl rest with
          | some (looks, ts) =>
            match decTree (ts.length + 1) ts with
            | some (root, []) => handleDoc pr formulas looks root
            | _ => "bad-tree"
          | none => "bad-looks"
        | none => "bad-op"
      | _ => "bad-formulas"
    | _, _ => "bad-op"
  | ["alpha", lo, hi] =>
    -- the code points of [lo, hi] the model takes as alphabetic, as ranges "a-b,c-d"
    match lo.toNat?, hi.toNat? with
    | some lo, some hi =>
      let isA (n : Nat) : Bool := (n < 128 && (Char.ofNat n).isAlpha) || uniAlpha n
      let rec go (fuel n : Nat) (start : Option Nat) (acc : List String) : List String :=
        match fuel with
        | 0 => acc
        | fuel + 1 =>
          if n > hi then
            match start with
            | some a => (s!"{a}-{n - 1}") :: acc
            | none => acc
          else if isA n then go fuel (n + 1) (some (start.getD n)) acc
          else match start with
            | some a => go fuel (n + 1) none ((s!"{a}-{n - 1}") :: acc)
            | none => go fuel (n + 1) none acc
      ",".intercalate (go (hi - lo + 2) lo none []).reverse
    | _, _ => "bad-op"
  | ["f64", h] =>
    match hexToStr h with
    | some s => match parseF64Bits s with
      | some b => natToHex 16 b.toNat
      | none => "none"
    | none => "bad-op"
  | _ => "bad-op"

end Driver.C17

def main : IO Unit := Driver.runLoop fun
  | "c17" :: rest => Driver.C17.handle rest
  | _ => "bad-op"
