/-
C07 driver: the control-handle model (`Model/Control.lean`) running against an ARBITRARY
device given as a script (what the transport answered to each call of the real run, in
order).  If the model makes the same calls it gets the same answers; any divergence shows
in the result, the wire digest (sent bytes, receive-buffer sizes) or as `desync`.

  c07 new <profile>
  c07 retry <n>
  c07 script <item>*        items:  S- | S!<Err>   send result
                                    R=<hex> | R!<Err>   receive result
                                    C- | C!<Err>   control request result
  c07 open | close | disable        (disable = disable_streaming)
  c07 read <addr> <n>
  c07 write <addr> <n> <patseed>
-/
import Driver.Control
import CamVerif.Model.ControlStream
namespace Driver.C07
open CamVerif CamVerif.Control CamVerif.Wire Driver Driver.Ctl

inductive Item where
  | sendRes (e : Option UsbErr)
  | recvRes (r : Except UsbErr Bytes)
  | ctlRes (e : Option UsbErr)

structure Replay where
  script : List Item
  desync : Bool

/-- the scripted (arbitrary) device -/
def replayDev : Dev Replay where
  send st _ :=
    match st.script with
    | .sendRes e :: rest => ({ st with script := rest }, e)
    | _ => ({ st with desync := true, script := [] }, some .other)
  recv st _ :=
    match st.script with
    | .recvRes r :: rest => ({ st with script := rest }, r)
    | _ => ({ st with desync := true, script := [] }, .error .other)
  ctl st _ :=
    match st.script with
    | .ctlRes e :: rest => ({ st with script := rest }, e)
    | _ => ({ st with desync := true, script := [] }, some .other)

structure Sess where
  p : Profile
  st : St Replay
  caches : Caches := Caches.empty

def parseItem (s : String) : Option Item :=
  let cs := s.toList
  match cs with
  | 'S' :: '-' :: [] => some (.sendRes none)
  | 'S' :: '!' :: e => (usbErrOf (String.ofList e)).map (fun e => .sendRes (some e))
  | 'C' :: '-' :: [] => some (.ctlRes none)
  | 'C' :: '!' :: e => (usbErrOf (String.ofList e)).map (fun e => .ctlRes (some e))
  | 'R' :: '!' :: e => (usbErrOf (String.ofList e)).map (fun e => .recvRes (.error e))
  | 'R' :: '=' :: h => (hexToBytes (String.ofList h)).map (fun b => .recvRes (.ok b))
  | _ => none

def parseScript (ts : List String) : Option (List Item) :=
  ts.foldr (fun t acc => do let a ← acc; let i ← parseItem t; pure (i :: a)) (some [])

def finish {α} (s : Sess) (out : Out Replay α) (f : α → String) : Sess × String :=
  let (st, r) := out
  let ls := logStat st.logRev
  ({ s with st := { st with logRev := [], d := { script := [], desync := false } } },
   s!"{showR f r} | {ls.show} left={st.d.script.length} desync={st.d.desync}")

def handle (os : Option Sess) (toks : List String) : Option Sess × String :=
  match os, toks with
  | _, ["new", p] =>
    match profileOf p with
    | some p => (some { p := p, st := ⟨Handle.new, ⟨[], false⟩, []⟩ }, "ok")
    | none => (os, "bad-op")
  | some s, ["retry", n] =>
    match n.toNat? with
    | some n =>
      (some { s with st := { s.st with h := { s.st.h with cfg := { s.st.h.cfg with retry := n } } } }, "ok")
    | none => (os, "bad-op")
  | some s, "script" :: items =>
    match parseScript items with
    | some sc => (some { s with st := { s.st with d := ⟨sc, false⟩ } }, "ok")
    | none => (os, "bad-op")
  | some s, ["open"] =>
    let (s, a) := finish s («open» replayDev s.p s.st) (fun _ => "ok")
    (some s, a)
  | some s, ["disable"] =>
    let (st, c, r) := disableStreaming replayDev s.p s.st s.caches
    let (s, a) := finish { s with caches := c } (st, r) (fun _ => "ok")
    (some s, a)
  | some s, ["close"] =>
    let (s, a) := finish s (close replayDev s.st) (fun _ => "ok")
    (some s, a)
  | some s, ["read", a, n] =>
    match a.toNat?, n.toNat? with
    | some a, some n =>
      let (s, ans) := finish s (read replayDev s.p s.st a n) (fun d => "ok " ++ dataDigest d)
      (some s, ans)
    | _, _ => (os, "bad-op")
  | some s, ["write", a, n, seed] =>
    match a.toNat?, n.toNat?, seed.toNat? with
    | some a, some n, some seed =>
      let (s, ans) := finish s (write replayDev s.p s.st a (dataPattern n seed)) (fun _ => "ok")
      (some s, ans)
    | _, _, _ => (os, "bad-op")
  | _, _ => (os, "bad-op")

end Driver.C07

def main : IO Unit := Driver.Ctl.runLoopState (none : Option Driver.C07.Sess) fun st toks =>
  -- tokens starting with '#' are comments (the harness tags requests with the fault plan)
  match toks.filter (fun t => !t.startsWith "#") with
  | "c07" :: rest => Driver.C07.handle st rest
  | _ => (st, "bad-op")
