import CamVerif.Model.Ack
import CamVerif.Spec.GenCPAck
import Driver.Util
namespace Driver.C08
open CamVerif CamVerif.Ack CamVerif.Wire Driver

def errName : Err → String
  | .invalidPacket => "InvalidPacket"
  | .bufferIo => "BufferIo"

def gencpName : GenCpStatus → String
  | .success => "Success" | .notImplemented => "NotImplemented"
  | .invalidParameter => "InvalidParameter" | .invalidAddress => "InvalidAddress"
  | .writeProtect => "WriteProtect" | .badAlignment => "BadAlignment"
  | .accessDenied => "AccessDenied" | .busy => "Busy" | .timeout => "Timeout"
  | .invalidHeader => "InvalidHeader" | .wrongConfig => "WrongConfig"
  | .genericError => "GenericError"

def usbName : UsbSpecificStatus → String
  | .resendNotSupported => "ResendNotSupported" | .streamEndpointHalted => "StreamEndpointHalted"
  | .payloadSizeNotAligned => "PayloadSizeNotAligned" | .eventEndpointHalted => "EventEndpointHalted"
  | .invalidSiState => "InvalidSiState"

/-- Rust `{:?}` of `StatusKind` -/
def kindName : StatusKind → String
  | .genCp s => s!"GenCp({gencpName s})"
  | .usbSpecific s => s!"UsbSpecific({usbName s})"
  | .deviceSpecific => "DeviceSpecific"

def scdKindName : ScdKind → String
  | .readMem => "ReadMem" | .writeMem => "WriteMem" | .readMemStacked => "ReadMemStacked"
  | .writeMemStacked => "WriteMemStacked" | .pending => "Pending"

def b (x : Bool) : String := if x then "1" else "0"

def view {α} (f : α → String) : R α → String
  | .ok a => "ok:" ++ f a
  | .err e => "err:" ++ errName e
  | .panic => "panic"

def hashHex (h : UInt64) : String := natToHex 16 h.toNat

def showData (off : Nat) (d : Bytes) : String :=
  s!"{off}:{d.length}:{hashHex (fnvBytes fnvInit d)}"

def showAck (p : Profile) (bs : Bytes) : String :=
  match AckPacket.parse p bs with
  | .panic => "panic"
  | .err e => "err " ++ errName e
  | .ok pk =>
    let c := pk.ccd
    let head := s!"ok code={c.status.code} kind={kindName c.status.kind} fatal={b c.status.isFatal} success={b c.status.isSuccess} scd={scdKindName c.scdKind} id={c.requestId} len={c.scdLen} raw={showData pk.rawOff pk.rawScd}"
    let rm := view (showData pk.rawOff) (ReadMem.parse pk.rawScd c)
    let wm := view toString (WriteMem.parse pk.rawScd c)
    let pe := view toString (Pending.parse pk.rawScd c)
    let rs := view (showData pk.rawOff) (ReadMemStacked.parse pk.rawScd c)
    let ws := view (fun ls => s!"{ls.length}:{hashHex (ls.foldl fnvNat fnvInit)}")
      (WriteMemStacked.parse p pk.rawScd c)
    s!"{head} | rm={rm} wm={wm} pe={pe} rs={rs} ws={ws}"

def showEvent (bs : Bytes) : String :=
  match EventPacket.parse bs with
  | .panic => "panic"
  | .err e => "err " ++ errName e
  | .ok pk =>
    let h := pk.scd.foldl (fun h e =>
      fnvBytes (fnvNat (fnvNat (fnvNat (fnvNat (fnvNat h e.eventSize) e.eventId) e.timestamp)
        e.dataOff) e.data.length) e.data) fnvInit
    let show1 (e : EventScd) := s!"{e.eventSize}:{e.eventId}:{e.timestamp}:{e.dataOff}:{e.data.length}"
    let first := match pk.scd.head? with | some e => show1 e | none => "-"
    let last := match pk.scd.getLast? with | some e => show1 e | none => "-"
    s!"ok id={pk.ccd.requestId} n={pk.scd.length} first={first} last={last} h={hashHex h}"

/-- deterministic payload pattern shared with the harness -/
def pattern (len seed : Nat) : Bytes :=
  (List.range len).map fun i => UInt8.ofNat ((i * 7 + seed * 13 + 3) % 256)

def handle : List String → String
  | [p, "ack", hx] =>
    match profileOf p, hexToBytes hx with
    | some p, some bs => showAck p bs
    | _, _ => "bad-op"
  -- acknowledge built from fields: magic | code | kind id | scd_len | request id | scd
  | [p, "ackf", code, kind, len, id, scd] =>
    match profileOf p, code.toNat?, kind.toNat?, len.toNat?, id.toNat?, hexToBytes scd with
    | some p, some code, some kind, some len, some id, some scd =>
      if code < 65536 ∧ kind < 65536 ∧ len < 65536 ∧ id < 65536 then
        showAck p (toLE 4 0x43563355 ++ toLE 2 code ++ toLE 2 kind ++ toLE 2 len ++ toLE 2 id ++ scd)
      else "bad-op"
    | _, _, _, _, _, _ => "bad-op"
  -- same with a pattern SCD of `n` bytes
  | [p, "ackp", code, kind, len, id, n, seed] =>
    match profileOf p, code.toNat?, kind.toNat?, len.toNat?, id.toNat?, n.toNat?, seed.toNat? with
    | some p, some code, some kind, some len, some id, some n, some seed =>
      if code < 65536 ∧ kind < 65536 ∧ len < 65536 ∧ id < 65536 then
        showAck p (toLE 4 0x43563355 ++ toLE 2 code ++ toLE 2 kind ++ toLE 2 len ++ toLE 2 id
          ++ pattern n seed)
      else "bad-op"
    | _, _, _, _, _, _, _ => "bad-op"
  | [p, "event", hx] =>
    match profileOf p, hexToBytes hx with
    | some _, some bs => showEvent bs
    | _, _ => "bad-op"
  -- the reference encoder (Spec.GenCPAck), so that the harness' conforming generator and
  -- the encoder the theorems speak about are compared byte for byte
  | [_, "enc-ack", code, cmd, req, scd] =>
    match code.toNat?, cmd.toNat?, req.toNat?, hexToBytes scd with
    | some code, some cmd, some req, some scd =>
      bytesToHex (Spec.GenCPAck.encodeAck code cmd req scd)
    | _, _, _, _ => "bad-op"
  | _ :: "enc-event" :: flag :: req :: single :: evs =>
    let parseEv (tok : String) : Option Spec.GenCPAck.Event :=
      match tok.splitOn ":" with
      | [id, ts, d] => do
        let id ← id.toNat?
        let ts ← ts.toNat?
        let d ← hexToBytes d
        pure ⟨id, ts, d⟩
      | _ => none
    let rec all : List String → Option (List Spec.GenCPAck.Event)
      | [] => some []
      | t :: r => do let e ← parseEv t; let es ← all r; pure (e :: es)
    match flag.toNat?, req.toNat?, all evs with
    | some flag, some req, some evs =>
      let (multi, last) :=
        if single == "1" then (evs.dropLast, evs.getLast?) else (evs, none)
      bytesToHex (Spec.GenCPAck.encodeEventPacket flag req (Spec.GenCPAck.encodeEvents multi last))
    | _, _, _ => "bad-op"
  | _ => "bad-op"

end Driver.C08

def main : IO Unit := Driver.runLoop fun
  | "c08" :: rest => Driver.C08.handle rest
  | _ => "bad-op"
