/-
Shared line-protocol driver of C03 / C18: instantiates the parametric interpreter
`CamVerif.GenApi` with Lean's `Float`, the register codecs of `CamVerif.Reg` (C01),
the formula parser / evaluator of `CamVerif.Formula` (C05) and a `BitMask` arithmetic
for the defect-free mask domain; holds one graph + state at a time.

Protocol (one answer per line):
  begin <dev|release>                      reset                          -> ok
  slot <id> i <int> | f <hex16> | s <hex>  value-store slot (ids ascending) -> ok
  node <id> <Kind> <fields…>               stored node                    -> ok
  nancfg <LRLRL> <QKQKQ> <6 x hex16>             host NaN conventions (calibrated by the harness) -> ok
  dev <hexmem> <roLo> <roHi>               device image                   -> ok
  op <name> <node> [arg]                   interface call    -> ok … | err V | panic, then
                                           ` L<log length>:<running log digest> M<image digest>`
  end                                      whole device image + log digest
-/
import CamVerif.Model.GenApi
import CamVerif.Spec.GenApiSem
import CamVerif.Model.Reg
import CamVerif.Model.BitMask
import CamVerif.Model.Formula
import Driver.C05Float
import Driver.Util
namespace Driver.GenApi
open CamVerif CamVerif.GenApi CamVerif.Wire Driver Driver.C05

/-! ### Floats are carried as raw IEEE-754 bit patterns

Lean's `Float.toBits` canonicalises NaNs while Rust's `to_bits` / `to_le_bytes` do not, so a
NaN read from a register and written to another one (or produced by formula arithmetic
and written to a register) must keep its payload.  Non-NaN arithmetic goes through Lean's
`Float` (the host FPU, bit exact); NaN results follow the x86-64 SSE2 rules: an operation
with a NaN operand returns that operand quieted; an invalid operation returns a default
NaN.  Two facts depend on the compiled code rather than on IEEE-754 and are calibrated by
the harness from the real implementation at start-up (`nancfg` line): which operand wins
when both are NaNs (the compiler may commute), and the bit pattern of the default NaN of
each operation. -/

structure FB where
  bits : UInt64
  deriving Inhabited

structure NanCfg where
  /-- both operands NaN: the left one wins (per operator + - * / %) -/
  lhsAdd : Bool := true
  lhsSub : Bool := true
  lhsMul : Bool := true
  lhsDiv : Bool := true
  lhsRem : Bool := true
  /-- default NaN of an invalid operation (per operator, and for SQRT) -/
  invAdd : UInt64 := 0xfff8000000000000
  invSub : UInt64 := 0xfff8000000000000
  invMul : UInt64 := 0xfff8000000000000
  invDiv : UInt64 := 0xfff8000000000000
  invRem : UInt64 := 0xfff8000000000000
  invSqrt : UInt64 := 0xfff8000000000000
  /-- unary functions quiet a signalling NaN operand (else return it unchanged) -/
  qFloor : Bool := true
  qCeil : Bool := true
  qRound : Bool := true
  qTrunc : Bool := true
  qSqrt : Bool := true
  deriving Inhabited

namespace FB
def fl (a : FB) : Float := Float.ofBits a.bits
def isNaN (a : FB) : Bool := (a.bits.toNat / 2 ^ 52) % 2 ^ 11 == 2047 && a.bits.toNat % 2 ^ 52 != 0
def quiet (a : FB) : FB := ⟨a.bits ||| 0x0008000000000000⟩
/-- bits of a `Float` known not to be NaN -/
def ofFloat (x : Float) (inv : UInt64) : FB := if x.isNaN then ⟨inv⟩ else ⟨x.toBits⟩

def bin (lhsWins : Bool) (inv : UInt64) (f : Float → Float → Float) (a b : FB) : FB :=
  if a.isNaN && b.isNaN then (if lhsWins then a.quiet else b.quiet)
  else if a.isNaN then a.quiet
  else if b.isNaN then b.quiet
  else ofFloat (f a.fl b.fl) inv

def un (inv : UInt64) (f : Float → Float) (a : FB) (q : Bool := true) : FB :=
  if a.isNaN then (if q then a.quiet else a) else ofFloat (f a.fl) inv
end FB

def F0 : Formula.FloatOps Float := inferInstance

def fbInst (c : NanCfg) : Formula.FloatOps FB where
  add := FB.bin c.lhsAdd c.invAdd F0.add
  sub := FB.bin c.lhsSub c.invSub F0.sub
  mul := FB.bin c.lhsMul c.invMul F0.mul
  div := FB.bin c.lhsDiv c.invDiv F0.div
  rem := FB.bin c.lhsRem c.invRem F0.rem
  powf := FB.bin true 0xfff8000000000000 F0.powf
  ofInt i := ⟨(F0.ofInt i).toBits⟩
  toInt f := F0.toInt f.fl
  feq a b := F0.feq a.fl b.fl
  flt a b := F0.flt a.fl b.fl
  fle a b := F0.fle a.fl b.fl
  neg a := ⟨a.bits ^^^ 0x8000000000000000⟩        -- `fneg`: sign flip, also on NaNs
  abs a := ⟨a.bits &&& 0x7fffffffffffffff⟩        -- `fabs`: sign clear, also on NaNs
  sin := FB.un 0xfff8000000000000 F0.sin
  cos := FB.un 0xfff8000000000000 F0.cos
  tan := FB.un 0xfff8000000000000 F0.tan
  asin := FB.un 0xfff8000000000000 F0.asin
  acos := FB.un 0xfff8000000000000 F0.acos
  atan := FB.un 0xfff8000000000000 F0.atan
  exp := FB.un 0xfff8000000000000 F0.exp
  ln := FB.un 0xfff8000000000000 F0.ln
  log10 := FB.un 0xfff8000000000000 F0.log10
  sqrt a := FB.un c.invSqrt F0.sqrt a c.qSqrt
  trunc a := FB.un 0xfff8000000000000 F0.trunc a c.qTrunc
  floor a := FB.un 0xfff8000000000000 F0.floor a c.qFloor
  ceil a := FB.un 0xfff8000000000000 F0.ceil a c.qCeil
  round a := FB.un 0xfff8000000000000 F0.round a c.qRound
  ofDec m k := ⟨(F0.ofDec m k).toBits⟩
  pi := ⟨F0.pi.toBits⟩
  e := ⟨F0.e.toBits⟩

/-- f64 ↔ f32 conversions on bit patterns (NaN rule of the SSE `cvtsd2ss` / `cvtss2sd`:
keep sign, quiet, keep the top payload bits), as in `Driver/C01.lean` -/
def isNaN32 (b : Nat) : Bool := (b / 2 ^ 23) % 2 ^ 8 == 255 && b % 2 ^ 23 != 0

def narrow (a : FB) : BitVec 32 :=
  if a.isNaN then
    let n := a.bits.toNat
    BitVec.ofNat 32 ((n / 2 ^ 63) * 2 ^ 31 + 0x7fc00000 + ((n % 2 ^ 52) / 2 ^ 29) % 2 ^ 22)
  else BitVec.ofNat 32 a.fl.toFloat32.toBits.toNat

def widen (b : BitVec 32) : FB :=
  if isNaN32 b.toNat then
    let n := b.toNat
    ⟨UInt64.ofNat ((n / 2 ^ 31) * 2 ^ 63 + 0x7ff8000000000000 + ((n % 2 ^ 23) % 2 ^ 22) * 2 ^ 29)⟩
  else ⟨(Float32.ofBits (UInt32.ofNat b.toNat)).toFloat.toBits⟩

instance : Reg.FloatOps FB where
  toBits x := BitVec.ofNat 64 x.bits.toNat
  ofBits b := ⟨UInt64.ofNat b.toNat⟩
  narrowBits32 := narrow
  widenBits32 := widen

/-! ### `String::from_utf8_lossy` (std `Utf8Chunks`): every maximal ill-formed prefix
becomes U+FFFD -/

def isCont (b : Option UInt8) : Bool :=
  match b with
  | some b => b.toNat / 64 == 2
  | none => false

def inR (b : Option UInt8) (lo hi : Nat) : Bool :=
  match b with
  | some b => lo ≤ b.toNat && b.toNat ≤ hi
  | none => false

/-- number of bytes of the well-formed scalar at the head (`some n`), or the length of the
ill-formed prefix to replace (`none, k`) -/
def utf8Step (bs : Bytes) : Bool × Nat :=
  match bs with
  | [] => (true, 0)
  | b :: rest =>
    let x := b.toNat
    let b1 := rest.head?
    let b2 := (rest.drop 1).head?
    let b3 := (rest.drop 2).head?
    if x < 128 then (true, 1)
    else if 0xC2 ≤ x && x ≤ 0xDF then
      if isCont b1 then (true, 2) else (false, 1)
    else if 0xE0 ≤ x && x ≤ 0xEF then
      let ok1 := (x == 0xE0 && inR b1 0xA0 0xBF) || (0xE1 ≤ x && x ≤ 0xEC && inR b1 0x80 0xBF)
        || (x == 0xED && inR b1 0x80 0x9F) || (0xEE ≤ x && x ≤ 0xEF && inR b1 0x80 0xBF)
      if !ok1 then (false, 1)
      else if !isCont b2 then (false, 2)
      else (true, 3)
    else if 0xF0 ≤ x && x ≤ 0xF4 then
      let ok1 := (x == 0xF0 && inR b1 0x90 0xBF) || (0xF1 ≤ x && x ≤ 0xF3 && inR b1 0x80 0xBF)
        || (x == 0xF4 && inR b1 0x80 0x8F)
      if !ok1 then (false, 1)
      else if !isCont b2 then (false, 2)
      else if !isCont b3 then (false, 3)
      else (true, 4)
    else (false, 1)

def lossyAux : Nat → Bytes → Bytes
  | 0, _ => []
  | fuel + 1, bs =>
    match bs with
    | [] => []
    | _ =>
      let (ok, n) := utf8Step bs
      let n := if n == 0 then 1 else n
      if ok then bs.take n ++ lossyAux fuel (bs.drop n)
      else [0xEF, 0xBF, 0xBD] ++ lossyAux fuel (bs.drop n)

def lossy (bs : Bytes) : Bytes := lossyAux (bs.length + 1) bs

/-! ### `BitMask` arithmetic: `CamVerif.BitMask` (C02), full domain -/

def u64 (x : Int) : Nat := (x % 2 ^ 64).toNat

def bMask : BitMask → CamVerif.BitMask.BitMask
  | .single b => .singleBit (BitVec.ofNat 64 b)
  | .range l h => .range (BitVec.ofNat 64 l) (BitVec.ofNat 64 h)

/-! ### The `Ops` instance -/

abbrev Ex := Formula.Expr FB

def regErr : Reg.Err → Err
  | .device => .device
  | .notWritable => .notWritable
  | .invalidNode => .invalidNode
  | .invalidData => .invalidData
  | .chunkDataMissing => .chunkDataMissing
  | .invalidBuffer => .invalidBuffer

def mapRes {α β ε ε'} (f : α → β) (g : ε → ε') : Res ε α → Res ε' β
  | .ok a => .ok (f a)
  | .err e => .err (g e)
  | .panic => .panic

def rEndian : Endian → Reg.Endianness
  | .le => .le
  | .be => .be
def rSign : Sign → Reg.Sign
  | .signed => .signed
  | .unsigned => .unsigned

def formulaErr : Formula.Err → Res Err (EvalResult FB)
  | .invalidNode => .err .invalidNode
  | .invalidData => .err .invalidData
  | .fuel => .err .outOfFuel
  | .nonAscii => .panic

def evalFormula (c : NanCfg) (p : Profile) (env : String → Option Ex) (e : Ex) : Res Err (EvalResult FB) :=
  match @Formula.evalX FB (fbInst c) p env 64 e with
  | .ok (.int i) => .ok (.int i.toInt)
  | .ok (.float f) => .ok (.float f)
  | .err e => formulaErr e
  | .panic => .panic

def ops (c : NanCfg) : Ops FB Ex where
  i2f i := ⟨(Int64.ofInt i).toFloat.toBits⟩
  f2i f := f.fl.toInt64.toInt
  fNonZero f := !(f.fl == 0.0)
  fMin := ⟨0xffefffffffffffff⟩
  fMax := ⟨0x7fefffffffffffff⟩
  intFromSlice bs e s := mapRes (·.toInt) regErr (Reg.intFromSlice bs (rEndian e) (rSign s))
  bytesFromInt v n e s := mapRes id regErr (Reg.bytesFromInt (BitVec.ofInt 64 v) n (rEndian e) (rSign s))
  floatFromSlice bs e := mapRes id regErr (Reg.floatFromSlice bs (rEndian e))
  bytesFromFloat f n e := mapRes id regErr (Reg.bytesFromFloat f n (rEndian e))
  strDecode := lossy
  applyMask p m v len e s := mapRes (·.toInt) regErr
    (CamVerif.BitMask.BitMask.applyMask p (bMask m) (BitVec.ofInt 64 v) (BitVec.ofNat 64 len) (rEndian e) (rSign s))
  maskedValue p m old v len e s := mapRes (·.toInt) regErr
    (CamVerif.BitMask.BitMask.maskedValue p (bMask m) (BitVec.ofInt 64 old) (BitVec.ofInt 64 v)
      (BitVec.ofNat 64 len) (rEndian e) (rSign s))
  maskMin p m len e s := mapRes (·.toInt) regErr
    (CamVerif.BitMask.BitMask.min p (bMask m) (BitVec.ofNat 64 len) (rEndian e) (rSign s))
  maskMax p m len e s := mapRes (·.toInt) regErr
    (CamVerif.BitMask.BitMask.max p (bMask m) (BitVec.ofNat 64 len) (rEndian e) (rSign s))
  exprOfInt i := .int (BitVec.ofInt 64 i)
  exprOfFloat f := .float f
  eval := evalFormula c

/-! ### Parsing the graph description -/

def pNat (s : String) : Option Nat := s.toNat?
def pInt (s : String) : Option Int := s.toInt?
def pFloat (s : String) : Option FB := (hexToNat s).map fun n => ⟨UInt64.ofNat n⟩
def pOptNode (s : String) : Option (Option NodeId) := if s == "-" then some none else (pNat s).map some
def pAM (s : String) : Option AccessMode :=
  if s == "RO" then some .ro else if s == "WO" then some .wo else if s == "RW" then some .rw else none
def pEndian (s : String) : Option Endian :=
  if s == "LE" then some .le else if s == "BE" then some .be else none
def pSign (s : String) : Option Sign :=
  if s == "S" then some .signed else if s == "U" then some .unsigned else none
def pNodeList (s : String) : Option (List NodeId) :=
  if s == "-" then some [] else (s.splitOn ",").mapM pNat

def pBase : List String → Option (Base × List String)
  | i :: a :: l :: m :: rest => do
    let i ← pOptNode i; let a ← pOptNode a; let l ← pOptNode l; let m ← pAM m
    pure (⟨i, a, l, m⟩, rest)
  | _ => none

/-- `i<int>` | `n<id>` -/
def pIon (s : String) : Option (ImmOrPNode Int) :=
  match s.toList with
  | 'i' :: r => (pInt (String.ofList r)).map .imm
  | 'n' :: r => (pNat (String.ofList r)).map .pnode
  | _ => none
/-- `f<hex16>` | `n<id>` -/
def pIonF (s : String) : Option (ImmOrPNode FB) :=
  match s.toList with
  | 'f' :: r => (pFloat (String.ofList r)).map .imm
  | 'n' :: r => (pNat (String.ofList r)).map .pnode
  | _ => none
/-- `s<slot>` | `n<id>` -/
def pSon (s : String) : Option (ImmOrPNode SlotId) :=
  match s.toList with
  | 's' :: r => (pNat (String.ofList r)).map .imm
  | 'n' :: r => (pNat (String.ofList r)).map .pnode
  | _ => none

def pEntry (e : String) : Option (Int × ImmOrPNode SlotId) :=
  match e.splitOn ":" with
  | [i, v] => do
    let i ← pInt i
    let v ← pSon v
    pure (i, v)
  | _ => none

/-- `V<slot>` | `P<nid>[,<copy>…]` | `X<sel>/<idx>:<son>,…/<son>` -/
def pVK (s : String) : Option ValueKind :=
  match s.toList with
  | 'V' :: r => (pNat (String.ofList r)).map .value
  | 'P' :: r => do
    let ids ← ((String.ofList r).splitOn ",").mapM pNat
    match ids with
    | p :: cs => pure (.pValue p cs)
    | [] => none
  | 'X' :: r =>
    match (String.ofList r).splitOn "/" with
    | [sel, ents, dflt] => do
      let sel ← pNat sel
      let dflt ← pSon dflt
      let ents ← if ents == "" then some [] else (ents.splitOn ",").mapM pEntry
      pure (.pIndex sel ents dflt)
    | _ => none
  | _ => none

/-- `-` | comma list of `A<ion>` | `K<nid>` | `I<sel>` | `I<sel>*<ion>` -/
def pAddrs (s : String) : Option (List AddressKind) :=
  if s == "-" then some [] else (s.splitOn ",").mapM fun a =>
    match a.toList with
    | 'A' :: r => (pIon (String.ofList r)).map .address
    | 'K' :: r => (pNat (String.ofList r)).map .intSwissKnife
    | 'I' :: r =>
      match (String.ofList r).splitOn "*" with
      | [sel] => (pNat sel).map fun s => .pIndex s none
      | [sel, off] => do let s ← pNat sel; let o ← pIon off; pure (.pIndex s (some o))
      | _ => none
    | _ => none

def pRegBase (ts : List String) : Option (RegBase × List String) := do
  let (b, ts) ← pBase ts
  match ts with
  | addrs :: len :: am :: port :: rest =>
    let addrs ← pAddrs addrs; let len ← pIon len; let am ← pAM am; let port ← pNat port
    pure (⟨b, addrs, len, am, port⟩, rest)
  | _ => none

def pMask (s : String) : Option BitMask :=
  match s.toList with
  | 'B' :: r => (pNat (String.ofList r)).map .single
  | 'R' :: r =>
    match (String.ofList r).splitOn ":" with
    | [l, h] => do let l ← pNat l; let h ← pNat h; pure (.range l h)
    | _ => none
  | _ => none

def hexStr (s : String) : Option String := do
  let bs ← hexToBytes s
  pure (String.ofList (bs.map fun b => Char.ofNat b.toNat))

def pFormula (s : String) : Option Ex := do
  let txt ← hexStr s
  match (@Formula.parse FB (fbInst {}) txt : Formula.R Ex) with
  | .ok e => some e
  | _ => none

def splitEq (s : String) : Option (String × String) :=
  match s.splitOn "=" with
  | [a, b] => some (a, b)
  | _ => none

def pList {α} (s : String) (f : String → String → Option α) : Option (List (String × α)) :=
  if s == "-" then some [] else (s.splitOn ";").mapM fun e => do
    let (k, v) ← splitEq e
    let v ← f k v
    pure (k, v)

def pNumLit (s : String) : Option (NumLit FB) :=
  match s.toList with
  | 'i' :: r => (pInt (String.ofList r)).map .int
  | 'f' :: r => (pFloat (String.ofList r)).map .float
  | _ => none

def pFormulaic : List String → Option (Formulaic FB Ex × List String)
  | vars :: consts :: exprs :: rest => do
    let vars ← pList vars fun _ v => pNat v
    let consts ← pList consts fun _ v => pNumLit v
    let exprs ← pList exprs fun _ v => pFormula v
    pure (⟨vars, consts, exprs⟩, rest)
  | _ => none

def pNode (kind : String) (ts : List String) : Option (Node FB Ex) :=
  match kind with
  | "Integer" => do
    let (b, ts) ← pBase ts
    match ts with
    | [vk, mn, mx, inc] =>
      let vk ← pVK vk; let mn ← pSon mn; let mx ← pSon mx; let inc ← pIon inc
      pure (.integer b vk mn mx inc)
    | _ => none
  | "IntReg" => do
    let (r, ts) ← pRegBase ts
    match ts with
    | [s, e] => let s ← pSign s; let e ← pEndian e; pure (.intReg r s e)
    | _ => none
  | "MaskedIntReg" => do
    let (r, ts) ← pRegBase ts
    match ts with
    | [m, s, e] => let m ← pMask m; let s ← pSign s; let e ← pEndian e; pure (.maskedIntReg r m s e)
    | _ => none
  | "Boolean" => do
    let (b, ts) ← pBase ts
    match ts with
    | [v, on, off] => let v ← pSon v; let on ← pInt on; let off ← pInt off; pure (.boolean b v on off)
    | _ => none
  | "Command" => do
    let (b, ts) ← pBase ts
    match ts with
    | [v, c] => let v ← pSon v; let c ← pSon c; pure (.command b v c)
    | _ => none
  | "Enumeration" => do
    let (b, ts) ← pBase ts
    match ts with
    | [es, v] => let es ← pNodeList es; let v ← pSon v; pure (.enumeration b es v)
    | _ => none
  | "EnumEntry" => do
    let (b, ts) ← pBase ts
    match ts with
    | [v, num, sym] =>
      let v ← pInt v
      let num ← if num == "-" then some none else (pFloat num).map some
      pure (.enumEntry b v num sym)
    | _ => none
  | "Float" => do
    let (b, ts) ← pBase ts
    match ts with
    | [vk, mn, mx, inc] =>
      let vk ← pVK vk; let mn ← pSon mn; let mx ← pSon mx
      let inc ← if inc == "-" then some none else (pIonF inc).map some
      pure (.float b vk mn mx inc)
    | _ => none
  | "FloatReg" => do
    let (r, ts) ← pRegBase ts
    match ts with
    | [e] => let e ← pEndian e; pure (.floatReg r e)
    | _ => none
  | "String" => do
    let (b, ts) ← pBase ts
    match ts with
    | [v] => let v ← pSon v; pure (.string b v)
    | _ => none
  | "StringReg" => do
    let (r, ts) ← pRegBase ts
    match ts with
    | [] => pure (.stringReg r)
    | _ => none
  | "Register" => do
    let (r, ts) ← pRegBase ts
    match ts with
    | [] => pure (.register r)
    | _ => none
  | "Converter" => do
    let (b, ts) ← pBase ts
    let (fm, ts) ← pFormulaic ts
    match ts with
    | [to, fr, pv] => let to ← pFormula to; let fr ← pFormula fr; let pv ← pNat pv
                      pure (.converter b fm to fr pv)
    | _ => none
  | "IntConverter" => do
    let (b, ts) ← pBase ts
    let (fm, ts) ← pFormulaic ts
    match ts with
    | [to, fr, pv] => let to ← pFormula to; let fr ← pFormula fr; let pv ← pNat pv
                      pure (.intConverter b fm to fr pv)
    | _ => none
  | "SwissKnife" => do
    let (b, ts) ← pBase ts
    let (fm, ts) ← pFormulaic ts
    match ts with
    | [f] => let f ← pFormula f; pure (.swissKnife b fm f)
    | _ => none
  | "IntSwissKnife" => do
    let (b, ts) ← pBase ts
    let (fm, ts) ← pFormulaic ts
    match ts with
    | [f] => let f ← pFormula f; pure (.intSwissKnife b fm f)
    | _ => none
  | "Port" => do
    let (b, ts) ← pBase ts
    match ts with
    | [c] => pure (.port b (c == "1"))
    | _ => none
  | "Category" => do
    let (b, ts) ← pBase ts
    match ts with
    | [fs] => let fs ← pNodeList fs; pure (.category b fs)
    | _ => none
  | "Node" => do
    let (b, ts) ← pBase ts
    match ts with
    | [] => pure (.node b)
    | _ => none
  | _ => none

def pReq : List String → Option (Req FB)
  | ["iv", n] => (pNat n).map .intValue
  | ["is", n, v] => do pure (.intSet (← pNat n) (← pInt v))
  | ["imin", n] => (pNat n).map .intMin
  | ["imax", n] => (pNat n).map .intMax
  | ["iinc", n] => (pNat n).map .intInc
  | ["ismin", n, v] => do pure (.intSetMin (← pNat n) (← pInt v))
  | ["ismax", n, v] => do pure (.intSetMax (← pNat n) (← pInt v))
  | ["fv", n] => (pNat n).map .floatValue
  | ["fs", n, v] => do pure (.floatSet (← pNat n) (← pFloat v))
  | ["fmin", n] => (pNat n).map .floatMin
  | ["fmax", n] => (pNat n).map .floatMax
  | ["finc", n] => (pNat n).map .floatInc
  | ["fsmin", n, v] => do pure (.floatSetMin (← pNat n) (← pFloat v))
  | ["fsmax", n, v] => do pure (.floatSetMax (← pNat n) (← pFloat v))
  | ["sv", n] => (pNat n).map .strValue
  | ["ss", n, v] => do pure (.strSet (← pNat n) (← hexToBytes v))
  | ["sml", n] => (pNat n).map .strMaxLength
  | ["bv", n] => (pNat n).map .boolValue
  | ["bs", n, v] => do pure (.boolSet (← pNat n) (v == "1"))
  | ["ecv", n] => (pNat n).map .enumCurrentValue
  | ["ece", n] => (pNat n).map .enumCurrentEntry
  | ["esv", n, v] => do pure (.enumSetByValue (← pNat n) (← pInt v))
  | ["esn", n, v] => do pure (.enumSetByName (← pNat n) v)
  | ["een", n] => (pNat n).map .enumEntries
  | ["cx", n] => (pNat n).map .cmdExecute
  | ["cd", n] => (pNat n).map .cmdIsDone
  | ["rr", n, l] => do pure (.regRead (← pNat n) (← pNat l))
  | ["rw", n, d] => do pure (.regWrite (← pNat n) (← hexToBytes d))
  | ["ra", n] => (pNat n).map .regAddress
  | ["rl", n] => (pNat n).map .regLength
  | ["rd", n] => (pNat n).map .isReadable
  | ["wr", n] => (pNat n).map .isWritable
  | ["imp", n] => (pNat n).map .isImplemented
  | ["av", n] => (pNat n).map .isAvailable
  | ["lk", n] => (pNat n).map .isLocked
  | _ => none

/-! ### Printing -/

def errName : Err → String
  | .device => "Device"
  | .notWritable => "NotWritable"
  | .invalidNode => "InvalidNode"
  | .invalidData => "InvalidData"
  | .chunkDataMissing => "ChunkDataMissing"
  | .invalidBuffer => "InvalidBuffer"
  | .outOfFuel => "MODEL-OUT-OF-FUEL"

def showFloat (f : FB) : String := "f:" ++ natToHex 16 f.bits.toNat

def showVal : Val FB → String
  | .unit => "ok"
  | .int i => s!"ok {i}"
  | .float f => "ok " ++ showFloat f
  | .bool b => if b then "ok true" else "ok false"
  | .str s => "ok s:" ++ bytesToHex s
  | .bytes b => "ok b:" ++ bytesToHex b
  | .node n => s!"ok n:{n}"
  | .nodes ns => "ok ns:" ++ (if ns.isEmpty then "-" else ",".intercalate (ns.map toString))
  | .optInt none => "ok none"
  | .optInt (some i) => s!"ok {i}"
  | .optFloat none => "ok none"
  | .optFloat (some f) => "ok " ++ showFloat f

def showRes : Res Err (Val FB) → String
  | .ok v => showVal v
  | .err e => "err " ++ errName e
  | .panic => "panic"

def fnvInt (h : UInt64) (i : Int) : UInt64 := fnvNat h (u64 i)

def fnvAccess (h : UInt64) : Access → UInt64
  | .read a l ok => fnvByte (fnvNat (fnvInt (fnvByte h 0) a) l) (if ok then 1 else 0)
  | .write a d ok => fnvBytes (fnvByte (fnvNat (fnvInt (fnvByte h 1) a) d.length) (if ok then 1 else 0)) d

/-! ### What of the access log is compared

Per call: the device WRITES in the order they were issued (fan-out order and the partial effect
of a failing write are clauses of C03), followed by the device READS as a sorted multiset (no
clause fixes the order in which independent sources - address elements, length, variables - are
evaluated).  The reads of a call that fails are not compared (which sources were consulted
before the failing one is not fixed either), nor are the reads of access queries (which
controlling nodes a query consults before it can answer is not fixed by C18). -/

def readKeyLe (a b : Access) : Bool :=
  match a, b with
  | .read a1 l1 o1, .read a2 l2 o2 =>
    a1 < a2 || (a1 == a2 && (l1 < l2 || (l1 == l2 && (!o1 || o2))))
  | _, _ => true

def isWriteAcc : Access → Bool
  | .write .. => true
  | _ => false

def canonAccesses (keepReads : Bool) (seg : List Access) : List Access :=
  seg.filter isWriteAcc ++ (if keepReads then (seg.filter (fun a => !isWriteAcc a)).mergeSort readKeyLe else [])

def isAccessQuery : Req FB → Bool
  | .isReadable _ | .isWritable _ | .isImplemented _ | .isAvailable _ | .isLocked _ => true
  | _ => false

/-- Answers of `is_readable` / `is_writable` are compared as "granted" / "not granted": a
refusal may be `false`, an error or a panic (which of them a query gives when one controlling
node says no and the evaluation of another fails or panics depends on the order of the conjuncts,
which C18 does not fix; a panic needs a malformed description - negative register length - or an
arithmetic overflow in a formula, both outside C18); such a panic does not end the case (read-class
calls cannot change the stores).  For the controller readings of enumeration entries the error
variant is not compared.
The implementation's error variants are judged by the harness against the expected classes.
The model-only `outOfFuel` stays visible. -/
def showAccessRes (req : Req FB) (r : Res Err (Val FB)) : String :=
  match req, r with
  | _, .err .outOfFuel => "err outOfFuel"
  | .isReadable _, .ok (.bool false) | .isWritable _, .ok (.bool false) => "no"
  | .isReadable _, .err _ | .isWritable _, .err _ => "no"
  | .isReadable _, .panic | .isWritable _, .panic => "no"
  | _, .err _ => "err *"
  | _, r => showRes r

/-! ### State and loop -/

structure DState where
  profile : Profile := Profile.dev
  nan : NanCfg := {}
  nodes : Array (Option (Node FB Ex)) := #[]
  st : St FB := ⟨[], ⟨[], 0, 0⟩, []⟩
  /-- running digest of the compared part of the access log (so that every answer pins the log so far) -/
  logHash : UInt64 := fnvInit
  logCount : Nat := 0
  dead : Bool := false

def DState.ctx (d : DState) : Ctx FB Ex :=
  { ops := ops d.nan, profile := d.profile, graph := fun n => (d.nodes[n]?).join }

def FUEL : Nat := 48

def setNode (nodes : Array (Option (Node FB Ex))) (id : Nat) (nd : Node FB Ex) :
    Array (Option (Node FB Ex)) :=
  let nodes := if id < nodes.size then nodes else nodes ++ Array.replicate (id + 1 - nodes.size) none
  nodes.set! id (some nd)

def specSuffix (spec : Bool) (d : DState) (req : Req FB) : String :=
  if !spec then "" else
  match req with
  | .isReadable n => match CamVerif.GenApiSem.readableSpec d.ctx FUEL n d.st.s with
    | some b => s!" spec={b}"
    | none => " spec=-"
  | .isWritable n => match CamVerif.GenApiSem.writableSpec d.ctx FUEL n d.st.s with
    | some b => s!" spec={b}"
    | none => " spec=-"
  | _ => ""

def handle (spec : Bool) (d : DState) : List String → DState × String
  | ["begin", p] =>
    match profileOf p with
    | some p => ({ profile := p, nan := d.nan }, "ok")
    | none => (d, "bad-op")
  | ["slot", id, k, v] =>
    match pNat id with
    | some id =>
      if id != d.st.vs.length then (d, "bad-slot-order") else
      let vd : Option (ValueData FB) :=
        if k == "i" then (pInt v).map .int
        else if k == "f" then (pFloat v).map .float
        else if k == "s" then (hexToBytes v).map .str
        else none
      match vd with
      | some vd => ({ d with st := { d.st with vs := d.st.vs ++ [vd] } }, "ok")
      | none => (d, "bad-slot")
    | none => (d, "bad-slot")
  | "node" :: id :: kind :: rest =>
    match pNat id, pNode kind rest with
    | some id, some nd => ({ d with nodes := setNode d.nodes id nd }, "ok")
    | _, _ => (d, "bad-node")
  | ["dev", mem, lo, hi] =>
    match hexToBytes mem, pNat lo, pNat hi with
    | some m, some lo, some hi => ({ d with st := { d.st with dev := ⟨m, lo, hi⟩, log := [] } }, "ok")
    | _, _, _ => (d, "bad-dev")
  | "op" :: rest =>
    if d.dead then (d, "dead") else
    match pReq rest with
    | some req =>
      let sfx := specSuffix spec d req
      match exec d.ctx (FUEL + 1) req d.st with
      | (r, st') =>
        let rwQuery := match req with | .isReadable _ | .isWritable _ => true | _ => false
        let dead := match r with | .panic => !rwQuery | _ => false
        let succeeded := match r with | .ok _ => true | _ => false
        let seg := canonAccesses (succeeded && !isAccessQuery req) (st'.log.drop d.st.log.length)
        let lh := seg.foldl fnvAccess d.logHash
        let lc := d.logCount + seg.length
        let mh := fnvBytes fnvInit st'.dev.mem
        let pin := s!" L{lc}:{natToHex 8 (lh.toNat % 2 ^ 32)} M{natToHex 8 (mh.toNat % 2 ^ 32)}"
        let shown := if isAccessQuery req then showAccessRes req r else showRes r
        ({ d with st := st', dead := dead, logHash := lh, logCount := lc }, shown ++ sfx ++ pin)
    | none => (d, "bad-op")
  | ["end"] => (d, s!"mem={bytesToHex d.st.dev.mem} log={d.logCount}:{natToHex 16 d.logHash.toNat}")
  | ["nancfg", prefs, un, a, b, c, e, f, g] =>
    match prefs.toList.map (· == 'L'), un.toList.map (· == 'Q'), hexToNat a, hexToNat b, hexToNat c, hexToNat e,
        hexToNat f, hexToNat g with
    | [p1, p2, p3, p4, p5], [q1, q2, q3, q4, q5], some a, some b, some c, some e, some f, some g =>
      ({ d with nan := { lhsAdd := p1, lhsSub := p2, lhsMul := p3, lhsDiv := p4, lhsRem := p5,
                         qFloor := q1, qCeil := q2, qRound := q3, qTrunc := q4, qSqrt := q5,
                         invAdd := UInt64.ofNat a, invSub := UInt64.ofNat b, invMul := UInt64.ofNat c,
                         invDiv := UInt64.ofNat e, invRem := UInt64.ofNat f, invSqrt := UInt64.ofNat g } }, "ok")
    | _, _, _, _, _, _, _, _ => (d, "bad-nancfg")
  | _ => (d, "bad-op")

partial def loop (spec : Bool) (hin hout : IO.FS.Stream) (d : DState) : IO Unit := do
  let line ← hin.getLine
  if line.isEmpty then return ()
  -- a leading `@seed:case:max_ops` token names the harness case the request belongs to
  -- (so that a reported disagreement can be replayed); it carries no information for the model
  let toks := match tokens line with
    | t :: rest => if t.startsWith "@" then rest else t :: rest
    | [] => []
  let (d', ans) := handle spec d toks
  hout.putStrLn ans
  loop spec hin hout d'

def run (spec : Bool) : IO Unit := do
  let hin ← IO.getStdin
  let hout ← IO.getStdout
  loop spec hin hout {}
  hout.flush

end Driver.GenApi
