import CamVerif.Model.Streaming
import CamVerif.Model.StreamingLimits
import CamVerif.Model.StreamingPublish
import Driver.Util
/-!
Line protocol of the C15 driver.

`c15 run <profile> <nregions> (<base> <hex>)* <op>*`
  one request = one lifetime of a freshly opened handle over a device whose memory map consists
  of the given regions.  ops (executed in order, the handle caches persist between them):
    `L:<addr>:<hex>` (`runl` only) close, the device advertises other limits (max_cmd, max_ack: 8 bytes at SBRM+0x14 = addr), open again,
    `e` enable_streaming, `d` disable_streaming, `s` ControlHandle::sbrm, `p` StreamParams::from_control (+ maximum_payload_size), `l` start of the receive loop (parameters = from_control now; + transfers of one frame), `M:<addr>:<hex>` device-side register change
  each optionally followed by `@<k>:<kind>:<applied>`: the k-th device access (0-based, counted
  within the op) is faulted; kind = `status` (GenCP error status) or a libusb error name.
  answer: `<op>=<result>[<access log>] ... img=<hex>|<hex>..` (final content of every region).
  The sequence stops after a panic.

`c15 runl <profile> <max_cmd> <max_ack> <nregions> (<base> <hex>)* <op>*`
  the same with the handle's negotiated limits given explicitly (`Prim.limits` of
  `Model/StreamingLimits.lean`: register reads / writes are cut into commands, or refused); one
  log entry and one fault index per COMMAND.

`c15 runp <profile> <ctrl> <addr> <hex> <nregions> (<base> <hex>)* <op>*`
  the same over a device that publishes `<hex>` at `<addr>` whenever an executed write clears
  bit 0 of the byte at `<ctrl>` (`Prim.publishing` of `Model/StreamingPublish.lean`; one command
  per register).

`c15 sizes <profile> <align> <leader> <payload> <trailer>` : the pure arithmetic.
-/
namespace Driver.C15
open CamVerif CamVerif.Streaming CamVerif.Wire Driver

def errName : Err → String
  | .io => "Io"
  | .busy => "Busy"
  | .disconnected => "Disconnected"
  | .timeout => "Timeout"
  | .invalidDevice => "InvalidDevice"
  | .invalidData => "InvalidData"

/-- `impl From<u3v::Error> for ControlError` for the LibUsb errors the harness injects; a GenCP
error status is reported as `ControlError::Io` by `verify_ack`. -/
def faultErr (kind : String) : Option Err :=
  if kind == "status" then some .io
  else if kind == "Io" || kind == "Pipe" || kind == "Overflow" || kind == "Other" then some .io
  else if kind == "Busy" then some .busy
  else if kind == "NoDevice" || kind == "NotFound" then some .disconnected
  else if kind == "Timeout" then some .timeout
  else none

def memOfRegions (rs : List (Nat × Array UInt8)) : Mem :=
  { byte := fun x =>
      match rs.find? (fun r => r.1 ≤ x ∧ x < r.1 + r.2.size) with
      | some r => r.2.getD (x - r.1) 0
      | none => 0
    mapped := fun x => rs.any (fun r => r.1 ≤ x ∧ x < r.1 + r.2.size) }

def showAccess : Access → String
  | .r a n ok => s!"r{a}:{n}" ++ (if ok then "" else "!")
  | .w a d ok applied => s!"w{a}:{bytesToHex d}" ++ (if ok then "" else if applied then "!a" else "!")

def showLog (l : List Access) : String := "[" ++ ",".intercalate (l.map showAccess) ++ "]"

def showR {α} (f : α → String) : R α → String
  | .ok a => f a
  | .err e => "err:" ++ errName e
  | .panic => "panic"

structure Op where
  kind : Char
  fault : Option (Nat × Fault)
  /-- `M:<addr>:<hex>`: the device changes registers on its own -/
  poke : Option (Nat × Bytes) := none

def parseOp (s : String) : Option Op :=
  if s.startsWith "M:" || s.startsWith "L:" then
    match s.splitOn ":" with
    | [k, a, h] =>
      match a.toNat?, hexToBytes h with
      | some a, some d => some ⟨if k == "L" then 'L' else 'M', none, some (a, d)⟩
      | _, _ => none
    | _ => none
  else
  match s.splitOn "@" with
  | [k] => match k.toList with
    | [c] => some ⟨c, none, none⟩
    | _ => none
  | [k, f] =>
    match k.toList, f.splitOn ":" with
    | [c], [idx, kind, ap] =>
      match idx.toNat?, faultErr kind with
      | some i, some e => some ⟨c, some (i, ⟨e, ap == "1"⟩), none⟩
      | _, _ => none
    | _, _ => none
  | _ => none

def schedule : Option (Nat × Fault) → List (Option Fault)
  | none => []
  | some (k, f) => List.replicate k none ++ [some f]

/-- transfers of one frame as the receive loop submits them: leader, `count` payload transfers,
final1 / final2 when non-zero, trailer (digest as in the harness) -/
def frameDigest (sp : StreamParams) : String :=
  let fr := [sp.leaderSize] ++ List.replicate sp.payloadCount sp.payloadSize ++
    (if sp.payloadFinal1Size != 0 then [sp.payloadFinal1Size] else []) ++
    (if sp.payloadFinal2Size != 0 then [sp.payloadFinal2Size] else []) ++ [sp.trailerSize]
  let h := fr.foldl fnvNat fnvInit
  s!"{fr.length}:{natToHex 16 h.toNat}"

def showParams (p : Profile) (sp : StreamParams) : String :=
  let mx := showR (fun n => s!"{n}") (sp.maximumPayloadSize p)
  s!"ok:{sp.leaderSize},{sp.trailerSize},{sp.payloadSize},{sp.payloadCount},{sp.payloadFinal1Size},{sp.payloadFinal2Size},{sp.timeoutMs},max={mx}"

/-- run the ops; returns the answer tokens (reversed) and the final state -/
def runOps (p : Profile) : List Op → StreamHandle → St → List String → List String × St
  | [], _, st, acc => (acc, st)
  | op :: ops, sh, st, acc =>
    match op.poke with
    | some (a, d) =>
      -- device-side change: no host access, no log entry
      if st.dev.mem.rangeMapped a d.length then
        runOps p ops sh { st with dev := { st.dev with mem := st.dev.mem.write a d } } ("M=ok" :: acc)
      else runOps p ops sh st ("M=unmapped" :: acc)
    | none =>
    let st := { st with dev := { st.dev with log := [], faults := schedule op.fault } }
    let (res, sh', st', isPanic) : String × StreamHandle × St × Bool :=
      if op.kind == 'e' then
        let (r, st') := enableStreaming p st
        (showR (fun _ => "ok") r, sh, st', r.isPanic)
      else if op.kind == 'd' then
        let (r, st') := disableStreaming st
        (showR (fun _ => "ok") r, sh, st', r.isPanic)
      else if op.kind == 's' then
        -- the public `ControlHandle::sbrm()` (fills the SBRM cache only)
        let (r, st') := getSbrm st
        (showR (fun _ => "ok") r, sh, st', r.isPanic)
      else if op.kind == 'l' then
        -- `StreamHandle::start_streaming_loop` on the case's one stream handle; reported are the
        -- handle's `params()` afterwards and the transfers of one frame of the loop
        let (r, sh1, st') := startStreamingLoop sh st
        (match r with
          | .ok sp => showParams p sh1.params ++ ",frame=" ++ frameDigest sp
          | .err _ => "err:Stream"
          | .panic => "panic", stopStreamingLoop sh1, st', r.isPanic)
      else
        let (r, st') := fromControl st
        (showR (showParams p) r, sh, st', r.isPanic)
    let tok := s!"{op.kind}={res}{showLog st'.dev.log}"
    if isPanic then (tok :: acc, st') else runOps p ops sh' st' (tok :: acc)

/-- `runOps` for a handle with negotiated limits (`runl`) -/
def runOpsL (mk : Limits → Prim) (L : Limits) (p : Profile) : List Op → StreamHandle → St → List String → List String × St
  | [], _, st, acc => (acc, st)
  | op :: ops, sh, st, acc =>
    match op.poke with
    | some (a, d) =>
      if op.kind == 'L' then
        -- close, the device advertises other limits (8 bytes: max_cmd, max_ack at SBRM+0x14),
        -- open again: the handle state (sbrm / sirm caches) survives, the limits are re-read
        if st.dev.mem.rangeMapped a d.length then
          runOpsL mk ⟨fromLE (d.take 4), fromLE ((d.drop 4).take 4)⟩ p ops sh
            { st with dev := { st.dev with mem := st.dev.mem.write a d } } ("L=ok" :: acc)
        else ("L=err:unmapped" :: acc, st)
      else
      if st.dev.mem.rangeMapped a d.length then
        runOpsL mk L p ops sh { st with dev := { st.dev with mem := st.dev.mem.write a d } } ("M=ok" :: acc)
      else runOpsL mk L p ops sh st ("M=unmapped" :: acc)
    | none =>
    let π := mk L
    let st := { st with dev := { st.dev with log := [], faults := schedule op.fault } }
    let (res, sh', st', isPanic) : String × StreamHandle × St × Bool :=
      if op.kind == 'e' then
        let (r, st') := enableStreamingG π p st
        (showR (fun _ => "ok") r, sh, st', r.isPanic)
      else if op.kind == 'd' then
        let (r, st') := disableStreamingG π st
        (showR (fun _ => "ok") r, sh, st', r.isPanic)
      else if op.kind == 's' then
        let (r, st') := getSbrmG π st
        (showR (fun _ => "ok") r, sh, st', r.isPanic)
      else if op.kind == 'l' then
        let (r, sh1, st') := startStreamingLoopG π sh st
        (match r with
          | .ok sp => showParams p sh1.params ++ ",frame=" ++ frameDigest sp
          | .err _ => "err:Stream"
          | .panic => "panic", stopStreamingLoop sh1, st', r.isPanic)
      else
        let (r, st') := fromControlG π st
        (showR (showParams p) r, sh, st', r.isPanic)
    let tok := s!"{op.kind}={res}{showLog st'.dev.log}"
    if isPanic then (tok :: acc, st') else runOpsL mk L p ops sh' st' (tok :: acc)

def parseRegions : Nat → List String → Option (List (Nat × Array UInt8) × List String)
  | 0, rest => some ([], rest)
  | n + 1, b :: h :: rest => do
    let base ← b.toNat?
    let bytes ← hexToBytes h
    let (rs, rest') ← parseRegions n rest
    pure ((base, bytes.toArray) :: rs, rest')
  | _, _ => none

def handle : List String → String
  | "run" :: p :: n :: rest =>
    match profileOf p, n.toNat? with
    | some p, some n =>
      match parseRegions n rest with
      | some (rs, opToks) =>
        match opToks.mapM parseOp with
        | some ops =>
          let st : St := ⟨⟨memOfRegions rs, [], []⟩, none, none⟩
          let (toks, st') := runOps p ops StreamHandle.new st []
          let img := "|".intercalate (rs.map fun r => bytesToHex (st'.dev.mem.read r.1 r.2.size))
          joinSp (toks.reverse ++ [s!"img={img}"])
        | none => "bad-op"
      | none => "bad-op"
    | _, _ => "bad-op"
  | "runl" :: p :: mc :: ma :: n :: rest =>
    match profileOf p, mc.toNat?, ma.toNat?, n.toNat? with
    | some p, some mc, some ma, some n =>
      match parseRegions n rest with
      | some (rs, opToks) =>
        match opToks.mapM parseOp with
        | some ops =>
          let st : St := ⟨⟨memOfRegions rs, [], []⟩, none, none⟩
          let (toks, st') := runOpsL Prim.limits ⟨mc, ma⟩ p ops StreamHandle.new st []
          let img := "|".intercalate (rs.map fun r => bytesToHex (st'.dev.mem.read r.1 r.2.size))
          joinSp (toks.reverse ++ [s!"img={img}"])
        | none => "bad-op"
      | none => "bad-op"
    | _, _, _, _ => "bad-op"
  | "runp" :: p :: ctrl :: pa :: ph :: n :: rest =>
    match profileOf p, ctrl.toNat?, pa.toNat?, hexToBytes ph, n.toNat? with
    | some p, some ctrl, some pa, some pd, some n =>
      match parseRegions n rest with
      | some (rs, opToks) =>
        match opToks.mapM parseOp with
        | some ops =>
          let st : St := ⟨⟨memOfRegions rs, [], []⟩, none, none⟩
          let (toks, st') := runOpsL (fun _ => Prim.publishing ⟨ctrl, pa, pd⟩) ⟨0, 0⟩ p ops StreamHandle.new st []
          let img := "|".intercalate (rs.map fun r => bytesToHex (st'.dev.mem.read r.1 r.2.size))
          joinSp (toks.reverse ++ [s!"img={img}"])
        | none => "bad-op"
      | none => "bad-op"
    | _, _, _, _, _ => "bad-op"
  | ["sizes", p, a, l, pl, t] =>
    match profileOf p, a.toNat?, l.toNat?, pl.toNat?, t.toNat? with
    | some p, some a, some l, some pl, some t =>
      showR (fun s => s!"ok {s.transferSize} {s.transferCount} {s.final1} {s.final2} {s.maxLeader} {s.maxTrailer}")
        (computeSizes p a l pl t)
    | _, _, _, _, _ => "bad-op"
  | _ => "bad-op"

end Driver.C15

def main : IO Unit := Driver.runLoop fun
  | "c15" :: rest => Driver.C15.handle rest
  | _ => "bad-op"
