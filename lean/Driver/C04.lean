/-
Line-protocol driver for C04 (cache transparency).  One request = one whole case:

  c04 <default|sink> <dev|release> <graph> <device> <ops>

graph  : nodes joined by `;` (node id = position):
           P | R/<kind>/<base>/<sel>/<len>/<mode>/<acc>/<invs>/<port> | G/<pValue>/<copies> | C/<pValue>/<cmdValue>
           | O/<pValue>/<on>/<off> (Boolean) | E/<pValue>/<values> (Enumeration)
           | K/<n>:<impl|->:<avail|->:<locked|->,.. (controller table, last node only)
         kind: I<l|b><s|u> | M<l|b><s|u>.<lsb>.<msb> | F<l|b> | S | B      sel: - | <node>*<offset>
         mode: WT|WA|NC   acc: RO|WO|RW   invs: - | n,n,..
device : <memhex>/<noAccess>/<noWrite>/<rejW>[/<rejP>]   ranges `a+l,..` or `-`; rejW `k,..` or `-`;
         rejP `k:m:<junkhex>,..` or `-` (non-atomic rejection of write attempt k)
ops    : joined by `;`: v/n  s/n/<val>  r/n/<buflen>  w/n/<hex>  e/n  d/n  pr/n/a/l  pw/n/a/<hex>  cc  a/n  ir/n  iw/n
         val: i<int> | f<width>.<bits> | x<hex> | b0 | b1
answer : <results joined by ,>#<final image hex>#<access log oldest first>

  c04 dyn <default|sink> <graph> <device> <steps>      (registers at explicit cache keys, `Model.CacheDyn`)
steps  : joined by `;`: V/n/a/len  W/n/a/<hex>  R/n/a/len  cc  u        answer as above
  c04 all <graph>                                     `allListedB` -> 0|1
-/
import CamVerif.Model.Cache
import CamVerif.Model.CacheDyn
import Driver.Util
namespace Driver.C04
open CamVerif CamVerif.Cache CamVerif.Wire Driver

def splitOn (s : String) (sep : String) : List String := s.splitOn sep

def parseList {α} (f : String → Option α) (s : String) (sep : String) : Option (List α) :=
  if s == "-" then some [] else (splitOn s sep).mapM f

def parseEndian : Char → Option Endian
  | 'l' => some .le
  | 'b' => some .be
  | _ => none

def parseSign : Char → Option Sign
  | 's' => some .signed
  | 'u' => some .unsigned
  | _ => none

def parseKind (s : String) : Option RegKind :=
  match s.toList with
  | ['I', e, sg] => do pure (.int (← parseEndian e) (← parseSign sg))
  | ['F', e] => do pure (.float (← parseEndian e))
  | ['S'] => some .string
  | ['B'] => some .raw
  | 'M' :: e :: sg :: rest =>
    match (String.ofList rest).splitOn "." with
    | ["", l, m] => do pure (.masked (← parseEndian e) (← parseSign sg) (← l.toNat?) (← m.toNat?))
    | _ => none
  | _ => none

def parseSel (s : String) : Option (Option (NodeId × Int)) :=
  if s == "-" then some none else
  match s.splitOn "*" with
  | [n, off] => do pure (some ((← n.toNat?), (← off.toInt?)))
  | _ => none

def parseMode : String → Option Mode
  | "WT" => some .writeThrough
  | "WA" => some .writeAround
  | "NC" => some .noCache
  | _ => none

def parseAcc : String → Option Acc
  | "RO" => some .ro
  | "WO" => some .wo
  | "RW" => some .rw
  | _ => none

def parseOptNat (s : String) : Option (Option Nat) :=
  if s == "-" then some none else s.toNat?.map some

/-- `<node>:<pIsImplemented|->:<pIsAvailable|->:<pIsLocked|->` -/
def parseCtl (s : String) : Option (NodeId × (Option NodeId × Option NodeId × Option NodeId)) :=
  match s.splitOn ":" with
  | [n, i, a, l] => do pure ((← n.toNat?), ((← parseOptNat i), (← parseOptNat a), (← parseOptNat l)))
  | _ => none

def parseNode (s : String) : Option Node :=
  match s.splitOn "/" with
  | ["P"] => some .port
  | ["R", k, base, sel, len, mode, acc, invs, port] => do
    pure (.reg ⟨← parseKind k, ← base.toInt?, ← parseSel sel, ← len.toNat?, ← parseMode mode,
      ← parseAcc acc, ← parseList (·.toNat?) invs ",", ← port.toNat?⟩)
  | ["G", pv, cs] => do pure (.integer (← pv.toNat?) (← parseList (·.toNat?) cs ","))
  | ["C", pv, cv] => do pure (.command (← pv.toNat?) (← cv.toInt?))
  | ["O", pv, on, off] => do pure (.boolean (← pv.toNat?) (← on.toInt?) (← off.toInt?))
  | ["E", pv, vals] => do pure (.enumeration (← pv.toNat?) (← parseList (·.toInt?) vals ","))
  | ["K", tbl] => do pure (.ctls (← parseList parseCtl tbl ","))
  | _ => none

def parseRange (s : String) : Option (Int × Nat) :=
  match s.splitOn "+" with
  | [a, l] => do pure ((← a.toInt?), (← l.toNat?))
  | _ => none

def parsePartial (s : String) : Option (Nat × (Nat × Bytes)) :=
  match s.splitOn ":" with
  | [k, m, junk] => do pure ((← k.toNat?), ((← m.toNat?), (← hexToBytes junk)))
  | _ => none

def parseDev (s : String) : Option Dev :=
  match s.splitOn "/" with
  | [mem, na, nw, rej] => do
    pure ⟨← hexToBytes mem, ← parseList parseRange na ",", ← parseList parseRange nw ",",
      ← parseList (·.toNat?) rej ",", [], 0, []⟩
  | [mem, na, nw, rej, rp] => do
    pure ⟨← hexToBytes mem, ← parseList parseRange na ",", ← parseList parseRange nw ",",
      ← parseList (·.toNat?) rej ",", ← parseList parsePartial rp ",", 0, []⟩
  | _ => none

def parseVal (s : String) : Option Val :=
  match s.toList with
  | 'i' :: rest => do pure (.int (← (String.ofList rest).toInt?))
  | 'f' :: rest =>
    match (String.ofList rest).splitOn "." with
    | [w, b] => do pure (.flt (← w.toNat?) (← b.toNat?))
    | _ => none
  | 'x' :: rest => do pure (.str (← hexToBytes (String.ofList rest)))
  | ['b', '1'] => some (.bool true)
  | ['b', '0'] => some (.bool false)
  | _ => none

def parseOp (s : String) : Option Op :=
  match s.splitOn "/" with
  | ["v", n] => do pure (.value (← n.toNat?))
  | ["s", n, v] => do pure (.setValue (← n.toNat?) (← parseVal v))
  | ["r", n, l] => do pure (.read (← n.toNat?) (← l.toNat?))
  | ["w", n, d] => do pure (.write (← n.toNat?) (← hexToBytes d))
  | ["e", n] => do pure (.execute (← n.toNat?))
  | ["d", n] => do pure (.isDone (← n.toNat?))
  | ["pr", n, a, l] => do pure (.portRead (← n.toNat?) (← a.toInt?) (← l.toNat?))
  | ["pw", n, a, d] => do pure (.portWrite (← n.toNat?) (← a.toInt?) (← hexToBytes d))
  | ["cc"] => some .clearCache
  | ["a", n] => do pure (.address (← n.toNat?))
  | ["ir", n] => do pure (.isReadable (← n.toNat?))
  | ["iw", n] => do pure (.isWritable (← n.toNat?))
  | _ => none

def parseKStep (s : String) : Option KStep :=
  match s.splitOn "/" with
  | ["V", n, a, l] => do pure (.value (← n.toNat?) (← a.toInt?) (← l.toNat?))
  | ["W", n, a, d] => do pure (.write (← n.toNat?) (← a.toInt?) (← hexToBytes d))
  | ["R", n, a, l] => do pure (.read (← n.toNat?) (← a.toInt?) (← l.toNat?))
  | ["cc"] => some .clear
  | ["u"] => some .skip
  | _ => none

def errName : Err → String
  | .device => "Device"
  | .notWritable => "NotWritable"
  | .invalidNode => "InvalidNode"
  | .invalidData => "InvalidData"
  | .chunkDataMissing => "ChunkDataMissing"
  | .invalidBuffer => "InvalidBuffer"

def isNan (width bits : Nat) : Bool :=
  if width == 8 then (bits >>> 52) % 2048 == 2047 && bits % 2 ^ 52 != 0
  else (bits >>> 23) % 256 == 255 && bits % 2 ^ 23 != 0

def showVal : Val → String
  | .int v => s!"i{v}"
  | .flt w b => if isNan w b then s!"f{w}.nan" else s!"f{w}.{b}"
  | .str bs => if bs.any (· ≥ 128) then "xNONASCII" else "x" ++ bytesToHex bs
  | .bytes bs => "y" ++ bytesToHex bs
  | .bool b => if b then "b1" else "b0"
  | .unit => "u"

def showRes : R Val → String
  | .ok v => showVal v
  | .err e => "E" ++ errName e
  | .panic => "panic"

def showAccess (a : Access) : String :=
  s!"{if a.write then "W" else "R"}:{a.addr}:{a.len}:{bytesToHex a.data}:{if a.ok then 1 else 0}"

def showLog (log : List Access) : String :=
  if log.isEmpty then "-" else ",".intercalate (log.reverse.map showAccess)

def answer (rs : List (R Val)) (d : Dev) : String :=
  (if rs.isEmpty then "-" else ",".intercalate (rs.map showRes)) ++ "#" ++ bytesToHex d.mem ++ "#" ++ showLog d.log

def handle : List String → String
  | ["decl", p, g] =>
    match profileOf p, parseList parseNode g ";" with
    | some p, some g =>
      let ports := (List.range g.length).filter fun i => g[i]? == some Node.port
      s!"{if declaredB p g then 1 else 0} " ++ ",".intercalate (ports.map fun i => s!"{i}:{if portDeclaredB g i then 1 else 0}")
    | _, _ => "bad-op"
  | ["declh", p, g, ops] =>
    match profileOf p, parseList parseNode g ";", parseList parseOp ops ";" with
    | some p, some g, some ops => if declaredForB p g ops then "1" else "0"
    | _, _, _ => "bad-op"
  | ["all", g] =>
    match parseList parseNode g ";" with
    | some g => if allListedB g then "1" else "0"
    | none => "bad-op"
  | ["dyn", c, g, d, steps] =>
    match parseList parseNode g ";", parseDev d, parseList parseKStep steps ";" with
    | some g, some d, some ks =>
      if c == "default" then
        let (rs, s) := runKSteps defaultCache g (initDefault g d) ks
        answer rs s.dev
      else if c == "sink" then
        let (rs, s) := runKSteps sinkCache g (initSink d) ks
        answer rs s.dev
      else "bad-op"
    | _, _, _ => "bad-op"
  | [c, p, g, d, ops] =>
    match profileOf p, parseList parseNode g ";", parseDev d, parseList parseOp ops ";" with
    | some p, some g, some d, some ops =>
      if c == "default" then
        let (rs, s) := runHist defaultCache p g (initDefault g d) ops
        answer rs s.dev
      else if c == "sink" then
        let (rs, s) := runHist sinkCache p g (initSink d) ops
        answer rs s.dev
      else "bad-op"
    | _, _, _, _ => "bad-op"
  | _ => "bad-op"

end Driver.C04

def main : IO Unit := Driver.runLoop fun
  | "c04" :: rest => Driver.C04.handle rest
  | _ => "bad-op"
