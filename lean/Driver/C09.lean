import CamVerif.Model.Cmd
import Driver.Util
namespace Driver.C09
open CamVerif CamVerif.Cmd CamVerif.Wire Driver

def errName : Err → String
  | .invalidPacket => "InvalidPacket"
  | .bufferIo => "BufferIo"

/-- deterministic data pattern shared with the harness -/
def pattern (len seed : Nat) : Bytes :=
  (List.range len).map fun i => UInt8.ofNat ((i * 7 + seed * 13 + 3) % 256)

def showBytes (bs : Bytes) : String :=
  s!"ok n={bs.length} h={natToHex 16 (fnvBytes fnvInit bs).toNat} head={bytesToHex (bs.take 32)}"

/-- `sink` is `vec` or the capacity of a `&mut [u8]`. -/
def showSer (c : Cmd) (id : Nat) (sink : String) : String :=
  let head := s!"ok cmdlen={c.cmdLen} maxack={c.maximumAckLen} ser="
  if sink == "vec" then head ++ showBytes (c.serialize id)
  else match sink.toNat? with
    | some cap =>
      match c.serializeSink id cap with
      | .ok bs => head ++ showBytes bs
      | .err e => head ++ "err " ++ errName e
      | .panic => head ++ "panic"
    | none => "bad-op"

/-- data token: `p:<n>:<seed>` (pattern) or `h:<hex>` -/
def parseData : List String → Option Bytes
  | ["p", n, seed] => do
    let n ← n.toNat?
    let seed ← seed.toNat?
    pure (pattern n seed)
  | ["h", hx] => hexToBytes hx
  | _ => none

def parseReadEntry (tok : String) : Option ReadMem :=
  match tok.splitOn ":" with
  | [a, l] => do
    let a ← a.toNat?
    let l ← l.toNat?
    if a < 2 ^ 64 ∧ l < 2 ^ 16 then pure ⟨a, l⟩ else none
  | _ => none

/-- `addr:p:n:seed` or `addr:h:hex`; `none` = unparsable, `some (err)` = `WriteMem::new` refused. -/
def parseWriteEntry (tok : String) : Option (R WriteMem) :=
  match tok.splitOn ":" with
  | a :: rest => do
    let a ← a.toNat?
    let d ← parseData rest
    if a < 2 ^ 64 then pure (WriteMem.new a d) else none
  | _ => none

/-- tail recursive (entry lists of > 10^5 elements are sent) -/
def allSome {α} (xs : List (Option α)) : Option (List α) :=
  let rec go : List (Option α) → List α → Option (List α)
    | [], acc => some acc.reverse
    | none :: _, _ => none
    | some a :: r, acc => go r (a :: acc)
  go xs []

/-- first non-ok element decides, as `?` in a loop does; tail recursive -/
def allOk {α} (xs : List (R α)) : R (List α) :=
  let rec go : List (R α) → List α → R (List α)
    | [], acc => .ok acc.reverse
    | .ok a :: r, acc => go r (a :: acc)
    | .err e :: _, _ => .err e
    | .panic :: _, _ => .panic
  go xs []

/-- compact request form: the token `rep:<n>:<entry>` stands for `n` copies of `<entry>` -/
def expandToks (toks : List String) : List String :=
  (toks.foldl (fun acc tok =>
    match tok.splitOn ":" with
    | "rep" :: n :: rest =>
      match n.toNat? with
      | some n => (List.replicate n (":".intercalate rest)).reverseAux acc
      | none => tok :: acc
    | _ => tok :: acc) []).reverse

def showCtor (r : R Cmd) (id : Nat) (sink : String) : String :=
  match r with
  | .ok c => showSer c id sink
  | .err e => "err " ++ errName e
  | .panic => "panic"

def handle : List String → String
  | p :: "rm" :: sink :: id :: [a, l] =>
    match profileOf p, id.toNat?, a.toNat?, l.toNat? with
    | some _, some id, some a, some l =>
      if id < 2 ^ 16 ∧ a < 2 ^ 64 ∧ l < 2 ^ 16 then showSer (.readMem ⟨a, l⟩) id sink else "bad-op"
    | _, _, _, _ => "bad-op"
  | p :: "wm" :: sink :: id :: [ent] =>
    match profileOf p, id.toNat?, parseWriteEntry ent with
    | some _, some id, some w =>
      if id < 2 ^ 16 then showCtor (w >>= fun w => pure (.writeMem w)) id sink else "bad-op"
    | _, _, _ => "bad-op"
  | p :: "rms" :: sink :: id :: ents =>
    match profileOf p, id.toNat?, allSome ((expandToks ents).map parseReadEntry) with
    | some _, some id, some es =>
      if id < 2 ^ 16 then
        showCtor (ReadMemStacked.new es >>= fun s => pure (.readMemStacked s)) id sink
      else "bad-op"
    | _, _, _ => "bad-op"
  | p :: "wms" :: sink :: id :: ents =>
    match profileOf p, id.toNat?, allSome ((expandToks ents).map parseWriteEntry) with
    | some p, some id, some ws =>
      if id < 2 ^ 16 then
        showCtor (do
          let ws ← allOk ws
          let s ← WriteMemStacked.new p ws
          pure (.writeMemStacked s)) id sink
      else "bad-op"
    | _, _, _ => "bad-op"
  | _ => "bad-op"

end Driver.C09

def main : IO Unit := Driver.runLoop fun
  | "c09" :: rest => Driver.C09.handle rest
  | _ => "bad-op"
