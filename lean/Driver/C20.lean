import CamVerif.Model.Memory
import Driver.Util
namespace Driver.C20
open CamVerif CamVerif.Memory CamVerif.Wire Driver

/-! Stateful line-protocol driver for C20: the harness first declares the register-map family
(`map` / `reg` / `endmap` / `mem`), then drives memory instances call by call. -/

inductive Kind where
  | scalar (size : Nat)
  | str
  | bytes
  | bf (signed : Bool) (w lsbLit msbLit : Nat)

inductive Val where
  | word (n : Nat)
  | str (b : Bytes)
  | bytes (b : Bytes)

structure RegInfo where
  name : String
  kind : Kind
  len : Nat
  address : Nat
  endian : Endian
  access : AccessRight
  init : Option Val
  /-- normalised lsb/msb and macro-time min/max of a bit field -/
  lsb : Nat := 0
  msb : Nat := 0
  mn : Int := 0
  mx : Int := 0

structure MapInfo where
  name : String
  base : Nat
  endian : Endian
  decls : List RegDecl := []
  regs : List RegInfo := []   -- declaration order

structure Inst where
  mem : Mem
  regs : List (String × RegInfo)   -- (map name, register)

structure St where
  maps : List MapInfo := []
  mems : List (String × List String) := []
  insts : List (String × Inst) := []
  prot : MemoryProtection := MemoryProtection.new 0
  profile : Profile := .dev

def errName : MemErr → String
  | .addressNotReadable => "AddressNotReadable"
  | .addressNotWritable => "AddressNotWritable"
  | .invalidAddress => "InvalidAddress"
  | .invalidRegisterData => "InvalidRegisterData"

def errCode : MemErr → Nat
  | .addressNotReadable => 1
  | .addressNotWritable => 2
  | .invalidAddress => 3
  | .invalidRegisterData => 4

def rightName : AccessRight → String
  | .NA => "NA" | .RO => "RO" | .WO => "WO" | .RW => "RW"

def rightOf (s : String) : Option AccessRight :=
  if s == "NA" then some .NA else if s == "RO" then some .RO
  else if s == "WO" then some .WO else if s == "RW" then some .RW else none

def endianOf (s : String) : Option Endian :=
  if s == "LE" then some .LE else if s == "BE" then some .BE else none

def intTy (s : String) : Option (Bool × Nat) :=
  if s == "u8" then some (false, 8) else if s == "u16" then some (false, 16)
  else if s == "u32" then some (false, 32) else if s == "u64" then some (false, 64)
  else if s == "i8" then some (true, 8) else if s == "i16" then some (true, 16)
  else if s == "i32" then some (true, 32) else if s == "i64" then some (true, 64) else none

def kindOf (s : String) : Option Kind :=
  if s == "str" then some .str
  else if s == "bytes" then some .bytes
  else if s == "f32" then some (.scalar 4)
  else if s == "f64" then some (.scalar 8)
  else match s.splitOn ":" with
    | ["bf", ty, l, m] =>
      match intTy ty, l.toNat?, m.toNat? with
      | some (sg, w), some l, some m => some (.bf sg w l m)
      | _, _, _ => none
    | [ty] => (intTy ty).map fun (_, w) => .scalar (w / 8)
    | _ => none

def valOf (s : String) : Option Val :=
  let body := (s.drop 2).toString
  if s.startsWith "w:" then body.toNat?.map .word
  else if s.startsWith "s:" then (hexToBytes body).map .str
  else if s.startsWith "b:" then (hexToBytes body).map .bytes
  else none

def showVal : Val → String
  | .word n => s!"w:{n}"
  | .str b => s!"s:{bytesToHex b}"
  | .bytes b => s!"b:{bytesToHex b}"

def hash16 (h : UInt64) : String := natToHex 16 h.toNat

def showR {α} (f : α → String) : R α → String
  | .ok a => "ok " ++ f a
  | .err e => "err " ++ errName e
  | .panic => "panic"

def res3 {α} : R α → String
  | .ok _ => "ok"
  | .err e => "err " ++ errName e
  | .panic => "panic"

def listStr (xs : List Nat) : String :=
  if xs.isEmpty then "-" else ",".intercalate (xs.map toString)

/-! ### Type-erased register operations (instantiating the model's templates) -/

def RegInfo.bfR (r : RegInfo) (sg : Bool) (w : Nat) : Register (BitVec w) :=
  bfReg r.endian sg w r.lsb r.msb r.mn r.mx r.address r.len r.access

def RegInfo.readVal (r : RegInfo) (m : Mem) : R Val :=
  match r.kind with
  | .scalar size =>
    match m.read (scalarReg r.endian size r.address r.len r.access) with
    | .ok v => .ok (.word v.toNat) | .err e => .err e | .panic => .panic
  | .str =>
    match m.read (strReg r.address r.len r.access) with
    | .ok v => .ok (.str v) | .err e => .err e | .panic => .panic
  | .bytes =>
    match m.read (bytesReg r.address r.len r.access) with
    | .ok v => .ok (.bytes v) | .err e => .err e | .panic => .panic
  | .bf sg w _ _ =>
    match m.read (r.bfR sg w) with
    | .ok v => .ok (.word v.toNat) | .err e => .err e | .panic => .panic

/-- `none` = ill-typed request.  Runs the model's TOTAL transition `Mem.writePost`. -/
def RegInfo.writeVal (r : RegInfo) (m : Mem) (v : Val) : Option (Post Unit) :=
  match r.kind, v with
  | .scalar size, .word n => some (m.writePost (scalarReg r.endian size r.address r.len r.access) (BitVec.ofNat _ n))
  | .str, .str s => some (m.writePost (strReg r.address r.len r.access) s)
  | .bytes, .bytes b => some (m.writePost (bytesReg r.address r.len r.access) b)
  | .bf sg w _ _, .word n => some (m.writePost (r.bfR sg w) (BitVec.ofNat w n))
  | _, _ => none

def RegInfo.rawWrite (r : RegInfo) (v : Val) : Option (Bytes → R Bytes) :=
  match r.kind, v with
  | .scalar size, .word n => some ((scalarReg r.endian size r.address r.len r.access).write (BitVec.ofNat _ n))
  | .str, .str s => some ((strReg r.address r.len r.access).write s)
  | .bytes, .bytes b => some ((bytesReg r.address r.len r.access).write b)
  | .bf sg w _ _, .word n => some ((r.bfR sg w).write (BitVec.ofNat w n))
  | _, _ => none

def RegInfo.parseVal (r : RegInfo) (d : Bytes) : R Val :=
  match r.kind with
  | .scalar size =>
    match scalarParse r.endian size d with
    | .ok v => .ok (.word v.toNat) | .err e => .err e | .panic => .panic
  | .str => match strParse r.len d with
    | .ok v => .ok (.str v) | .err e => .err e | .panic => .panic
  | .bytes => match bytesParse d with
    | .ok v => .ok (.bytes v) | .err e => .err e | .panic => .panic
  | .bf sg w _ _ =>
    match bfParse r.endian sg w r.lsb r.msb d with
    | .ok v => .ok (.word v.toNat) | .err e => .err e | .panic => .panic

/-- `none` = ill-typed request -/
def RegInfo.serializeVal (r : RegInfo) (v : Val) : Option (R Bytes) :=
  match r.kind, v with
  | .scalar size, .word n => some (scalarSerialize r.endian size (BitVec.ofNat _ n))
  | .str, .str s => some (strSerialize r.len s)
  | .bytes, .bytes b => some (bytesSerialize r.len b)
  | .bf sg w _ _, .word n => some ((r.bfR sg w).serialize (BitVec.ofNat w n))
  | _, _ => none

/-- the register as far as ranges / rights are concerned -/
def RegInfo.unitReg (r : RegInfo) : Register Unit :=
  { address := r.address, length := r.len, accessRight := r.access
    parse := fun _ => .ok (), serialize := fun _ => .ok [], write := fun _ m => .ok m }

/-! ### Declarations -/

def findMap (st : St) (n : String) : Option MapInfo := st.maps.find? (·.name == n)

def updMap (st : St) (m : MapInfo) : St :=
  { st with maps := (st.maps.filter (·.name != m.name)) ++ [m] }

/-- does `BitField<ty, lsb, msb>` (normalised positions) get through `BitField::verify`? -/
def bfCompiles (sg : Bool) (w lsb msb : Nat) : Option (Int × Int) :=
  if bfVerify w lsb msb then some (bfMin sg lsb msb, bfMax sg lsb msb) else none

/-- a declaration with literal positions: accepted iff the normalisation does not underflow
and `verify` passes -/
def bfAccepts (e : Endian) (w lsbLit msbLit : Nat) : Bool :=
  match bfNormalise e w lsbLit, bfNormalise e w msbLit with
  | some lsb, some msb => bfVerify w lsb msb
  | _, _ => false

def declReg (st : St) (mapN regN kindS lenS offS accS initS : String) : St × String :=
  match findMap st mapN, kindOf kindS, lenS.toNat?, rightOf accS with
  | some m, some kind, some len, some acc =>
    let off? : Option (Option Nat) := if offS == "-" then some none else offS.toNat?.map some
    let init? : Option (Option Val) := if initS == "-" then some none else (valOf initS).map some
    match off?, init? with
    | some off, some init =>
      let decls := m.decls ++ [⟨len, off⟩]
      -- the model's layout, recomputed from all declarations so far
      match (layoutAddresses m.base decls).getLast? with
      | none => (st, "bad-op")
      | some addr =>
        let base : RegInfo := { name := regN, kind, len, address := addr, endian := m.endian, access := acc, init }
        let info? : Option RegInfo :=
          match kind with
          | .bf sg w l ms =>
            match bfNormalise m.endian w l, bfNormalise m.endian w ms with
            | some lsb, some msb =>
              (bfCompiles sg w lsb msb).map fun (mn, mx) => { base with lsb, msb, mn, mx }
            | _, _ => none
          | _ => some base
        match info? with
        | none => (st, "nocompile")
        | some info =>
          (updMap st { m with decls, regs := m.regs ++ [info] },
            s!"ok addr={addr} len={len} access={rightName acc}")
    | _, _ => (st, "bad-op")
  | _, _, _, _ => (st, "bad-op")

def RegInfo.toInit (r : RegInfo) : RegInit :=
  { address := r.address, length := r.len, access := r.access
    init := match r.init with
      | none => none
      | some v => match r.rawWrite v with
        | some w => some w
        | none => some (fun _ => .panic) }

def newInst (st : St) (memN : String) : Option (R Inst) :=
  match st.mems.find? (·.1 == memN) with
  | none => none
  | some (_, mapNames) =>
    let maps := mapNames.filterMap (findMap st)
    if maps.length ≠ mapNames.length then none else
    let frags : List Fragment := maps.map fun m =>
      { base := m.base, size := (mapSize m.decls).getD 0, regs := m.regs.map RegInfo.toInit }
    let regs := maps.flatMap fun m => m.regs.map fun r => (m.name, r)
    some (match Mem.new frags with
      | .ok mem => .ok ⟨mem, regs⟩
      | .err e => .err e
      | .panic => .panic)

def protCells (p : Profile) (mp : MemoryProtection) (n : Nat) : Bytes :=
  (List.range n).map fun i =>
    match mp.accessRight p i with
    | .ok a => UInt8.ofNat a.asNum.toNat
    | _ => 255

def protDigest (p : Profile) (m : Mem) : String :=
  hash16 (fnvBytes fnvInit (protCells p m.protection m.raw.length))

def rawDigest (m : Mem) : String := hash16 (fnvBytes fnvInit m.raw)

def findInst (st : St) (n : String) : Option Inst := (st.insts.find? (·.1 == n)).map (·.2)

def setInst (st : St) (n : String) (i : Inst) : St :=
  { st with insts := (n, i) :: st.insts.filter (·.1 != n) }

def findReg (i : Inst) (mapN regN : String) : Option RegInfo :=
  (i.regs.find? fun (m, r) => m == mapN && r.name == regN).map (·.2)

def findRegSt (st : St) (mapN regN : String) : Option RegInfo :=
  (findMap st mapN).bind fun m => m.regs.find? (·.name == regN)

/-- answer of a mutating call: outcome, observers fired, digest of the image afterwards (the
post-state of the model's total transition, whatever the outcome) -/
def afterWrite (st : St) (memN : String) (i : Inst) (r : Post Unit) : St × String :=
  (setInst st memN { i with mem := r.mem }, s!"{res3 r.res} fired={listStr r.fired} raw={rawDigest r.mem}")

/-- value sweep on the current image: typed write then typed read for every grid value -/
def sweepLoop (r : RegInfo) (m : Mem) : Nat → Nat → Nat → Nat → UInt64 → Nat → Nat → UInt64 × Nat × Nat
  | 0, _, _, _, h, n, okc => (h, n, okc)
  | fuel + 1, v, hi, step, h, n, okc =>
    match r.writeVal m (.word v) with
    | none => (h, n, okc)
    | some w =>
      let m' := w.mem
      let h := fnvNat h v
      let h := fnvNat h (match w.res with | .ok _ => 0 | .err e => errCode e | .panic => 9)
      let h := fnvBytes h m'.raw
      let h := match r.readVal m' with
        | .ok (.word x) => fnvNat (fnvNat h 0) x
        | .ok _ => h
        | .err e => fnvNat h (errCode e)
        | .panic => fnvNat h 9
      let okc := match w.res with | .ok _ => okc + 1 | _ => okc
      if hi - v < step then (h, n + 1, okc)
      else sweepLoop r m fuel (v + step) hi step h (n + 1) okc

def handle (st : St) : List String → St × String
  | ["map", n, base, e] =>
    match base.toNat?, endianOf e with
    | some b, some e => (updMap st { name := n, base := b, endian := e }, "ok")
    | _, _ => (st, "bad-op")
  | ["reg", m, r, kind, len, off, acc, init] => declReg st m r kind len off acc init
  | ["endmap", n] =>
    match findMap st n with
    | some m => (st, match mapSize m.decls with
      | some s => s!"ok base={m.base} size={s}"
      | none => "nocompile")
    | none => (st, "bad-op")
  | "mem" :: n :: maps => ({ st with mems := (n, maps) :: st.mems.filter (·.1 != n) }, "ok")
  | ["profile", p] =>
    match profileOf p with
    | some p => ({ st with profile := p }, "ok")
    | none => (st, "bad-op")
  | ["accepts", e, ty, l, m] =>
    match endianOf e, intTy ty, l.toNat?, m.toNat? with
    | some e, some (_, w), some l, some m => (st, if bfAccepts e w l m then "accept" else "reject")
    | _, _, _, _ => (st, "bad-op")
  | ["ser", m, r, v] =>
    match findRegSt st m r, valOf v with
    | some r, some v => (st, match r.serializeVal v with
      | some res => showR bytesToHex res
      | none => "bad-op")
    | _, _ => (st, "bad-op")
  | ["new", n] =>
    match newInst st n with
    | some (.ok i) =>
      (setInst st n i, s!"ok size={i.mem.raw.length} raw={rawDigest i.mem} prot={protDigest st.profile i.mem}")
    | some _ => (st, "panic")
    | none => (st, "bad-op")
  | ["rr", n, s, e] =>
    match findInst st n, s.toNat?, e.toNat? with
    | some i, some s, some e => (st, showR bytesToHex (i.mem.readRaw st.profile s e))
    | _, _, _ => (st, "bad-op")
  | ["wr", n, a, d] =>
    match findInst st n, a.toNat?, hexToBytes d with
    | some i, some a, some d => afterWrite st n i (i.mem.writeRawPost st.profile a d)
    | _, _, _ => (st, "bad-op")
  | ["rd", n, m, r] =>
    match findInst st n with
    | some i => match findReg i m r with
      | some r => (st, showR showVal (r.readVal i.mem))
      | none => (st, "bad-op")
    | none => (st, "bad-op")
  | ["wt", n, m, r, v] =>
    match findInst st n, valOf v with
    | some i, some v => match findReg i m r with
      | some r => match r.writeVal i.mem v with
        | some res => afterWrite st n i res
        | none => (st, "bad-op")
      | none => (st, "bad-op")
    | _, _ => (st, "bad-op")
  | ["ar", n, m, r] =>
    match findInst st n with
    | some i => match findReg i m r with
      | some r => (st, showR rightName (i.mem.accessRight st.profile r.unitReg))
      | none => (st, "bad-op")
    | none => (st, "bad-op")
  | ["sar", n, m, r, a] =>
    match findInst st n, rightOf a with
    | some i, some a => match findReg i m r with
      | some r =>
        let post := i.mem.setAccessRightPost r.unitReg a
        (setInst st n { i with mem := post.mem }, s!"{res3 post.res} prot={protDigest st.profile post.mem}")
      | none => (st, "bad-op")
    | _, _ => (st, "bad-op")
  | ["obs", n, m, r] =>
    match findInst st n with
    | some i => match findReg i m r with
      | some r =>
        let m' := i.mem.registerObserver r.unitReg
        (setInst st n { i with mem := m' }, s!"ok n={m'.observers.length}")
      | none => (st, "bad-op")
    | none => (st, "bad-op")
  | ["pg", n, a] =>
    match findInst st n, a.toNat? with
    | some i, some a => (st, showR rightName (i.mem.protection.accessRight st.profile a))
    | _, _ => (st, "bad-op")
  | ["parse", m, r, d] =>
    match findRegSt st m r, hexToBytes d with
    | some r, some d => (st, showR showVal (r.parseVal d))
    | _, _ => (st, "bad-op")
  | ["sweep", n, m, r, lo, hi, step] =>
    match findInst st n, lo.toNat?, hi.toNat?, step.toNat? with
    | some i, some lo, some hi, some step =>
      match findReg i m r with
      | some r =>
        if step = 0 ∨ hi < lo then (st, "bad-op") else
        let (h, cnt, okc) := sweepLoop r i.mem ((hi - lo) / step + 2) lo hi step fnvInit 0 0
        (st, s!"ok n={cnt} okc={okc} h={hash16 h}")
      | none => (st, "bad-op")
    | _, _, _, _ => (st, "bad-op")
  -- AccessRight
  | ["num", a] => (st, match rightOf a with | some a => s!"ok {a.asNum.toNat}" | none => "bad-op")
  | ["isr", a] => (st, match rightOf a with | some a => s!"ok {a.isReadable}" | none => "bad-op")
  | ["isw", a] => (st, match rightOf a with | some a => s!"ok {a.isWritable}" | none => "bad-op")
  | ["meet", a, b] =>
    (st, match rightOf a, rightOf b with | some a, some b => s!"ok {rightName (a.meet b)}" | _, _ => "bad-op")
  | ["fromnum", p, n] =>
    (st, match profileOf p, n.toNat? with
      | some p, some n => showR rightName (AccessRight.fromNum p (BitVec.ofNat 8 n))
      | _, _ => "bad-op")
  -- standalone MemoryProtection
  | ["pnew", n] => match n.toNat? with
    | some n => ({ st with prot := MemoryProtection.new n }, "ok")
    | none => (st, "bad-op")
  | ["pset", a, r] =>
    match a.toNat?, rightOf r with
    | some a, some r => match st.prot.setAccessRight a r with
      | .ok mp => ({ st with prot := mp }, "ok")
      | _ => (st, "panic")
    | _, _ => (st, "bad-op")
  | ["pget", p, a] =>
    (st, match profileOf p, a.toNat? with
      | some p, some a => showR rightName (st.prot.accessRight p a)
      | _, _ => "bad-op")
  | ["pgetr", p, s, e] =>
    (st, match profileOf p, s.toNat?, e.toNat? with
      | some p, some s, some e => showR rightName (st.prot.accessRightWithRange p s e)
      | _, _, _ => "bad-op")
  | ["psetr", s, e, r] =>
    match s.toNat?, e.toNat?, rightOf r with
    | some s, some e, some r =>
      let (mp, ok) := MemoryProtection.setRangeKeep r st.prot s (MemoryProtection.rangeCount s e)
      ({ st with prot := mp }, if ok then "ok" else "panic")
    | _, _, _ => (st, "bad-op")
  | ["pver", a] =>
    (st, match a.toNat? with | some a => res3 (st.prot.verifyAddress a) | none => "bad-op")
  | ["pverr", s, e] =>
    (st, match s.toNat?, e.toNat? with
      | some s, some e => res3 (st.prot.verifyAddressWithRange s e)
      | _, _ => "bad-op")
  | ["pdump"] => (st, "ok " ++ bytesToHex (protCells st.profile st.prot st.prot.memorySize))
  | _ => (st, "bad-op")

partial def loop (hin hout : IO.FS.Stream) (st : St) : IO Unit := do
  let line ← hin.getLine
  if line.isEmpty then return ()
  let (st', ans) := match tokens line with
    | "c20" :: rest => handle st rest
    | _ => (st, "bad-op")
  hout.putStrLn ans
  loop hin hout st'

end Driver.C20

def main : IO Unit := do
  let hin ← IO.getStdin
  let hout ← IO.getStdout
  Driver.C20.loop hin hout {}
  hout.flush
