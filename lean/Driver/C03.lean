import Driver.GenApi
/-! C03 driver: the GenApi interpreter behind the line protocol of `Driver/GenApi.lean`. -/
def main : IO Unit := Driver.GenApi.run false
