/-
Shared driver code for the control-handle properties (C06, C07): executable device
memory, canonical names, wire-log digest.  Nothing here is used in theorems except the
`MemLike` instance law, which is proved.
-/
import CamVerif.Model.Control
import CamVerif.Spec.ConformingDevice
import Std.Data.HashMap
import Driver.Util
namespace Driver.Ctl
open CamVerif CamVerif.Control CamVerif.Spec.Conf CamVerif.Wire Driver

/-! ### Device memory: pattern + hash-map overlay -/

structure DrvMem where
  seed : Nat
  map : Std.HashMap Nat UInt8

/-- content of a never-written address (same formula as `SparseMem::default_byte`). -/
def patternByte (seed a : Nat) : UInt8 :=
  UInt8.ofNat ((a % 251 + (a / 251) % 7 * 3 + seed) % 256)

instance : MemLike DrvMem where
  get m a := m.map.getD a (patternByte m.seed a)
  set m a v := { m with map := m.map.insert a v }
  get_set m a v x := by
    simp only [Std.HashMap.getD_insert]
    by_cases h : x = a
    · subst h; simp
    · have : ¬ a = x := fun h' => h h'.symm
      simp [h, this]

def DrvMem.new (seed : Nat) : DrvMem := ⟨seed, {}⟩

/-- digest of all bytes that differ from the pattern, in address order. -/
def DrvMem.digest (m : DrvMem) : String :=
  let xs := m.map.toArray.filter (fun (a, v) => v != patternByte m.seed a)
  let xs := xs.qsort (fun x y => x.1 < y.1)
  let h := xs.foldl (fun h (a, v) => fnvByte (fnvNat h a) v) fnvInit
  s!"{xs.size}:{natToHex 16 h.toNat}"

/-! ### Names -/

def usbErrs : List (String × UsbErr) :=
  [("Io", .io), ("InvalidParam", .invalidParam), ("Access", .access), ("NoDevice", .noDevice),
   ("NotFound", .notFound), ("Busy", .busy), ("Timeout", .timeout), ("Overflow", .overflow),
   ("Pipe", .pipe), ("Interrupted", .interrupted), ("NoMem", .noMem),
   ("NotSupported", .notSupported), ("BadDescriptor", .badDescriptor), ("Other", .other)]

def usbErrOf (s : String) : Option UsbErr := (usbErrs.find? (·.1 == s)).map (·.2)

def usbErrCode (e : UsbErr) : Nat :=
  match usbErrs.findIdx? (fun x => x.2 == e) with
  | some i => i + 1
  | none => 0

def cerrName : CErr → String
  | .busy => "Busy" | .disconnected => "Disconnected" | .io => "Io" | .timeout => "Timeout"
  | .notOpened => "NotOpened" | .invalidDevice => "InvalidDevice"
  | .bufferTooSmall => "BufferTooSmall" | .invalidData => "InvalidData"

def showR {α} (f : α → String) : R α → String
  | .ok a => f a
  | .err e => "err " ++ cerrName e
  | .panic => "panic"

/-! ### Wire-log digest (timeouts included; the sleeps are reported as count:total ms, which the
harness derives independently from the pending acknowledges on the wire and checks against
the measured elapsed time) -/

def ctlCode : CtlReq → Nat
  | .claim => 0 | .release => 1 | .setHaltIn => 2 | .setHaltOut => 3
  | .clearHaltIn => 4 | .clearHaltOut => 5

def optErrCode : Option UsbErr → Nat
  | none => 0
  | some e => usbErrCode e

def evDigest (h : UInt64) : Ev → UInt64
  | .send bytes t err =>
    fnvBytes (fnvNat (fnvNat (fnvNat (fnvNat h 1) t) (optErrCode err)) bytes.length) bytes
  | .recv bufLen t (.ok bytes) =>
    fnvBytes (fnvNat (fnvNat (fnvNat (fnvNat h 2) t) bufLen) bytes.length) bytes
  | .recv bufLen t (.error e) => fnvNat (fnvNat (fnvNat (fnvNat h 3) t) bufLen) (usbErrCode e)
  | .sleep _ => h
  | .ctl r t err => fnvNat (fnvNat (fnvNat (fnvNat h 4) (ctlCode r)) (optErrCode err)) t

structure LogStat where
  sends : Nat := 0
  recvs : Nat := 0
  sleeps : Nat := 0
  sleepMs : Nat := 0
  ctls : Nat := 0
  h : UInt64 := fnvInit

def logStat (logRev : List Ev) : LogStat :=
  logRev.reverse.foldl (fun st e =>
    let st := { st with h := evDigest st.h e }
    match e with
    | .send .. => { st with sends := st.sends + 1 }
    | .recv .. => { st with recvs := st.recvs + 1 }
    | .sleep ms => { st with sleeps := st.sleeps + 1, sleepMs := st.sleepMs + ms }
    | .ctl .. => { st with ctls := st.ctls + 1 }) {}

def LogStat.show (l : LogStat) : String :=
  s!"s={l.sends} r={l.recvs} c={l.ctls} sl={l.sleeps}:{l.sleepMs} log={natToHex 16 l.h.toNat}"

/-- deterministic data pattern shared with the harness -/
def dataPattern (len seed : Nat) : Bytes :=
  (List.range len).map fun i => UInt8.ofNat ((i * 7 + seed * 13 + 3) % 256)

def dataDigest (bs : Bytes) : String :=
  s!"n={bs.length} d={natToHex 16 (fnvBytes fnvInit bs).toNat}"

partial def loopState {S : Type} (hin hout : IO.FS.Stream) (st : S)
    (handle : S → List String → S × String) : IO Unit := do
  let line ← hin.getLine
  if line.isEmpty then return ()
  let (st, ans) := handle st (tokens line)
  hout.putStrLn ans
  loopState hin hout st handle

/-- One request per line on stdin, one answer per line on stdout, with state. -/
def runLoopState {S : Type} (init : S) (handle : S → List String → S × String) : IO Unit := do
  let hin ← IO.getStdin
  let hout ← IO.getStdout
  loopState hin hout init handle
  hout.flush

end Driver.Ctl
