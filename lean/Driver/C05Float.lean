import CamVerif.Model.Formula
/-!
`FloatOps Float`: Lean's `Float` (IEEE binary64 of the host) as the floating point
implementation of the formula model, for the executable drivers.  `fmod`, `trunc` and the
decimal→binary64 conversion do not exist in Lean core and are implemented exactly on `Nat`
mantissas.  No `main` here, so other drivers can import it.
-/
namespace Driver.C05
open CamVerif CamVerif.Formula

/-! ### exact helpers -/

/-- Correctly rounded (nearest, ties to even) binary64 bit pattern of the positive rational
`num / den` (`den > 0`). -/
def ratToBits (num den : Nat) : UInt64 :=
  if num = 0 then 0 else
  -- first guess of the exponent `e` with 2^52 ≤ num / den / 2^e < 2^53
  let e0 : Int := (num.log2 : Int) - (den.log2 : Int) - 52
  let quot (e : Int) : Nat × Nat × Nat :=   -- (q, rem, divisor) of num / (den * 2^e)
    if e ≥ 0 then
      let d := den <<< e.toNat
      (num / d, num % d, d)
    else
      let n := num <<< (-e).toNat
      (n / den, n % den, den)
  let e1 : Int :=
    let (q, _, _) := quot e0
    if q ≥ 2 ^ 53 then e0 + 1 else if q < 2 ^ 52 then e0 - 1 else e0
  let e : Int := if e1 < -1074 then -1074 else e1
  let (q, r, d) := quot e
  -- round half to even
  let q := if 2 * r > d then q + 1 else if 2 * r = d then q + q % 2 else q
  let (q, e) : Nat × Int := if q ≥ 2 ^ 53 then (q / 2, e + 1) else (q, e)
  if q < 2 ^ 52 then UInt64.ofNat q   -- subnormal (e = -1074) or zero
  else if e + 52 > 1023 then 0x7ff0000000000000
  else UInt64.ofNat (((e + 1075).toNat <<< 52) + (q - 2 ^ 52))

/-- Decompose a finite non-zero magnitude into `(mantissa, exponent)` with value `m * 2^e`. -/
def decompose (bits : UInt64) : Nat × Int :=
  let b := bits.toNat % 2 ^ 63
  let ex : Nat := b / 2 ^ 52
  let m : Nat := b % 2 ^ 52
  if ex = 0 then (m, -1074) else (m + 2 ^ 52, (ex : Int) - 1075)

def signBit (x : Float) : Bool := x.toBits.toNat ≥ 2 ^ 63
def isInf (x : Float) : Bool := x.toBits.toNat % 2 ^ 63 = 0x7ff0000000000000
def nan : Float := Float.ofBits 0x7ff8000000000000

/-- C `fmod` (Rust `%` on f64), exact. -/
def fmod (x y : Float) : Float :=
  if x.isNaN || y.isNaN || isInf x || y == 0.0 then nan
  else if isInf y || x == 0.0 then x
  else
    let (mx, ex) := decompose x.toBits
    let (my, ey) := decompose y.toBits
    let e := min ex ey
    let X := mx <<< (ex - e).toNat
    let Y := my <<< (ey - e).toNat
    let r := X % Y
    -- r * 2^e is exactly representable
    let bits := if e ≥ 0 then ratToBits (r <<< e.toNat) 1 else ratToBits r (1 <<< (-e).toNat)
    let bits := if signBit x then bits + 0x8000000000000000 else bits
    Float.ofBits bits

/-- `f64::trunc` -/
def trunc (x : Float) : Float := if signBit x then x.ceil else x.floor

instance : FloatOps Float where
  add := (· + ·)
  sub := (· - ·)
  mul := (· * ·)
  div := (· / ·)
  rem := fmod
  powf := Float.pow
  ofInt i := (Int64.ofInt i.toInt).toFloat
  toInt f := BitVec.ofInt 64 f.toInt64.toInt
  feq := (· == ·)
  flt a b := a < b
  fle a b := a ≤ b
  neg := Float.neg
  abs := Float.abs
  sin := Float.sin
  cos := Float.cos
  tan := Float.tan
  asin := Float.asin
  acos := Float.acos
  atan := Float.atan
  exp := Float.exp
  ln := Float.log
  log10 := Float.log10
  sqrt := Float.sqrt
  trunc := trunc
  floor := Float.floor
  ceil := Float.ceil
  round := Float.round
  ofDec m e :=
    -- clamp absurd exponents before building 10^|e| (the value is 0 or overflows anyway)
    let d : Int := (toString m).length
    if m = 0 then Float.ofBits 0
    else if e > 400 then Float.ofBits 0x7ff0000000000000
    else if e < -(d + 400) then Float.ofBits 0
    else if e ≥ 0 then Float.ofBits (ratToBits (m * 10 ^ e.toNat) 1)
    else Float.ofBits (ratToBits m (10 ^ (-e).toNat))
  pi := Float.ofBits 0x400921fb54442d18
  e := Float.ofBits 0x4005bf0a8b145769

end Driver.C05
