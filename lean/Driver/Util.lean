/- Shared driver helpers (FNV-1a digest so long lists are compared by hash). -/
import CamVerif.Prelude.Basic
import CamVerif.Prelude.Wire
namespace Driver
open CamVerif

def fnvInit : UInt64 := 0xcbf29ce484222325
def fnvByte (h : UInt64) (b : UInt8) : UInt64 := (h ^^^ b.toUInt64) * 0x100000001b3
def fnvBytes (h : UInt64) (bs : Bytes) : UInt64 := bs.foldl fnvByte h
/-- mix a natural number as 8 little-endian bytes -/
def fnvNat (h : UInt64) (n : Nat) : UInt64 := fnvBytes h (toLE 8 n)

def profileOf (s : String) : Option Profile :=
  if s == "dev" then some Profile.dev
  else if s == "release" then some Profile.release
  else none

end Driver

namespace Driver

/-- Tokens of one request line. -/
def tokens (line : String) : List String :=
  (line.trimAscii.toString.splitOn " ").filter (· ≠ "")

partial def loopLines (hin hout : IO.FS.Stream) (handle : List String → String) : IO Unit := do
  let line ← hin.getLine
  if line.isEmpty then return ()
  hout.putStrLn (handle (tokens line))
  loopLines hin hout handle

/-- One request per line on stdin, one answer per line on stdout. -/
def runLoop (handle : List String → String) : IO Unit := do
  let hin ← IO.getStdin
  let hout ← IO.getStdout
  loopLines hin hout handle
  hout.flush

end Driver
