import Driver.GenApi
/-! C18 driver: as C03, and every `is_readable` / `is_writable` answer is followed by the
value of the specification predicate `Readable` / `Writable` (`spec=…`). -/
def main : IO Unit := Driver.GenApi.run true
