import CamVerif.Model.Reg
import CamVerif.Model.RegUtf8
import Driver.Util
namespace Driver.C01
open CamVerif CamVerif.Reg CamVerif.Wire Driver

/-- Floats in the driver are carried as their raw IEEE-754 bit pattern (Lean's
`Float.toBits` canonicalises NaNs, Rust's `to_bits` does not); conversions between
binary64 and binary32 use the host FPU through `Float`/`Float32` for non-NaN values
and the IEEE/SSE rule (keep sign, quiet, keep the top payload bits) for NaNs. -/
structure FBits where
  bits : BitVec 64

def isNaN64 (b : BitVec 64) : Bool :=
  (b.toNat / 2 ^ 52) % 2 ^ 11 == 2047 && b.toNat % 2 ^ 52 != 0

def isNaN32 (b : BitVec 32) : Bool :=
  (b.toNat / 2 ^ 23) % 2 ^ 8 == 255 && b.toNat % 2 ^ 23 != 0

def narrow (b : BitVec 64) : BitVec 32 :=
  if isNaN64 b then
    let sign := b.toNat / 2 ^ 63
    let man := b.toNat % 2 ^ 52
    BitVec.ofNat 32 (sign * 2 ^ 31 + 0x7fc00000 + (man / 2 ^ 29) % 2 ^ 22)
  else
    BitVec.ofNat 32 (Float.ofBits (UInt64.ofNat b.toNat)).toFloat32.toBits.toNat

def widen (b : BitVec 32) : BitVec 64 :=
  if isNaN32 b then
    let sign := b.toNat / 2 ^ 31
    let man := b.toNat % 2 ^ 23
    BitVec.ofNat 64 (sign * 2 ^ 63 + 0x7ff8000000000000 + (man % 2 ^ 22) * 2 ^ 29)
  else
    BitVec.ofNat 64 (Float32.ofBits (UInt32.ofNat b.toNat)).toFloat.toBits.toNat

instance : FloatOps FBits where
  toBits x := x.bits
  ofBits b := ⟨b⟩
  narrowBits32 x := narrow x.bits
  widenBits32 b := ⟨widen b⟩

def errName : Err → String
  | .device => "Device"
  | .notWritable => "NotWritable"
  | .invalidNode => "InvalidNode"
  | .invalidData => "InvalidData"
  | .chunkDataMissing => "ChunkDataMissing"
  | .invalidBuffer => "InvalidBuffer"

def showRes {α} (f : α → String) : R α → String
  | .ok a => f a
  | .err e => "err " ++ errName e
  | .panic => "panic"

def showAccess (a : Access) : String :=
  let k := match a.kind with | .read => "R" | .write => "W"
  s!"{k}:{a.addr}:{a.len}:{bytesToHex a.bytes}"

def showLog (log : List Access) : String :=
  if log.isEmpty then "-" else ",".intercalate (log.map showAccess)

def parseEnd (s : String) : Option Endianness :=
  if s == "le" then some .le else if s == "be" then some .be else none

def parseSign (s : String) : Option Sign :=
  if s == "s" then some .signed else if s == "u" then some .unsigned else none

def parseRefuse (s : String) : Option (List Nat) :=
  if s == "-" then some [] else (s.splitOn ",").mapM String.toNat?

def parseFloat (s : String) : Option (BitVec 64) :=
  if s.startsWith "f:" then (hexToNat (s.drop 2).toString).map (BitVec.ofNat 64) else none

def showFloat (b : BitVec 64) : String := "f:" ++ natToHex 16 b.toNat

/-- the device of a request: window image at `base`, refusal script -/
def mkDev (base : Int) (img : Bytes) (refuse : List Nat) : Dev :=
  { mem := Mem.ofBytes base img, refuse := fun n => refuse.contains n }

/-- result, access log, final window image; for a call that ends in an error only the
number of write entries is reported instead of the exact log (the property says "refused
without a device write", not which reads precede the refusal) -/
def finish (base : Int) (n : Nat) (res : String) (d : Dev) (negLen : Bool := false)
    (unsupported : Bool := false) : String :=
  -- typed access to an integer/float register of unsupported length: the property says "refused
  -- with an error", not which error wins when the port or device would fail as well
  let res := if unsupported && res.startsWith "err" then "err UnsupportedLength" else res
  -- a negative <Length> is outside the statement (malformed description): there the code panics
  -- (capacity overflow) or errors; both are reported as `refused` so that turning the panic into
  -- an error is not a tie break
  let res := if negLen && (res == "panic" || res.startsWith "err") then "refused" else res
  let log := if res.startsWith "err" || res == "refused" then s!"W={writesIn d.log}" else showLog d.log
  s!"{res};{log};{bytesToHex (d.mem.readRange base n)}"

def handle : List String → String
  | [op, chunk, e, s, addr, len, base, img, refuse, arg] =>
    match chunk.toNat?, parseEnd e, parseSign s, addr.toInt?, len.toInt?, base.toInt?, hexToBytes img, parseRefuse refuse with
    | some chunk, some e, some s, some addr, some len, some base, some img, some refuse =>
      let port : Port := ⟨chunk == 1⟩
      let d := mkDev base img refuse
      let unsupported : Bool :=
        ((op == "int.value" || op == "int.set") && !(len == 1 || len == 2 || len == 4 || len == 8)) ||
        ((op == "float.value" || op == "float.set") && !(len == 4 || len == 8))
      let fin := fun (res : String) (d : Dev) => finish base img.length res d (decide (len < 0)) unsupported
      if op == "int.value" then
        let (r, d') := IntReg.value port e s addr len d
        fin (showRes (fun v => s!"ok {v.toInt}") r) d'
      else if op == "int.set" then
        match arg.toInt? with
        | some v =>
          let (r, d') := IntReg.setValue port e s addr len (BitVec.ofInt 64 v) d
          fin (showRes (fun _ => "ok") r) d'
        | none => "bad-op"
      else if op == "int.min" then fin s!"ok {(IntReg.min s).toInt}" d
      else if op == "int.max" then fin s!"ok {(IntReg.max s).toInt}" d
      else if op == "float.value" then
        let (r, d') := FloatReg.value (F := FBits) port e addr len d
        fin (showRes (fun v => s!"ok {showFloat v.bits}") r) d'
      else if op == "float.set" then
        match parseFloat arg with
        | some b =>
          let (r, d') := FloatReg.setValue (F := FBits) port e addr len ⟨b⟩ d
          fin (showRes (fun _ => "ok") r) d'
        | none => "bad-op"
      else if op == "str.value" then
        -- answer: the bytes before the first NUL, and the UTF-8 bytes of the `String`
        -- `String::from_utf8_lossy` makes of them (`Model/RegUtf8.lean`)
        let (r, d') := StringReg.value port addr len d
        let (r2, _) := StringReg.valueString port addr len d
        let lossy := match r2 with | .ok w => bytesToHex w | _ => "?"
        fin (showRes (fun v => s!"ok {bytesToHex v}|{lossy}") r) d'
      else if op == "str.set" then
        match hexToBytes arg with
        | some v =>
          let (r, d') := StringReg.setValue port addr len v d
          fin (showRes (fun _ => "ok") r) d'
        | none => "bad-op"
      else if op == "reg.read" then
        match arg.toNat? with
        | some n =>
          let (r, d') := Register.read port addr len n d
          fin (showRes (fun v => s!"ok {bytesToHex v}") r) d'
        | none => "bad-op"
      else if op == "reg.write" then
        match hexToBytes arg with
        | some v =>
          let (r, d') := Register.write port addr len v d
          fin (showRes (fun _ => "ok") r) d'
        | none => "bad-op"
      else "bad-op"
    | _, _, _, _, _, _, _, _ => "bad-op"
  | _ => "bad-op"

end Driver.C01

def main : IO Unit := Driver.runLoop fun
  | "c01" :: rest => Driver.C01.handle rest
  | _ => "bad-op"
