import CamVerif.Model.Stream
import Driver.Util
namespace Driver.C11
open CamVerif CamVerif.Stream CamVerif.Wire Driver
open CamVerif.Gen.PixelFormat (PixelFormat decodeTable allFormats decode encode?)

def errName : Err → String
  | .invalidPacket => "InvalidPacket"
  | .bufferIo => "BufferIo"

def ptName : PayloadType → String
  | .image => "Image"
  | .imageExtendedChunk => "ImageExtendedChunk"
  | .chunk => "Chunk"

def stName : PayloadStatus → String
  | .success => "Success"
  | .dataDiscarded => "DataDiscarded"
  | .dataOverrun => "DataOverrun"

/-- `ok:<fields>` / `err:<Variant>` / `panic` for a specific part. -/
def part {α} (f : α → String) : R α → String
  | .ok a => "ok:" ++ f a
  | .err e => "err:" ++ errName e
  | .panic => "panic"

def showImageLeader (l : ImageLeader) : String :=
  s!"{l.timestamp}:{l.pixelFormat.name}:{l.width}:{l.height}:{l.xOffset}:{l.yOffset}:{l.xPadding}"

def doLeader (b : Bytes) : String :=
  match Leader.parse b with
  | .panic => "panic"
  | .err e => "err " ++ errName e
  | .ok l =>
    s!"ok size={l.leaderSize} id={l.blockId} type={ptName l.payloadType}" ++
    " img=" ++ part showImageLeader (ImageLeader.fromBytes l.raw) ++
    " ext=" ++ part showImageLeader (ImageExtendedChunkLeader.fromBytes l.raw) ++
    " chunk=" ++ part (fun c => s!"{c.timestamp}") (ChunkLeader.fromBytes l.raw)

def doTrailer (b : Bytes) : String :=
  match Trailer.parse b with
  | .panic => "panic"
  | .err e => "err " ++ errName e
  | .ok t =>
    s!"ok size={t.trailerSize} id={t.blockId} status={stName t.payloadStatus} valid={t.validPayloadSize}" ++
    " img=" ++ part (fun x => s!"{x.actualHeight}") (ImageTrailer.fromBytes t.raw) ++
    " ext=" ++ part (fun x => s!"{x.actualHeight}:{x.chunkLayoutId}") (ImageExtendedChunkTrailer.fromBytes t.raw) ++
    " chunk=" ++ part (fun x => s!"{x.chunkLayoutId}") (ChunkTrailer.fromBytes t.raw)

def doPf (code : Nat) : String :=
  match decode code with
  | none => "err"
  | some f =>
    match encode? f with
    | some c => s!"ok {f.name} {c}"
    | none => s!"ok {f.name} none"

def fnvStr (h : UInt64) (s : String) : UInt64 := fnvBytes h s.toUTF8.toList

/-- Digest of both tables: accepted codes ascending with the variant each decodes to, and
all variants in declaration order with the code each encodes to. -/
def doPfSum : String :=
  let codes := ((decodeTable.map (·.1)).eraseDups).mergeSort (fun a b => a ≤ b)
  let hdec := codes.foldl (fun h c =>
    match decode c with
    | some f => fnvStr (fnvNat h c) f.name
    | none => fnvNat h c) fnvInit
  let henc := allFormats.foldl (fun h f =>
    match encode? f with
    | some c => fnvNat (fnvStr h f.name) c
    | none => fnvStr h f.name) fnvInit
  s!"ok n={codes.length} variants={allFormats.length} hdec={natToHex 16 hdec.toNat} henc={natToHex 16 henc.toNat}"

/-- deterministic buffer pattern shared with the harness -/
def pattern (len seed : Nat) : Array UInt8 :=
  Array.ofFn (n := len) fun i => UInt8.ofNat ((i.val * 7 + seed * 13 + 3) % 256)

def applyPatch (a : Array UInt8) (off : Nat) (bs : Bytes) : Array UInt8 :=
  (bs.zipIdx).foldl (fun a (b, k) => if off + k < a.size then a.set! (off + k) b else a) a

/-- `off:hex;off:hex;...` or `-` -/
def parsePatches (s : String) : Option (List (Nat × Bytes)) :=
  if s == "-" then some [] else
  (s.splitOn ";").mapM fun item =>
    match item.splitOn ":" with
    | [o, h] => do
      let o ← o.toNat?
      let h ← hexToBytes h
      pure (o, h)
    | _ => none

def digestBytes (bs : Bytes) : String :=
  s!"{bs.length}:{natToHex 16 (fnvBytes fnvInit bs).toNat}"

def showView {α} (f : α → String) : SR α → String
  | .ok a => f a
  | .err _ => "err"
  | .panic => "panic"

def showInfo : Option ImageInfo → String
  | none => "none"
  | some i => s!"{i.width}:{i.height}:{i.xOffset}:{i.yOffset}:{i.pixelFormat.name}:{i.imageSize}"

def doBuild (p : Profile) (l t buf : Bytes) (recv : Nat) : String :=
  match verifBuildPayload p l t buf recv with
  | .panic => "panic"
  | .err .invalidPayload => "err InvalidPayload"
  | .ok pl =>
    s!"ok id={pl.id} type={ptName pl.payloadType} ts={pl.timestampNs} valid={pl.validPayloadSize}" ++
    " info=" ++ showInfo pl.imageInfo ++
    " image=" ++ showView (fun o => match o with | none => "none" | some s => digestBytes s) pl.image ++
    " payload=" ++ showView digestBytes pl.payloadView ++
    " vec=" ++ digestBytes pl.intoVec

def handle : List String → String
  | ["leader", h] =>
    match hexToBytes h with
    | some b => doLeader b
    | none => "bad-op"
  | ["trailer", h] =>
    match hexToBytes h with
    | some b => doTrailer b
    | none => "bad-op"
  | ["pf", c] =>
    match c.toNat? with
    | some c => doPf c
    | none => "bad-op"
  | ["pfsum"] => doPfSum
  | ["build", p, l, t, len, seed, patches, recv] =>
    match profileOf p, hexToBytes l, hexToBytes t, len.toNat?, seed.toNat?, parsePatches patches, recv.toNat? with
    | some p, some l, some t, some len, some seed, some ps, some recv =>
      let buf := (ps.foldl (fun a (o, bs) => applyPatch a o bs) (pattern len seed)).toList
      doBuild p l t buf recv
    | _, _, _, _, _, _, _ => "bad-op"
  | _ => "bad-op"

end Driver.C11

def main : IO Unit := Driver.runLoop fun
  | "c11" :: rest => Driver.C11.handle rest
  | _ => "bad-op"
