import CamVerif.Model.Formula
import CamVerif.Spec.Formula
import Driver.Util
import Driver.C05Float
/-!
Line-protocol driver for C05.  The abstract `FloatOps` is instantiated with Lean's `Float`
in `Driver/C05Float.lean`.
-/
namespace Driver.C05
open CamVerif CamVerif.Formula CamVerif.Wire Driver

/-! ### protocol -/

def showFloat (f : Float) : String :=
  if f.isNaN then "nan" else natToHex 16 f.toBits.toNat

def binName : BinOpKind → String
  | .add => "Add" | .sub => "Sub" | .mul => "Mul" | .div => "Div" | .rem => "Rem" | .pow => "Pow"
  | .shl => "Shl" | .shr => "Shr" | .and => "And" | .or => "Or" | .eq => "Eq" | .ne => "Ne"
  | .lt => "Lt" | .le => "Le" | .gt => "Gt" | .ge => "Ge" | .bitAnd => "BitAnd" | .bitOr => "BitOr"
  | .xor => "Xor"

def unName : UnOpKind → String
  | .not => "Not" | .abs => "Abs" | .sgn => "Sgn" | .neg => "Neg" | .sin => "Sin" | .cos => "Cos"
  | .tan => "Tan" | .asin => "Asin" | .acos => "Acos" | .atan => "Atan" | .exp => "Exp" | .ln => "Ln"
  | .lg => "Lg" | .sqrt => "Sqrt" | .trunc => "Trunc" | .floor => "Floor" | .ceil => "Ceil"
  | .round => "Round"

/-- canonical tree dump (same format as the harness) -/
def dump : Expr Float → String
  | .binOp k l r => "(" ++ binName k ++ " " ++ dump l ++ " " ++ dump r ++ ")"
  | .unOp k e => "(" ++ unName k ++ " " ++ dump e ++ ")"
  | .ite c t e => "(If " ++ dump c ++ " " ++ dump t ++ " " ++ dump e ++ ")"
  | .int i => "i" ++ toString i.toInt
  | .float f => "f" ++ showFloat f
  | .ident s => "v" ++ s

def errName : Err → String
  | .invalidNode => "InvalidNode"
  | .invalidData => "InvalidData"
  | .fuel => "MODEL-FUEL"
  | .nonAscii => "MODEL-NONASCII"

def showVal : EvalResult Float → String
  | .int i => "i" ++ toString i.toInt
  | .float f => "f" ++ showFloat f

def showEval : R (EvalResult Float) → String
  | .ok v => "ok:" ++ showVal v
  | .err e => "err:" ++ errName e
  | .panic => "panic"

def hexToString (h : String) : Option String := do
  let bs ← hexToBytes h
  pure (String.ofList (bs.map fun b => Char.ofNat b.toNat))

inductive Binding where
  | lit (v : EvalResult Float)
  | expr (e : Expr Float)

/-- `name=i:<dec>` | `name=f:<16 hex>` | `name=x:<hex of formula text>`; entries separated by `,`. -/
def parseBinding (s : String) : Option (String × Binding) :=
  match s.splitOn "=" with
  | [name, v] =>
    match v.splitOn ":" with
    | ["i", d] => d.toInt?.map fun i => (name, .lit (.int (BitVec.ofInt 64 i)))
    | ["f", h] => (hexToNat h).map fun n => (name, .lit (.float (Float.ofBits (UInt64.ofNat n))))
    | ["x", h] =>
      match hexToString h with
      | some txt =>
        match (parse txt : R (Expr Float)) with
        | .ok e => some (name, .expr e)
        | _ => none
      | none => none
    | _ => none
  | _ => none

def parseEnv (s : String) : Option (List (String × Binding)) :=
  if s == "-" then some [] else (s.splitOn ",").mapM parseBinding

def lookup (bs : List (String × Binding)) (n : String) : Option Binding :=
  match bs.find? (·.1 == n) with
  | some (_, b) => some b
  | none => none

def evalWith (p : Profile) (bs : List (String × Binding)) (e : Expr Float) : R (EvalResult Float) :=
  if bs.all (fun b => match b.2 with | .lit _ => true | .expr _ => false) then
    eval p (fun n => match lookup bs n with | some (.lit v) => some v | _ => none) e
  else
    evalX p (fun n => match lookup bs n with
      | some (.lit (.int i)) => some (.int i)
      | some (.lit (.float f)) => some (.float f)
      | some (.expr e) => some e
      | none => none) (bs.length + 1) e

/-- The reference evaluator of `Spec.Formula` on the same input (value shown in model syntax). -/
def showSpec : Except Spec.SErr (Spec.SVal Float) → String
  | .ok (.int i) => "ok:i" ++ toString i
  | .ok (.float f) => "ok:f" ++ showFloat f
  | .error .unknownIdent => "err:InvalidNode"
  | .error .remByZero => "err:InvalidData"

/-- The reference evaluator computes `x ^ y` on mathematical integers: only run it when every
integer exponent in the tree is small (the model's evaluator tells). -/
def powSafe (env : Env Float) : Expr Float → Bool
  | .binOp k l r =>
    powSafe env l && powSafe env r &&
      (if k = .pow then
        match eval .dev env r with
        | .ok (.int i) => decide (i.toInt < 4096)
        | _ => true
      else true)
  | .unOp _ x => powSafe env x
  | .ite c t e => powSafe env c && powSafe env t && powSafe env e
  | _ => true

def handle : List String → String
  | ["run", p, h, env] =>
    match profileOf p, hexToString h, parseEnv env with
    | some p, some txt, some bs =>
      match (parse txt : R (Expr Float)) with
      | .ok e => dump e ++ " " ++ showEval (evalWith p bs e)
      | .err e => "parse-err:" ++ errName e
      | .panic => "parse-panic"
    | _, _, _ => "bad-op"
  | ["spec", h, env] =>
    -- reference evaluator (literal environments only)
    match hexToString h, parseEnv env with
    | some txt, some bs =>
      match (parse txt : R (Expr Float)) with
      | .ok e =>
        if powSafe (fun n => match lookup bs n with | some (.lit v) => some v | _ => none) e then
          showSpec (Spec.eval (fun n => match lookup bs n with
            | some (.lit v) => some (Spec.toSVal v) | _ => none) e)
        else "skip"
      | _ => "parse-fail"
    | _, _ => "bad-op"
  | ["dec", m, k] =>
    match m.toNat?, k.toNat? with
    | some m, some k => showFloat (FloatOps.ofDec m (-(k : Int)) : Float)
    | _, _ => "bad-op"
  | ["fmod", a, b] =>
    match hexToNat a, hexToNat b with
    | some a, some b => showFloat (fmod (Float.ofBits (UInt64.ofNat a)) (Float.ofBits (UInt64.ofNat b)))
    | _, _ => "bad-op"
  | _ => "bad-op"

end Driver.C05

def main : IO Unit := Driver.runLoop fun
  | "c05" :: rest => Driver.C05.handle rest
  | _ => "bad-op"
