import CamVerif.Model.RegMap
import CamVerif.Proofs.C13Struct
import Driver.Util
/-!
Driver for C13.  Stateful: `c13 img <seed> <segs>` installs the device image (background
noise function shared with the harness + patches, later patches win); the following
`acc` / `rt` requests run one accessor (or a setter followed by its getter) of the model
on a fresh device over that image and print `value | access log`.

`accg` requests are stateless: they run the accessor OVER AN ARBITRARY DEVICE (`runNamedG`,
`Proofs/C13Struct.lean`; uniform rows through `RRow.runG`) on the scripted stateful device
`scriptDev` — history-dependent contents, periodic failures with varying error values, short
reads — which the harness implements as a second `DeviceControl` for the real accessors.
-/
namespace Driver.C13
open CamVerif CamVerif.RegMap CamVerif.Wire Driver

/-- background byte at address `a` (same finaliser as `noise` in harness/src/bin/c13.rs) -/
def noise (seed : UInt64) (a : Nat) : UInt8 :=
  let z := seed ^^^ (UInt64.ofNat a * 0x9E3779B97F4A7C15)
  let z := (z ^^^ (z >>> 30)) * 0xBF58476D1CE4E5B9
  let z := (z ^^^ (z >>> 27)) * 0x94D049BB133111EB
  ((z ^^^ (z >>> 31)) >>> 56).toUInt8

structure Image where
  seed : UInt64
  /-- patches, latest first -/
  segs : List (Nat × ByteArray)

def Image.mem (img : Image) (a : Nat) : UInt8 :=
  match img.segs.find? (fun s => s.1 ≤ a && a < s.1 + s.2.size) with
  | some s => s.2.get! (a - s.1)
  | none => noise img.seed a

def parseSeg (s : String) : Option (Nat × ByteArray) :=
  match s.splitOn ":" with
  | [a, h] => do
    let a ← a.toNat?
    let bs ← hexToBytes h
    pure (a, ByteArray.mk bs.toArray)
  | _ => none

def parseImage (seed segs : String) : Option Image := do
  let seed ← seed.toNat?
  let segs ← if segs == "-" then some [] else (segs.splitOn ",").mapM parseSeg
  pure ⟨UInt64.ofNat seed, segs.reverse⟩

def errName : Err → String
  | .invalidDevice => "InvalidDevice"
  | .invalidData => "InvalidData"
  | .dev => "Disconnected"

def bit01 (b : Bool) : String := if b then "1" else "0"

def capBits (st : String) (preds : List String) (raw : Nat) : Option String :=
  (preds.mapM fun p => (bitTest st p raw).map bit01).map String.join

def showEnumRes : R String → String
  | .ok v => v
  | .err e => "err-" ++ errName e
  | .panic => "panic"

def showVal : Val → Option String
  | .nat n => some s!"{n}"
  | .str bs => some s!"s:{bytesToHex bs}"
  | .durNs n => some s!"ns:{n}"
  | .enum v => some v
  | .version a b c => some s!"v:{a}.{b}.{c}"
  | .bool b => some (if b then "true" else "false")
  | .unit => some "()"
  | .none => some "none"
  | .some v => (showVal v).map ("some " ++ ·)
  | .hash bs => some s!"h:{bytesToHex bs}"
  | .fileInfo raw => do
      let ft ← fileTypeOf raw
      let ct ← compressionOf raw
      let (ma, mi) ← schemaOf raw
      pure s!"fi:{showEnumRes ft}:{showEnumRes ct}:v:{ma}.{mi}.0"
  | .cfg raw => (capBits "DeviceConfiguration" ["is_multi_event_enabled"] raw).map fun b => s!"cfg:{raw}:{b}"
  | .dcap raw =>
    (capBits "DeviceCapability" ["is_user_defined_name_supported", "is_family_name_supported",
      "is_multi_event_supported", "is_stacked_commands_supported",
      "is_device_software_interface_version_supported"] raw).map fun b => s!"dcap:{raw}:{b}"
  | .ucap raw =>
    (capBits "U3VCapablitiy" ["is_sirm_available", "is_eirm_available", "is_iidc2_available"] raw).map
      fun b => s!"ucap:{raw}:{b}"
  | .abrm c => some s!"abrm:{c}"
  | .sbrm a c => some s!"sbrm:{a}:{c}"
  | .sirm a => some s!"sirm:{a}"
  | .table a => some s!"mt:{a}"
  | .entry a => some s!"me:{a}"
  | .entries n first =>
    let shown := (List.range (min n 3)).map fun i => s!"{entryAddr first i}"
    -- the harness walks tables of 4 .. 2^16 entries to their last entry
    let last := if 3 < n && n ≤ 65536 then s!"{entryAddr first (n - 1)}" else "-"
    some s!"entries:{n}:{if shown.isEmpty then "-" else ",".intercalate shown}:{last}"

def showRes : R Val → Option String
  | .ok v => (showVal v).map ("ok " ++ ·)
  | .err e => some ("err " ++ errName e)
  | .panic => some "panic"

def showAccess (a : Access) : String :=
  let d := match a.dir with | .R => "R" | .W => "W"
  let h := match a.data with | some bs => bytesToHex bs | none => "!"
  s!"{d}:{a.addr}:{a.len}:{h}"

def showLog (l : List Access) : String :=
  if l.isEmpty then "-" else ",".intercalate (l.map showAccess)

/-! ### The scripted device of the `accg` requests (mirror of `ScriptDev` in c13.rs) -/

structure SSt where
  /-- number of calls made so far -/
  n : Nat
  log : List Access

def scriptErr (i : Nat) : String :=
  if i == 0 then "Busy" else if i == 1 then "Timeout" else "Disconnected"

/-- call number `n` fails iff `k > 0` and `k ∣ n`; the error value varies with `n / k`.
A successful read delivers `min len short` bytes (the rest of the caller's buffer is left
alone), byte `i` = `noise (seed ^ n) (addr + i) & mask`: contents depend on the history. -/
def scriptDev (seed : UInt64) (k short mask : Nat) : ADev SSt String where
  read st addr len :=
    let n := st.n + 1
    if k > 0 && n % k == 0 then
      (.error (scriptErr (n / k % 3)), ⟨n, st.log ++ [⟨.R, addr, len, none⟩]⟩)
    else
      let bs := (List.range (min len short)).map fun i =>
        noise (seed ^^^ UInt64.ofNat n) (addr + i) &&& UInt8.ofNat mask
      (.ok bs, ⟨n, st.log ++ [⟨.R, addr, len, some bs⟩]⟩)
  write st addr data :=
    let n := st.n + 1
    if k > 0 && n % k == 0 then
      (.error (scriptErr (n / k % 3)), ⟨n, st.log ++ [⟨.W, addr, data.length, none⟩]⟩)
    else (.ok (), ⟨n, st.log ++ [⟨.W, addr, data.length, some data⟩]⟩)

def showResG : Res (GErr String) Val → Option String
  | .ok v => (showVal v).map ("ok " ++ ·)
  | .err .invalidDevice => some "err InvalidDevice"
  | .err .invalidData => some "err InvalidData"
  | .err (.dev e) => some ("err " ++ e)
  | .panic => some "panic"

def parseArg (s : String) : Option Arg :=
  if s == "-" then some .none
  else if s.startsWith "n:" then (s.drop 2).toNat?.map .nat
  else if s.startsWith "s:" then (hexToBytes (s.drop 2).toString).map .str
  else match s.splitOn ":" with
    | ["cfg", raw, op] => do
      let raw ← raw.toNat?
      if op == "0" then some (.cfg raw)
      else if op == "1" then (cfgOp "set_multi_event_enable_bit" raw).map .cfg
      else if op == "2" then (cfgOp "disable_multi_event" raw).map .cfg
      else none
    | _ => none

def allNames : List String :=
  let ns := Gen.RegMap.accessors.map (·.name) ++ Gen.RegMap.handModelled.map (·.1)
  (ns.toArray.qsort (· < ·)).toList

def handle (img : Image) : List String → String
  | ["names"] => "ok " ++ ",".intercalate allNames
  | ["acc", name, base, cap, broken, arg] =>
    match base.toNat?, cap.toNat?, parseArg arg with
    | some base, some cap, some arg =>
      match runNamed name base cap arg ⟨img.mem, [], broken == "1"⟩ with
      | some (r, d) =>
        match showRes r with
        | some "panic" => "panic"
        | some s => s!"{s} | {showLog d.log}"
        | none => "bad-op"
      | none => "bad-op"
    | _, _, _ => "bad-op"
  | ["accg", name, base, cap, arg, seed, k, short, mask, n0] =>
    match base.toNat?, cap.toNat?, parseArg arg, seed.toNat?, k.toNat?, short.toNat?, mask.toNat?, n0.toNat? with
    | some base, some cap, some arg, some seed, some k, some short, some mask, some n0 =>
      match runNamedG (scriptDev (UInt64.ofNat seed) k short mask) name base cap arg ⟨n0, []⟩ with
      | some (r, st) =>
        match showResG r with
        | some "panic" => "panic"
        | some s => s!"{s} | {showLog st.log} | {st.n}"
        | none => "bad-op"
      | none => "bad-op"
    | _, _, _, _, _, _, _, _ => "bad-op"
  | ["rt", setter, getter, base, cap, arg] =>
    match base.toNat?, cap.toNat?, parseArg arg with
    | some base, some cap, some arg =>
      match runNamed setter base cap arg ⟨img.mem, [], false⟩ with
      | some (r1, d1) =>
        match runNamed getter base cap .none d1 with
        | some (r2, d2) =>
          match showRes r1, showRes r2 with
          | some s1, some s2 =>
            if s1 == "panic" || s2 == "panic" then s!"{s1} ; {s2}"
            else s!"{s1} ; {s2} | {showLog d2.log}"
          | _, _ => "bad-op"
        | none => "bad-op"
      | none => "bad-op"
    | _, _, _ => "bad-op"
  | _ => "bad-op"

partial def loop (hin hout : IO.FS.Stream) (img : Image) : IO Unit := do
  let line ← hin.getLine
  if line.isEmpty then return ()
  match tokens line with
  | ["c13", "img", seed, segs] =>
    match parseImage seed segs with
    | some img' => hout.putStrLn "ok"; loop hin hout img'
    | none => hout.putStrLn "bad-op"; loop hin hout img
  | "c13" :: rest => hout.putStrLn (handle img rest); loop hin hout img
  | _ => hout.putStrLn "bad-op"; loop hin hout img

end Driver.C13

def main : IO Unit := do
  let hin ← IO.getStdin
  let hout ← IO.getStdout
  Driver.C13.loop hin hout ⟨0, []⟩
  hout.flush
