import CamVerif.Model.RegMap
import Driver.Util
/-!
Driver for C13.  Stateful: `c13 img <seed> <segs>` installs the device image (background
noise function shared with the harness + patches, later patches win); the following
`acc` / `rt` requests run one accessor (or a setter followed by its getter) of the model
on a fresh device over that image and print `value | access log`.
-/
namespace Driver.C13
open CamVerif CamVerif.RegMap CamVerif.Wire Driver

/-- background byte at address `a` (same finaliser as `noise` in harness/src/bin/c13.rs) -/
def noise (seed : UInt64) (a : Nat) : UInt8 :=
  let z := seed ^^^ (UInt64.ofNat a * 0x9E3779B97F4A7C15)
  let z := (z ^^^ (z >>> 30)) * 0xBF58476D1CE4E5B9
  let z := (z ^^^ (z >>> 27)) * 0x94D049BB133111EB
  ((z ^^^ (z >>> 31)) >>> 56).toUInt8

structure Image where
  seed : UInt64
  /-- patches, latest first -/
  segs : List (Nat × ByteArray)

def Image.mem (img : Image) (a : Nat) : UInt8 :=
  match img.segs.find? (fun s => s.1 ≤ a && a < s.1 + s.2.size) with
  | some s => s.2.get! (a - s.1)
  | none => noise img.seed a

def parseSeg (s : String) : Option (Nat × ByteArray) :=
  match s.splitOn ":" with
  | [a, h] => do
    let a ← a.toNat?
    let bs ← hexToBytes h
    pure (a, ByteArray.mk bs.toArray)
  | _ => none

def parseImage (seed segs : String) : Option Image := do
  let seed ← seed.toNat?
  let segs ← if segs == "-" then some [] else (segs.splitOn ",").mapM parseSeg
  pure ⟨UInt64.ofNat seed, segs.reverse⟩

def errName : Err → String
  | .invalidDevice => "InvalidDevice"
  | .invalidData => "InvalidData"
  | .dev => "Disconnected"

def bit01 (b : Bool) : String := if b then "1" else "0"

def capBits (st : String) (preds : List String) (raw : Nat) : Option String :=
  (preds.mapM fun p => (capBit st p).map fun bit => bit01 (isBitSet raw bit)).map String.join

def showEnumRes : R String → String
  | .ok v => v
  | .err e => "err-" ++ errName e
  | .panic => "panic"

def showVal : Val → Option String
  | .nat n => some s!"{n}"
  | .str bs => some s!"s:{bytesToHex bs}"
  | .durNs n => some s!"ns:{n}"
  | .enum v => some v
  | .version a b c => some s!"v:{a}.{b}.{c}"
  | .bool b => some (if b then "true" else "false")
  | .unit => some "()"
  | .none => some "none"
  | .some v => (showVal v).map ("some " ++ ·)
  | .hash bs => some s!"h:{bytesToHex bs}"
  | .fileInfo raw => fileInfoLayout.map fun L =>
      let (ma, mi) := L.schemaOf raw
      s!"fi:{showEnumRes (L.fileTypeOf raw)}:{showEnumRes (L.compressionOf raw)}:v:{ma}.{mi}.0"
  | .cfg raw => (capBits "DeviceConfiguration" ["is_multi_event_enabled"] raw).map fun b => s!"cfg:{raw}:{b}"
  | .dcap raw =>
    (capBits "DeviceCapability" ["is_user_defined_name_supported", "is_family_name_supported",
      "is_multi_event_supported", "is_stacked_commands_supported",
      "is_device_software_interface_version_supported"] raw).map fun b => s!"dcap:{raw}:{b}"
  | .ucap raw =>
    (capBits "U3VCapablitiy" ["is_sirm_available", "is_eirm_available", "is_iidc2_available"] raw).map
      fun b => s!"ucap:{raw}:{b}"
  | .abrm c => some s!"abrm:{c}"
  | .sbrm a c => some s!"sbrm:{a}:{c}"
  | .sirm a => some s!"sirm:{a}"
  | .table a => some s!"mt:{a}"
  | .entry a => some s!"me:{a}"
  | .entries n first =>
    let shown := (List.range (min n 3)).map fun i => s!"{entryAddr first i}"
    -- the harness walks tables of 4 .. 2^16 entries to their last entry
    let last := if 3 < n && n ≤ 65536 then s!"{entryAddr first (n - 1)}" else "-"
    some s!"entries:{n}:{if shown.isEmpty then "-" else ",".intercalate shown}:{last}"

def showRes : R Val → Option String
  | .ok v => (showVal v).map ("ok " ++ ·)
  | .err e => some ("err " ++ errName e)
  | .panic => some "panic"

def showAccess (a : Access) : String :=
  let d := match a.dir with | .R => "R" | .W => "W"
  let h := match a.data with | some bs => bytesToHex bs | none => "!"
  s!"{d}:{a.addr}:{a.len}:{h}"

def showLog (l : List Access) : String :=
  if l.isEmpty then "-" else ",".intercalate (l.map showAccess)

def parseArg (s : String) : Option Arg :=
  if s == "-" then some .none
  else if s.startsWith "n:" then (s.drop 2).toNat?.map .nat
  else if s.startsWith "s:" then (hexToBytes (s.drop 2).toString).map .str
  else match s.splitOn ":" with
    | ["cfg", raw, op] => do
      let raw ← raw.toNat?
      if op == "0" then some (.cfg raw)
      else if op == "1" then (cfgOp "set_multi_event_enable_bit" raw).map .cfg
      else if op == "2" then (cfgOp "disable_multi_event" raw).map .cfg
      else none
    | _ => none

def allNames : List String :=
  let ns := Gen.RegMap.accessors.map (·.name) ++ Gen.RegMap.handModelled.map (·.1)
  (ns.toArray.qsort (· < ·)).toList

def handle (img : Image) : List String → String
  | ["names"] => "ok " ++ ",".intercalate allNames
  | ["acc", name, base, cap, broken, arg] =>
    match base.toNat?, cap.toNat?, parseArg arg with
    | some base, some cap, some arg =>
      match runNamed name base cap arg ⟨img.mem, [], broken == "1"⟩ with
      | some (r, d) =>
        match showRes r with
        | some "panic" => "panic"
        | some s => s!"{s} | {showLog d.log}"
        | none => "bad-op"
      | none => "bad-op"
    | _, _, _ => "bad-op"
  | ["rt", setter, getter, base, cap, arg] =>
    match base.toNat?, cap.toNat?, parseArg arg with
    | some base, some cap, some arg =>
      match runNamed setter base cap arg ⟨img.mem, [], false⟩ with
      | some (r1, d1) =>
        match runNamed getter base cap .none d1 with
        | some (r2, d2) =>
          match showRes r1, showRes r2 with
          | some s1, some s2 =>
            if s1 == "panic" || s2 == "panic" then s!"{s1} ; {s2}"
            else s!"{s1} ; {s2} | {showLog d2.log}"
          | _, _ => "bad-op"
        | none => "bad-op"
      | none => "bad-op"
    | _, _, _ => "bad-op"
  | _ => "bad-op"

partial def loop (hin hout : IO.FS.Stream) (img : Image) : IO Unit := do
  let line ← hin.getLine
  if line.isEmpty then return ()
  match tokens line with
  | ["c13", "img", seed, segs] =>
    match parseImage seed segs with
    | some img' => hout.putStrLn "ok"; loop hin hout img'
    | none => hout.putStrLn "bad-op"; loop hin hout img
  | "c13" :: rest => hout.putStrLn (handle img rest); loop hin hout img
  | _ => hout.putStrLn "bad-op"; loop hin hout img

end Driver.C13

def main : IO Unit := do
  let hin ← IO.getStdin
  let hout ← IO.getStdout
  Driver.C13.loop hin hout ⟨0, []⟩
  hout.flush
