import CamVerif.Model.Camera
import Driver.Util
namespace Driver.C16
open CamVerif CamVerif.Camera Driver

def errName : Err → String
  | .controlIo => "Control.Io"
  | .controlNotOpened => "Control.NotOpened"
  | .controlInvalidData => "Control.InvalidData"
  | .streamIo => "Stream.Io"
  | .streamPoisoned => "Stream.Poisoned"
  | .inStreaming => "Stream.InStreaming"
  | .ctxtMissing => "CtxtMissing"
  | .invalidXml => "InvalidXml"
  | .genApiDevice => "GenApi.Device"

def showRes : Res Err Unit → String
  | .ok _ => "ok"
  | .err e => "err:" ++ errName e
  | .panic => "panic"

def subTok : Sub → String
  | .ctrlOpen => "CO"
  | .strmOpen => "SO"
  | .ctrlClose => "CC"
  | .strmClose => "SC"
  | .genapi => "GA"
  | .enable => "EN"
  | .disable => "DI"
  | .lockSet v => s!"L{v}"
  | .acqStart => "AS"
  | .acqStop => "AT"
  | .paramRead => "PR"
  | .loopStart => "LS"
  | .loopStop => "LT"

def outTok : Out → String
  | .ok => "+"
  | .fault => "!"
  | .notOpened => "-"

def b (v : Bool) : String := if v then "1" else "0"

def showDev (d : Dev) : String :=
  s!"R{b d.loopFlag}N{d.loops}E{b d.enabled}L{d.lock}A{b d.acquiring}C{b d.ctrlOpen}S{b d.strmOpen}X{b d.ctxt.isSome}K{b d.cache.lock}{b d.cache.start}{b d.cache.stop}{b d.cache.gain}"

def opOf (s : String) : Option Op :=
  if s == "open" then some .open
  else if s == "load" then some .load
  else if s == "stop" then some .stop
  else if s == "close" then some .close
  else if s == "param" then some .param
  else if s.startsWith "start" then (s.drop 5).toNat?.map Op.start
  else none

def xmlOf (s : String) : Option Xml :=
  match s.toList with
  | [p, l, a, o] => some ⟨p == '1', l == '1', a == '1', o == '1'⟩
  | _ => none

def faultsOf (s : String) : Option (List Nat) :=
  if s == "-" then some [] else (s.splitOn ",").mapM String.toNat?

/-- run the calls one by one: (results with state after each call, trace segments) -/
def runAll (env : Env) : List Op → State → String × String
  | [], _ => ("", "")
  | op :: ops, s =>
    let (r, s') := step env op s
    let seg := s'.trace.drop s.trace.length
    let (a, t) := runAll env ops s'
    (s!"{showRes r}[{showDev s'.dev}] " ++ a,
     seg.foldl (fun acc e => acc ++ " " ++ subTok e.sub ++ outTok e.out) "" ++ " ;" ++ t)

def handle : List String → String
  | "run" :: xml :: mode :: faults :: ops =>
    match xmlOf xml, faultsOf faults, ops.mapM opOf with
    | some xml, some fs, some ops =>
      if mode != "keep" && mode != "kill" then "bad-op" else
      let env : Env := { plan := fun k => fs.contains k, xml := xml, stopFailKills := mode == "kill" }
      let (a, t) := runAll env ops State.init
      a ++ "|" ++ t
    | _, _, _ => "bad-op"
  | _ => "bad-op"

end Driver.C16

def main : IO Unit := Driver.runLoop fun
  | "c16" :: rest => Driver.C16.handle rest
  | _ => "bad-op"
