import CamVerif.Model.Camera
import Driver.Util
namespace Driver.C16
open CamVerif CamVerif.Camera Driver

def ctrlKinds : List String := ["Io", "Timeout", "Disconnected", "Busy", "InvalidDevice", "BufferTooSmall"]
def strmKinds : List String := ["Io", "Timeout", "Disconnected", "BufferTooSmall", "SendError", "InvalidPayload"]
def stopKinds : List String := ["Poisoned", "Timeout", "Disconnected", "BufferTooSmall", "SendError", "InvalidPayload"]

/-- `kind` selects which variant the fakes return for an injected fault (the camera propagates
it unchanged; the model's `controlIo`/`streamIo`/`streamPoisoned` stand for "the injected
control / stream / loop-stop error"). -/
def errName (kind : Nat) : Err → String
  | .controlIo => "Control." ++ ctrlKinds.getD kind "?"
  | .controlNotOpened => "Control.NotOpened"
  | .controlInvalidData => "Control.InvalidData"
  | .streamIo => "Stream." ++ strmKinds.getD kind "?"
  | .streamPoisoned => "Stream." ++ stopKinds.getD kind "?"
  | .inStreaming => "Stream.InStreaming"
  | .ctxtMissing => "CtxtMissing"
  | .invalidXml => "InvalidXml"
  | .genApiDevice => "GenApi.Device"

def showRes (kind : Nat) : Res Err Unit → String
  | .ok _ => "ok"
  | .err e => "err:" ++ errName kind e
  | .panic => "panic"

def subTok : Sub → String
  | .ctrlOpen => "CO"
  | .strmOpen => "SO"
  | .ctrlClose => "CC"
  | .strmClose => "SC"
  | .genapi => "GA"
  | .enable => "EN"
  | .disable => "DI"
  | .lockSet v => s!"L{v}"
  | .acqStart => "AS"
  | .acqStop => "AT"
  | .paramRead => "PR"
  | .gateSet v => s!"G{v}"
  | .loopStart => "LS"
  | .loopStop => "LT"

def outTok : Out → String
  | .ok => "+"
  | .fault => "!"
  | .notOpened => "-"

def b (v : Bool) : String := if v then "1" else "0"

def showChan : Option (Nat × Nat) → String
  | none => "H-"
  | some (f, k) => s!"H{f}.{k}"

def showDev (hideChan : Bool) (d : Dev) : String :=
  s!"R{b d.loopFlag}N{d.loops}E{b d.enabled}L{d.lock}A{b d.acquiring}C{b d.ctrlOpen}S{b d.strmOpen}X{b d.ctxt.isSome}K{b d.cache.lock}{b d.cache.start}{b d.cache.stop}{b d.cache.gain}{b d.cache.gate}G{d.gate}{if hideChan then "H?" else showChan d.chan}"

/-- a request step: a call of the camera, or state surgery through the public API -/
inductive Step where
  | call (op : Op)
  | preload   -- `Camera::new(.., Some(ctxt), ..)` / `set_context`: install a fresh context
  | unload    -- `camera.ctxt = None`
  | die       -- environment event: the receive loop thread dies on its own

def stepOf (s : String) : Option Step :=
  if s == "open" then some (.call .open)
  else if s == "load" then some (.call .load)
  else if s == "stop" then some (.call .stop)
  else if s == "close" then some (.call .close)
  else if s == "param" then some (.call .param)
  else if s == "preload" then some .preload
  else if s == "unload" then some .unload
  else if s == "die" then some .die
  else if s.startsWith "start" then (s.drop 5).toNat?.map (fun c => .call (.start c))
  else if s.startsWith "gate" then (s.drop 4).toNat?.map (fun v => .call (.gate v))
  else none

/-- one step of a request -/
def doStep (env : Env) (st : Step) (s : State) : Res Err Unit × State :=
  match st with
  | .call op => step env op s
  | .preload =>
    if env.xml.parseOk then
      (.ok (), { s with dev := { s.dev with ctxt := some env.xml, cache := Cache.empty } })
    else (.err .controlInvalidData, s)
  | .unload => (.ok (), { s with dev := { s.dev with ctxt := none, cache := Cache.empty } })
  | .die => stepEv env .loopDies s

def xmlOf (s : String) : Option Xml :=
  match s.toList with
  | [p, l, a, o] => some ⟨p == '1', l == '1', a == '1', o == '1'⟩
  | _ => none

def faultsOf (s : String) : Option (List Nat) :=
  if s == "-" then some [] else (s.splitOn ",").mapM String.toNat?

/-- run the steps one by one: (results with state after each step, trace segments) -/
def runAll (env : Env) (kind : Nat) (hideChan : Bool) : List Step → State → String × String
  | [], _ => ("", "")
  | st :: sts, s =>
    let (r, s') := doStep env st s
    let seg := s'.trace.drop s.trace.length
    let (a, t) := runAll env kind hideChan sts s'
    (s!"{showRes kind r}[{showDev hideChan s'.dev}] " ++ a,
     seg.foldl (fun acc e => acc ++ " " ++ subTok e.sub ++ outTok e.out) "" ++ " ;" ++ t)

/-- order token: first char = which handle `open` opens first, second char = which handle
`close` closes first (`c` = control handle, `s` = stream handle) -/
def orderOf (s : String) : Option (Bool × Bool) :=
  match s.toList with
  | [o, c] => if (o == 'c' || o == 's') && (c == 'c' || c == 's') then some (o == 'c', c == 'c') else none
  | _ => none

def handle : List String → String
  | "run" :: xml :: mode :: kind :: order :: faults :: ops =>
    match xmlOf xml, kind.toNat?, orderOf order, faultsOf faults, ops.mapM stepOf with
    | some xml, some kind, some (oc, cc), some fs, some sts =>
      if mode != "keep" && mode != "kill" && mode != "u3v" && mode != "u3vr" then "bad-op" else
      let env : Env := { plan := fun k => fs.contains k, xml := xml, stopFailKills := mode == "kill",
                         openCtrlFirst := oc, closeCtrlFirst := cc,
                         handle := if mode == "u3v" || mode == "u3vr" then .u3v else .fake }
      -- "u3vr": the REAL u3v::StreamHandle is driven; its loop owns the sender, the channel is not probed
      let (a, t) := runAll env kind (mode == "u3vr") sts State.init
      a ++ "|" ++ t
    | _, _, _, _, _ => "bad-op"
  | _ => "bad-op"

end Driver.C16

def main : IO Unit := Driver.runLoop fun
  | "c16" :: rest => Driver.C16.handle rest
  | _ => "bad-op"
