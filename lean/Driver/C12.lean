/-
C12 driver: TRACE ACCEPTANCE against `CamVerif.Model.StreamLoop`.

Request (one line, space separated):
  c12 trace <profile> <session>          one session
  c12 mtrace <profile> <session> | <session> ...   several sessions on the same handle, ONE model run
  <session> = <ls> <ts> <ps> <pc> <f1> <f2> <cap> <bcap> <maxLate> <item>* <event>*
items  : `id<hex|->` data packet, `ifio` `ifdisc` `iftimeout` fault
events : loop thread   Ytop Yget Yobt Ypoll Ysend Yerr  yield-point markers
                       S<id>,<len>  SF<cls>            submit ok / failed
                       PD<id>,<len>,<fnv>  PE<id>,<cls>  PP<id>  PC<id>  PL<id>   poll: data / fault / pending / cancelled / cancelled, completion late
                       C<id>                            cancel
         receiver      RO<tok>,<ptr>,<valid>,<info>,<fnv>  RE<cls>  RN  RB<tok>  RD<tok>  RX
         controller    KC  KR<ok|err>  KL<ok|err> (close returned)  KD (drop returned)  KS (start refused)
         end           F<outstanding>
Answer: `ACCEPT <n states> <abstract transition hashes ...>` or `REJECT <index> <event> <why>`.

Unobserved loop steps (cancellation check, buffer choice, parse/build, try_send outcome, end of
iteration, exit) are tau steps: the acceptor keeps the SET of model states compatible with the
observed prefix (subset construction), so every observed event must be an enabled transition
from some compatible state and the delivered payloads must equal the model's.
-/
import CamVerif.Model.StreamLoop
import CamVerif.Model.Stream
import Driver.Util
namespace Driver.C12
open CamVerif CamVerif.StreamLoop CamVerif.Wire Driver

def fnvStr (h : UInt64) (s : String) : UInt64 := fnvBytes h s.toUTF8.toList

def ptName : Stream.PayloadType → String
  | .image => "Image"
  | .imageExtendedChunk => "ImageExtendedChunk"
  | .chunk => "Chunk"

/-- Digest of every `Payload` field except the bytes (same string as the harness builds). -/
def infoDigest (p : Stream.Payload) : Nat :=
  let img := match p.imageInfo with
    | none => "none"
    | some i => s!"{i.width},{i.height},{i.xOffset},{i.yOffset},{i.pixelFormat.name},{i.imageSize}"
  (fnvStr fnvInit s!"{p.id}|{ptName p.payloadType}|{p.timestampNs}|{img}").toNat

/-- The loop's parse + build, from the C11 model. -/
def asm (prof : Profile) : Assembler := fun lb tb pb read =>
  match Stream.Leader.parse lb with
  | .panic => .panic
  | .err _ => .leaderErr
  | .ok l =>
    match Stream.Trailer.parse tb with
    | .panic => .panic
    | .err _ => .trailerErr
    | .ok t =>
      if t.blockId ≠ l.blockId then .idMismatch else
      match Stream.build prof l t pb read with
      | .panic => .panic
      | .err _ => .buildErr
      | .ok p => .built ⟨p.validPayloadSize, infoDigest p⟩

def clsOf (s : String) : Option SErr :=
  if s == "io" then some .io else if s == "disc" then some .disconnected
  else if s == "timeout" then some .timeout else if s == "invalid" then some .invalidPayload else none

/-- Acceptor state: a model state, token→model buffer id, model buffer id→pointer, path so far. -/
structure Acc where
  s : State
  tok : List (Nat × Nat)
  ptr : List (Nat × Nat)
  path : List (UInt64 × UInt64)

def pcTag : PC → Nat
  | .top => 1 | .obtain => 2 | .submit k => 100 + k | .poll => 3 | .parse => 4
  | .send (.ok _) => 5 | .send (.err e) => 6 + (match e with | .io => 0 | .disconnected => 1 | .timeout => 2 | .invalidPayload => 3)
  | .drop c => 200 + c | .exiting => 10 | .exited => 11 | .dead => 12

def ctlTag : Ctl → Nat
  | .running => 0 | .stopping => 1 | .stopOk => 2 | .stopErr => 3 | .calling => 4 | .closed => 5

/-- Abstract (control) state used for the coverage figures. -/
def absHash (s : State) : UInt64 :=
  [pcTag s.pc, s.pending.length, s.chan.length, s.back.length, s.held.length, ctlTag s.ctl,
   s.rxAlive.toNat, s.senderAlive.toNat, s.cur.isSome.toNat, s.reuse.isSome.toNat].foldl fnvNat fnvInit

def stepTag : Step → Nat
  | .checkCancel => 1 | .obtainReuse => 2 | .obtainBack => 3 | .obtainAlloc => 4 | .submitOk => 5
  | .submitFail e => 60 + (match e with | .io => 0 | .disconnected => 1 | .timeout => 2 | .invalidPayload => 3)
  | .pollOk => 7 | .pollOverflow => 8 | .pollFault => 9 | .pollPending => 10 | .pollErr _ => 27 | .rxSendForeign _ => 28 | .parse => 11
  | .trySend => 12 | .cancelNext => 13 | .reapOne => 14 | .reapLate => 26 | .reapFault => 29 | .iterEnd => 15 | .exit => 16
  | .rxRecv => 17 | .rxNone => 18 | .rxSendBack _ => 19 | .rxDrop _ => 20 | .rxClose => 21
  | .stopCall => 22 | .stopDisc => 23 | .stopBlock => 24 | .closeDone => 25

structure Env where
  P : Params
  A : Assembler
  script : List Item

def Env.step (E : Env) (a : Acc) (st : Step) : Option Acc :=
  match StreamLoop.step E.P E.A E.script a.s st with
  | some s' => some { a with s := s', path := (fnvNat (fnvNat (absHash a.s) (stepTag st)) (absHash s').toNat, absHash s') :: a.path }
  | none => none

def tauSteps : List Step :=
  [.checkCancel, .obtainReuse, .obtainBack, .obtainAlloc, .parse, .trySend, .iterEnd, .exit, .stopBlock, .stopDisc]

def sameAcc (a b : Acc) : Bool := a.s == b.s && a.tok == b.tok && a.ptr == b.ptr

def insertAcc (xs : List Acc) (a : Acc) : List Acc :=
  if xs.any (sameAcc a) then xs else xs ++ [a]

/-- All states reachable through tau steps (fuel bounds the chain; each chain is short). -/
def closure (E : Env) : Nat → List Acc → List Acc → List Acc
  | 0, _, seen => seen
  | fuel + 1, frontier, seen =>
    match frontier with
    | [] => seen
    | _ =>
      let next := frontier.foldl (fun acc a => tauSteps.foldl (fun acc st =>
        match E.step a st with
        | some a' => if seen.any (sameAcc a') || acc.any (sameAcc a') then acc else acc ++ [a']
        | none => acc) acc) []
      closure E fuel next (seen ++ next)

def closeSet (E : Env) (xs : List Acc) : List Acc :=
  let xs := xs.foldl insertAcc []
  closure E 64 xs xs

def splitComma (s : String) : List String := s.splitOn ","

def lookup (k : Nat) : List (Nat × Nat) → Option Nat
  | [] => none
  | (a, b) :: r => if a = k then some b else lookup k r

/-- Buffers that are alive in the model state (everything that is not freed). -/
def liveIds (s : State) : List Nat :=
  (s.held.map (·.buf.id)) ++ (s.back.map (·.buf.id)) ++ (s.chan.filterMap msgBufId)
  ++ (match s.cur with | some b => [b.id] | none => [])
  ++ (match s.reuse with | some b => [b.id] | none => [])
  ++ (match s.pc with | .send (.ok m) => [m.buf.id] | _ => [])

def frontXfer (s : State) : Option Xfer := s.pending.head?

/-- Apply one observed event to one acceptor state (after tau closure). -/
def applyEvent (E : Env) (ev : String) (a : Acc) : Option Acc :=
  let s := a.s
  let body := (ev.drop 2).toString
  let body1 := (ev.drop 1).toString
  if ev == "Ytop" then (if s.pc == .top then some a else none)
  else if ev == "Yobt" then (if s.pc == .submit 0 then some a else none)
  else if ev == "Ypoll" then (if s.pc == .poll then some a else none)
  else if ev == "Ysend" then (match s.pc with | .send (.ok _) => some a | _ => none)
  else if ev == "Yget" then (if s.pc == .obtain then some a else none)
  else if ev == "Yerr" then (match s.pc with | .send (.err _) => some a | _ => none)
  else if ev.startsWith "SF" then
    match clsOf body with
    | some e => E.step a (.submitFail e)
    | none => none
  else if ev.startsWith "S" then
    match splitComma body1 with
    | [id, len] =>
      match id.toNat?, len.toNat?, s.pc with
      | some id, some len, .submit k =>
        match E.P.layout[k]? with
        | some sl => if sl.len = len ∧ s.nextXfer = id then E.step a .submitOk else none
        | none => none
      | _, _, _ => none
    | _ => none
  else if ev.startsWith "PD" then
    match splitComma body with
    | [id, len, dg] =>
      match id.toNat?, len.toNat?, hexToNat dg, frontXfer s, E.script[s.consumed]? with
      | some id, some len, some dg, some x, some (.data d) =>
        if x.id = id ∧ d.length = len ∧ (fnvBytes fnvInit d).toNat = dg then
          match E.step a .pollOk with
          | some r => some r
          | none => E.step a .pollOverflow
        else none
      | _, _, _, _, _ => none
    | _ => none
  else if ev.startsWith "PE" then
    match splitComma body with
    | [id, cls] =>
      match id.toNat?, clsOf cls, frontXfer s, E.script[s.consumed]? with
      | some id, some e, some x, some (.fault e') =>
        if x.id = id ∧ e = e' then
          (match s.pc with
           | .drop _ => E.step a .reapFault     -- reaped during `AsyncPool::drop` with its own error
           | _ => E.step a .pollFault)
        else none
      | _, _, _, _ => none
    | _ => none
  else if ev.startsWith "PP" then
    match body.toNat?, frontXfer s with
    | some id, some x => if x.id = id then E.step a .pollPending else none
    | _, _ => none
  else if ev.startsWith "PX" then
    -- the event loop failed: nothing reaped
    match splitComma body with
    | [id, cls] =>
      match id.toNat?, clsOf cls, frontXfer s, s.pc with
      | some id, some e, some x, .poll => if x.id = id then E.step a (.pollErr e) else none
      | some id, some _, some x, .drop _ => if x.id = id then E.step a .reapLate else none
      | _, _, _, _ => none
    | _ => none
  else if ev.startsWith "RF" then
    -- send_back of a foreign payload whose buffer has this many bytes
    match body.toNat? with
    | some n => E.step a (.rxSendForeign (List.replicate n 0))
    | none => none
  else if ev.startsWith "PL" then
    -- poll of a cancelled transfer whose completion is not reported yet
    match body.toNat?, frontXfer s with
    | some id, some x => if x.id = id then E.step a .reapLate else none
    | _, _ => none
  else if ev.startsWith "PC" then
    match body.toNat?, frontXfer s with
    | some id, some x => if x.id = id then E.step a .reapOne else none
    | _, _ => none
  else if ev.startsWith "C" then
    match body1.toNat?, s.pc with
    | some id, .drop c =>
      match s.pending[s.pending.length - 1 - c]? with
      | some x => if x.id = id ∧ c < s.pending.length then E.step a .cancelNext else none
      | none => none
    | _, _ => none
  else if ev.startsWith "RO" then
    match splitComma body with
    | [tok, ptr, valid, info, dg] =>
      match tok.toNat?, ptr.toNat?, valid.toNat?, hexToNat info, hexToNat dg, s.chan with
      | some tok, some ptr, some valid, some info, some dg, .ok m :: _ =>
        let okData : Bool := m.valid == valid && m.info == info &&
          decide (valid ≤ m.buf.bytes.length) && (fnvBytes fnvInit (m.buf.bytes.take valid)).toNat == dg
        let okPtr : Bool := match lookup m.buf.id a.ptr with
          | some p => p == ptr || ptr == 0 || p == 0
          | none => true
        -- no other live buffer of the model sits at this address
        let alias : Bool := ptr != 0 && (liveIds s).any fun j => j != m.buf.id && lookup j a.ptr == some ptr
        if okData && okPtr && !alias then
          match E.step a .rxRecv with
          | some r => some { r with tok := (tok, m.buf.id) :: a.tok,
                                     ptr := (m.buf.id, ptr) :: a.ptr.filter (fun q => q.1 ≠ m.buf.id ∧ q.2 ≠ ptr) }
          | none => none
        else none
      | _, _, _, _, _, _ => none
    | _ => none
  else if ev.startsWith "RE" then
    match clsOf body, s.chan with
    | some e, .err e' :: _ => if e = e' then E.step a .rxRecv else none
    | _, _ => none
  else if ev == "RN" then E.step a .rxNone
  else if ev.startsWith "RB" then
    match body.toNat? with
    | some tok => match lookup tok a.tok with
      | some id => E.step a (.rxSendBack id)
      | none => none
    | none => none
  else if ev.startsWith "RD" then
    match body.toNat? with
    | some tok => match lookup tok a.tok with
      | some id => E.step a (.rxDrop id)
      | none => none
    | none => none
  else if ev == "RX" then E.step a .rxClose
  else if ev == "KC" then E.step a .stopCall
  else if ev == "KRok" then (if s.ctl == .stopOk then some a else none)
  else if ev == "KRerr" then (if s.ctl == .stopErr then some a else none)
  -- `close()` returned Ok: the stop succeeded and the loop thread has released the channel
  else if ev == "KLok" then E.step a .closeDone
  else if ev == "KLerr" then (if s.ctl == .stopErr then some a else none)
  -- the handle was dropped (`Drop` = `close`, result ignored)
  else if ev == "KD" then (match E.step a .closeDone with
    | some r => some r
    | none => if s.ctl == .stopErr then some a else none)
  -- `start_streaming_loop` on a running handle: refused with `InStreaming`, nothing changes
  else if ev == "KS" then (if s.ctl == .running then some a else none)
  else if ev.startsWith "F" then
    -- end of the session: the loop has exited, the fake's ledger is what the model says
    match body1.toNat? with
    | some n => if s.pending.length = n ∧ (s.pc == .exited ∨ s.pc == .dead) then some a else none
    | none => none
  else none

def describe (xs : List Acc) : String :=
  ",".intercalate ((xs.take 6).map fun a =>
    s!"pc{pcTag a.s.pc}/pend{a.s.pending.length}/chan{a.s.chan.length}/back{a.s.back.length}/held{a.s.held.length}/ctl{ctlTag a.s.ctl}/cons{a.s.consumed}/nx{a.s.nextXfer}")

def runEventsSet (E : Env) : Nat → List String → List Acc → Except String (List Acc)
  | _, [], set => .ok set
  | i, ev :: rest, set =>
    let cl := closeSet E set
    let next := cl.filterMap (applyEvent E ev)
    match next with
    | [] => .error s!"REJECT {i} {ev} from {describe cl}"
    | _ => runEventsSet E (i + 1) rest next

def finishSet (set : List Acc) : String :=
  match set with
  | a :: _ =>
    let hs := a.path.reverse.map fun h => natToHex 16 h.1.toNat ++ ":" ++ natToHex 16 h.2.toNat
    s!"ACCEPT {set.length} " ++ " ".intercalate hs
  | [] => "REJECT end"

def parseItem (t : String) : Option Item :=
  if t.startsWith "id" then (hexToBytes (t.drop 2).toString).map Item.data
  else if t.startsWith "if" then (clsOf (t.drop 2).toString).map Item.fault
  else none

/-- `<ls> <ts> <ps> <pc> <f1> <f2> <cap> <bcap> <maxLate> <item>* <event>*` -/
def parseSession (prof : Profile) : List String → Option (Env × List String)
  | ls :: ts :: ps :: pc :: f1 :: f2 :: cap :: bcap :: ml :: rest =>
    match ls.toNat?, ts.toNat?, ps.toNat?, pc.toNat?, f1.toNat?, f2.toNat?, cap.toNat?, bcap.toNat?, ml.toNat? with
    | some ls, some ts, some ps, some pc, some f1, some f2, some cap, some bcap, some ml =>
      let P : Params := ⟨ls, ts, ps, pc, f1, f2, cap, bcap, ml⟩
      let itemToks := rest.takeWhile (fun t => t.startsWith "i")
      let evs := rest.dropWhile (fun t => t.startsWith "i")
      match itemToks.mapM parseItem with
      | some items => some (⟨P, asm prof, items⟩, evs)
      | none => none
    | _, _, _, _, _, _, _, _, _ => none
  | _ => none

def splitSessions : List String → List (List String)
  | [] => [[]]
  | t :: rest =>
    match splitSessions rest with
    | cur :: more => if t == "|" then [] :: cur :: more else (t :: cur) :: more
    | [] => [[t]]

/-- Sessions of one history on the same handle, accepted by ONE run of the model: between two
sessions the model takes its `restart` step (new parameters, script and channels; the receiver
keeps what it holds; buffer identities and tokens carry over). -/
def runSessions (prof : Profile) : Nat → List (List String) → Option (List Acc) → String
  | _, [], none => "bad-op"
  | _, [], some set => finishSet set
  | k, toks :: more, cur =>
    match parseSession prof toks with
    | none => "bad-session"
    | some (E, evs) =>
      let start : Except String (List Acc) :=
        match cur with
        | none => .ok [⟨init E.P, [], [], []⟩]
        | some set =>
          -- restart: enabled in the states where the previous session is stopped/closed and its loop
          -- has returned
          let cands := set.filter fun a => decide (canRestart a.s)
          match cands with
          | [] => .error s!"REJECT restart {k} from {describe set}"
          | _ => .ok (cands.map fun a =>
              { a with s := restartState E.P a.s, ptr := [],
                       path := (fnvNat (fnvNat (absHash a.s) 99) (absHash (restartState E.P a.s)).toNat,
                                absHash (restartState E.P a.s)) :: a.path })
      match start with
      | .error e => e
      | .ok set0 =>
        match runEventsSet E 0 evs set0 with
        | .error e => s!"{e} (session {k})"
        | .ok set1 => runSessions prof (k + 1) more (some (closeSet E set1))

def handle : List String → String
  | "trace" :: prof :: rest =>
    match profileOf prof with
    | some prof => runSessions prof 1 [rest] none
    | none => "bad-op"
  | "mtrace" :: prof :: rest =>
    match profileOf prof with
    | some prof => runSessions prof 1 (splitSessions rest) none
    | none => "bad-op"
  | _ => "bad-op"

end Driver.C12

def main : IO Unit := Driver.runLoop fun
  | "c12" :: rest => Driver.C12.handle rest
  | _ => "bad-op"
