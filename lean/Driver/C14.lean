import CamVerif.Model.GenApiFetch
import CamVerif.Model.Streaming
import Driver.Util
/-!
Line protocol of the C14 driver.

`c14 run <maxAck> R <n> (<base> <hex>)* F <k> (<addr> <size> <sha1hex> <zipspec>)* L <j> (<in> <out>)* <op>*`
  one request = one lifetime of an opened handle over a device whose memory map consists of the
  `R` regions.  `F`: results of the external functions for the byte string stored at
  `(addr, size)` of the initial image: its SHA-1 and what the zip crate makes of it
  (`Z0` = not an archive, `Z<m>:<x>` = m members, x = hex of member 0 (`-` = empty) / `fail` / `none`).
  `L`: the pairs on which `String::from_utf8_lossy` is not the identity.
  ops: `g` = genapi, optionally `@<k>:<kind>:<applied>` = the k-th device command fails;
  `M:<addr>:<hex>` = the device changes bytes on its own before the next call.
  answer per op: `g=ok:<len>:<fnv>` | `g=err:<Class>` | `g=panic`, followed by `n=<commands> h=<fnv of (addr,len)>`.
-/
namespace Driver.C14
open CamVerif CamVerif.GenApiFetch CamVerif.Wire Driver

abbrev Dev := CamVerif.Streaming.Dev

def errName : Err → String
  | .io => "Io"
  | .busy => "Busy"
  | .disconnected => "Disconnected"
  | .timeout => "Timeout"
  | .invalidDevice => "InvalidDevice"
  | .invalidData => "InvalidData"

def convErr : CamVerif.Streaming.Err → Err
  | .io => .io
  | .busy => .busy
  | .disconnected => .disconnected
  | .timeout => .timeout
  | .invalidDevice => .invalidDevice
  | .invalidData => .invalidData

def faultErr (kind : String) : Option CamVerif.Streaming.Err :=
  if kind == "status" then some .io
  else if kind == "Io" || kind == "Pipe" || kind == "Overflow" || kind == "Other" then some .io
  else if kind == "Busy" then some .busy
  else if kind == "NoDevice" || kind == "NotFound" then some .disconnected
  else if kind == "Timeout" then some .timeout
  else none

def memOfRegions (rs : List (Nat × Array UInt8)) : CamVerif.Streaming.Mem :=
  { byte := fun x =>
      match rs.find? (fun r => r.1 ≤ x ∧ x < r.1 + r.2.size) with
      | some r => r.2.getD (x - r.1) 0
      | none => 0
    mapped := fun x => rs.any (fun r => r.1 ≤ x ∧ x < r.1 + r.2.size) }

/-- `ControlHandle::read` over the command-level device: address range check, the
acknowledge-length check, then one ReadMem command per chunk of
`maximum_read_length(max_ack) = min(max_ack - 12, 65535)` bytes. -/
def chunkLoop (c : Nat) : Nat → Nat → Nat → List Bytes → Dev → R Bytes × Dev
  | 0, _, _, acc, d => (.ok acc.reverse.flatten, d)
  | fuel + 1, a, n, acc, d =>
    if n = 0 then (.ok acc.reverse.flatten, d)
    else
      let k := min c n
      match d.read a k with
      | (.ok bs, d') => chunkLoop c fuel (a + k) (n - k) (bs :: acc) d'
      | (.err e, d') => (.err (convErr e), d')
      | (.panic, d') => (.panic, d')

def chRead (maxAck a n : Nat) (d : Dev) : R Bytes × Dev :=
  if ¬ (n = 0 ∨ a + (n - 1) < 2 ^ 64) then (.err .invalidData, d)
  else if maxAck ≤ 12 then (.err .io, d)
  else chunkLoop (min (maxAck - 12) 65535) (n + 1) a n [] d

structure FileInfo where
  content : Bytes
  sha1 : Bytes
  unzip : Option (List (Option Bytes))

def mkOps (maxAck : Nat) (files : List FileInfo) (lossy : List (Bytes × Bytes)) : Ops Dev :=
  { read := chRead maxAck
    sha1 := fun b => match files.find? (·.content == b) with
      | some f => f.sha1
      | none => []          -- not supplied: never equals a 20 byte hash
    unzip := fun b => match files.find? (·.content == b) with
      | some f => f.unzip
      | none => none
    lossy := fun b => match lossy.find? (·.1 == b) with
      | some p => p.2
      | none => b }

def parseZip (s : String) : Option (Option (List (Option Bytes))) :=
  if s == "Z0" then some none
  else match (s.drop 1).toString.splitOn ":" with
    | [m, x] =>
      match m.toNat? with
      | some m =>
        if m = 0 then some (some [])
        else
          let m0 : Option (Option Bytes) :=
            if x == "fail" || x == "none" then some none else (hexToBytes x).map some
          m0.map fun m0 => some (m0 :: List.replicate (m - 1) none)
      | none => none
    | _ => none

def parseRegions : Nat → List String → Option (List (Nat × Array UInt8) × List String)
  | 0, rest => some ([], rest)
  | n + 1, b :: h :: rest => do
    let base ← b.toNat?
    let bytes ← hexToBytes h
    let (rs, rest') ← parseRegions n rest
    pure ((base, bytes.toArray) :: rs, rest')
  | _, _ => none

def parseFiles (mem : CamVerif.Streaming.Mem) : Nat → List String → Option (List FileInfo × List String)
  | 0, rest => some ([], rest)
  | n + 1, a :: sz :: sh :: z :: rest => do
    let a ← a.toNat?
    let sz ← sz.toNat?
    let sh ← hexToBytes sh
    let z ← parseZip z
    let (fs, rest') ← parseFiles mem n rest
    pure (⟨mem.read a sz, sh, z⟩ :: fs, rest')
  | _, _ => none

def parseLossy : Nat → List String → Option (List (Bytes × Bytes) × List String)
  | 0, rest => some ([], rest)
  | n + 1, a :: b :: rest => do
    let a ← hexToBytes a
    let b ← hexToBytes b
    let (ls, rest') ← parseLossy n rest
    pure ((a, b) :: ls, rest')
  | _, _ => none

/-- `g[@fault]` = one call of genapi; `M:<addr>:<hex>` = the device changes bytes on its own -/
inductive DOp where
  | call (f : Option (Nat × CamVerif.Streaming.Fault))
  | poke (a : Nat) (d : Bytes)

def parseOp (s : String) : Option DOp :=
  if s.startsWith "M:" then
    match s.splitOn ":" with
    | [_, a, h] =>
      match a.toNat?, hexToBytes h with
      | some a, some d => some (.poke a d)
      | _, _ => none
    | _ => none
  else
  match s.splitOn "@" with
  | ["g"] => some (.call none)
  | ["g", f] =>
    match f.splitOn ":" with
    | [idx, kind, ap] =>
      match idx.toNat?, faultErr kind with
      | some i, some e => some (.call (some (i, ⟨e, ap == "1"⟩)))
      | _, _ => none
    | _ => none
  | _ => none

def schedule : Option (Nat × CamVerif.Streaming.Fault) → List (Option CamVerif.Streaming.Fault)
  | none => []
  | some (k, f) => List.replicate k none ++ [some f]

def logDigest (l : List CamVerif.Streaming.Access) : String :=
  let h := l.foldl (fun h a => match a with
    | .r a n _ => fnvNat (fnvNat h a) n
    | .w a d _ _ => fnvNat (fnvNat h a) d.length) fnvInit
  s!"n={l.length} h={natToHex 16 h.toNat}"

def runOps (o : Ops Dev) : List DOp → St Dev → List String → List String
  | [], _, acc => acc.reverse
  | .poke a d :: ops, st, acc =>
    -- device-side change between two calls: no host access
    if st.dev.mem.rangeMapped a d.length then
      runOps o ops { st with dev := { st.dev with mem := st.dev.mem.write a d } } ("M=ok" :: acc)
    else runOps o ops st ("M=unmapped" :: acc)
  | .call f :: ops, st, acc =>
    let st : St Dev := { st with dev := { st.dev with log := [], faults := schedule f } }
    let (r, st') := genapi o st
    let res := match r with
      | .ok bs => s!"ok:{bs.length}:{natToHex 16 (fnvBytes fnvInit bs).toNat}"
      | .err e => "err:" ++ errName e
      | .panic => "panic"
    let tok := s!"g={res} {logDigest st'.dev.log}"
    match r with
    | .panic => (tok :: acc).reverse
    | _ => runOps o ops st' (tok :: acc)

def handle : List String → String
  | "run" :: maxAck :: "R" :: n :: rest =>
    match maxAck.toNat?, n.toNat? with
    | some maxAck, some n =>
      match parseRegions n rest with
      | some (rs, "F" :: k :: rest1) =>
        let mem := memOfRegions rs
        match k.toNat?.bind (fun k => parseFiles mem k rest1) with
        | some (files, "L" :: j :: rest2) =>
          match j.toNat?.bind (fun j => parseLossy j rest2) with
          | some (lossy, opToks) =>
            match opToks.mapM parseOp with
            | some ops =>
              let o := mkOps maxAck files lossy
              joinSp (runOps o ops ⟨⟨mem, [], []⟩, none⟩ [])
            | none => "bad-op"
          | none => "bad-op"
        | _ => "bad-op"
      | _ => "bad-op"
    | _, _ => "bad-op"
  | _ => "bad-op"

end Driver.C14

def main : IO Unit := Driver.runLoop fun
  | "c14" :: rest => Driver.C14.handle rest
  | _ => "bad-op"
