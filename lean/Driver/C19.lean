/-
Line-protocol driver for C19 (GenTL C API).  Stateful across lines:

  cfg <key> <hex> / cfgn <key> <n>   set an environment parameter (path, XML, error texts,
                                  module constants; see `setBytes` / `setNat`)  -> ok
  layout                          register tables of both modules         -> sys ... | if ...
  seq <op> ; <op> ; ...           run one call sequence from the initial  -> <result> ; <result> ...
                                  state (library not initialised)

Ops and results are exactly the strings of /verif/gentl_probe/child.py.  An op with the prefix
`t2:` is a call made by the child's second thread: the sequence runs through the multi-thread
model `stepT` (Model/GenTLThreads.lean), thread 1 for `t2:` ops, thread 0 for all others
(`single_thread_is_run`: without `t2:` ops this is exactly `run` of the single-thread model).
-/
import CamVerif.Model.GenTL
import CamVerif.Model.GenTLThreads
import Driver.Util
namespace Driver.C19
open CamVerif CamVerif.GenTL CamVerif.Wire Driver

def BIG : Nat := 1048576
def INLINE : Nat := 2048

/-- prefill pattern of every destination buffer (same as child.py `fill_byte`) -/
def pattern (n : Nat) : Bytes := (List.range n).map fun i => UInt8.ofNat ((0x5A + 31 * i) % 256)

def showBytes (bs : Bytes) : String :=
  if bs.isEmpty then "-"
  else if bs.length ≤ INLINE then bytesToHex bs
  else s!"#{bs.length}:{natToHex 16 (fnvBytes fnvInit bs).toNat}"

def parseDst (tok : String) : Option Dst :=
  if tok.startsWith "null:" then (tok.drop 5).toString.toNat?.map fun n => ⟨none, n⟩
  else tok.toNat?.map fun cap => ⟨some (pattern cap), cap⟩

/-- `good` = the id the probe obtained from TLGetInterfaceID (`cfg goodid`) -/
def ifaceId (good : Bytes) (kind : String) : Option Bytes :=
  if kind == "good" then some good
  else if kind == "bad" then some (asc "no-such-interface")
  else if kind == "empty" then some []
  else if kind == "utf8" then some (asc "caf" ++ [0xc3, 0xa9])
  else none

def parsePairsR : List String → Option (List (Nat × Nat × Bytes))
  | [] => some []
  | a :: n :: rest => do
    let a ← a.toNat?
    let n ← n.toNat?
    let r ← parsePairsR rest
    pure ((a, n, if n ≤ BIG then pattern n else []) :: r)
  | _ => none

/-- write data token: hex bytes, or `claim:N` = a claimed size of N with (for the model) no bytes -/
def parseData (d : String) : Option (Nat × Bytes) :=
  if d.startsWith "claim:" then (d.drop 6).toString.toNat?.map fun n => (n, [])
  else (hexToBytes d).map fun b => (b.length, b)

def parsePairsW : List String → Option (List (Nat × Nat × Bytes))
  | [] => some []
  | a :: d :: rest => do
    let a ← a.toNat?
    let (n, d) ← parseData d
    let r ← parsePairsW rest
    pure ((a, n, d) :: r)
  | _ => none

def devId (kind : String) : Option Bytes :=
  if kind == "bad" then some (asc "no-such-device")
  else if kind == "empty" then some []
  else none

def parseOp (good : Bytes) : List String → Option Call
  | ["init"] => some .initLib
  | ["gcinfo"] => some .gcGetInfo
  | ["ifnum", h] => h.toNat?.map .ifGetNumDevices
  | ["ifupd", h] => h.toNat?.map .ifUpdateDeviceList
  | ["ifparent", h] => h.toNat?.map .ifGetParentTL
  | ["ifopendev", h, id] => do pure (.ifOpenDevice (← h.toNat?) (← devId id))
  | ["ifdevid", h, i, d] => do pure (.info (.ifGetDeviceID (← h.toNat?) (← i.toNat?)) (← parseDst d))
  | ["ifdevinfo", h, id, c, d] => do
    pure (.info (.ifGetDeviceInfo (← h.toNat?) (← devId id) (← c.toInt?)) (← parseDst d))
  | ["closelib"] => some .closeLib
  | ["lasterr", d] => (parseDst d).map .getLastError
  | ["tlopen", k] => k.toNat?.map .tlOpen
  | ["tlclose", h] => h.toNat?.map .tlClose
  | ["ifclose", h] => h.toNat?.map .ifClose
  | ["tlupd", h] => h.toNat?.map .tlUpdateInterfaceList
  | ["tlnum", h] => h.toNat?.map .tlGetNumInterfaces
  | ["numurls", h] => h.toNat?.map .gcGetNumPortURLs
  | ["tlifid", h, i, d] => do pure (.info (.tlGetInterfaceID (← h.toNat?) (← i.toNat?)) (← parseDst d))
  | ["tlinfo", h, c, d] => do pure (.info (.tlGetInfo (← h.toNat?) (← c.toInt?)) (← parseDst d))
  | ["tlifinfo", h, id, c, d] => do
    pure (.info (.tlGetInterfaceInfo (← h.toNat?) (← ifaceId good id) (← c.toInt?)) (← parseDst d))
  | ["tlopenif", h, id, k] => do pure (.tlOpenInterface (← h.toNat?) (← ifaceId good id) (← k.toNat?))
  | ["ifinfo", h, c, d] => do pure (.info (.ifGetInfo (← h.toNat?) (← c.toInt?)) (← parseDst d))
  | ["portinfo", h, c, d] => do pure (.info (.gcGetPortInfo (← h.toNat?) (← c.toInt?)) (← parseDst d))
  | ["porturl", h, d] => do pure (.info (.gcGetPortURL (← h.toNat?)) (← parseDst d))
  | ["urlinfo", h, i, c, d] => do
    pure (.info (.gcGetPortURLInfo (← h.toNat?) (← i.toNat?) (← c.toInt?)) (← parseDst d))
  | ["read", h, a, n] => do
    let n ← n.toNat?
    pure (.gcReadPort (← h.toNat?) (← a.toNat?) n (if n ≤ BIG then pattern n else []))
  | ["write", h, a, d] => do
    let (n, d) ← parseData d
    pure (.gcWritePort (← h.toNat?) (← a.toNat?) n d)
  | "reads" :: h :: _cnt :: rest => do pure (.gcReadPortStacked (← h.toNat?) (← parsePairsR rest))
  | "writes" :: h :: _cnt :: rest => do pure (.gcWritePortStacked (← h.toNat?) (← parsePairsW rest))
  | t :: rest => if t.startsWith "np:" then (parseOp good rest).map .nullPtr else none
  | _ => none

def showOpt {α} (f : α → String) : Option α → String
  | some a => f a
  | none => "-"

def showDst (d : Dst) : String :=
  s!"n={d.size} b={match d.buf with | some b => showBytes b | none => "null"}"

/-- calls that have a `piType` out-parameter -/
def typed : Call → Bool
  | .info q _ => q.typed
  | .nullPtr c => typed c
  | _ => false

/-- per entry: is the size only claimed (no real buffer of that size)? -/
def claimedEntries : Call → List Bool
  | .gcReadPortStacked _ es => es.map fun e => decide (e.2.1 > BIG)
  | .nullPtr c => claimedEntries c
  | _ => []

def claimedRead : Call → Bool
  | .gcReadPort _ _ n _ => decide (n > BIG)
  | .nullPtr c => claimedRead c
  | _ => false

def showResult (c : Call) (r : Result) : String :=
  match r.out with
  | .skipped => "skip"
  | .plain => s!"{r.code}"
  | .scalar v => s!"{r.code} {showOpt (fun (n : Nat) => toString n) v}"
  | .info ty d =>
    if typed c then s!"{r.code} t={showOpt (fun (n : Nat) => toString n) ty} {showDst d}"
    else s!"{r.code} {showDst d}"
  | .lastError ec d => s!"{r.code} e={showOpt (fun (n : Int) => toString n) ec} {showDst d}"
  | .read size buf =>
    s!"{r.code} n={size} b={if claimedRead c then "claimed" else showBytes buf}"
  | .write size => s!"{r.code} n={size}"
  | .readStacked k bufs =>
    let cl := claimedEntries c
    let shown := (bufs.zip (cl ++ List.replicate bufs.length false)).map fun (b, isC) =>
      if isC then "claimed" else showBytes b
    s!"{r.code} k={k} b={if bufs.isEmpty then "-" else ",".intercalate shown}"
  | .writeStacked k => s!"{r.code} k={k}"

/-- run a sequence, formatting as it goes; an abort prints `panic` and ends the line -/
def runShow (env : Env) : MState → List (Nat × Call) → List String
  | _, [] => []
  | ms, (t, c) :: cs =>
    match stepT env ms t c with
    | .done ms' r => showResult c r :: runShow env ms' cs
    | .abort => ["panic"]

/-- `t2:<op>` = the op on thread 1; everything else on thread 0 -/
def parseThreadOp (good : Bytes) : List String → Option (Nat × Call)
  | [] => none
  | t :: rest =>
    if t.startsWith "t2:" then (parseOp good ((t.drop 3).toString :: rest)).map fun c => (1, c)
    else (parseOp good (t :: rest)).map fun c => (0, c)

def splitOps (toks : List String) : List (List String) :=
  let rec go : List String → List String → List (List String) → List (List String)
    | [], cur, acc => (cur.reverse :: acc).reverse
    | t :: ts, cur, acc => if t == ";" then go ts [] (cur.reverse :: acc) else go ts (t :: cur) acc
  (go toks [] []).filter (· ≠ [])

def accessName : Access → String
  | .na => "NA" | .ro => "RO" | .wo => "WO" | .rw => "RW"

def showMap (m : MapDecl) : String :=
  " ".intercalate (m.regs.map fun r => s!"{r.name}:{r.addr}:{r.len}:{accessName r.access}")
    ++ s!" size={m.size} layoutOk={layoutOk 0 m.regs}"

def handleSeq (env : Env) (good : Bytes) (toks : List String) : String :=
  let ops := (splitOps toks).map (parseThreadOp good)
  if ops.any (·.isNone) then "bad-op"
  else " ; ".intercalate (runShow env (MState.init env) (ops.filterMap id))

def emptyConsts : ModConsts := ⟨[], [], [], [], [], [], [], 0, 0, 0⟩

def emptyEnv : Env :=
  { path := [], sysXml := [], ifXml := [], errText := fun _ => [], noErrorText := [], notAsciiText := [],
    sys := emptyConsts, ifc := emptyConsts, gentlMajor := 0, gentlMinor := 0,
    schemaMajor := 0, schemaMinor := 0, schemaSub := 0 }

def setConstBytes (c : ModConsts) (field : String) (b : Bytes) : Option ModConsts :=
  if field == "id" then some { c with id := b }
  else if field == "vendor" then some { c with vendor := b }
  else if field == "model" then some { c with model := b }
  else if field == "tltype" then some { c with tlType := b }
  else if field == "display" then some { c with displayName := b }
  else if field == "port" then some { c with portName := b }
  else if field == "module" then some { c with moduleType := b }
  else none

def setConstNat (c : ModConsts) (field : String) (n : Nat) : Option ModConsts :=
  if field == "major" then some { c with verMajor := n }
  else if field == "minor" then some { c with verMinor := n }
  else if field == "sub" then some { c with verSub := n }
  else none

/-- `cfg <key> <hex>` -/
def setBytes (env : Env) (key : String) (b : Bytes) : Option Env :=
  if key == "path" then some { env with path := b }
  else if key == "sysxml" then some { env with sysXml := b }
  else if key == "ifxml" then some { env with ifXml := b }
  else if key == "noerror" then some { env with noErrorText := b }
  else if key == "notascii" then some { env with notAsciiText := b }
  else if key.startsWith "sys." then (setConstBytes env.sys (key.drop 4).toString b).map fun c => { env with sys := c }
  else if key.startsWith "if." then (setConstBytes env.ifc (key.drop 3).toString b).map fun c => { env with ifc := c }
  else if key.startsWith "errtext." then
    (key.drop 8).toString.toNat?.map fun i =>
      let old := env.errText
      { env with errText := fun k => if k = i then b else old k }
  else none

/-- `cfgn <key> <nat>` -/
def setNat (env : Env) (key : String) (n : Nat) : Option Env :=
  if key == "gentl.major" then some { env with gentlMajor := n }
  else if key == "gentl.minor" then some { env with gentlMinor := n }
  else if key == "schema.major" then some { env with schemaMajor := n }
  else if key == "schema.minor" then some { env with schemaMinor := n }
  else if key == "schema.sub" then some { env with schemaSub := n }
  else if key.startsWith "sys." then (setConstNat env.sys (key.drop 4).toString n).map fun c => { env with sys := c }
  else if key.startsWith "if." then (setConstNat env.ifc (key.drop 3).toString n).map fun c => { env with ifc := c }
  else none

partial def loop (hin hout : IO.FS.Stream) (env : Env) (good : Bytes) : IO Unit := do
  let line ← hin.getLine
  if line.isEmpty then return ()
  match tokens line with
  | ["cfg", "goodid", h] =>
    match hexToBytes h with
    | some b => hout.putStrLn "ok"; loop hin hout env b
    | none => hout.putStrLn "bad-op"; loop hin hout env good
  | ["cfg", key, h] =>
    match (hexToBytes h).bind (setBytes env key) with
    | some env' => hout.putStrLn "ok"; loop hin hout env' good
    | none => hout.putStrLn "bad-op"; loop hin hout env good
  | ["cfgn", key, n] =>
    match n.toNat?.bind (setNat env key) with
    | some env' => hout.putStrLn "ok"; loop hin hout env' good
    | none => hout.putStrLn "bad-op"; loop hin hout env good
  | ["layout"] =>
    hout.putStrLn s!"sys {showMap (sysMap env)} | if {showMap (ifMap env)}"
    loop hin hout env good
  | "seq" :: rest =>
    hout.putStrLn (handleSeq env good rest)
    loop hin hout env good
  | _ =>
    hout.putStrLn "bad-op"
    loop hin hout env good

end Driver.C19

def main : IO Unit := do
  let hin ← IO.getStdin
  let hout ← IO.getStdout
  Driver.C19.loop hin hout Driver.C19.emptyEnv []
  hout.flush
