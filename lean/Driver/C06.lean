/-
C06 driver: the control-handle model (`Model/Control.lean`) running against the
executable reference conforming device (`Spec/ConformingDevice.lean`, `refDev`) over a
hash-map memory.  Stateful line protocol (one answer per line):

  c06 new <profile> <seed>                 fresh handle + device (no limits enforced)
  c06 poke <addr> <hex>                    store bytes in device memory
  c06 dev <maxCmd> <maxAck> <ms> <plan>    device limits, pending timeout, pending plan (a,b,c | -)
  c06 retry <n>                            set_retry_count
  c06 open | close
  c06 read <addr> <n>
  c06 write <addr> <n> <patseed>           data = dataPattern n patseed
  c06 writehex <addr> <hex>
  c06 warm <addr> <count>                  count one-byte reads at addr
  c06 mem                                  digest of all modified device bytes
-/
import Driver.Control
namespace Driver.C06
open CamVerif CamVerif.Control CamVerif.Spec.Conf CamVerif.Wire Driver Driver.Ctl

structure Sess where
  p : Profile
  st : St (RefState DrvMem)
  lim : Limits
  plan : Array Nat
  ms : Nat

def Sess.planFn (s : Sess) : Nat → Nat :=
  fun i => if s.plan.size = 0 then 0 else s.plan[i % s.plan.size]!

def Sess.dev (s : Sess) : Dev (RefState DrvMem) := refDev s.lim s.planFn s.ms

def freshSess (p : Profile) (seed : Nat) : Sess :=
  { p := p, st := ⟨Handle.new, ⟨DrvMem.new seed, [], 0⟩, []⟩, lim := ⟨2 ^ 40, 2 ^ 40⟩,
    plan := #[], ms := 0 }

/-- finish an op: report result + wire digest, clear the log. -/
def finish {α} (s : Sess) (out : Out (RefState DrvMem) α) (f : α → String) : Sess × String :=
  let (st, r) := out
  let ls := logStat st.logRev
  ({ s with st := { st with logRev := [] } },
   s!"{showR f r} | {ls.show} txn={st.d.txn}")

def parsePlan (s : String) : Option (Array Nat) :=
  if s == "-" then some #[] else
  (s.splitOn ",").foldl (fun acc t => do let a ← acc; let n ← t.toNat?; pure (a.push n)) (some #[])

def warmLoop (s : Sess) (addr : Nat) : Nat → St (RefState DrvMem) → Nat → St (RefState DrvMem) × Nat
  | 0, st, done => (st, done)
  | k + 1, st, done =>
    match read s.dev s.p st addr 1 with
    | (st, .ok _) => warmLoop s addr k st (done + 1)
    | (st, _) => (st, done)

def handle (os : Option Sess) (toks : List String) : Option Sess × String :=
  match os, toks with
  | _, ["new", p, seed] =>
    match profileOf p, seed.toNat? with
    | some p, some seed => (some (freshSess p seed), "ok")
    | _, _ => (os, "bad-op")
  | some s, ["poke", a, hex] =>
    match a.toNat?, hexToBytes hex with
    | some a, some bs =>
      (some { s with st := { s.st with d := { s.st.d with mem := writeRange s.st.d.mem a bs } } }, "ok")
    | _, _ => (os, "bad-op")
  | some s, ["dev", mc, ma, ms, plan] =>
    match mc.toNat?, ma.toNat?, ms.toNat?, parsePlan plan with
    | some mc, some ma, some ms, some plan => (some { s with lim := ⟨mc, ma⟩, ms := ms, plan := plan }, "ok")
    | _, _, _, _ => (os, "bad-op")
  | some s, ["retry", n] =>
    match n.toNat? with
    | some n =>
      (some { s with st := { s.st with h := { s.st.h with cfg := { s.st.h.cfg with retry := n } } } }, "ok")
    | none => (os, "bad-op")
  | some s, ["open"] =>
    let (s, a) := finish s («open» s.dev s.p s.st) (fun _ => "ok")
    (some s, a ++ s!" cfg={s.st.h.cfg.maxCmd}/{s.st.h.cfg.maxAck}/{s.st.h.cfg.timeoutMs}")
  | some s, ["close"] =>
    let (s, a) := finish s (close s.dev s.st) (fun _ => "ok")
    (some s, a)
  | some s, ["read", a, n] =>
    match a.toNat?, n.toNat? with
    | some a, some n =>
      let (s, ans) := finish s (read s.dev s.p s.st a n) (fun d => "ok " ++ dataDigest d)
      (some s, ans)
    | _, _ => (os, "bad-op")
  | some s, ["write", a, n, seed] =>
    match a.toNat?, n.toNat?, seed.toNat? with
    | some a, some n, some seed =>
      let (s, ans) := finish s (write s.dev s.p s.st a (dataPattern n seed)) (fun _ => "ok")
      (some s, ans)
    | _, _, _ => (os, "bad-op")
  | some s, ["writehex", a, hex] =>
    match a.toNat?, hexToBytes hex with
    | some a, some d =>
      let (s, ans) := finish s (write s.dev s.p s.st a d) (fun _ => "ok")
      (some s, ans)
    | _, _ => (os, "bad-op")
  | some s, ["warm", a, count] =>
    match a.toNat?, count.toNat? with
    | some a, some count =>
      let (st, done) := warmLoop s a count s.st 0
      let (s, ans) := finish s (st, (.ok done : R Nat)) (fun d => s!"ok {d}")
      (some s, ans)
    | _, _ => (os, "bad-op")
  | some s, ["mem"] => (os, "mem=" ++ s.st.d.mem.digest)
  | _, _ => (os, "bad-op")

end Driver.C06

def main : IO Unit := Driver.Ctl.runLoopState (none : Option Driver.C06.Sess) fun st toks =>
  match toks with
  | "c06" :: rest => Driver.C06.handle st rest
  | _ => (st, "bad-op")
