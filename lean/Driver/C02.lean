import CamVerif.Model.BitMask
import CamVerif.Model.BitMaskStruct
import Driver.Util
namespace Driver.C02
open CamVerif CamVerif.Reg CamVerif.BitMask CamVerif.Wire Driver

def errName : Err → String
  | .device => "Device"
  | .notWritable => "NotWritable"
  | .invalidNode => "InvalidNode"
  | .invalidData => "InvalidData"
  | .chunkDataMissing => "ChunkDataMissing"
  | .invalidBuffer => "InvalidBuffer"

def showRes {α} (f : α → String) : R α → String
  | .ok a => f a
  | .err e => "err " ++ errName e
  | .panic => "panic"

def showAccess (a : Access) : String :=
  let k := match a.kind with | .read => "R" | .write => "W"
  s!"{k}:{a.addr}:{a.len}:{bytesToHex a.bytes}"

def showLog (log : List Access) : String :=
  if log.isEmpty then "-" else ",".intercalate (log.map showAccess)

def parseEnd (s : String) : Option Endianness :=
  if s == "le" then some .le else if s == "be" then some .be else none

def parseSign (s : String) : Option Sign :=
  if s == "s" then some .signed else if s == "u" then some .unsigned else none

def parseMask (form lsb msb : String) : Option BitMask :=
  match lsb.toNat?, msb.toNat? with
  | some l, some m =>
    if form == "b" then some (.singleBit (BitVec.ofNat 64 l))
    else if form == "r" then some (.range (BitVec.ofNat 64 l) (BitVec.ofNat 64 m))
    else none
  | _, _ => none

/-- result, access log, final window image; for a call that ends in an error only the
number of write entries is reported instead of the exact log (the property says "refused
without a device write", not which reads precede the refusal) -/
def finish (base : Int) (n : Nat) (res : String) (d : Dev) : String :=
  let log := if res.startsWith "err" then s!"W={writesIn d.log}" else showLog d.log
  s!"{res};{log};{bytesToHex (d.mem.readRange base n)}"

/-- `c02 <op> <profile> <len> <e> <s> <form> <lsb> <msb> <addr> <base> <img> <arg>` -/
def handle : List String → String
  | [op, p, len, e, s, form, lsb, msb, addr, base, img, arg] =>
    match profileOf p, len.toInt?, parseEnd e, parseSign s, parseMask form lsb msb, addr.toInt?, base.toInt?, hexToBytes img with
    | some p, some len, some e, some s, some bm, some addr, some base, some img =>
      let d : Dev := { mem := Mem.ofBytes base img }
      let fin := finish base img.length
      let port : Port := {}
      if op == "min" then fin (showRes (fun v => s!"ok {v.toInt}") (MaskedIntReg.min p bm e s len)) d
      else if op == "max" then fin (showRes (fun v => s!"ok {v.toInt}") (MaskedIntReg.max p bm e s len)) d
      else if op == "value" then
        let (r, d') := MaskedIntReg.value p port bm e s addr len d
        fin (showRes (fun v => s!"ok {v.toInt}") r) d'
      else if op == "set" then
        match arg.toInt? with
        | some v =>
          let (r, d') := MaskedIntReg.setValue p port bm e s addr len (BitVec.ofInt 64 v) d
          fin (showRes (fun _ => "ok") r) d'
        | none => "bad-op"
      else "bad-op"
    | _, _, _, _, _, _, _, _ => "bad-op"
  | _ => "bad-op"

/-- one `StructEntry` of the request: `<form>:<lsb>:<msb>:<sign>` -/
def parseEntry (t : String) : Option StructEntry :=
  match t.splitOn ":" with
  | [form, lsb, msb, s] =>
    match parseMask form lsb msb, parseSign s with
    | some bm, some s => some ⟨bm, s⟩
    | _, _ => none
  | _ => none

def parseEntries (t : String) : Option (List StructEntry) :=
  (t.splitOn ",").mapM parseEntry

/-- `c02 s<op> <profile> <len> <e> <addr> <base> <img> <k> <entries> <arg>`: a whole `StructReg`;
the expansion into MaskedIntReg nodes is done HERE by the model (`intoMaskedIntRegs`), then
`<op>` runs on node number `k` -/
def handleStruct : List String → String
  | [op, p, len, e, addr, base, img, k, ents, arg] =>
    match profileOf p, len.toInt?, parseEnd e, addr.toInt?, base.toInt?, hexToBytes img, k.toNat?, parseEntries ents with
    | some p, some len, some e, some addr, some base, some img, some k, some ents =>
      let sr : StructReg := ⟨addr, len, e, ents⟩
      match sr.intoMaskedIntRegs[k]? with
      | some node =>
        let d : Dev := { mem := Mem.ofBytes base img }
        let fin := finish base img.length
        let port : Port := {}
        if op == "smin" then fin (showRes (fun v => s!"ok {v.toInt}") (node.min p)) d
        else if op == "smax" then fin (showRes (fun v => s!"ok {v.toInt}") (node.max p)) d
        else if op == "svalue" then
          let (r, d') := node.value p port d
          fin (showRes (fun v => s!"ok {v.toInt}") r) d'
        else if op == "sset" then
          match arg.toInt? with
          | some v =>
            let (r, d') := node.setValue p port (BitVec.ofInt 64 v) d
            fin (showRes (fun _ => "ok") r) d'
          | none => "bad-op"
        else "bad-op"
      | none => "bad-op"
    | _, _, _, _, _, _, _, _ => "bad-op"
  | _ => "bad-op"

end Driver.C02

def main : IO Unit := Driver.runLoop fun
  | "c02" :: op :: rest =>
    if op.startsWith "s" && op != "set" then Driver.C02.handleStruct (op :: rest)
    else Driver.C02.handle (op :: rest)
  | _ => "bad-op"
