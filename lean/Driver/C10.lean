import CamVerif.Model.Cmd
import Driver.Util
namespace Driver.C10
open CamVerif CamVerif.Cmd CamVerif.Wire Driver

def errName : Err → String
  | .invalidPacket => "InvalidPacket"
  | .bufferIo => "BufferIo"

def digestRead (cs : List ReadMem) : String :=
  let h := cs.foldl (fun h c => fnvNat (fnvNat h c.address) c.readLength) fnvInit
  let show1 (c : ReadMem) := s!"{c.address}:{c.readLength}"
  let first := match cs.head? with | some c => show1 c | none => "-"
  let last := match cs.getLast? with | some c => show1 c | none => "-"
  s!"ok n={cs.length} first={first} last={last} h={natToHex 16 h.toNat}"

def digestWrite (cs : List WriteMem) : String :=
  let h := cs.foldl (fun h c =>
    fnvBytes (fnvNat (fnvNat (fnvNat h c.address) c.dataLen) c.len) c.data) fnvInit
  let show1 (c : WriteMem) := s!"{c.address}:{c.data.length}"
  let first := match cs.head? with | some c => show1 c | none => "-"
  let last := match cs.getLast? with | some c => show1 c | none => "-"
  s!"ok n={cs.length} first={first} last={last} h={natToHex 16 h.toNat}"

def showRes {α} (f : α → String) : R α → String
  | .ok a => f a
  | .err e => "err " ++ errName e
  | .panic => "panic"

/-- deterministic data pattern shared with the harness -/
def pattern (len seed : Nat) : Bytes :=
  (List.range len).map fun i => UInt8.ofNat ((i * 7 + seed * 13 + 3) % 256)

def handle : List String → String
  | ["read", p, a, n, b] =>
    match profileOf p, a.toNat?, n.toNat?, b.toNat? with
    | some p, some a, some n, some b => showRes digestRead (readChunks p a n b)
    | _, _, _, _ => "bad-op"
  | ["write", p, a, d, b] =>
    match profileOf p, a.toNat?, hexToBytes d, b.toNat? with
    | some p, some a, some d, some b => showRes digestWrite (writeChunks p a d b)
    | _, _, _, _ => "bad-op"
  | ["writepat", p, a, n, seed, b] =>
    match profileOf p, a.toNat?, n.toNat?, seed.toNat?, b.toNat? with
    | some p, some a, some n, some seed, some b =>
      showRes digestWrite (writeChunks p a (pattern n seed) b)
    | _, _, _, _, _ => "bad-op"
  | ["maxread", p, b] =>
    match profileOf p, b.toNat? with
    | some p, some b => showRes (fun n => s!"ok {n}") (maximumReadLength p b)
    | _, _ => "bad-op"
  | _ => "bad-op"

end Driver.C10

def main : IO Unit := Driver.runLoop fun
  | "c10" :: rest => Driver.C10.handle rest
  | _ => "bad-op"
