-- Root of the library; `./check --setup` builds every property module named in /verif/props/*.json.
import CamVerif.Prelude.Basic
import CamVerif.Prelude.Wire
