#!/usr/bin/env python3
"""(G) tie for C05: re-emit lean/CamVerif/Gen/FormulaTables.lean from the CURRENT
genapi/src/formula.rs: the precedence ladder (one row per `parse_binop!` call, in call-chain
order from `Parser::expr` down to `unop`), the function-name table of `Parser::primary`, the
constant names of `next_float`, and shape checks (token skeleton, locals alpha-normalised) of
the `parse_binop!` macro and of `parse`, `expr`, `unop`, `pow`, `primary`, `eat`, `expect`,
`next_integer`, `next_float`, `next_ident` — the parser functions the hand-written model
mirrors.  The lexer and `Expr::eval` are NOT read by this generator (differential only).  Fails loudly (exit 2, Gen file replaced by
one that does not elaborate) when a construct it relies on is not found."""
import hashlib, os, re, sys
REPO = os.environ.get("VERIF_REPO", "/repo")
SRC = os.path.join(REPO, "genapi/src/formula.rs")
OUT = os.environ.get("VERIF_GEN_OUT") or os.path.join(os.path.dirname(os.path.dirname(os.path.abspath(__file__))), "lean/CamVerif/Gen/FormulaTables.lean")
src = open(SRC).read()

def die(msg):
    open(OUT, "w").write("/- GENERATED: tools/gen_formula_tables.py could not translate genapi/src/formula.rs:\n   %s -/\n"
                         "theorem CamVerif.Gen.FormulaTables.generator_refused : False := by decide\n" % msg)
    print("gen_formula_tables: REFUSED — generator shape check only: the source no longer has a shape this generator "
          "recognises; this by itself does not say the behaviour changed (the correspondence run decides): " + msg, file=sys.stderr)
    print("GENERATOR-SHAPE-CHECK-ONLY C05 " + msg)
    sys.exit(2)

def lower(s): return s[0].lower() + s[1:]
TOKENS = {"DoubleOr", "DoubleAnd", "Or", "Caret", "And", "Eq", "Ne", "Lt", "Le", "Gt", "Ge", "Shl", "Shr",
          "Plus", "Minus", "Star", "Slash", "Percent", "DoubleStar", "Tilde"}
BINOPS = {"Add", "Sub", "Mul", "Div", "Rem", "Pow", "Shl", "Shr", "And", "Or", "Eq", "Ne", "Lt", "Le", "Gt", "Ge",
          "BitAnd", "BitOr", "Xor"}
UNOPS = {"Not", "Abs", "Sgn", "Neg", "Sin", "Cos", "Tan", "Asin", "Acos", "Atan", "Exp", "Ln", "Lg", "Sqrt", "Trunc",
         "Floor", "Ceil", "Round"}
# ---------------------------------------------------------------------------------------------
# Shape comparison on a TOKEN SKELETON: comments dropped, string literals blanked, trailing commas
# dropped, `Box::new(x)` read as `x.into()`, and every `let`-bound local renamed positionally
# (`_v1`, `_v2`, …), so that renaming a local, reformatting or commenting does not refuse.
# ---------------------------------------------------------------------------------------------
TOK = re.compile(r'[A-Za-z_]\w*|\d+|"S"|::|=>|->|&&|\|\||==|!=|<=|>=|[^\s\w]')
def skeleton(code):
    code = re.sub(r"/\*.*?\*/", " ", code, flags=re.S)
    code = re.sub(r"//[^\n]*", " ", code)
    code = re.sub(r'"(?:[^"\\]|\\.)*"', '"S"', code)
    code = re.sub(r"Box::new\((\w+)\)", r"\1.into()", code)
    toks = TOK.findall(code)
    toks = [t for k, t in enumerate(toks) if not (t == "," and k + 1 < len(toks) and toks[k + 1] in ("}", ")"))]
    # binders: identifiers in a `let` pattern (between `let` and `=`/`:`) that are plain names;
    # every binding occurrence gets a fresh positional name, later uses refer to the latest one
    cur, count, out, k = {}, 0, [], 0
    in_pat = False
    while k < len(toks):
        t = toks[k]
        prev = toks[k - 1] if k else ""
        nxt = toks[k + 1] if k + 1 < len(toks) else ""
        if t == "let":
            in_pat = True
            out.append(t)
        elif in_pat and t in ("=", ":"):
            in_pat = False
            out.append(t)
        elif in_pat and re.fullmatch(r"[a-z_]\w*", t) and t not in ("mut", "ref", "self") and nxt not in ("::", "("):
            count += 1
            cur[t] = "_v%d" % count
            out.append(cur[t])
        else:
            label = nxt == ":" and prev in ("{", ",")            # struct field label
            if t in cur and prev not in (".", "$") and not label:
                out.append(cur[t])
            else:
                out.append(t)
        k += 1
    return out

def check_shape(what, got_code, want_code, mirrors):
    g, w = skeleton(got_code), skeleton(want_code)
    if g != w:
        k = next((i for i, (a, b) in enumerate(zip(g, w)) if a != b), min(len(g), len(w)))
        die("%s no longer has the shape the model's %s mirrors (token %d: found `%s`, expected `%s`)"
            % (what, mirrors, k, " ".join(g[k:k + 6]), " ".join(w[k:k + 6])))

def fn_body(name):
    m = re.search(r"\n    fn %s\(&mut self[^)]*\)(?: -> [^{]+)? \{\n(.*?)\n    \}\n" % name, src, re.S)
    if not m: die("fn %s not found" % name)
    return m.group(1)

def cut_table(code):
    """the name tables are extracted separately: blank the `match s.as_str() { … }` block"""
    return re.sub(r"match s\.as_str\(\) \{.*?\n\s*\};", "TABLE;", code, flags=re.S)

# --- the macro: first operand, then a loop that folds to the left -------------------------
m = re.search(r"macro_rules! parse_binop \{(.*?)\n\}\n", src, re.S)
if not m: die("macro parse_binop!")
check_shape("parse_binop!", m.group(1), """
    ($self:ident.$f:ident, ($token:expr, $op:expr) $(,($token_rep:expr, $op_rep:expr))*) => { {
        let mut expr = $self.$f();
        loop {
            let (op_kind, rhs) = if $self.eat(&$token) { ($op, $self.$f()) }
                $(else if $self.eat(&$token_rep) { ($op_rep, $self.$f()) })* else { break; };
            expr = Expr::BinOp { kind: op_kind, lhs: expr.into(), rhs: rhs.into() };
        }
        expr
    } }""", "binLevel/binLoop")

# --- the ladder ---------------------------------------------------------------------------
rows = {}
for m in re.finditer(r"\n    fn (\w+)\(&mut self\) -> Expr \{\s*parse_binop!\(\s*self\.(\w+),((?:\s*\(Token::\w+, BinOpKind::\w+\),?)+)\s*\)\s*\}", src):
    pairs = re.findall(r"\(Token::(\w+), BinOpKind::(\w+)\)", m.group(3))
    for t, o in pairs:
        if t not in TOKENS: die("unknown token Token::" + t)
        if o not in BINOPS: die("unknown operator BinOpKind::" + o)
    rows[m.group(1)] = (m.group(2), pairs)
expr_body = fn_body("expr")
m = re.search(r"=\s*self\.(\w+)\(\);", expr_body)
if not m: die("Parser::expr does not start with a ladder call")
first = m.group(1)
check_shape("Parser::expr", expr_body, """
    let expr = self.%s();
    if self.eat(&Token::Question) {
        let then = self.expr();
        self.expect(&Token::Colon);
        let else_ = self.expr();
        Expr::If { cond: expr.into(), then: then.into(), else_: else_.into() }
    } else { expr }""" % first, "exprBody")
ladder, cur, seen = [], first, set()
while cur in rows:
    if cur in seen: die("cyclic ladder at " + cur)
    seen.add(cur)
    nxt, pairs = rows[cur]
    ladder.append((cur, pairs))
    cur = nxt
if cur != "unop": die("the ladder ends in `%s`, expected `unop`" % cur)
if len(seen) != len(rows): die("parse_binop! functions outside the call chain: %s" % sorted(set(rows) - seen))

check_shape("Parser::unop", fn_body("unop"), """
    if self.eat(&Token::Tilde) { let expr = self.unop(); Expr::UnOp { kind: UnOpKind::Not, expr: expr.into() } }
    else if self.eat(&Token::Minus) { let expr = self.unop(); Expr::UnOp { kind: UnOpKind::Neg, expr: expr.into() } }
    else if self.eat(&Token::Plus) { self.unop() } else { self.pow() }""", "unopBody")
check_shape("Parser::pow", fn_body("pow"), """
    let expr = self.primary();
    if self.eat(&Token::DoubleStar) {
        let rhs = self.unop();
        Expr::BinOp { kind: BinOpKind::Pow, lhs: expr.into(), rhs: rhs.into() }
    } else { expr }""", "powBody")
check_shape("Parser::primary", cut_table(fn_body("primary")), """
    if self.eat(&Token::LParen) {
        let expr = self.expr();
        self.expect(&Token::RParen);
        expr
    } else if let Some(i) = self.next_integer() { Expr::Integer(i) }
    else if let Some(f) = self.next_float() { Expr::Float(f) }
    else {
        let s = self.next_ident().unwrap();
        if self.eat(&Token::LParen) {
            let op = TABLE;
            let expr = self.expr();
            self.expect(&Token::RParen);
            Expr::UnOp { kind: op, expr: expr.into() }
        } else { Expr::Ident(s) }
    }""", "primaryBody")
check_shape("Parser::eat", fn_body("eat"), """
    match self.lexer.peek() { Some(peek) if peek == tok => { self.lexer.next(); true } _ => false }""", "eat")
check_shape("Parser::expect", fn_body("expect"), "assert!(self.eat(tok))", "expect (a failed expectation is a panic in every build profile)")
check_shape("Parser::next_integer", fn_body("next_integer"), """
    if let Some(&Token::Integer(i)) = self.lexer.peek() { self.lexer.next(); Some(i) } else { None }""", "primaryBody (integer token)")
check_shape("Parser::next_float", cut_table(fn_body("next_float")), """
    if let Some(&Token::Float(f)) = self.lexer.peek() { self.lexer.next(); Some(f) }
    else if let Some(Token::Ident(s)) = self.lexer.peek() { let f = TABLE; self.lexer.next(); Some(f) }
    else { None }""", "primaryBody (float token, constants)")
check_shape("Parser::next_ident", fn_body("next_ident"), """
    if let Some(Token::Ident(s)) = self.lexer.peek() { let s = s.to_string(); self.lexer.next(); Some(s) } else { None }""", "primaryBody (identifier token)")
# `parse`: the whole text is one expression — a real assertion (not debug_assert!, not `let _ =`)
m = re.search(r"pub fn parse\(s: &str\) -> Expr \{\n(.*?)\n\}\n", src, re.S)
if not m: die("formula::parse not found")
check_shape("formula::parse", m.group(1), """
    debug!("S");
    let lexer = Lexer::new(s);
    let mut parser = Parser { lexer };
    let expr = parser.expr();
    assert!(parser.lexer.peek().is_none(), "S", s);
    expr""", "parseToks (end-of-input assertion in every build profile)")

# --- function names and constants ----------------------------------------------------------
prim = fn_body("primary")
m = re.search(r"let op = match s\.as_str\(\) \{(.*?)\n\s*other => panic!", prim, re.S)
if not m: die("function-name match in Parser::primary")
funcs = re.findall(r'"(\w+)"\s*=>\s*UnOpKind::(\w+),', m.group(1))
if len(funcs) != len(re.findall(r"=>", m.group(1))): die("function-name arm of unknown shape")
for n, o in funcs:
    if o not in UNOPS: die("unknown operator UnOpKind::" + o)
m = re.search(r"let f = match s\.as_str\(\) \{(.*?)_ => return None,", src, re.S)
if not m: die("constant match in Parser::next_float")
consts = re.findall(r'"(\w+)"\s*=>\s*std::f64::consts::(\w+),', m.group(1))
if len(consts) != len(re.findall(r"=>", m.group(1))): die("constant arm of unknown shape")
for n, c in consts:
    if n != c: die("constant %s bound to std::f64::consts::%s" % (n, c))
h = hashlib.sha1(src.encode()).hexdigest()[:16]
L = ["/- GENERATED by tools/gen_formula_tables.py from genapi/src/formula.rs — do not edit.",
     "   Regenerated on every check run; Props/C05.lean proves the model's tables equal these. -/",
     "import CamVerif.Model.Formula",
     "namespace CamVerif.Gen.FormulaTables",
     "open CamVerif.Formula",
     "",
     "/-- one entry per `parse_binop!` call, in call-chain order from `Parser::expr` (loosest first):",
     "(function name, operators in the order they are tried) -/",
     "def ladder : List (String × List (Sym × BinOpKind)) :=",
     "  [ " + ",\n    ".join('("%s", [%s])' % (n, ", ".join("(.%s, .%s)" % (lower(t), lower(o)) for t, o in ps)) for n, ps in ladder) + " ]",
     "",
     "def ladderRows : List Row := ladder.map (·.2)",
     "",
     "/-- arms of the function-name `match` in `Parser::primary`, in source order -/",
     "def functions : List (String × UnOpKind) :=",
     "  [ " + ", ".join('("%s", .%s)' % (n, lower(o)) for n, o in funcs) + " ]",
     "",
     "/-- identifiers `next_float` turns into `std::f64::consts` values -/",
     "def constants : List String := [" + ", ".join('"%s"' % n for n, _ in consts) + "]",
     "",
     "end CamVerif.Gen.FormulaTables", ""]
open(OUT, "w").write("\n".join(L))
print("HASH genapi/src/formula.rs " + h)
print("gen_formula_tables: %d ladder rows, %d functions, %d constants" % (len(ladder), len(funcs), len(consts)))
