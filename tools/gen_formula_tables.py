#!/usr/bin/env python3
"""(G) tie for C05: re-emit lean/CamVerif/Gen/FormulaTables.lean from the CURRENT
genapi/src/formula.rs: the precedence ladder (one row per `parse_binop!` call, in call-chain
order from `Parser::expr` down to `unop`), the function-name table of `Parser::primary`, the
constant names of `next_float`, and shape checks of the `parse_binop!` macro, `expr`, `unop`
and `pow` bodies the hand-written model mirrors.  Fails loudly (exit 2, Gen file replaced by
one that does not elaborate) when a construct it relies on is not found."""
import hashlib, os, re, sys
REPO = os.environ.get("VERIF_REPO", "/repo")
SRC = os.path.join(REPO, "genapi/src/formula.rs")
OUT = os.path.join(os.path.dirname(os.path.dirname(os.path.abspath(__file__))), "lean/CamVerif/Gen/FormulaTables.lean")
src = open(SRC).read()

def die(msg):
    open(OUT, "w").write("/- GENERATED: tools/gen_formula_tables.py could not translate genapi/src/formula.rs:\n   %s -/\n"
                         "theorem CamVerif.Gen.FormulaTables.generator_refused : False := by decide\n" % msg)
    print("gen_formula_tables: cannot translate: " + msg, file=sys.stderr); sys.exit(2)

def lower(s): return s[0].lower() + s[1:]
TOKENS = {"DoubleOr", "DoubleAnd", "Or", "Caret", "And", "Eq", "Ne", "Lt", "Le", "Gt", "Ge", "Shl", "Shr",
          "Plus", "Minus", "Star", "Slash", "Percent", "DoubleStar", "Tilde"}
BINOPS = {"Add", "Sub", "Mul", "Div", "Rem", "Pow", "Shl", "Shr", "And", "Or", "Eq", "Ne", "Lt", "Le", "Gt", "Ge",
          "BitAnd", "BitOr", "Xor"}
UNOPS = {"Not", "Abs", "Sgn", "Neg", "Sin", "Cos", "Tan", "Asin", "Acos", "Atan", "Exp", "Ln", "Lg", "Sqrt", "Trunc",
         "Floor", "Ceil", "Round"}
def norm(s): return re.sub(r"\s+", " ", re.sub(r"//[^\n]*", "", s)).strip()

def fn_body(name):
    m = re.search(r"\n    fn %s\(&mut self\) -> Expr \{\n(.*?)\n    \}\n" % name, src, re.S)
    if not m: die("fn %s not found" % name)
    return m.group(1)

# --- the macro: first operand, then a loop that folds to the left -------------------------
m = re.search(r"macro_rules! parse_binop \{(.*?)\n\}\n", src, re.S)
if not m: die("macro parse_binop!")
MACRO = ("($self:ident.$f:ident, ($token:expr, $op:expr) $(,($token_rep:expr, $op_rep:expr))*) => { { "
         "let mut expr = $self.$f(); loop { let (op_kind, rhs) = if $self.eat(&$token) { ($op, $self.$f()) } "
         "$(else if $self.eat(&$token_rep) { ($op_rep, $self.$f()) })* else { break; }; "
         "expr = Expr::BinOp { kind: op_kind, lhs: expr.into(), rhs: rhs.into(), }; } expr } }")
if norm(m.group(1)) != MACRO:
    die("parse_binop! no longer has the shape the model's binLevel/binLoop mirror")

# --- the ladder ---------------------------------------------------------------------------
rows = {}
for m in re.finditer(r"\n    fn (\w+)\(&mut self\) -> Expr \{\s*parse_binop!\(\s*self\.(\w+),((?:\s*\(Token::\w+, BinOpKind::\w+\),?)+)\s*\)\s*\}", src):
    pairs = re.findall(r"\(Token::(\w+), BinOpKind::(\w+)\)", m.group(3))
    for t, o in pairs:
        if t not in TOKENS: die("unknown token Token::" + t)
        if o not in BINOPS: die("unknown operator BinOpKind::" + o)
    rows[m.group(1)] = (m.group(2), pairs)
expr_body = norm(fn_body("expr"))
EXPR = ("let expr = self.%s(); if self.eat(&Token::Question) { let then = self.expr(); self.expect(&Token::Colon); "
        "let else_ = self.expr(); Expr::If { cond: expr.into(), then: then.into(), else_: else_.into(), } } else { expr }")
m = re.match(r"let expr = self\.(\w+)\(\);", expr_body)
if not m: die("Parser::expr does not start with a ladder call")
first = m.group(1)
if expr_body != EXPR % first: die("Parser::expr no longer has the shape the model's exprBody mirrors")
ladder, cur, seen = [], first, set()
while cur in rows:
    if cur in seen: die("cyclic ladder at " + cur)
    seen.add(cur)
    nxt, pairs = rows[cur]
    ladder.append((cur, pairs))
    cur = nxt
if cur != "unop": die("the ladder ends in `%s`, expected `unop`" % cur)
if len(seen) != len(rows): die("parse_binop! functions outside the call chain: %s" % sorted(set(rows) - seen))

UNOP = ("if self.eat(&Token::Tilde) { let expr = self.unop(); Expr::UnOp { kind: UnOpKind::Not, expr: expr.into(), } } "
        "else if self.eat(&Token::Minus) { let expr = self.unop(); Expr::UnOp { kind: UnOpKind::Neg, expr: expr.into(), } } "
        "else if self.eat(&Token::Plus) { self.unop() } else { self.pow() }")
if norm(fn_body("unop")) != UNOP: die("Parser::unop no longer has the shape the model's unopBody mirrors")
POW = ("let expr = self.primary(); if self.eat(&Token::DoubleStar) { let rhs = self.unop(); "
       "Expr::BinOp { kind: BinOpKind::Pow, lhs: expr.into(), rhs: rhs.into(), } } else { expr }")
if norm(fn_body("pow")) != POW: die("Parser::pow no longer has the shape the model's powBody mirrors")

# --- function names and constants ----------------------------------------------------------
prim = fn_body("primary")
m = re.search(r"let op = match s\.as_str\(\) \{(.*?)\n\s*other => panic!", prim, re.S)
if not m: die("function-name match in Parser::primary")
funcs = re.findall(r'"(\w+)"\s*=>\s*UnOpKind::(\w+),', m.group(1))
if len(funcs) != len(re.findall(r"=>", m.group(1))): die("function-name arm of unknown shape")
for n, o in funcs:
    if o not in UNOPS: die("unknown operator UnOpKind::" + o)
m = re.search(r"let f = match s\.as_str\(\) \{(.*?)_ => return None,", src, re.S)
if not m: die("constant match in Parser::next_float")
consts = re.findall(r'"(\w+)"\s*=>\s*std::f64::consts::(\w+),', m.group(1))
if len(consts) != len(re.findall(r"=>", m.group(1))): die("constant arm of unknown shape")
for n, c in consts:
    if n != c: die("constant %s bound to std::f64::consts::%s" % (n, c))
# `parse` checks that nothing is left
m = re.search(r"pub fn parse\(s: &str\) -> Expr \{(.*?)\n\}\n", src, re.S)
if not m or "parser.expr()" not in m.group(1) or "parser.lexer.peek().is_none()" not in m.group(1):
    die("formula::parse no longer is `expr()` followed by the end-of-input assertion")

h = hashlib.sha1(src.encode()).hexdigest()[:16]
L = ["/- GENERATED by tools/gen_formula_tables.py from genapi/src/formula.rs — do not edit.",
     "   Regenerated on every check run; Props/C05.lean proves the model's tables equal these. -/",
     "import CamVerif.Model.Formula",
     "namespace CamVerif.Gen.FormulaTables",
     "open CamVerif.Formula",
     "",
     "/-- one entry per `parse_binop!` call, in call-chain order from `Parser::expr` (loosest first):",
     "(function name, operators in the order they are tried) -/",
     "def ladder : List (String × List (Sym × BinOpKind)) :=",
     "  [ " + ",\n    ".join('("%s", [%s])' % (n, ", ".join("(.%s, .%s)" % (lower(t), lower(o)) for t, o in ps)) for n, ps in ladder) + " ]",
     "",
     "def ladderRows : List Row := ladder.map (·.2)",
     "",
     "/-- arms of the function-name `match` in `Parser::primary`, in source order -/",
     "def functions : List (String × UnOpKind) :=",
     "  [ " + ", ".join('("%s", .%s)' % (n, lower(o)) for n, o in funcs) + " ]",
     "",
     "/-- identifiers `next_float` turns into `std::f64::consts` values -/",
     "def constants : List String := [" + ", ".join('"%s"' % n for n, _ in consts) + "]",
     "",
     "end CamVerif.Gen.FormulaTables", ""]
open(OUT, "w").write("\n".join(L))
print("HASH genapi/src/formula.rs " + h)
print("gen_formula_tables: %d ladder rows, %d functions, %d constants" % (len(ladder), len(funcs), len(consts)))
