#!/usr/bin/env python3
"""(G) tie for C05: re-emit lean/CamVerif/Gen/FormulaTables.lean from the CURRENT
genapi/src/formula.rs: the precedence ladder (one row per `parse_binop!` call, in call-chain
order from `Parser::expr` down to `unop`), the function-name table used by `Parser::primary`
and the constant names used by `next_float` (each either inline or in a private helper
function of the same file called at that position with the identifier string), and shape
checks of the `parse_binop!` macro and of `parse`, `expr`, `unop`, `pow`, `primary`, `eat`,
`expect`, `next_integer`, `next_float`, `next_ident` — the parser functions the hand-written
model mirrors.  The lexer and `Expr::eval` are NOT read by this generator (differential only).

Shapes are compared on a NORMALISED TOKEN SKELETON so that behaviour-preserving edits do not
refuse: comments and logging macros dropped, string literals blanked, trailing commas dropped,
`Box::new(x)` = `x.into()`, `.expect("..")` = `.unwrap()`, assertion messages dropped,
`if !c { panic!(..) }` = `assert!(c)`, field-init shorthand expanded, a `match` on
`self.lexer.peek()` without guards = the `if let … else if let … else` chain, a final
`return x;` = `x`, `.clone()/.to_owned()` = `.to_string()` on the identifier text, and every
bound local (let / if-let / match-arm pattern) renamed positionally.

Fails loudly (exit 2, Gen file replaced by one that does not elaborate, line
GENERATOR-SHAPE-CHECK-ONLY) when a construct it relies on is not found."""
import hashlib, os, re, sys
REPO = os.environ.get("VERIF_REPO", "/repo")
SRC = os.path.join(REPO, "genapi/src/formula.rs")
OUT = os.environ.get("VERIF_GEN_OUT") or os.path.join(os.path.dirname(os.path.dirname(os.path.abspath(__file__))), "lean/CamVerif/Gen/FormulaTables.lean")
src = open(SRC).read()

def die(msg):
    open(OUT, "w").write("/- GENERATED: tools/gen_formula_tables.py could not translate genapi/src/formula.rs:\n   %s -/\n"
                         "theorem CamVerif.Gen.FormulaTables.generator_refused : False := by decide\n" % msg.replace("-/", "- /"))
    print("gen_formula_tables: REFUSED — generator shape check only: the source no longer has a shape this generator "
          "recognises; this by itself does not say the behaviour changed (the correspondence run decides): " + msg, file=sys.stderr)
    print("GENERATOR-SHAPE-CHECK-ONLY C05 " + msg)
    sys.exit(2)

def lower(s): return s[0].lower() + s[1:]
TOKENS = {"DoubleOr", "DoubleAnd", "Or", "Caret", "And", "Eq", "Ne", "Lt", "Le", "Gt", "Ge", "Shl", "Shr",
          "Plus", "Minus", "Star", "Slash", "Percent", "DoubleStar", "Tilde"}
BINOPS = {"Add", "Sub", "Mul", "Div", "Rem", "Pow", "Shl", "Shr", "And", "Or", "Eq", "Ne", "Lt", "Le", "Gt", "Ge",
          "BitAnd", "BitOr", "Xor"}
UNOPS = {"Not", "Abs", "Sgn", "Neg", "Sin", "Cos", "Tan", "Asin", "Acos", "Atan", "Exp", "Ln", "Lg", "Sqrt", "Trunc",
         "Floor", "Ceil", "Round"}

# ---------------------------------------------------------------------------------------------
# Tokens
# ---------------------------------------------------------------------------------------------
TOKRE = re.compile(r'''"(?:[^"\\]|\\.)*"|'(?:\\.|[^\\'])'|/\*.*?\*/|//[^\n]*|[A-Za-z_]\w*|\d\w*|'\w+|::|=>|->|&&|\|\||==|!=|<=|>=|\.\.|[^\s\w]''', re.S)
def tokenize(code):
    return [t for t in TOKRE.findall(code) if not (t.startswith("//") or t.startswith("/*"))]
OPEN, CLOSE = {"(": ")", "[": "]", "{": "}"}, {")", "]", "}"}
def close_of(toks, i):
    """index of the bracket closing the one at i"""
    d = 0
    for k in range(i, len(toks)):
        if toks[k] in OPEN: d += 1
        elif toks[k] in CLOSE:
            d -= 1
            if d == 0: return k
    die("unbalanced brackets")
def find0(toks, i, stop, targets):
    """first index in [i, stop) at bracket depth 0 holding one of `targets`, else -1"""
    d = 0
    for k in range(i, stop):
        t = toks[k]
        if d == 0 and t in targets: return k
        if t in OPEN: d += 1
        elif t in CLOSE: d -= 1
    return -1

ALL = tokenize(src)
try:
    _i = next(i for i in range(len(ALL) - 1) if ALL[i] == "impl" and ALL[i + 1] == "Parser")
    _b = ALL.index("{", _i)
    PARSER = (_b, close_of(ALL, _b))          # token range of `impl Parser { … }`
except StopIteration:
    die("impl Parser not found")
def find_fn(name, must=True, scope=None):
    """(parameter tokens, body tokens) of `fn name` (inside the token range `scope`, default: whole file)"""
    lo, hi = scope or (0, len(ALL))
    for k in range(lo, hi - 2):
        if ALL[k] == "fn" and ALL[k + 1] == name:
            p = k + 2
            if ALL[p] == "<": p = ALL.index(">", p) + 1
            if ALL[p] != "(": continue
            pe = close_of(ALL, p)
            b = pe + 1
            while ALL[b] != "{":
                if ALL[b] == ";": break
                b += 1
            if ALL[b] != "{": continue
            be = close_of(ALL, b)
            return ALL[p + 1:pe], ALL[b + 1:be]
    if must: die("fn %s not found" % name)
    return None
def all_fns(scope=None):
    lo, hi = scope or (0, len(ALL))
    return [ALL[k + 1] for k in range(lo, hi - 1) if ALL[k] == "fn" and re.fullmatch(r"[a-z_]\w*", ALL[k + 1])]
def method(name):
    return find_fn(name, scope=PARSER)
def param_names(params):
    out, k = [], 0
    while k < len(params):
        c = find0(params, k, len(params), {","})
        c = len(params) if c < 0 else c
        p = params[k:c]
        if ":" in p and "self" not in p[:p.index(":")]:
            out += [t for t in p[:p.index(":")] if re.fullmatch(r"[a-z_]\w*", t) and t != "mut"]
        k = c + 1
    return out

# ---------------------------------------------------------------------------------------------
# match arms
# ---------------------------------------------------------------------------------------------
def match_at(toks, i):
    """toks[i] == 'match' → (scrutinee, arms, end) ; arms = [(pattern, guard or None, body)] ; toks[end] is the closing brace"""
    b = find0(toks, i + 1, len(toks), {"{"})
    e = close_of(toks, b)
    arms, k = [], b + 1
    while k < e:
        a = find0(toks, k, e, {"=>"})
        if a < 0: die("match arm without `=>`")
        g = find0(toks, k, a, {"if"})
        pat, guard = (toks[k:g], toks[g + 1:a]) if g >= 0 else (toks[k:a], None)
        if toks[a + 1] == "{":
            be = close_of(toks, a + 1)
            body, k = toks[a + 2:be], be + 1
            if k < e and toks[k] == ",": k += 1
        else:
            c = find0(toks, a + 1, e, {","})
            c = e if c < 0 else c
            body, k = toks[a + 1:c], c + 1
        arms.append((pat, guard, body))
    return toks[i + 1:b], arms, e

def ident_arg(ts):
    """`s`, `&s`, `s.as_str()`, `&*s`, `s.as_ref()`, `&s[..]` → `s`"""
    ts = [t for t in ts if t not in ("&", "*")]
    if len(ts) >= 1 and re.fullmatch(r"[a-z_]\w*", ts[0]) and ts[1:] in ([], [".", "as_str", "(", ")"], [".", "as_ref", "(", ")"], ["[", "..", "]"]):
        return ts[0]
    return None

def string_match(toks):
    """index of the first `match` whose first arm pattern is a string literal, else -1"""
    for k, t in enumerate(toks):
        if t == "match":
            _, arms, _ = match_at(toks, k)
            if arms and arms[0][0] and arms[0][0][0].startswith('"'): return k
    return -1

def read_table(arms, what):
    """arms of a name table → ([(name, value tokens)], catch-all body tokens)"""
    rows, catch = [], None
    for n, (pat, guard, body) in enumerate(arms):
        if guard is not None: die("%s: guarded arm" % what)
        if all(t.startswith('"') or t == "|" for t in pat) and pat:
            if catch is not None: die("%s: arm after the catch-all arm" % what)
            for t in pat:
                if t != "|": rows.append((t[1:-1], body))
        elif len(pat) == 1 and re.fullmatch(r"_|[a-z_]\w*", pat[0]) and n == len(arms) - 1:
            catch = body
        else:
            die("%s: arm pattern `%s` of unknown shape" % (what, " ".join(pat)))
    if catch is None: die("%s: no catch-all arm" % what)
    return rows, catch

def cut_table(toks, what, helper_suffix):
    """Replace the name table in `toks` — an inline `match <ident string> { "A" => …, … }` or a call
    `helper(<ident string>)` (+ `helper_suffix`, e.g. `?`) of a function of this file whose body is
    exactly such a match on its parameter — by `TABLE ( ident )`.  Returns (tokens, rows, catch-all, via)."""
    k = string_match(toks)
    if k >= 0:
        scrut, arms, e = match_at(toks, k)
        var = ident_arg(scrut)
        if var is None: die("%s: the table is not matched on the identifier text (`%s`)" % (what, " ".join(scrut)))
        rows, catch = read_table(arms, what)
        return toks[:k] + ["TABLE", "(", var, ")"] + toks[e + 1:], rows, catch, "inline"
    fns = set(all_fns())
    why = []
    for k in range(len(toks) - 1):
        if toks[k] in fns and toks[k + 1] == "(" and (k == 0 or toks[k - 1] != "fn"):
            params, body = find_fn(toks[k])
            if string_match(body) < 0: continue
            # the helper: one string parameter, the body is the match on it (optionally `return …;`)
            ps = [p for p in " ".join(params).replace("& self ,", "").replace("& mut self ,", "").split(",") if p.strip()]
            if len(ps) != 1:
                why.append("`%s` takes %d parameters" % (toks[k], len(ps))); continue
            pname = ps[0].split(":")[0].strip()
            b = list(body)
            if b and b[0] == "return": b = b[1:]
            if b and b[-1] == ";": b = b[:-1]
            if not b or b[0] != "match":
                why.append("`%s` is not a single match" % toks[k]); continue
            scrut, arms, e = match_at(b, 0)
            if e != len(b) - 1 or ident_arg(scrut) != pname:
                why.append("`%s` is not a single match on its parameter" % toks[k]); continue
            ce = close_of(toks, k + 1)
            var = ident_arg(toks[k + 2:ce])
            if var is None: die("%s: helper `%s` is not called with the identifier text" % (what, toks[k]))
            start = k
            if k >= 2 and toks[k - 1] in (".", "::") and toks[k - 2] in ("self", "Self"): start = k - 2
            end = ce + 1
            if toks[end:end + len(helper_suffix)] != helper_suffix:
                die("%s: the result of helper `%s` is not used as `%s(..)%s`" % (what, toks[k], toks[k], "".join(helper_suffix)))
            end += len(helper_suffix)
            rows, catch = read_table(arms, what)
            return toks[:start] + ["TABLE", "(", var, ")"] + toks[end:], rows, catch, "helper " + toks[k]
    die("%s: no name table found (neither an inline match on string literals nor a call of a helper that is a single match "
        "on string literals%s)" % (what, "; candidates: " + ", ".join(why) if why else ""))

# ---------------------------------------------------------------------------------------------
# Normalisation
# ---------------------------------------------------------------------------------------------
LOG = {"debug", "trace", "info", "warn", "error"}
PANICS = {"panic", "unreachable", "unimplemented", "todo"}
def normalise(toks, params=()):
    toks = list(toks)
    # logging statements have no effect
    k = 0
    while k < len(toks):
        if toks[k] in LOG and toks[k + 1:k + 3] == ["!", "("]:
            s = k
            while s >= 2 and toks[s - 1] == "::": s -= 2
            e = close_of(toks, k + 2)
            if e + 1 < len(toks) and toks[e + 1] == ";": e += 1
            toks[s:e + 1] = []
            k = s
        else: k += 1
    # Box::new(x) = x.into() ; .expect("..") = .unwrap() ; .clone() / .to_owned() = .to_string()
    k = 0
    while k < len(toks):
        if toks[k:k + 4] == ["Box", "::", "new", "("] and close_of(toks, k + 3) == k + 5:
            toks[k:k + 6] = [toks[k + 4], ".", "into", "(", ")"]
        elif toks[k:k + 3] == [".", "expect", "("]:
            toks[k:close_of(toks, k + 2) + 1] = [".", "unwrap", "(", ")"]
        elif toks[k:k + 4] in ([".", "clone", "(", ")"], [".", "to_owned", "(", ")"]):
            toks[k + 1] = "to_string"
        k += 1
    # assert!(c, msg…) = assert!(c) ; if !c { panic!(..) } = assert!(c)
    k = 0
    while k < len(toks):
        if toks[k:k + 3] == ["assert", "!", "("]:
            e = close_of(toks, k + 2)
            c = find0(toks, k + 3, e, {","})
            if c >= 0: toks[c:e] = []
        elif toks[k:k + 2] == ["if", "!"]:
            b = find0(toks, k + 2, len(toks), {"{"})
            e = close_of(toks, b)
            inner = toks[b + 1:e]
            if inner and inner[0] in PANICS and inner[1:3] == ["!", "("] and close_of(inner, 2) >= len(inner) - 2 \
                    and (e + 1 >= len(toks) or toks[e + 1] != "else"):
                toks[k:e + 1] = ["assert", "!", "("] + toks[k + 2:b] + [")", ";"]
        k += 1
    # field-init shorthand: `T { a, b: x }` = `T { a: a, b: x }`
    k = 0
    while k < len(toks):
        if toks[k] == "{" and k and re.fullmatch(r"[A-Z]\w*", toks[k - 1]) and not (k >= 2 and toks[k - 2] in ("struct", "enum", "impl", "for", "trait")):
            e = close_of(toks, k)
            out, f = [], k + 1
            while f < e:
                c = find0(toks, f, e, {","})
                c = e if c < 0 else c
                field = toks[f:c]
                if len(field) == 1 and re.fullmatch(r"[a-z_]\w*", field[0]): field = [field[0], ":", field[0]]
                out += field + ([","] if c < e else [])
                f = c + 1
            toks[k + 1:e] = out
        k += 1
    # a match on the peeked token without guards = the if-let chain
    k = 0
    while k < len(toks):
        if toks[k] == "match":
            scrut, arms, e = match_at(toks, k)
            last = arms[-1] if arms else None
            if scrut == ["self", ".", "lexer", ".", "peek", "(", ")"] and len(arms) >= 2 and all(a[1] is None for a in arms) \
                    and last[0] in (["_"], ["None"]):
                out = []
                for n, (pat, _, body) in enumerate(arms[:-1]):
                    out += (["else"] if n else []) + ["if", "let"] + pat + ["="] + scrut + ["{"] + body + ["}"]
                out += ["else", "{"] + last[2] + ["}"]
                toks[k:e + 1] = out
                continue
        k += 1
    # trailing commas, a final `return x;`, a final `;`
    toks = [t for k, t in enumerate(toks) if not (t == "," and k + 1 < len(toks) and toks[k + 1] in ("}", ")", "]"))]
    if toks and toks[-1] == ";": toks = toks[:-1]
    r = len(toks) - 1
    d = 0
    while r >= 0:                       # start of the last statement
        if toks[r] in CLOSE: d += 1
        elif toks[r] in OPEN: d -= 1
        elif toks[r] == ";" and d == 0: break
        r -= 1
    if toks[r + 1:r + 2] == ["return"]: del toks[r + 1]
    # binders: let / if-let patterns and match-arm patterns; fresh positional name per occurrence
    binder = set()
    def pattern(a, b):
        for k in range(a, b):
            t, nxt, prev = toks[k], toks[k + 1] if k + 1 < len(toks) else "", toks[k - 1] if k else ""
            if re.fullmatch(r"[a-z_]\w*", t) and t not in ("mut", "ref", "self", "_") and nxt not in ("::", "(", "{", "!") and prev != "::":
                binder.add(k)
    for k, t in enumerate(toks):
        if t == "let":
            e = find0(toks, k + 1, len(toks), {"=", ":", ";"})
            pattern(k + 1, e if e >= 0 else len(toks))
        elif t == "match":
            b = find0(toks, k + 1, len(toks), {"{"})
            e = close_of(toks, b)
            p = b + 1
            while p < e:
                a = find0(toks, p, e, {"=>"})
                if a < 0: break
                g = find0(toks, p, a, {"if"})
                pattern(p, g if g >= 0 else a)
                if toks[a + 1] == "{": p = close_of(toks, a + 1) + 1
                else:
                    c = find0(toks, a + 1, e, {","})
                    p = (e if c < 0 else c)
                if p < e and toks[p] == ",": p += 1
    cur, count, out = {p: "_p%d" % (n + 1) for n, p in enumerate(params)}, 0, []
    for k, t in enumerate(toks):
        prev = toks[k - 1] if k else ""
        nxt = toks[k + 1] if k + 1 < len(toks) else ""
        if k in binder:
            count += 1
            cur[t] = "_v%d" % count
            out.append(cur[t])
        elif t in cur and prev not in (".", "$", "::") and not (nxt == ":" and prev in ("{", ",")):
            out.append(cur[t])
        else:
            out.append('"S"' if t.startswith('"') else t)
    return out

def check_shape(what, got, wants, mirrors, params=()):
    """`got`: (parameter tokens, body tokens) or body tokens ; `wants`: source snippets of the accepted
    (equivalent) shapes, written with the parameter names `params`"""
    if isinstance(got, tuple):
        names = param_names(got[0])
        if len(names) != len(params): die("%s takes %d parameters, expected %d" % (what, len(names), len(params)))
        g = normalise(got[1], names)
    else:
        g = normalise(got)
    best = None
    for want in wants if isinstance(wants, list) else [wants]:
        w = normalise(tokenize(want), params)
        if g == w: return
        k = next((i for i, (a, b) in enumerate(zip(g, w)) if a != b), min(len(g), len(w)))
        if best is None or k > best[0]: best = (k, w)
    k, w = best
    die("%s no longer has the shape the model's %s mirrors (token %d: found `%s`, expected `%s`)"
        % (what, mirrors, k, " ".join(g[k:k + 6]), " ".join(w[k:k + 6])))

# --- the macro: first operand, then a loop that folds to the left -------------------------
try:
    k = next(i for i in range(len(ALL) - 3) if ALL[i:i + 3] == ["macro_rules", "!", "parse_binop"])
except StopIteration:
    die("macro parse_binop!")
check_shape("parse_binop!", ALL[k + 4:close_of(ALL, k + 3)], """
    ($self:ident.$f:ident, ($token:expr, $op:expr) $(,($token_rep:expr, $op_rep:expr))*) => { {
        let mut expr = $self.$f();
        loop {
            let (op_kind, rhs) = if $self.eat(&$token) { ($op, $self.$f()) }
                $(else if $self.eat(&$token_rep) { ($op_rep, $self.$f()) })* else { break; };
            expr = Expr::BinOp { kind: op_kind, lhs: expr.into(), rhs: rhs.into() };
        }
        expr
    } }""", "binLevel/binLoop")

# --- the ladder: every fn whose body is exactly one parse_binop! call -----------------------
rows = {}
for name in dict.fromkeys(all_fns(PARSER)):
    _, body = method(name)
    if body[:3] == ["parse_binop", "!", "("] and close_of(body, 2) == len(body) - 1:
        inner = [t for k, t in enumerate(body[3:-1]) if not (t == "," and k + 4 == len(body) - 1)]
        if inner[:2] != ["self", "."] or inner[3] != ",": die("parse_binop! call in `%s`: first argument is not self.<next>" % name)
        rest, pairs = inner[4:], []
        while rest:
            if rest[:4] != ["(", "Token", "::", rest[3]] or rest[4:7] != [",", "BinOpKind", "::"] or rest[8:9] != [")"]:
                die("parse_binop! call in `%s`: operator pair of unknown shape" % name)
            t, o = rest[3], rest[7]
            if t not in TOKENS: die("unknown token Token::" + t)
            if o not in BINOPS: die("unknown operator BinOpKind::" + o)
            pairs.append((t, o))
            rest = rest[9:]
            if rest[:1] == [","]: rest = rest[1:]
        if not pairs: die("parse_binop! call in `%s` without operators" % name)
        rows[name] = (inner[2], pairs)
_, expr_body = method("expr")
n_expr = normalise(expr_body)
if n_expr[:6] != ["let", "_v1", "=", "self", ".", n_expr[5]] or n_expr[6:9] != ["(", ")", ";"]:
    die("Parser::expr does not start with a ladder call")
first = n_expr[5]
check_shape("Parser::expr", expr_body, """
    let expr = self.%s();
    if self.eat(&Token::Question) {
        let then = self.expr();
        self.expect(&Token::Colon);
        let else_ = self.expr();
        Expr::If { cond: expr.into(), then: then.into(), else_: else_.into() }
    } else { expr }""" % first, "exprBody")
ladder, cur, seen = [], first, set()
while cur in rows:
    if cur in seen: die("cyclic ladder at " + cur)
    seen.add(cur)
    nxt, pairs = rows[cur]
    ladder.append((cur, pairs))
    cur = nxt
if cur != "unop": die("the ladder ends in `%s`, expected `unop`" % cur)
if len(seen) != len(rows): die("parse_binop! functions outside the call chain: %s" % sorted(set(rows) - seen))

check_shape("Parser::unop", method("unop"), """
    if self.eat(&Token::Tilde) { let expr = self.unop(); Expr::UnOp { kind: UnOpKind::Not, expr: expr.into() } }
    else if self.eat(&Token::Minus) { let expr = self.unop(); Expr::UnOp { kind: UnOpKind::Neg, expr: expr.into() } }
    else if self.eat(&Token::Plus) { self.unop() } else { self.pow() }""", "unopBody")
check_shape("Parser::pow", method("pow"), """
    let expr = self.primary();
    if self.eat(&Token::DoubleStar) {
        let rhs = self.unop();
        Expr::BinOp { kind: BinOpKind::Pow, lhs: expr.into(), rhs: rhs.into() }
    } else { expr }""", "powBody")

# --- the function-name table (inline or helper) and the rest of primary ----------------------
prim, frows, fcatch, fvia = cut_table(method("primary")[1], "function-name table of Parser::primary", [])
if not (fcatch[:1] and fcatch[0] in PANICS and fcatch[1:2] == ["!"]):
    die("function-name table: the catch-all arm is not a panic (`%s`)" % " ".join(fcatch[:6]))
funcs = []
for n, v in frows:
    if len(v) != 3 or v[:2] != ["UnOpKind", "::"] or v[2] not in UNOPS:
        die("function-name table: arm \"%s\" => `%s` of unknown shape" % (n, " ".join(v)))
    funcs.append((n, v[2]))
check_shape("Parser::primary", prim, """
    if self.eat(&Token::LParen) {
        let expr = self.expr();
        self.expect(&Token::RParen);
        expr
    } else if let Some(i) = self.next_integer() { Expr::Integer(i) }
    else if let Some(f) = self.next_float() { Expr::Float(f) }
    else {
        let s = self.next_ident().unwrap();
        if self.eat(&Token::LParen) {
            let op = TABLE(s);
            let expr = self.expr();
            self.expect(&Token::RParen);
            Expr::UnOp { kind: op, expr: expr.into() }
        } else { Expr::Ident(s) }
    }""", "primaryBody")

check_shape("Parser::eat", method("eat"), [
    "match self.lexer.peek() { Some(peek) if peek == tok => { self.lexer.next(); true } _ => false }",
    "if self.lexer.peek() == Some(tok) { self.lexer.next(); true } else { false }",
    "if matches!(self.lexer.peek(), Some(peek) if peek == tok) { self.lexer.next(); true } else { false }",
    "if let Some(peek) = self.lexer.peek() { if peek == tok { self.lexer.next(); true } else { false } } else { false }",
    "let hit = self.lexer.peek() == Some(tok); if hit { self.lexer.next(); } hit",
], "eat", params=["tok"])
check_shape("Parser::expect", method("expect"), "assert!(self.eat(tok))",
            "expect (a failed expectation is a panic in every build profile)", params=["tok"])
check_shape("Parser::next_integer", method("next_integer"), """
    if let Some(&Token::Integer(i)) = self.lexer.peek() { self.lexer.next(); Some(i) } else { None }""", "primaryBody (integer token)")

# --- the constant table (inline or helper) and the rest of next_float ------------------------
nf_raw = method("next_float")[1]
nf, crows, ccatch, cvia = cut_table(nf_raw, "constant table of Parser::next_float", ["?"] if string_match(nf_raw) < 0 else [])
consts = []
for n, v in crows:
    if cvia != "inline":
        if v[:2] != ["Some", "("] or v[-1] != ")": die("constant table: helper arm \"%s\" is not `Some(..)`" % n)
        v = v[2:-1]
    path = "".join(v)
    ok = path in ("std::f64::consts::" + n, "core::f64::consts::" + n, "f64::consts::" + n) \
        or (path == "consts::" + n and re.search(r"use (std|core)::f64::consts\b", src)) \
        or (path == n and re.search(r"use (std|core)::f64::consts::(\{[^}]*\b%s\b[^}]*\}|%s\b)" % (n, n), src))
    if not ok: die("constant %s bound to `%s`, expected std::f64::consts::%s" % (n, path, n))
    consts.append(n)
if ccatch != (["return", "None"] if cvia == "inline" else ["None"]):
    die("constant table: the catch-all arm is `%s`" % " ".join(ccatch))
check_shape("Parser::next_float", nf, """
    if let Some(&Token::Float(f)) = self.lexer.peek() { self.lexer.next(); Some(f) }
    else if let Some(Token::Ident(s)) = self.lexer.peek() { let f = TABLE(s); self.lexer.next(); Some(f) }
    else { None }""", "primaryBody (float token, constants)")
check_shape("Parser::next_ident", method("next_ident"), [
    "if let Some(Token::Ident(s)) = self.lexer.peek() { let s = s.to_string(); self.lexer.next(); Some(s) } else { None }",
    "if let Some(Token::Ident(s)) = self.lexer.peek() { let s = String::from(s); self.lexer.next(); Some(s) } else { None }",
], "primaryBody (identifier token)")

# --- `parse`: the whole text is one expression — a real assertion in every build profile -------
check_shape("formula::parse", find_fn("parse"), """
    let lexer = Lexer::new(s);
    let mut parser = Parser { lexer };
    let expr = parser.expr();
    assert!(parser.lexer.peek().is_none());
    expr""", "parseToks (end-of-input assertion in every build profile)", params=["s"])

h = hashlib.sha1(src.encode()).hexdigest()[:16]
L = ["/- GENERATED by tools/gen_formula_tables.py from genapi/src/formula.rs — do not edit.",
     "   Regenerated on every check run; Props/C05.lean proves the model's tables equal these. -/",
     "import CamVerif.Model.Formula",
     "namespace CamVerif.Gen.FormulaTables",
     "open CamVerif.Formula",
     "",
     "/-- one entry per `parse_binop!` call, in call-chain order from `Parser::expr` (loosest first):",
     "(function name, operators in the order they are tried) -/",
     "def ladder : List (String × List (Sym × BinOpKind)) :=",
     "  [ " + ",\n    ".join('("%s", [%s])' % (n, ", ".join("(.%s, .%s)" % (lower(t), lower(o)) for t, o in ps)) for n, ps in ladder) + " ]",
     "",
     "def ladderRows : List Row := ladder.map (·.2)",
     "",
     "/-- arms of the function-name table used by `Parser::primary`, in source order -/",
     "def functions : List (String × UnOpKind) :=",
     "  [ " + ", ".join('("%s", .%s)' % (n, lower(o)) for n, o in funcs) + " ]",
     "",
     "/-- identifiers `next_float` turns into `std::f64::consts` values -/",
     "def constants : List String := [" + ", ".join('"%s"' % n for n in consts) + "]",
     "",
     "end CamVerif.Gen.FormulaTables", ""]
open(OUT, "w").write("\n".join(L))
print("HASH genapi/src/formula.rs " + h)
print("gen_formula_tables: %d ladder rows, %d functions (%s), %d constants (%s)" % (len(ladder), len(funcs), fvia, len(consts), cvia))
