#!/bin/bash
# tools/runseeds2.sh Cxx... : keepseed for every /tmp/mut3-Cxx-out/N (round 3), then remove the worktree
cd /verif
for p in "$@"; do
  for d in /tmp/mut3-$p-out/*/; do
    [ -f $d/patch.diff ] || continue
    n=$(basename $d)
    echo "== $p r3-$n"
    tools/keepseed.py $p /tmp/mut3-$p $d $p-r3-seed$n $SEEDARGS 2>&1 | tee -a work/seeds3-$p.keep | grep -E "\"applies|\"detected|VIOLATION|kept|NOT KEPT|existing_tests_pass|\"demo_|tail"
  done
  # keep the outputs of anything that was not stored, for inspection
  if grep -q "NOT KEPT" work/seeds3-$p.keep 2>/dev/null; then echo "outputs of $p kept in /tmp/mut3-$p-out"; else rm -rf /tmp/mut3-$p-out /tmp/mut3-$p-task.txt; fi
  git -C /repo worktree remove --force /tmp/mut3-$p; rm -rf /tmp/mut3-$p
done

