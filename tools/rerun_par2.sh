#!/bin/bash
# tools/rerun_par.sh <workers> <seed dir name>...   (no names: every stored seed)
# Re-confirm stored seeds against /repo's current HEAD with several scratch worktrees in parallel.
# $SEEDARGS (e.g. "--seeds 1,7,23") is passed to keepseed.py.  Logs: work/rerun/<name>.log
cd /verif
N=$1; shift
names=("$@")
if [ ${#names[@]} -eq 0 ]; then
  for d in seeded/C*/; do n=$(basename $d); [ -f seeded/$n/OBSOLETE.txt ] || names+=("$n"); done
fi
mkdir -p work/rerun
for k in $(seq 0 $((N-1))); do
  (
    WT=/tmp/mut-rerunB-$k
    git -C /repo worktree remove --force $WT 2>/dev/null
    git -C /repo worktree add -q --detach $WT HEAD
    i=0
    for name in "${names[@]}"; do
      if [ $((i % N)) -eq $k ]; then
        p=${name%%-*}
        tools/keepseed.py $p $WT /verif/seeded/$name $name $SEEDARGS > work/rerun/$name.log 2>&1
        echo "$name $(grep -cE 'kept' work/rerun/$name.log) $(grep -E '^ "detected"|NOT KEPT' work/rerun/$name.log | tr -d '\n')"
      fi
      i=$((i+1))
    done
    git -C /repo worktree remove --force $WT
    rm -rf $WT
  ) &
done
wait
git -C /repo worktree prune
