#!/usr/bin/env python3
"""Keep a confirmed seeded change: tools/keepseed.py <Cxx> <worktree> <seed_dir> <name>  (runs seedtest, stores under seeded/<name>/)"""
import json, os, shutil, subprocess, sys
pid, wt, sd, name = sys.argv[1:5]
ROOT = os.path.dirname(os.path.dirname(os.path.abspath(__file__)))
out = subprocess.run([os.path.join(ROOT, "tools/seedtest.py"), pid, wt, sd] + sys.argv[5:], stdout=subprocess.PIPE, text=True).stdout
res = json.loads(out[out.index("{"):])
ok = res["applies"] and res["existing_tests_pass_with_patch"] and res["demo_fails_with_patch"] and res["demo_passes_without_patch"]
print(json.dumps(res, indent=1))
if not ok:
    print("NOT KEPT: the change is not a confirmed property-breaking change"); sys.exit(1)
d = os.path.join(ROOT, "seeded", name); os.makedirs(d, exist_ok=True)
if os.path.realpath(sd) != os.path.realpath(d):
    shutil.copy(os.path.join(sd, "patch.diff"), d)
    for f in os.listdir(sd):
        if f.startswith("demo"): shutil.copy(os.path.join(sd, f), d)
meta = json.load(open(os.path.join(sd, "meta.json")))
import re as _re
meta["demo_cmd"] = _re.sub(r"/tmp/mut\d?-C\d+-out/\d+/", d + "/", meta["demo_cmd"])
meta.update({"breaks_property": pid, "confirmed": {k: res[k] for k in ("applies", "existing_tests_pass_with_patch", "demo_fails_with_patch", "demo_passes_without_patch")},
             "what_i_ran": f"tools/seedtest.py {pid} <scratch worktree> <seed dir>: git apply; {meta.get('existing_tests_cmd')}; demo; VERIF_REPO=<worktree> ./check {pid}; revert; demo",
             "check_result": {"rc": res["check_rc"], "lines": res["check_lines"], "detected": res["detected"], "per_seed": res.get("per_seed"),
                              "concrete_replay": any(l.startswith("VIOLATION") and "no-failing-input-found" not in l for l in res["check_lines"])}})
json.dump(meta, open(os.path.join(d, "meta.json"), "w"), indent=1)
print("kept as", d)
