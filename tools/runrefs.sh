#!/bin/bash
# tools/runrefs.sh Cxx... : reftest for every /tmp/ref-Cxx-out/N, then remove the worktree
cd /verif
for p in "$@"; do
  for d in /tmp/ref-$p-out/*/; do
    [ -f $d/patch.diff ] || continue
    n=$(basename $d)
    tools/reftest.py $p /tmp/ref-$p $d $p-ref$n 2>&1 | tail -1
  done
  git -C /repo worktree remove --force /tmp/ref-$p; rm -rf /tmp/ref-$p /tmp/ref-$p-out /tmp/ref-$p-task.txt
done
