#!/usr/bin/env python3
"""Print the prompt for a 'harmless refactoring' sub-agent: only the property text + scratch worktree
(nothing from /verif).  The resulting patches must NOT make any check fail (false-alarm measurement)."""
import json, sys
pid, n = sys.argv[1], int(sys.argv[2]) if len(sys.argv) > 2 else 3
for l in open('/verif/properties.jsonl'):
    p = json.loads(l)
    if p['id'] == pid: break
wt = f"/tmp/ref-{pid}"
print(f"""You are a maintainer of a Rust library doing routine clean-up work. You work ONLY inside the git worktree {wt} (a checkout of the repository cameleon-rs/cameleon: GenICam / USB3 Vision camera library; crates device/, cameleon/, genapi/, impl/ (+impl/macros), gentl/). Do not look at or touch /repo or /verif. Network is unavailable; build with `--offline` (first build takes 1-2 minutes). Note: `cameleon-device`'s and `cameleon`'s u3v modules need `--features libusb` (e.g. `cargo test -p cameleon-device --features libusb --offline`, `cargo test -p cameleon --features libusb --offline --lib`); genapi: `cargo test -p cameleon-genapi --offline`; impl: `cargo test -p cameleon-impl --offline`; gentl: `cargo test -p cameleon-gentl --offline`. Code marked `#[cfg(cameleon_verif)]` is test instrumentation: do not modify it.

The following behavioural property holds for the current code and MUST KEEP HOLDING after your work:

"{pid} — {p['title']}. {p['statement']}"
Quantified over: {p['quantifier']['text']}
Files where the behaviour lives: {', '.join(p['anchors']['files'])}

YOUR TASK: produce {n} different, independent, BEHAVIOUR-PRESERVING source changes (each a separate patch against the pristine worktree) to the code in the files above that implements this behaviour — the kind of refactoring, clean-up or micro-optimisation a careful maintainer would really make and a reviewer would accept: e.g. rename local variables / private fields / private helper functions, extract a private helper function or inline one, reorder independent statements or match arms, replace a `match` by `if let` / combinators (or the reverse), rewrite a loop as an iterator chain (or the reverse), replace `as` casts by `from`/`try_from` where provably lossless, turbofish vs type ascription, hex vs decimal spelling of a constant, introduce a named constant for a literal, move `where` bounds, change the wording of an error MESSAGE (not the error variant), add comments/doc comments, split or merge `impl` blocks, change a private function's signature. Make the {n} patches different in kind and touch the central functions of the behaviour (not only comments). Each patch should touch at most ~60 lines.

STRICT REQUIREMENT: every patch must preserve the observable behaviour of every public function EXACTLY, for ALL inputs, in BOTH debug and release builds: same return values, same error variants, same panics/non-panics (including arithmetic-overflow panics in debug builds), same order and content of device reads/writes and of any other externally visible effect, same public API (names, signatures, visibility, trait impls). If you are not certain a change is behaviour-preserving for every input, do not make it. Do not fix bugs, do not add validation, do not remove validation.

Procedure per change N = 1..{n}: start from a clean tree (`git -C {wt} checkout -- . && git -C {wt} clean -fdq -e target`), make the edit, build and run the existing tests of the touched crate(s) (must pass), save the change as {wt}-out/N/patch.diff (`git diff`; create the directory) and write {wt}-out/N/meta.json: {{"property":"{pid}","summary":"<one line>","why_preserving":"<short argument why behaviour is unchanged for all inputs and both build profiles>","existing_tests_cmd":"<exact command>","files":["…"]}}. Then revert.

Finish by leaving the worktree clean and report the summaries. Do not delete {wt} itself.""")
