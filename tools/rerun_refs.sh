#!/bin/bash
# tools/rerun_refs.sh <name>... : re-run the false-alarm measurement for stored refactorings (default: all)
cd /verif
WT=/tmp/ref-rerun-$$
git -C /repo worktree add -q --detach $WT HEAD
names=("$@"); [ ${#names[@]} -eq 0 ] && names=($(ls refactors))
for n in "${names[@]}"; do
  p=${n%%-*}
  cp -r refactors/$n /tmp/ref-src-$$ && tools/reftest.py $p $WT /tmp/ref-src-$$ $n $REFARGS 2>&1 | tail -1; rm -rf /tmp/ref-src-$$
done
git -C /repo worktree remove --force $WT; rm -rf $WT
