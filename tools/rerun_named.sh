#!/bin/bash
# tools/rerun_named.sh <seed dir name>... : re-confirm the named stored seeds against /repo's current HEAD
cd /verif
WT=/tmp/mut-rerun
git -C /repo worktree remove --force $WT 2>/dev/null
git -C /repo worktree add -q --detach $WT HEAD
for name in "$@"; do
  p=${name%%-*}
  echo "== $name"
  tools/keepseed.py $p $WT /verif/seeded/$name $name $SEEDARGS 2>&1 | grep -E "\"applies|\"detected|kept|NOT KEPT|existing_tests_pass|\"demo_"
done
git -C /repo worktree remove --force $WT
