#!/usr/bin/env python3
"""Regenerate seeded/README.md: which check catches which seeded change."""
import glob, json, os
ROOT = os.path.dirname(os.path.dirname(os.path.abspath(__file__)))
rows = []
for m in sorted(glob.glob(os.path.join(ROOT, "seeded", "*", "meta.json"))):
    d = json.load(open(m)); name = os.path.basename(os.path.dirname(m))
    cr = d.get("check_result", {})
    if os.path.exists(os.path.join(os.path.dirname(m), "OBSOLETE.txt")):
        rows.append(f"| {name} | {d.get('breaks_property')} | {d.get('summary','').replace('|','/')[:160]} | – | obsolete (see OBSOLETE.txt: the change no longer breaks the property on the repaired code) |")
        continue
    how = "concrete replay" if cr.get("concrete_replay") else ("tie broken, no-failing-input-found" if cr.get("detected") else "MISSED by this property's check")
    ps = cr.get("per_seed") or {}
    if len(ps) > 1:
        how += " (seeds " + ", ".join(f"{k}: {'hit' if v.get('detected') else 'MISS'}" for k, v in ps.items()) + ")"
    if d.get("also_checked_by"):
        how += "; " + ", ".join(f"./check {k}: {v}" for k, v in d["also_checked_by"].items())
    rows.append(f"| {name} | {d.get('breaks_property')} | {d.get('summary','').replace('|','/')[:160]} | {d.get('needs','').replace('|','/')[:140]} | {how} |")
out = ["# Seeded property-breaking changes", "",
       "Each directory holds `patch.diff` (against /repo), the demonstration that fails with the change and passes without it, and `meta.json` (what it needs to manifest, what was run, the check's verdict). Produced by fresh sub-agents that saw only the property text; confirmed with `tools/seedtest.py` in a scratch worktree (never applied to /repo).", "",
       "| seed | property | change | needs | ./check verdict |", "|---|---|---|---|---|"] + rows
open(os.path.join(ROOT, "seeded", "README.md"), "w").write("\n".join(out) + "\n")
print("\n".join(out[-len(rows):]))
