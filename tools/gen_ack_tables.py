#!/usr/bin/env python3
"""(G) tie for C08: re-emit lean/CamVerif/Gen/AckTables.lean from the CURRENT
/repo/device/src/u3v/protocol/{ack,event}.rs: prefix magics, event command id, the
namespace shift/mask expression and namespace arms of `Status::parse`, the GenCP / USB
status-code match tables and the ScdKind command-id table.

What is pinned is the VALUE content (literals, which arm leads where, variant names); local
identifiers, `Self::` vs the type name, type ascription vs turbofish, error texts and the body
of `is_fatal` (decided by the exhaustive 65536-code sweep of the harness) are NOT pinned.
The tables are emitted with the *model's* constructors (Rust variant `FooBar` -> Lean
`.fooBar`), so an added / renamed variant makes the generated file fail to compile.
Wherever a value is expected (patterns, shifts, masks, codes, magics) a constant EXPRESSION is
accepted and evaluated: literals, named constants (free or associated `const NAME: T = <expr>;`,
resolved recursively; `NAME`, `Self::NAME`, `Type::NAME`), `<< >> | & ^ + - *`, parentheses and
the lossless conversions `T::from(x)`, `x as T` (range-checked), `x.into()`.  The namespace
scrutinee may be let-bound or written directly in the `match`; a table `match` may be
`match x { V => Ok(T::A), _ => Err(..) }` or `let k = match x { V => T::A, _ => return Err(..) }; Ok(k)`.
Values are always extracted: a changed value changes the generated table (or is refused).
Every arm of a translated `match` must be a plain value arm: or-patterns, guards, ranges,
bindings are refused loudly, never dropped.  `--out <file>` writes elsewhere (tests)."""
import hashlib, os, re, sys
REPO = os.environ.get("VERIF_REPO", "/repo")
ACK = os.path.join(REPO, "device/src/u3v/protocol/ack.rs")
EVT = os.path.join(REPO, "device/src/u3v/protocol/event.rs")
OUT = os.path.join(os.path.dirname(os.path.dirname(os.path.abspath(__file__))), "lean/CamVerif/Gen/AckTables.lean")
if "--out" in sys.argv:
    OUT = sys.argv[sys.argv.index("--out") + 1]
ack = open(ACK).read()
evt = open(EVT).read()

LIT = r"(0b[01_]+|0x[0-9a-fA-F_]+|\d[\d_]*)(?:_?[iu](?:8|16|32|64|size))?"
ID = r"[A-Za-z_]\w*"


def die(msg):
    print("gen_ack_tables: cannot translate: " + msg, file=sys.stderr)
    sys.exit(2)


def lit(s):
    e = re.sub(r"_?[iu](8|16|32|64|size)$", "", s.strip()).replace("_", "")
    try:
        return int(e, 0)
    except ValueError:
        die("non-literal `%s`" % s)


def strip_comments(s):
    return re.sub(r"//.*", "", s)


def lean_ctor(v):
    return v[0].lower() + v[1:]


def block_at(src, i):
    """text between the `{` at/after index i and its matching `}`"""
    i = src.index("{", i)
    depth, j = 0, i
    while True:
        if src[j] == "{":
            depth += 1
        elif src[j] == "}":
            depth -= 1
            if depth == 0:
                return src[i + 1:j]
        j += 1


def impl_block(src, ty):
    blocks = [block_at(src, m.end() - 1) for m in re.finditer(r"\bimpl(?:<[^>]*>)?\s+%s(?:<[^>]*>)?\s*\{" % ty, src)]
    if not blocks:
        die("impl " + ty)
    return "\n".join(blocks)


def fn_in(block, name, what):
    ms = list(re.finditer(r"\bfn\s+%s\s*(?:<[^>]*>)?\s*\(" % name, block))
    if len(ms) != 1:
        die("%s: expected exactly one fn %s, found %d" % (what, name, len(ms)))
    m = ms[0]
    # parameter list -> first `{` after the closing parenthesis / return type
    depth, j = 0, m.end() - 1
    while True:
        if block[j] == "(":
            depth += 1
        elif block[j] == ")":
            depth -= 1
            if depth == 0:
                break
        j += 1
    return strip_comments(block_at(block, j))


INT_T = {"u8": 8, "u16": 16, "u32": 32, "u64": 64, "usize": 64, "i8": 7, "i16": 15, "i32": 31, "i64": 63, "isize": 63}
INT_RE = "(?:" + "|".join(INT_T) + ")"


def consts_of(src):
    """every `const NAME: T = <expr>;` of a file (free or associated)"""
    d = {}
    for m in re.finditer(r"\bconst\s+(%s)\s*:\s*[\w:<>&' ]+?\s*=\s*([^;]+);" % ID, strip_comments(src)):
        name, expr = m.group(1), " ".join(m.group(2).split())
        if name in d and d[name] != expr:
            d[name] = None      # ambiguous: two different definitions in one file
        else:
            d[name] = expr
    return d


def value(expr, consts, what, depth=0):
    """evaluate a constant expression (see module docstring); dies on anything else"""
    if depth > 16:
        die("%s: constant recursion too deep in `%s`" % (what, expr))
    e = " ".join(expr.strip().split())

    def fits(v, t, shown):
        if not (0 <= v < 2 ** INT_T[t]):
            die("%s: conversion to %s is not lossless in `%s`" % (what, t, shown))
        return str(v)

    # T::from(<no nested parens>) and `<atom> as T`, innermost first
    for _ in range(32):
        m = re.search(r"\b(%s)::from\(([^()]*)\)" % INT_RE, e)
        if m:
            e = e[:m.start()] + fits(value(m.group(2), consts, what, depth + 1), m.group(1), m.group(0)) + e[m.end():]
            continue
        m = re.search(r"(\([^()]*\)|[\w:]+)\s+as\s+(%s)\b" % INT_RE, e)
        if m:
            e = e[:m.start()] + fits(value(m.group(1), consts, what, depth + 1), m.group(2), m.group(0)) + e[m.end():]
            continue
        break
    e = re.sub(r"\.into\(\)", "", e)
    # literal type suffixes
    e = re.sub(r"\b(0b[01_]+|0x[0-9a-fA-F_]+|\d[\d_]*?)_?%s\b" % INT_RE, r"\1", e)

    # named constants (last path segment decides: NAME, Self::NAME, Type::NAME)
    def name_sub(m):
        name = m.group(0).split("::")[-1]
        if name not in consts:
            die("%s: `%s` is neither a literal nor a known constant" % (what, m.group(0)))
        if consts[name] is None:
            die("%s: constant `%s` has two different definitions" % (what, name))
        return "(" + str(value(consts[name], consts, what, depth + 1)) + ")"

    e = re.sub(r"(?<![\w])(?:%s::)*%s" % (ID, ID), name_sub, e)
    if not re.fullmatch(r"[0-9a-fA-FxXbB_+\-*<>|&^() ]+", e):
        die("%s: non-constant expression `%s`" % (what, expr))
    try:
        v = eval(e.replace("_", ""), {"__builtins__": {}})
    except Exception:
        die("%s: cannot evaluate `%s`" % (what, expr))
    if not isinstance(v, int) or v < 0:
        die("%s: `%s` is not a natural number" % (what, expr))
    return v


ACK_CONSTS = consts_of(ack)
EVT_CONSTS = consts_of(evt)


def const(consts, name, what):
    if name not in consts or consts[name] is None:
        die(what)
    return value(consts[name], consts, what)


VAL = r"((?:[\w:]+|\([^()]*\))(?: as \w+)?)"     # a value position inside an arm / expression


def match_block(body, head_re, what):
    """inner text of `match <scrutinee> {...}` introduced by head_re (which ends at the `{`)"""
    ms = list(re.finditer(head_re, body))
    if len(ms) != 1:
        die("%s: expected exactly one match, found %d" % (what, len(ms)))
    return ms[0], block_at(body, ms[0].end() - 1)


def split_arms(text, what):
    """top-level arms `pat => expr` of a match block, as whitespace-collapsed strings"""
    arms, depth, cur = [], 0, ""
    i = 0
    while i < len(text):
        c = text[i]
        if c in "({[":
            depth += 1
        elif c in ")}]":
            depth -= 1
        cur += c
        # an arm ends at a top-level `,`, or after a top-level `}` that closes a block arm
        if depth == 0 and (c == "," or (c == "}" and "=>" in cur)):
            if cur.strip().strip(","):
                arms.append(" ".join(cur.strip().rstrip(",").split()))
            cur = ""
        i += 1
    if cur.strip():
        arms.append(" ".join(cur.strip().split()))
    if not arms:
        die(what + ": no arms")
    return arms


def value_arms(text, rhs_res, what, default_re, consts):
    """every arm must be `<const expr> => <one of rhs_res, each with one group>` (the same rhs
    form in all arms); the last arm must be the default"""
    arms = split_arms(text, what)
    if not re.fullmatch(default_re, arms[-1]):
        die("%s: last arm is not the expected default (error) arm: `%s`" % (what, arms[-1][:80]))
    rows, used = [], set()
    for a in arms[:-1]:
        for k, rhs_re in enumerate(rhs_res):
            mm = re.fullmatch(VAL + r" => " + rhs_re, a)
            if mm:
                used.add(k)
                rows.append((value(mm.group(1), consts, what + ": arm `%s`" % a[:60]), mm.group(2)))
                break
        else:
            die("%s: unsupported arm `%s`" % (what, a[:80]))
    if not rows:
        die(what + ": no value arms")
    if len(used) != 1:
        die(what + ": arms mix different result forms")
    if len(set(c for c, _ in rows)) != len(rows):
        die(what + ": duplicate code")
    return rows, used.pop()


ack_magic = const(ACK_CONSTS, "PREFIX_MAGIC", "ack PREFIX_MAGIC")
evt_magic = const(EVT_CONSTS, "PREFIX_MAGIC", "event PREFIX_MAGIC")
evt_cmd = const(EVT_CONSTS, "EVENT_COMMAND_ID", "EVENT_COMMAND_ID")

status_impl = impl_block(ack, "Status")


def match_heads(body):
    """(scrutinee text, inner block) of every `match <scrutinee> { .. }` of a function body"""
    out = []
    for m in re.finditer(r"\bmatch\s+", body):
        depth, j = 0, m.end()
        while j < len(body) and not (body[j] == "{" and depth == 0):
            depth += body[j] in "(["
            depth -= body[j] in ")]"
            j += 1
        if j == len(body):
            die("unterminated match")
        out.append((" ".join(body[m.end():j].split()), block_at(body, j)))
    return out


def let_bound(body, name):
    ms = list(re.finditer(r"\blet (?:mut )?%s(?:\s*:\s*\w+)?\s*=\s*([^;]+);" % re.escape(name), body))
    return " ".join(ms[0].group(1).split()) if len(ms) == 1 else None


# ---- Status::parse: match on `(<code> >> S) & M` (let-bound or written in the match)
body = fn_in(status_impl, "parse", "Status::parse")
heads = match_heads(body)
if len(heads) != 1:
    die("Status::parse: expected exactly one match, found %d" % len(heads))
scrut, arms_src = heads[0]
if re.fullmatch(ID, scrut):
    scrut = let_bound(body, scrut) or die("Status::parse: no unique `let %s = ..;`" % scrut)
E = r"([^()&>]+?)"
m1 = re.fullmatch(r"\(\s*(%s)\s*>>\s*%s\s*\)\s*&\s*%s" % (ID, E, E), scrut)
m2 = re.fullmatch(r"\(\s*(%s)\s*&\s*%s\s*\)\s*>>\s*%s" % (ID, E, E), scrut)
if m1:
    code_var = m1.group(1)
    ns_shift = value(m1.group(2), ACK_CONSTS, "namespace shift")
    ns_mask = value(m1.group(3), ACK_CONSTS, "namespace mask")
elif m2:
    code_var = m2.group(1)
    ns_shift = value(m2.group(3), ACK_CONSTS, "namespace shift")
    pre = value(m2.group(2), ACK_CONSTS, "namespace mask")
    if (pre >> ns_shift) << ns_shift != pre:
        die("Status::parse: mask `%s` has bits below the shift" % m2.group(2))
    ns_mask = pre >> ns_shift
else:
    die("Status::parse: namespace scrutinee is not `(code >> S) & M`: `%s`" % scrut[:80])
ERR_DEFAULT = r"_ => (?:\{ )?(?:return )?Err\(.*\)(?: \})?"
SELF = r"(?:Self|Status)"
cv = re.escape(code_var)
ns_rows, _ = None, None
ns_arms = []
arms = split_arms(arms_src, "match namespace")
if not re.fullmatch(ERR_DEFAULT, arms[-1]):
    die("match namespace: last arm is not `_ => Err(..)`: `%s`" % arms[-1][:80])
for a in arms[:-1]:
    for rx, target in (
        (VAL + r" => %s::parse_gencp_status\(%s\)" % (SELF, cv), "genCp"),
        (VAL + r" => %s::parse_usb_status\(%s\)" % (SELF, cv), "usb"),
        (VAL + r" => Ok\(%s \{ (?:code(?:: %s)?, kind: StatusKind::DeviceSpecific|kind: StatusKind::DeviceSpecific, code(?:: %s)?),? \}\)"
         % (SELF, cv, cv), "deviceSpecific"),
    ):
        mm = re.fullmatch(rx, a)
        if mm:
            ns_arms.append((value(mm.group(1), ACK_CONSTS, "match namespace: arm `%s`" % a[:60]), target))
            break
    else:
        die("match namespace: unsupported arm `%s`" % a[:90])
if len(set(p for p, _ in ns_arms)) != len(ns_arms):
    die("match namespace: duplicate pattern")
ns_arms.sort()


def table_match(body, what):
    """the one `match <ident> {..}` of a table function"""
    heads = [h for h in match_heads(body) if re.fullmatch(ID, h[0])]
    if len(heads) != 1:
        die("%s: expected exactly one `match <ident> {`, found %d" % (what, len(heads)))
    return heads[0][1]


def code_table(fn, what):
    b = fn_in(status_impl, fn, what)
    rows, _ = value_arms(table_match(b, what), [r"(?:%s::)*(%s)" % (ID, ID)], what, ERR_DEFAULT, ACK_CONSTS)
    return rows


gencp = code_table("parse_gencp_status", "parse_gencp_status")
usb = code_table("parse_usb_status", "parse_usb_status")

body = fn_in(impl_block(ack, "ScdKind"), "parse", "ScdKind::parse")
KIND = r"(?:Self|ScdKind)::(%s)" % ID
kinds, form = value_arms(table_match(body, "ScdKind::parse"), [r"Ok\(" + KIND + r"\)", KIND], "ScdKind::parse", ERR_DEFAULT, ACK_CONSTS)
if form == 1:
    # `let k = match id { V => T::A, .., _ => return Err(..) }; Ok(k)`
    mk = re.search(r"\blet (%s)(?:\s*:\s*\w+)?\s*=\s*match\b" % ID, body)
    if not mk or not re.search(r"\bOk\(\s*%s\s*\)\s*$" % re.escape(mk.group(1)), body.strip()):
        die("ScdKind::parse: bare-variant arms need `let k = match .. ; Ok(k)`")
    if "return" not in split_arms(table_match(body, "ScdKind::parse"), "ScdKind::parse")[-1]:
        die("ScdKind::parse: default arm must `return Err(..)`")

h = hashlib.sha1((ack + evt).encode()).hexdigest()[:16]
L = ["/- GENERATED by tools/gen_ack_tables.py from device/src/u3v/protocol/{ack,event}.rs — do not edit.",
     "   Regenerated on every check run; Props/C08.lean proves the model and the reference agree with these. -/",
     "import CamVerif.Model.Ack",
     "namespace CamVerif.Gen.AckTables",
     "open CamVerif.Ack", "",
     f"def ACK_PREFIX_MAGIC : Nat := {ack_magic}",
     f"def EVENT_PREFIX_MAGIC : Nat := {evt_magic}",
     f"def EVENT_COMMAND_ID : Nat := {evt_cmd}",
     f"def NAMESPACE_SHIFT : Nat := {ns_shift}",
     f"def NAMESPACE_MASK : Nat := {ns_mask}",
     "/-- arms of the `match` on the namespace (the default arm is the error arm) -/",
     "def namespaceArms : List (Nat × String) := [" + ", ".join(f'({p}, "{t}")' for p, t in ns_arms) + "]",
     "/-- arms of `match code` in `parse_gencp_status` -/",
     "def gencpStatus : List (Nat × GenCpStatus) := [" + ", ".join(f"({c}, .{lean_ctor(v)})" for c, v in gencp) + "]",
     "/-- arms of `match code` in `parse_usb_status` -/",
     "def usbStatus : List (Nat × UsbSpecificStatus) := [" + ", ".join(f"({c}, .{lean_ctor(v)})" for c, v in usb) + "]",
     "/-- arms of `match id` in `ScdKind::parse` -/",
     "def scdKind : List (Nat × ScdKind) := [" + ", ".join(f"({c}, .{lean_ctor(v)})" for c, v in kinds) + "]",
     "", "end CamVerif.Gen.AckTables", ""]
new = "\n".join(L)
if not os.path.exists(OUT) or open(OUT).read() != new:
    os.makedirs(os.path.dirname(OUT) or ".", exist_ok=True)
    open(OUT, "w").write(new)
print("HASH device/src/u3v/protocol/ack.rs+event.rs", h)
