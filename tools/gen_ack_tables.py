#!/usr/bin/env python3
"""(G) tie for C08: re-emit lean/CamVerif/Gen/AckTables.lean from the CURRENT
/repo/device/src/u3v/protocol/{ack,event}.rs: prefix magics, event command id, the
namespace shift/mask expression and namespace arms of `Status::parse`, the GenCP / USB
status-code match tables and the ScdKind command-id table.

What is pinned is the VALUE content (literals, which arm leads where, variant names); local
identifiers, `Self::` vs the type name, type ascription vs turbofish, error texts and the body
of `is_fatal` (decided by the exhaustive 65536-code sweep of the harness) are NOT pinned.
The tables are emitted with the *model's* constructors (Rust variant `FooBar` -> Lean
`.fooBar`), so an added / renamed variant makes the generated file fail to compile.
Every arm of a translated `match` must be a plain literal arm: or-patterns, guards, ranges,
bindings are refused loudly, never dropped.  `--out <file>` writes elsewhere (tests)."""
import hashlib, os, re, sys
REPO = os.environ.get("VERIF_REPO", "/repo")
ACK = os.path.join(REPO, "device/src/u3v/protocol/ack.rs")
EVT = os.path.join(REPO, "device/src/u3v/protocol/event.rs")
OUT = os.path.join(os.path.dirname(os.path.dirname(os.path.abspath(__file__))), "lean/CamVerif/Gen/AckTables.lean")
if "--out" in sys.argv:
    OUT = sys.argv[sys.argv.index("--out") + 1]
ack = open(ACK).read()
evt = open(EVT).read()

LIT = r"(0b[01_]+|0x[0-9a-fA-F_]+|\d[\d_]*)(?:_?[iu](?:8|16|32|64|size))?"
ID = r"[A-Za-z_]\w*"


def die(msg):
    print("gen_ack_tables: cannot translate: " + msg, file=sys.stderr)
    sys.exit(2)


def lit(s):
    e = re.sub(r"_?[iu](8|16|32|64|size)$", "", s.strip()).replace("_", "")
    try:
        return int(e, 0)
    except ValueError:
        die("non-literal `%s`" % s)


def strip_comments(s):
    return re.sub(r"//.*", "", s)


def lean_ctor(v):
    return v[0].lower() + v[1:]


def block_at(src, i):
    """text between the `{` at/after index i and its matching `}`"""
    i = src.index("{", i)
    depth, j = 0, i
    while True:
        if src[j] == "{":
            depth += 1
        elif src[j] == "}":
            depth -= 1
            if depth == 0:
                return src[i + 1:j]
        j += 1


def impl_block(src, ty):
    blocks = [block_at(src, m.end() - 1) for m in re.finditer(r"\bimpl(?:<[^>]*>)?\s+%s(?:<[^>]*>)?\s*\{" % ty, src)]
    if not blocks:
        die("impl " + ty)
    return "\n".join(blocks)


def fn_in(block, name, what):
    ms = list(re.finditer(r"\bfn\s+%s\s*(?:<[^>]*>)?\s*\(" % name, block))
    if len(ms) != 1:
        die("%s: expected exactly one fn %s, found %d" % (what, name, len(ms)))
    m = ms[0]
    # parameter list -> first `{` after the closing parenthesis / return type
    depth, j = 0, m.end() - 1
    while True:
        if block[j] == "(":
            depth += 1
        elif block[j] == ")":
            depth -= 1
            if depth == 0:
                break
        j += 1
    return strip_comments(block_at(block, j))


def const(src, name, what):
    m = re.search(r"const\s+%s\s*:\s*\w+\s*=\s*([^;]+);" % name, src)
    if not m:
        die(what)
    return lit(m.group(1))


def match_block(body, head_re, what):
    """inner text of `match <scrutinee> {...}` introduced by head_re (which ends at the `{`)"""
    ms = list(re.finditer(head_re, body))
    if len(ms) != 1:
        die("%s: expected exactly one match, found %d" % (what, len(ms)))
    return ms[0], block_at(body, ms[0].end() - 1)


def split_arms(text, what):
    """top-level arms `pat => expr` of a match block, as whitespace-collapsed strings"""
    arms, depth, cur = [], 0, ""
    i = 0
    while i < len(text):
        c = text[i]
        if c in "({[":
            depth += 1
        elif c in ")}]":
            depth -= 1
        cur += c
        # an arm ends at a top-level `,`, or after a top-level `}` that closes a block arm
        if depth == 0 and (c == "," or (c == "}" and "=>" in cur)):
            if cur.strip().strip(","):
                arms.append(" ".join(cur.strip().rstrip(",").split()))
            cur = ""
        i += 1
    if cur.strip():
        arms.append(" ".join(cur.strip().split()))
    if not arms:
        die(what + ": no arms")
    return arms


def literal_arms(text, rhs_re, what, default_re):
    """every arm must be `LIT => <rhs_re with one group>`; the last arm must be the default"""
    arms = split_arms(text, what)
    if not re.fullmatch(default_re, arms[-1]):
        die("%s: last arm is not the expected default (error) arm: `%s`" % (what, arms[-1][:80]))
    rows = []
    for a in arms[:-1]:
        mm = re.fullmatch(LIT + r" => " + rhs_re, a)
        if not mm:
            die("%s: unsupported arm `%s`" % (what, a[:80]))
        rows.append((lit(mm.group(1)), mm.group(2)))
    if not rows:
        die(what + ": no literal arms")
    if len(set(c for c, _ in rows)) != len(rows):
        die(what + ": duplicate code")
    return rows


ack_magic = const(ack, "PREFIX_MAGIC", "ack PREFIX_MAGIC")
evt_magic = const(evt, "PREFIX_MAGIC", "event PREFIX_MAGIC")
evt_cmd = const(evt, "EVENT_COMMAND_ID", "EVENT_COMMAND_ID")

status_impl = impl_block(ack, "Status")

# ---- Status::parse: `let <ns> = (<code> >> S) & M;  match <ns> { arms }`
body = fn_in(status_impl, "parse", "Status::parse")
ms = list(re.finditer(r"let (%s)(?:\s*:\s*\w+)? = \((%s) >> %s\) & %s;" % (ID, ID, LIT, LIT), body))
if len(ms) != 1:
    die("Status::parse: namespace expression `let ns = (code >> S) & M;`")
ns_var, code_var = ms[0].group(1), ms[0].group(2)
ns_shift, ns_mask = lit(ms[0].group(3)), lit(ms[0].group(4))
_, arms_src = match_block(body, r"match %s \{" % re.escape(ns_var), "match on the namespace")
ERR_DEFAULT = r"_ => (?:return )?Err\(.*\)"
ns_arms = []
arms = split_arms(arms_src, "match namespace")
if not re.fullmatch(ERR_DEFAULT, arms[-1]):
    die("match namespace: last arm is not `_ => Err(..)`: `%s`" % arms[-1][:80])
SELF = r"(?:Self|Status)"
for a in arms[:-1]:
    for rx, target in (
        (LIT + r" => %s::parse_gencp_status\(%s\)" % (SELF, re.escape(code_var)), "genCp"),
        (LIT + r" => %s::parse_usb_status\(%s\)" % (SELF, re.escape(code_var)), "usb"),
        (LIT + r" => Ok\(%s \{ (?:code(?:: %s)?, kind: StatusKind::DeviceSpecific|kind: StatusKind::DeviceSpecific, code(?:: %s)?),? \}\)"
         % (SELF, re.escape(code_var), re.escape(code_var)), "deviceSpecific"),
    ):
        mm = re.fullmatch(rx, a)
        if mm:
            ns_arms.append((lit(mm.group(1)), target))
            break
    else:
        die("match namespace: unsupported arm `%s`" % a[:90])
if len(set(p for p, _ in ns_arms)) != len(ns_arms):
    die("match namespace: duplicate pattern")
ns_arms.sort()


def code_table(fn, what):
    b = fn_in(status_impl, fn, what)
    head, text = match_block(b, r"let %s = match %s \{" % (ID, ID), what + ": `let status = match code {`")
    # default arm: an error return (block or expression)
    return literal_arms(text, r"(?:%s::)*(%s)" % (ID, ID), what, r"_ => (?:\{ )?(?:return )?Err\(.*\)(?: \})?")


gencp = code_table("parse_gencp_status", "parse_gencp_status")
usb = code_table("parse_usb_status", "parse_usb_status")

body = fn_in(impl_block(ack, "ScdKind"), "parse", "ScdKind::parse")
_, text = match_block(body, r"match %s \{" % ID, "ScdKind::parse match")
kinds = literal_arms(text, r"Ok\((?:Self|ScdKind)::(%s)\)" % ID, "ScdKind::parse", r"_ => (?:return )?Err\(.*\)")

h = hashlib.sha1((ack + evt).encode()).hexdigest()[:16]
L = ["/- GENERATED by tools/gen_ack_tables.py from device/src/u3v/protocol/{ack,event}.rs — do not edit.",
     "   Regenerated on every check run; Props/C08.lean proves the model and the reference agree with these. -/",
     "import CamVerif.Model.Ack",
     "namespace CamVerif.Gen.AckTables",
     "open CamVerif.Ack", "",
     f"def ACK_PREFIX_MAGIC : Nat := {ack_magic}",
     f"def EVENT_PREFIX_MAGIC : Nat := {evt_magic}",
     f"def EVENT_COMMAND_ID : Nat := {evt_cmd}",
     f"def NAMESPACE_SHIFT : Nat := {ns_shift}",
     f"def NAMESPACE_MASK : Nat := {ns_mask}",
     "/-- arms of the `match` on the namespace (the default arm is the error arm) -/",
     "def namespaceArms : List (Nat × String) := [" + ", ".join(f'({p}, "{t}")' for p, t in ns_arms) + "]",
     "/-- arms of `match code` in `parse_gencp_status` -/",
     "def gencpStatus : List (Nat × GenCpStatus) := [" + ", ".join(f"({c}, .{lean_ctor(v)})" for c, v in gencp) + "]",
     "/-- arms of `match code` in `parse_usb_status` -/",
     "def usbStatus : List (Nat × UsbSpecificStatus) := [" + ", ".join(f"({c}, .{lean_ctor(v)})" for c, v in usb) + "]",
     "/-- arms of `match id` in `ScdKind::parse` -/",
     "def scdKind : List (Nat × ScdKind) := [" + ", ".join(f"({c}, .{lean_ctor(v)})" for c, v in kinds) + "]",
     "", "end CamVerif.Gen.AckTables", ""]
new = "\n".join(L)
if not os.path.exists(OUT) or open(OUT).read() != new:
    os.makedirs(os.path.dirname(OUT) or ".", exist_ok=True)
    open(OUT, "w").write(new)
print("HASH device/src/u3v/protocol/ack.rs+event.rs", h)
