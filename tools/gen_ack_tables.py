#!/usr/bin/env python3
"""(G) tie for C08: re-emit lean/CamVerif/Gen/AckTables.lean from the CURRENT
/repo/device/src/u3v/protocol/{ack,event}.rs: prefix magics, event command id, the
namespace shift/mask expression and namespace arms of `Status::parse`, the fatal-bit
shift, the GenCP / USB status-code match tables and the ScdKind command-id table.
The tables are emitted with the *model's* constructors (Rust variant `FooBar` ->
Lean `.fooBar`), so an added / renamed variant makes the generated file fail to compile.
Fails loudly when a construct it relies on is not found."""
import hashlib, os, re, sys
REPO = os.environ.get("VERIF_REPO", "/repo")
ACK = os.path.join(REPO, "device/src/u3v/protocol/ack.rs")
EVT = os.path.join(REPO, "device/src/u3v/protocol/event.rs")
OUT = os.path.join(os.path.dirname(os.path.dirname(os.path.abspath(__file__))), "lean/CamVerif/Gen/AckTables.lean")
ack = open(ACK).read()
evt = open(EVT).read()


def die(msg):
    print("gen_ack_tables: cannot translate: " + msg, file=sys.stderr)
    sys.exit(2)


def lit(s):
    e = s.strip().replace("_i32", "").replace("_u16", "").replace("_u32", "").replace("_", "")
    try:
        return int(e, 0)
    except ValueError:
        die("non-literal `%s`" % s)


def strip_comments(s):
    return re.sub(r"//.*", "", s)


def lean_ctor(v):
    return v[0].lower() + v[1:]


def fn_body(src, sig_re, what):
    m = re.search(sig_re, src)
    if not m:
        die(what)
    # opening brace of the function body = last `{` of the signature part of the pattern
    i = src.index("-> ", m.start())
    i = src.index("{", i)
    depth, j = 0, i
    while True:
        if src[j] == "{":
            depth += 1
        elif src[j] == "}":
            depth -= 1
            if depth == 0:
                break
        j += 1
    return strip_comments(src[i + 1:j])


def const(src, name, what):
    m = re.search(r"const\s+%s\s*:\s*\w+\s*=\s*([^;]+);" % name, src)
    if not m:
        die(what)
    return lit(m.group(1))


out = []
ack_magic = const(ack, "PREFIX_MAGIC", "ack PREFIX_MAGIC")
evt_magic = const(evt, "PREFIX_MAGIC", "event PREFIX_MAGIC")
evt_cmd = const(evt, "EVENT_COMMAND_ID", "EVENT_COMMAND_ID")

# Status::parse: namespace expression and arms
body = fn_body(ack, r"fn parse\(cursor: &mut Cursor<&\[u8\]>\) -> Result<Self> \{\s*let code: u16", "Status::parse")
m = re.search(r"let namespace = \(code >> ([0-9a-fx_i]+)\) & ([0-9a-fxb_]+);", body)
if not m:
    die("namespace expression `(code >> S) & M`")
ns_shift, ns_mask = lit(m.group(1)), lit(m.group(2))
m = re.search(r"match namespace \{(.*)\}", body, re.S)
if not m:
    die("match namespace")
# strict: the whole block must be a sequence of arms of exactly these four shapes
arms_src = " ".join(m.group(1).split())
LIT = r"(0b[01_]+|0x[0-9a-fA-F_]+|\d[\d_]*)"
shapes = [
    (re.compile(LIT + r" => Self::parse_gencp_status\(code\), ?"), "genCp"),
    (re.compile(LIT + r" => Self::parse_usb_status\(code\), ?"), "usb"),
    (re.compile(LIT + r" => Ok\(Self \{ code, kind: StatusKind::DeviceSpecific, \}\), ?"), "deviceSpecific"),
    (re.compile(r"(_) => Err\(Error::InvalidPacket\( ?\"[^\"]*\"\.into\(\),? ?\)\), ?"), "error"),
]
ns_arms, pos = [], 0
while pos < len(arms_src):
    for rx, target in shapes:
        mm = rx.match(arms_src, pos)
        if mm:
            ns_arms.append((mm.group(1), target))
            pos = mm.end()
            break
    else:
        die("unsupported arm in `match namespace` at: " + arms_src[pos:pos + 60])
if not ns_arms or ns_arms[-1] != ("_", "error") or [a for a in ns_arms if a[0] == "_"] != [("_", "error")]:
    die("default namespace arm is not the (last) error arm")
ns_arms = [(lit(p), t) for p, t in ns_arms if p != "_"]

# is_fatal
body = fn_body(ack, r"pub fn is_fatal\(self\) -> bool \{", "Status::is_fatal")
m = re.fullmatch(r"\s*self\.code >> ([0-9a-fx_i]+) == 1\s*", body)
if not m:
    die("is_fatal body `self.code >> S == 1`")
fatal_shift = lit(m.group(1))


def strict_rows(block, row_re, what):
    """every non-blank line of a match block must be exactly one literal arm (no or-patterns,
    guards, ranges, bindings, multi-line arms): anything else is refused, never dropped"""
    rows = []
    for line in block.splitlines():
        if not line.strip():
            continue
        mm = re.fullmatch(row_re, line)
        if not mm:
            die("%s: unsupported arm `%s`" % (what, line.strip()))
        rows.append((lit(mm.group(1)), mm.group(2)))
    if not rows:
        die(what + " arms")
    if len(set(c for c, _ in rows)) != len(rows):
        die(what + ": duplicate code")
    return rows


def code_table(fn, what):
    b = fn_body(ack, r"fn %s\(code: u16\) -> Result<Self> \{" % fn, what)
    m = re.search(r"let status = match code \{\n(.*?)\n\s*_ => \{\s*return Err\(Error::InvalidPacket\(", b, re.S)
    if not m:
        die(what + " match (with an InvalidPacket default arm)")
    return strict_rows(m.group(1), r"\s*(0x[0-9a-fA-F_]+|\d[\d_]*)\s*=>\s*(\w+),\s*", what)


gencp = code_table("parse_gencp_status", "parse_gencp_status")
usb = code_table("parse_usb_status", "parse_usb_status")

body = fn_body(ack, r"impl ScdKind \{\s*fn parse\(cursor: &mut Cursor<&\[u8\]>\) -> Result<Self> \{", "ScdKind::parse")
m = re.search(r"match id \{\n(.*?)\n\s*_ => Err\(Error::InvalidPacket\(", body, re.S)
if not m:
    die("ScdKind::parse match (with an InvalidPacket default arm)")
kinds = strict_rows(m.group(1), r"\s*(0x[0-9a-fA-F_]+|\d[\d_]*)\s*=>\s*Ok\(ScdKind::(\w+)\),\s*", "ScdKind::parse")

h = hashlib.sha1((ack + evt).encode()).hexdigest()[:16]
L = ["/- GENERATED by tools/gen_ack_tables.py from device/src/u3v/protocol/{ack,event}.rs — do not edit.",
     "   Regenerated on every check run; Props/C08.lean proves the model and the reference agree with these. -/",
     "import CamVerif.Model.Ack",
     "namespace CamVerif.Gen.AckTables",
     "open CamVerif.Ack", "",
     f"def ACK_PREFIX_MAGIC : Nat := {ack_magic}",
     f"def EVENT_PREFIX_MAGIC : Nat := {evt_magic}",
     f"def EVENT_COMMAND_ID : Nat := {evt_cmd}",
     f"def NAMESPACE_SHIFT : Nat := {ns_shift}",
     f"def NAMESPACE_MASK : Nat := {ns_mask}",
     f"def FATAL_SHIFT : Nat := {fatal_shift}",
     "/-- arms of `match namespace` (the default arm is the error arm) -/",
     "def namespaceArms : List (Nat × String) := [" + ", ".join(f'({p}, "{t}")' for p, t in ns_arms) + "]",
     "/-- arms of `match code` in `parse_gencp_status` -/",
     "def gencpStatus : List (Nat × GenCpStatus) := [" + ", ".join(f"({c}, .{lean_ctor(v)})" for c, v in gencp) + "]",
     "/-- arms of `match code` in `parse_usb_status` -/",
     "def usbStatus : List (Nat × UsbSpecificStatus) := [" + ", ".join(f"({c}, .{lean_ctor(v)})" for c, v in usb) + "]",
     "/-- arms of `match id` in `ScdKind::parse` -/",
     "def scdKind : List (Nat × ScdKind) := [" + ", ".join(f"({c}, .{lean_ctor(v)})" for c, v in kinds) + "]",
     "", "end CamVerif.Gen.AckTables", ""]
new = "\n".join(L)
if not os.path.exists(OUT) or open(OUT).read() != new:
    os.makedirs(os.path.dirname(OUT), exist_ok=True)
    open(OUT, "w").write(new)
print("HASH device/src/u3v/protocol/ack.rs+event.rs", h)
