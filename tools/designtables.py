#!/usr/bin/env python3
"""Splice generated tables into DESIGN.md between the markers <!-- GEN:x --> … <!-- /GEN:x -->."""
import glob, json, os, re
ROOT = os.path.dirname(os.path.dirname(os.path.abspath(__file__)))
def props():
    out = []
    for p in sorted(glob.glob(os.path.join(ROOT, "props", "C*.json"))):
        out.append(json.load(open(p)))
    return out
def status_table():
    rows = ["| id | theorems (evidence) | tie | generators (G) | partial (not carried by theorems) |", "|---|---|---|---|---|"]
    for c in props():
        ev = {}
        try: ev = json.load(open(os.path.join(ROOT, "evidence", c["id"] + ".json")))
        except Exception: pass
        cov = ev.get("coverage", {})
        n = f"{cov.get('discharged','?')}/{cov.get('obligations','?')}"
        gens = ", ".join(os.path.basename(x[-1]) for x in c.get("pre_cmds", [])) or "–"
        part = "; ".join(x if isinstance(x, str) else json.dumps(x) for x in c.get("partial", [])) or "–"
        part = part.replace("|", "/")
        if len(part) > 420: part = part[:417] + "…"
        def reads_repo(cmd):
            try: return "VERIF_REPO" in open(os.path.join(ROOT, cmd[-1])).read()
            except Exception: return False
        tie = "C+G" if any(reads_repo(x) for x in c.get("pre_cmds", [])) else "C"
        rows.append(f"| {c['id']} | {n} | {tie} | {gens} | {part} |")
    return "\n".join(rows)
def findings_table():
    k = json.load(open(os.path.join(ROOT, "known_findings.json")))["findings"]
    rows = ["| id | property | disposition | what failed |", "|---|---|---|---|"]
    for f in sorted(k, key=lambda f: (f["property"], f["id"])):
        disp = f"fixed: {f.get('commit')}" if f["kind"] == "fixed" else "**known** (reported as KNOWN-FINDING on every run)"
        rows.append(f"| {f['id']} | {f['property']} | {disp} | {f['what'].replace('|','/')} |")
    return "\n".join(rows)
def seeds_table():
    p = os.path.join(ROOT, "seeded", "README.md")
    if not os.path.exists(p): return "(none yet)"
    t = open(p).read()
    return t[t.index("| seed |"):].strip()
def refactors_table():
    rows = ["| refactoring | files | what (behaviour-preserving) | checks run → verdict |", "|---|---|---|---|"]
    for p in sorted(glob.glob(os.path.join(ROOT, "refactors", "*", "result.json"))):
        r = json.load(open(p))
        chk = ", ".join(f"{q}: {'ok' if v['rc'] == 0 else 'ALARM (tie broken, no failing input)' if any('no-failing-input-found' in l for l in v['lines']) else 'ALARM'}" for q, v in r["checks"].items())
        if r.get("resolved"): chk += f" — {r['resolved']}"
        rows.append(f"| {r['name']} | {', '.join(os.path.basename(f) for f in r['files'])} | {(r.get('summary') or '').replace('|','/')[:260]} | {chk} |")
    return "\n".join(rows)
gen = {"status": status_table(), "findings": findings_table(), "seeds": seeds_table(), "refactors": refactors_table()}
p = os.path.join(ROOT, "DESIGN.md"); s = open(p).read()
for k, v in gen.items():
    s = re.sub(r"<!-- GEN:%s -->.*?<!-- /GEN:%s -->" % (k, k), lambda m: f"<!-- GEN:{k} -->\n{v}\n<!-- /GEN:{k} -->", s, flags=re.S)
open(p, "w").write(s)
print("DESIGN.md tables regenerated")
