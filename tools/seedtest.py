#!/usr/bin/env python3
"""Development aid: confirm a seeded property-breaking change and run a check against it
WITHOUT touching /repo.

  tools/seedtest.py <Cxx> <scratch worktree of /repo> <dir with patch.diff demo.rs meta.json> [--tier quick]

Steps (all inside the scratch worktree): clean; apply patch; existing tests must pass; demo must
fail; run `VERIF_REPO=<worktree> ./check Cxx`; revert; demo must pass.  Prints a JSON summary."""
import json, os, subprocess, sys, shutil
pid, wt, sd = sys.argv[1], os.path.realpath(sys.argv[2]), os.path.realpath(sys.argv[3])
tier = sys.argv[sys.argv.index("--tier") + 1] if "--tier" in sys.argv else "quick"
meta = json.load(open(os.path.join(sd, "meta.json")))
ROOT = os.path.dirname(os.path.dirname(os.path.abspath(__file__)))
env = dict(os.environ, CARGO_NET_OFFLINE="true")
def sh(cmd, cwd=wt, timeout=3600):
    p = subprocess.run(cmd, cwd=cwd, shell=True, stdout=subprocess.PIPE, stderr=subprocess.STDOUT, text=True, env=env, timeout=timeout)
    return p.returncode, p.stdout
def clean():
    sh("git checkout -q -- . && git clean -fdq -e target")
res = {"property": pid, "seed_dir": sd}
clean()
# bring the scratch worktree to /repo's current HEAD (fix commits may have landed since the seed was made)
rc, out = sh("git checkout -q --detach $(git -C /repo rev-parse HEAD)")
res["worktree_head"] = sh("git rev-parse --short HEAD")[1].strip()
rc, out = sh(f"git apply {sd}/patch.diff"); res["applies"] = rc == 0
if rc != 0:
    print(out); print(json.dumps(res)); sys.exit(1)
import re as _re0
rc, out = sh(_re0.sub(r"/tmp/mut\d?-%s(?![-\w])" % pid, wt, meta["existing_tests_cmd"])); res["existing_tests_pass_with_patch"] = rc == 0
if rc != 0: res["existing_tests_tail"] = out[-1500:]
demo_dst = meta.get("demo_dst")
demo_cmd = "mkdir -p genapi/tests device/tests cameleon/tests gentl/tests impl/tests && " + meta["demo_cmd"]
# demo_cmd is expected to copy the demo itself (cp … && cargo test …)
rc, out = sh(demo_cmd.replace("/tmp/mut-%s-out" % pid, os.path.dirname(sd)) if "/tmp/mut-" in demo_cmd else demo_cmd)
res["demo_fails_with_patch"] = rc != 0
# run the check against the patched worktree (demo files removed first so they do not matter)
sh("git clean -fdq -e target")
seeds = [s for s in (sys.argv[sys.argv.index("--seeds") + 1].split(",") if "--seeds" in sys.argv else [os.environ.get("VERIF_SEED", "1")])]
res["per_seed"] = {}
rc2, out2 = None, ""
for sd_ in seeds:
    rc_i, out_i = sh(f"VERIF_SEED={sd_} VERIF_REPO={wt} ./check {pid} --tier {tier}", cwd=ROOT, timeout=7200)
    lines_i = [l for l in out_i.splitlines() if l.startswith(("VIOLATION", "KNOWN-FINDING", "[" + pid))]
    import re as _re2
    m_ = _re2.search(r"disagreements (\d+), oracle violations (\d+)", out_i)
    res["per_seed"][sd_] = {"rc": rc_i, "detected": rc_i == 1 and any(l.startswith("VIOLATION") for l in lines_i),
                            "concrete": any(l.startswith("VIOLATION") and "no-failing-input-found" not in l for l in lines_i),
                            "disagreements": int(m_.group(1)) if m_ else None, "oracle_violations": int(m_.group(2)) if m_ else None}
    if rc2 is None:
        rc2, out2 = rc_i, out_i
res["check_rc"] = rc2
res["check_lines"] = [l for l in out2.splitlines() if l.startswith(("VIOLATION", "KNOWN-FINDING", "[" + pid))]
clean()
rc, out = sh(demo_cmd.replace("/tmp/mut-%s-out" % pid, os.path.dirname(sd)) if "/tmp/mut-" in demo_cmd else demo_cmd)
res["demo_passes_without_patch"] = rc == 0
if rc != 0: res["demo_tail"] = out[-1500:]
clean()
res["detected"] = all(v["detected"] for v in res["per_seed"].values())
# a patch that mis-applies (fuzzy context after later commits) shows up here: it does not compile, or
# the demonstration does not fail with it / pass without it
res["valid_seed"] = bool(res["existing_tests_pass_with_patch"] and res["demo_fails_with_patch"] and res["demo_passes_without_patch"])
# a harness that does not even build against the patched tree is not a detection of the change
res["harness_built"] = "harness build failed" not in out2
print(json.dumps(res, indent=1))
