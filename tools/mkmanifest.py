#!/usr/bin/env python3
"""Regenerate /verif/MANIFEST.json from props/*.json (one file per claimed property)."""
import glob, json, os, subprocess
ROOT = os.path.dirname(os.path.dirname(os.path.abspath(__file__)))
props = {}
for l in open(os.path.join(ROOT, "properties.jsonl")):
    p = json.loads(l); props[p["id"]] = p
checks, claimed = [], set()
# only properties whose check I have seen pass on the unchanged tree are claimed
CLAIMED = set(json.load(open(os.path.join(ROOT, "props", "claimed.json"))))
for path in sorted(glob.glob(os.path.join(ROOT, "props", "C*.json"))):
    c = json.load(open(path))
    pid = c["id"]
    if pid not in CLAIMED:
        continue
    claimed.add(pid)
    checks.append({
        "property_id": pid,
        "quick_cmd": f"./check {pid} --tier quick",
        "thorough_cmd": f"./check {pid} --tier thorough",
        "replay_cmd_template": f"./check {pid} --replay {{path}}",
        "evidence_file": f"evidence/{pid}.json",
        "engine": "lean+harness",
        "level_claimed": {"category": "proof", "text": c["level_text"], "design_ref": c.get("design_ref", "DESIGN.md section 5, " + pid)},
        "level_note": c["level_note"],
        "technique": c.get("technique", "Lean 4 theorems over an executable model + differential correspondence with the Rust implementation"),
    })
na_reasons = json.load(open(os.path.join(ROOT, "props", "not_applicable.json")))
na = [{"property_id": pid, "reason": na_reasons.get(pid, "check not built yet in this tree (work in progress); not claimed")}
      for pid in sorted(props) if pid not in claimed]
hooks_commits = []
hp = os.path.join(ROOT, "props", "hooks.json")
hooks = json.load(open(hp)) if os.path.exists(hp) else {}
m = {
    "version": 1,
    "setup_cmd": "./check --setup",
    "hooks": {
        "guard": "cameleon_verif",
        "enable": "RUSTFLAGS=--cfg cameleon_verif (set in harness/.cargo/config.toml, so every harness build of /repo's crates has the hooks on)",
        "baseline_off_cmd": "cd /repo && cargo test --workspace --no-fail-fast --offline",
        "source_commits": hooks.get("source_commits", []),
        "add_only": True,
    },
    "engines": [
        {"name": "lean", "path": "lean/", "serves_properties": sorted(claimed), "kind_free_text": "Lean 4.33 project CamVerif: Prelude, hand-written executable models, generated tables (Gen/), property theorems (Props/), one line-protocol driver executable per property (Driver/)"},
        {"name": "harness", "path": "harness/", "serves_properties": sorted(claimed), "kind_free_text": "Rust crate with path dependencies on /repo's crates (rebuilt from the working tree on every run, hooks on): generators, real-code execution, diff against the Lean driver, property oracle on the implementation"},
        {"name": "check", "path": "check", "serves_properties": sorted(claimed), "kind_free_text": "orchestrator: regen, lake build + #print axioms audit, harness, decision, evidence"},
    ],
    "checks": checks,
    "not_applicable": na,
    "notes": "Every claimed property is decided by Lean 4 theorems about a model plus a checked tie to /repo (see DESIGN.md). known_findings.json lists recorded/fixed defects.",
}
json.dump(m, open(os.path.join(ROOT, "MANIFEST.json"), "w"), indent=1)
print("claimed:", sorted(claimed), "unclaimed:", [x["property_id"] for x in na])
