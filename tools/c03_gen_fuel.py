# generates the per-helper fuel-monotonicity lemmas of CamVerif/Proofs/C03Fuel.lean (development aid;
# the generated file is the committed artefact)
fields_r=["intValue","intMin","intMax","intInc","intIsReadable","intIsWritable","floatValue","floatMin","floatMax","floatInc","floatIsReadable","floatIsWritable","strValue","strMaxLength","strIsReadable","strIsWritable","boolValue","boolIsReadable","boolIsWritable","enumCurrentValue","enumCurrentEntry","enumIsReadable","enumIsWritable"]
fields_m=["intSet","floatSet","strSet","boolSet","enumSetByValue"]
alts="\n      | ".join([f"exact ($h).{f} _" for f in fields_r]+[f"exact ($h).{f} _ _" for f in fields_m])
src=open('CamVerif/Proofs/C03Fuel.lean').read()
head=src[:src.index("/- `le_auto h [lemmas]` closes")]
macro=f'''/- `le_auto h [lemmas]` closes / decomposes refinement goals: reflexivity, the hypothesis on
the interface calls, binds, lifts, case splits, and the listed lemmas about helpers. -/
open Lean in
syntax "le_auto " ident (" [" term,* "]")? : tactic
open Lean in
macro_rules
  | `(tactic| le_auto $h:ident) => `(tactic| le_auto $h [])
  | `(tactic| le_auto $h:ident [$ts,*]) => do
    let mut alts : Array (TSyntax `tactic) := #[← `(tactic| fail "no lemma applies")]
    for t in ts.getElems do
      alts := alts.push (← `(tactic| exact $t $h _))
      alts := alts.push (← `(tactic| exact $t $h _ _))
      alts := alts.push (← `(tactic| exact $t $h _ _ _))
      alts := alts.push (← `(tactic| exact $t $h _ _ _ _))
      alts := alts.push (← `(tactic| exact $t $h _ _ _ _ _))
      alts := alts.push (← `(tactic| exact $t $h))
    `(tactic|
      repeat' (first
      | exact RLe.refl _ | exact MLe.refl _
      | {alts}
      | (first $[| $alts:tactic]*)
      | apply RLe.bind | apply MLe.bind | apply MLe.ofR
      | intro _
      | split))

section
variable {{cx : Ctx F E}} {{r1 r2 : Rec F}}

'''
SON="ImmOrPNode SlotId"
ENT="List (Int × ImmOrPNode SlotId)"
FM="Formulaic F E"
L=[]
def add(name, mon, args, deps=[]): L.append((name,mon,args,list(deps)))
N=("n","NodeId")
add("nidIntValue","R",[N])
add("nidIntSet","M",[N,("v","Int")])
add("nidFloatValue","R",[N])
add("nidFloatSet","M",[N,("v","F")])
add("nidIsReadable","R",[N])
add("nidIsWritable","R",[N])
add("nidStrValue","R",[N])
add("nidStrSet","M",[N,("v","Bytes")])
add("nidStrIsReadable","R",[N])
add("nidStrIsWritable","R",[N])
add("immIntValue","R",[("a","ImmOrPNode Int")],["nidIntValue"])
add("immFloatValue","R",[("a","ImmOrPNode F")],["nidFloatValue"])
add("slotOrNodeIntValue","R",[("a",SON)],["nidIntValue"])
add("slotOrNodeIntSet","M",[("a",SON),("v","Int")],["nidIntSet"])
add("slotOrNodeFloatValue","R",[("a",SON)],["nidFloatValue"])
add("slotOrNodeFloatSet","M",[("a",SON),("v","F")],["nidFloatSet"])
add("slotOrNodeIsReadable","R",[("a",SON)],["nidIsReadable"])
add("slotOrNodeIsWritable","R",[("a",SON)],["nidIsWritable"])
add("slotOrNodeStrValue","R",[("a",SON)],["nidStrValue"])
add("slotOrNodeStrSet","M",[("a",SON),("v","Bytes")],["nidStrSet"])
add("slotOrNodeStrIsReadable","R",[("a",SON)],["nidStrIsReadable"])
add("slotOrNodeStrIsWritable","R",[("a",SON)],["nidStrIsWritable"])
REC={}
REC["copiesIntSet"]=("cs",["nidIntSet"])
REC["copiesFloatSet"]=("cs",["nidFloatSet"])
REC["copiesIsWritable"]=("cs",["nidIsWritable"])
REC["sumAddrs"]=("ks",["addrKindValue"])
REC["collectVars"]=("vs",["varGetValue"])
REC["varsReadable"]=("vs",["isNidReadable"])
add("copiesIntSet","M",[("cs","List NodeId"),("v","Int")],["nidIntSet"])
add("copiesFloatSet","M",[("cs","List NodeId"),("v","F")],["nidFloatSet"])
add("copiesIsWritable","R",[("cs","List NodeId"),("b","Bool")],["nidIsWritable"])
add("pValueIntSet","M",[("p","NodeId"),("cs","List NodeId"),("v","Int")],["nidIntSet","copiesIntSet"])
add("pValueFloatSet","M",[("p","NodeId"),("cs","List NodeId"),("v","F")],["nidFloatSet","copiesFloatSet"])
add("pValueIsWritable","R",[("p","NodeId"),("cs","List NodeId")],["nidIsWritable","copiesIsWritable"])
add("pIndexIndex","R",[("sel","NodeId")])
add("pIndexSelReadable","R",[("sel","NodeId")])
add("pIndexIsReadable","R",[("sel","NodeId"),("es",ENT),("d",SON)],["pIndexSelReadable","pIndexIndex","slotOrNodeIsReadable"])
add("pIndexIsWritable","R",[("sel","NodeId"),("es",ENT),("d",SON)],["pIndexSelReadable","pIndexIndex","slotOrNodeIsWritable"])
add("vkIntValue","R",[("vk","ValueKind")],["nidIntValue","pIndexIndex","slotOrNodeIntValue"])
add("vkIntSet","M",[("vk","ValueKind"),("v","Int")],["pValueIntSet","pIndexIndex","slotOrNodeIntSet"])
add("vkFloatValue","R",[("vk","ValueKind")],["nidFloatValue","pIndexIndex","slotOrNodeFloatValue"])
add("vkFloatSet","M",[("vk","ValueKind"),("v","F")],["pValueFloatSet","pIndexIndex","slotOrNodeFloatSet"])
add("vkIsReadable","R",[("vk","ValueKind")],["nidIsReadable","pIndexIsReadable"])
add("vkIsWritable","R",[("vk","ValueKind")],["pValueIsWritable","pIndexIsWritable"])
add("boolFromId","R",[N])
add("baseIsImplemented","R",[("b","Base")],["boolFromId"])
add("baseIsAvailable","R",[("b","Base")],["boolFromId"])
add("baseIsLocked","R",[("b","Base")],["boolFromId"])
add("baseIsReadable","R",[("b","Base")],["baseIsImplemented","baseIsAvailable"])
add("baseIsWritable","R",[("b","Base")],["baseIsImplemented","baseIsAvailable","baseIsLocked"])
add("addrKindValue","R",[("k","AddressKind")],["immIntValue","nidIntValue"])
add("sumAddrs","R",[("ks","List AddressKind"),("acc","Int")],["addrKindValue"])
add("regAddress","R",[("rb","RegBase")],["sumAddrs"])
add("regLength","R",[("rb","RegBase")],["immIntValue"])
add("withRead","R",[("rb","RegBase"),("f","Bytes → Res Err α")],["regLength","regAddress"])
add("writeAndCache","M",[("rb","RegBase"),("buf","Bytes")],["regLength","regAddress"])
add("regIsReadable","R",[("rb","RegBase")],["baseIsReadable"])
add("regIsWritable","R",[("rb","RegBase")],["baseIsWritable"])
add("regRead","R",[("rb","RegBase"),("bufLen","Nat")],["regLength","regAddress"])
add("intRegValue","R",[("rb","RegBase"),("sg","Sign"),("en","Endian")],["withRead"])
add("intRegSet","M",[("rb","RegBase"),("sg","Sign"),("en","Endian"),("v","Int")],["regLength","writeAndCache"])
add("maskedValue","R",[("rb","RegBase"),("mk","BitMask"),("sg","Sign"),("en","Endian")],["withRead","regLength"])
add("maskedSet","M",[("rb","RegBase"),("mk","BitMask"),("sg","Sign"),("en","Endian"),("v","Int")],["withRead","regLength","writeAndCache"])
add("maskedMin","R",[("rb","RegBase"),("mk","BitMask"),("sg","Sign"),("en","Endian")],["regLength"])
add("maskedMax","R",[("rb","RegBase"),("mk","BitMask"),("sg","Sign"),("en","Endian")],["regLength"])
add("floatRegValue","R",[("rb","RegBase"),("en","Endian")],["withRead"])
add("floatRegSet","M",[("rb","RegBase"),("en","Endian"),("v","F")],["regLength","writeAndCache"])
add("strRegValue","R",[("rb","RegBase")],["withRead"])
add("strRegSet","M",[("rb","RegBase"),("v","Bytes")],["regLength","writeAndCache"])
add("exprFromNid","R",[N])
add("varGetValue","R",[("k","VarKind"),N],["exprFromNid"])
add("collectVars","R",[("vs","List (String × NodeId)"),("env","Env E")],["varGetValue"])
add("collectEnv","R",[("fm",FM),("env0","Env E")],["collectVars"])
add("isNidReadable","R",[N])
add("isNidWritable","R",[N])
add("varsReadable","R",[("vs","List (String × NodeId)"),("b","Bool")],["isNidReadable"])
add("setEvalResult","M",[N,("res","EvalResult F")])
add("converterEvalFrom","R",[("fm",FM),("ff","E"),("pv","NodeId")],["exprFromNid","collectEnv"])
add("converterSet","M",[("fm",FM),("ft","E"),("pv","NodeId"),("fr","E")],["collectEnv","setEvalResult"])
add("swissKnifeEval","R",[("fm",FM),("f","E")],["collectEnv"])
add("converterIsReadable","R",[("b","Base"),("fm",FM),("pv","NodeId")],["baseIsReadable","isNidReadable","varsReadable"])
add("converterIsWritable","R",[("b","Base"),("fm",FM),("pv","NodeId")],["baseIsWritable","isNidWritable","varsReadable"])
add("swissKnifeIsReadable","R",[("b","Base"),("fm",FM)],["baseIsReadable","varsReadable"])
add("enumCurrentEntryOf","R",[("es","List NodeId"),("value",SON)],["slotOrNodeIntValue"])
add("enumSetByValueOf","M",[("es","List NodeId"),("value",SON),("v","Int")],["slotOrNodeIntSet"])
add("boolValueOf","R",[("value",SON),("onV","Int"),("offV","Int")],["slotOrNodeIntValue"])
add("commandExecute","M",[("value",SON),("cmd",SON)],["slotOrNodeIntValue","slotOrNodeIntSet"])
add("commandIsDone","R",[("value",SON),("cmd",SON)],["nidIsReadable","slotOrNodeIntValue","nidIntValue"])
add("intValueF","R",[N],["vkIntValue","intRegValue","maskedValue","converterEvalFrom","swissKnifeEval"])
add("intSetF","M",[N,("v","Int")],["vkIntSet","intRegSet","maskedSet","converterSet"])
add("intMinF","R",[N],["slotOrNodeIntValue","maskedMin","swissKnifeEval"])
add("intMaxF","R",[N],["slotOrNodeIntValue","maskedMax","swissKnifeEval"])
add("intIncF","R",[N],["immIntValue"])
add("intSetMinF","M",[N,("v","Int")],["slotOrNodeIntSet"])
add("intSetMaxF","M",[N,("v","Int")],["slotOrNodeIntSet"])
add("intIsReadableF","R",[N],["baseIsReadable","vkIsReadable","regIsReadable","converterIsReadable","swissKnifeIsReadable"])
add("intIsWritableF","R",[N],["baseIsWritable","vkIsWritable","regIsWritable","converterIsWritable"])
add("floatValueF","R",[N],["vkFloatValue","floatRegValue","converterEvalFrom","swissKnifeEval"])
add("floatSetF","M",[N,("v","F")],["vkFloatSet","floatRegSet","converterSet"])
add("floatMinF","R",[N],["slotOrNodeFloatValue","swissKnifeEval"])
add("floatMaxF","R",[N],["slotOrNodeFloatValue","swissKnifeEval"])
add("floatIncF","R",[N],["immFloatValue"])
add("floatSetMinF","M",[N,("v","F")],["slotOrNodeFloatSet"])
add("floatSetMaxF","M",[N,("v","F")],["slotOrNodeFloatSet"])
add("floatIsReadableF","R",[N],["baseIsReadable","vkIsReadable","regIsReadable","converterIsReadable","swissKnifeIsReadable"])
add("floatIsWritableF","R",[N],["baseIsWritable","vkIsWritable","regIsWritable","converterIsWritable"])
add("strValueF","R",[N],["slotOrNodeStrValue","strRegValue"])
add("strSetF","M",[N,("v","Bytes")],["slotOrNodeStrSet","strRegSet"])
add("strMaxLengthF","R",[N],["regLength"])
add("strIsReadableF","R",[N],["baseIsReadable","slotOrNodeStrIsReadable","regIsReadable"])
add("strIsWritableF","R",[N],["baseIsWritable","slotOrNodeStrIsWritable","regIsWritable"])
add("boolValueF","R",[N],["boolValueOf"])
add("boolSetF","M",[N,("v","Bool")],["slotOrNodeIntSet"])
add("boolIsReadableF","R",[N],["baseIsReadable","slotOrNodeIsReadable"])
add("boolIsWritableF","R",[N],["baseIsWritable","slotOrNodeIsWritable"])
add("enumCurrentValueF","R",[N],["slotOrNodeIntValue"])
add("enumCurrentEntryF","R",[N],["enumCurrentEntryOf"])
add("enumSetByValueF","M",[N,("v","Int")],["enumSetByValueOf"])
add("enumSetByNameF","M",[N,("nm","String")],["enumSetByValueOf"])
add("enumIsReadableF","R",[N],["baseIsReadable","slotOrNodeIsReadable"])
add("enumIsWritableF","R",[N],["baseIsWritable","slotOrNodeIsWritable"])
add("cmdExecuteF","M",[N],["commandExecute"])
add("cmdIsDoneF","R",[N],["commandIsDone"])
add("cmdIsWritableF","R",[N],["baseIsWritable","slotOrNodeIsWritable"])
add("regReadF","R",[N,("bufLen","Nat")],["regRead"])
add("regWriteF","M",[N,("data","Bytes")],["writeAndCache"])
add("regAddressF","R",[N],["regAddress"])
add("regLengthF","R",[N],["regLength"])
add("isImplementedF","R",[N],["baseIsImplemented"])
add("isAvailableF","R",[N],["baseIsAvailable"])
add("isLockedF","R",[N],["baseIsLocked"])
add("isReadableF","R",[N],["intIsReadableF","floatIsReadableF","strIsReadableF","boolIsReadableF","enumIsReadableF"])
add("isWritableF","R",[N],["intIsWritableF","floatIsWritableF","strIsWritableF","boolIsWritableF","enumIsWritableF","cmdIsWritableF"])

TAIL="\ntheorem RLe.trans {m1 m2 m3 : R F α} (h12 : RLe m1 m2) (h23 : RLe m2 m3) : RLe m1 m3 :=\n  ⟨fun s h => by\n    have e := h12.le s h\n    rw [e]\n    exact h23.le s (by rw [← e]; exact h)⟩\n\ntheorem MLe.trans {m1 m2 m3 : M F α} (h12 : MLe m1 m2) (h23 : MLe m2 m3) : MLe m1 m3 :=\n  ⟨fun s h => by\n    have e := h12.le s h\n    rw [e]\n    exact h23.le s (by rw [← e]; exact h)⟩\n\ntheorem RecLe.trans {r1 r2 r3 : Rec F} (h12 : RecLe r1 r2) (h23 : RecLe r2 r3) : RecLe r1 r3 where\n  intValue := fun n => (h12.intValue n).trans (h23.intValue n)\n  intMin := fun n => (h12.intMin n).trans (h23.intMin n)\n  intMax := fun n => (h12.intMax n).trans (h23.intMax n)\n  intInc := fun n => (h12.intInc n).trans (h23.intInc n)\n  intIsReadable := fun n => (h12.intIsReadable n).trans (h23.intIsReadable n)\n  intIsWritable := fun n => (h12.intIsWritable n).trans (h23.intIsWritable n)\n  floatValue := fun n => (h12.floatValue n).trans (h23.floatValue n)\n  floatMin := fun n => (h12.floatMin n).trans (h23.floatMin n)\n  floatMax := fun n => (h12.floatMax n).trans (h23.floatMax n)\n  floatInc := fun n => (h12.floatInc n).trans (h23.floatInc n)\n  floatIsReadable := fun n => (h12.floatIsReadable n).trans (h23.floatIsReadable n)\n  floatIsWritable := fun n => (h12.floatIsWritable n).trans (h23.floatIsWritable n)\n  strValue := fun n => (h12.strValue n).trans (h23.strValue n)\n  strMaxLength := fun n => (h12.strMaxLength n).trans (h23.strMaxLength n)\n  strIsReadable := fun n => (h12.strIsReadable n).trans (h23.strIsReadable n)\n  strIsWritable := fun n => (h12.strIsWritable n).trans (h23.strIsWritable n)\n  boolValue := fun n => (h12.boolValue n).trans (h23.boolValue n)\n  boolIsReadable := fun n => (h12.boolIsReadable n).trans (h23.boolIsReadable n)\n  boolIsWritable := fun n => (h12.boolIsWritable n).trans (h23.boolIsWritable n)\n  enumCurrentValue := fun n => (h12.enumCurrentValue n).trans (h23.enumCurrentValue n)\n  enumCurrentEntry := fun n => (h12.enumCurrentEntry n).trans (h23.enumCurrentEntry n)\n  enumIsReadable := fun n => (h12.enumIsReadable n).trans (h23.enumIsReadable n)\n  enumIsWritable := fun n => (h12.enumIsWritable n).trans (h23.enumIsWritable n)\n  intSet := fun n v => (h12.intSet n v).trans (h23.intSet n v)\n  floatSet := fun n v => (h12.floatSet n v).trans (h23.floatSet n v)\n  strSet := fun n v => (h12.strSet n v).trans (h23.strSet n v)\n  boolSet := fun n v => (h12.boolSet n v).trans (h23.boolSet n v)\n  enumSetByValue := fun n v => (h12.enumSetByValue n v).trans (h23.enumSetByValue n v)\n\ntheorem RecLe.rfl' (r : Rec F) : RecLe r r where\n  intValue := fun _ => RLe.refl _\n  intMin := fun _ => RLe.refl _\n  intMax := fun _ => RLe.refl _\n  intInc := fun _ => RLe.refl _\n  intIsReadable := fun _ => RLe.refl _\n  intIsWritable := fun _ => RLe.refl _\n  floatValue := fun _ => RLe.refl _\n  floatMin := fun _ => RLe.refl _\n  floatMax := fun _ => RLe.refl _\n  floatInc := fun _ => RLe.refl _\n  floatIsReadable := fun _ => RLe.refl _\n  floatIsWritable := fun _ => RLe.refl _\n  strValue := fun _ => RLe.refl _\n  strMaxLength := fun _ => RLe.refl _\n  strIsReadable := fun _ => RLe.refl _\n  strIsWritable := fun _ => RLe.refl _\n  boolValue := fun _ => RLe.refl _\n  boolIsReadable := fun _ => RLe.refl _\n  boolIsWritable := fun _ => RLe.refl _\n  enumCurrentValue := fun _ => RLe.refl _\n  enumCurrentEntry := fun _ => RLe.refl _\n  enumIsReadable := fun _ => RLe.refl _\n  enumIsWritable := fun _ => RLe.refl _\n  intSet := fun _ _ => MLe.refl _\n  floatSet := fun _ _ => MLe.refl _\n  strSet := fun _ _ => MLe.refl _\n  boolSet := fun _ _ => MLe.refl _\n  enumSetByValue := fun _ _ => MLe.refl _\n\n/-- without fuel every call answers `outOfFuel`, so anything refines it -/\ntheorem bottom_le (r : Rec F) : RecLe (Rec.bottom F) r where\n  intValue := fun _ => ⟨fun _ h => absurd rfl h⟩\n  intMin := fun _ => ⟨fun _ h => absurd rfl h⟩\n  intMax := fun _ => ⟨fun _ h => absurd rfl h⟩\n  intInc := fun _ => ⟨fun _ h => absurd rfl h⟩\n  intIsReadable := fun _ => ⟨fun _ h => absurd rfl h⟩\n  intIsWritable := fun _ => ⟨fun _ h => absurd rfl h⟩\n  floatValue := fun _ => ⟨fun _ h => absurd rfl h⟩\n  floatMin := fun _ => ⟨fun _ h => absurd rfl h⟩\n  floatMax := fun _ => ⟨fun _ h => absurd rfl h⟩\n  floatInc := fun _ => ⟨fun _ h => absurd rfl h⟩\n  floatIsReadable := fun _ => ⟨fun _ h => absurd rfl h⟩\n  floatIsWritable := fun _ => ⟨fun _ h => absurd rfl h⟩\n  strValue := fun _ => ⟨fun _ h => absurd rfl h⟩\n  strMaxLength := fun _ => ⟨fun _ h => absurd rfl h⟩\n  strIsReadable := fun _ => ⟨fun _ h => absurd rfl h⟩\n  strIsWritable := fun _ => ⟨fun _ h => absurd rfl h⟩\n  boolValue := fun _ => ⟨fun _ h => absurd rfl h⟩\n  boolIsReadable := fun _ => ⟨fun _ h => absurd rfl h⟩\n  boolIsWritable := fun _ => ⟨fun _ h => absurd rfl h⟩\n  enumCurrentValue := fun _ => ⟨fun _ h => absurd rfl h⟩\n  enumCurrentEntry := fun _ => ⟨fun _ h => absurd rfl h⟩\n  enumIsReadable := fun _ => ⟨fun _ h => absurd rfl h⟩\n  enumIsWritable := fun _ => ⟨fun _ h => absurd rfl h⟩\n  intSet := fun _ _ => ⟨fun _ h => absurd rfl h⟩\n  floatSet := fun _ _ => ⟨fun _ h => absurd rfl h⟩\n  strSet := fun _ _ => ⟨fun _ h => absurd rfl h⟩\n  boolSet := fun _ _ => ⟨fun _ h => absurd rfl h⟩\n  enumSetByValue := fun _ _ => ⟨fun _ h => absurd rfl h⟩\n\ntheorem execRec_le_succ (cx : Ctx F E) : ∀ d, RecLe (execRec cx d) (execRec cx (d + 1))\n  | 0 => bottom_le _\n  | d + 1 => step_le (execRec_le_succ cx d)\n\ntheorem execRec_le (cx : Ctx F E) (d k : Nat) : RecLe (execRec cx d) (execRec cx (d + k)) := by\n  induction k with\n  | zero => exact RecLe.rfl' _\n  | succ k ih => exact ih.trans (execRec_le_succ cx (d + k))\n\ntheorem runR_le {m1 m2 : R F α} (h : RLe m1 m2) (f : α → Val F) (st : St F)\n    (hne : (runR m1 f st).1 ≠ .err .outOfFuel) : runR m1 f st = runR m2 f st := by\n  unfold runR at hne ⊢\n  have : (m1 st.s).1 ≠ .err .outOfFuel := by\n    cases h1 : m1 st.s with\n    | mk r l => rw [h1] at hne; cases r <;> simpa using hne\n  rw [h.le st.s this]\n\ntheorem runM_le {m1 m2 : M F Unit} (h : MLe m1 m2) (st : St F)\n    (hne : (runM m1 st).1 ≠ .err .outOfFuel) : runM m1 st = runM m2 st := by\n  unfold runM at hne ⊢\n  have : (m1 st.s).1 ≠ .err .outOfFuel := by\n    cases h1 : m1 st.s with\n    | mk r rest => obtain ⟨s', l⟩ := rest; rw [h1] at hne; cases r <;> simpa using hne\n  rw [h.le st.s this]\n\n/-- a request answered without running out of fuel is answered identically with more -/\ntheorem top_le {cx : Ctx F E} {r1 r2 : Rec F} (h : RecLe r1 r2) (req : Req F) (st : St F)\n    (hne : (top cx r1 req st).1 ≠ .err .outOfFuel) : top cx r1 req st = top cx r2 req st := by\n  cases req <;> simp only [top] at hne ⊢ <;>\n    first\n    | exact runR_le (by first\n        | exact intValueF_le h _ | exact intMinF_le h _ | exact intMaxF_le h _ | exact intIncF_le h _\n        | exact floatValueF_le h _ | exact floatMinF_le h _ | exact floatMaxF_le h _ | exact floatIncF_le h _\n        | exact strValueF_le h _ | exact strMaxLengthF_le h _ | exact boolValueF_le h _\n        | exact enumCurrentValueF_le h _ | exact enumCurrentEntryF_le h _ | exact RLe.refl _\n        | exact cmdIsDoneF_le h _ | exact regReadF_le h _ _ | exact regAddressF_le h _ | exact regLengthF_le h _\n        | exact isReadableF_le h _ | exact isWritableF_le h _ | exact isImplementedF_le h _\n        | exact isAvailableF_le h _ | exact isLockedF_le h _) _ _ hne\n    | exact runM_le (by first\n        | exact intSetF_le h _ _ | exact intSetMinF_le h _ _ | exact intSetMaxF_le h _ _\n        | exact floatSetF_le h _ _ | exact floatSetMinF_le h _ _ | exact floatSetMaxF_le h _ _\n        | exact strSetF_le h _ _ | exact boolSetF_le h _ _ | exact enumSetByValueF_le h _ _\n        | exact enumSetByNameF_le h _ _ | exact cmdExecuteF_le h _ | exact regWriteF_le h _ _) _ hne\n"
D={name:deps for (name,_,_,deps) in L}
def closure(name, seen=None):
    seen = seen if seen is not None else []
    for d in D[name]:
        if d not in seen:
            seen.append(d); closure(d, seen)
    return seen
out=head+macro
for (name,mon,args,deps) in L:
    binders=" ".join(f"({a} : {t})" for a,t in args)
    argnames=" ".join(a for a,_ in args)
    le="RLe" if mon=="R" else "MLe"
    extra=" {α : Type}" if name=="withRead" else ""
    q = "GenApi."+name if name=="varsReadable" else name
    alld=closure(name)
    dl=", ".join(d+"_le" for d in alld)
    if name in REC:
        ind,_=REC[name]
        others=[a for a,_ in args if a!=ind]
        out+=f'''theorem {name}_le (h : RecLe r1 r2) {binders} :
    {le} ({q} cx r1 {argnames}) ({q} cx r2 {argnames}) := by
  induction {ind} generalizing {" ".join(others)} with
  | nil => unfold {q}; exact {le}.refl _
  | cons x xs ih =>
    unfold {q}
    le_auto h [{dl}]
    all_goals first | exact ih _ | exact ih _ _

'''
    else:
        out+=f'''theorem {name}_le{extra} (h : RecLe r1 r2) {binders} :
    {le} ({q} cx r1 {argnames}) ({q} cx r2 {argnames}) := by
  unfold {q}; le_auto h [{dl}]

'''
out+='''/-- one unfolding preserves refinement -/
theorem step_le (h : RecLe r1 r2) : RecLe (step cx r1) (step cx r2) where
'''
for f in fields_r+fields_m:
    helper={"enumCurrentValue":"enumCurrentValueF","enumCurrentEntry":"enumCurrentEntryF","enumSetByValue":"enumSetByValueF"}.get(f,f+"F")
    if f in fields_m:
        out+=f"  {f} := fun n v => {helper}_le h n v\n"
    else:
        out+=f"  {f} := fun n => {helper}_le h n\n"
out+='''
end
'''+TAIL+'''
end CamVerif.C03
'''
open('CamVerif/Proofs/C03Fuel.lean','w').write(out)
