#!/usr/bin/env python3
"""(G) tie for C09/C10: re-emit lean/CamVerif/Gen/CmdConsts.lean from the CURRENT
/repo/device/src/u3v/protocol/cmd.rs (constants, command ids, flag values, fixed SCD lengths).
Fails loudly when a construct it relies on is not found."""
import hashlib, os, re, sys
REPO = os.environ.get("VERIF_REPO", "/repo")
SRC = os.path.join(REPO, "device/src/u3v/protocol/cmd.rs")
OUT = os.path.join(os.path.dirname(os.path.dirname(os.path.abspath(__file__))), "lean/CamVerif/Gen/CmdConsts.lean")
src = open(SRC).read()

def die(msg):
    print("gen_cmd_consts: cannot translate: " + msg, file=sys.stderr); sys.exit(2)

INT_TYPES = r"(?:u8|u16|u32|u64|usize|i8|i16|i32|i64|isize)"
KNOWN = {}   # values of const fns already evaluated (CommandCcd::len(), header_len())

def const_lookup(name, seen):
    """Value of a `const NAME: T = <const expr>;` item anywhere in the file (associated or free)."""
    if name in seen:
        die("cyclic constant " + name)
    m = re.search(r"\bconst\s+%s\s*:\s*[\w:<>()&' ,]+?\s*=\s*([^;]+);" % re.escape(name), src)
    if not m:
        die("non-constant expression: unknown identifier `%s`" % name)
    return ev(m.group(1), seen | {name})

def ev(expr, seen=frozenset()):
    """Evaluate a Rust integer constant expression.  Spelling that cannot change the value is
    abstracted: digit separators, literal suffixes, lossless conversions (`T::from(x)`, `x as T`,
    `x.into()`), named constants (resolved from their definition), calls of the const fns whose
    value was already extracted.  The result must fit into 32 bits (every quantity here does), so a
    truncating `as` cannot hide behind the abstraction."""
    e = re.sub(r"//.*", "", expr).strip().replace("_", "\x00")
    e = re.sub(r"(?<=[0-9a-fA-F])\x00(?=[0-9a-fA-F])", "", e).replace("\x00", "_")
    e = re.sub(r"(?<=\d)_?%s\b" % INT_TYPES, "", e)
    e = re.sub(r"\b%s::from\s*\(" % INT_TYPES, "(", e)
    e = re.sub(r"\s+as\s+%s\b" % INT_TYPES, "", e)
    e = e.replace(".into()", "")
    e = re.sub(r"\bCommandCcd::len\(\)", lambda m: str(KNOWN["CCD_LEN"]) if "CCD_LEN" in KNOWN else die("CommandCcd::len() used before it is known"), e)
    e = re.sub(r"\b(?:Self|CommandPacket(?:::<[^>]*(?:<[^>]*>)?>)?)::header_len\(\)", lambda m: str(KNOWN["HEADER_LEN"]) if "HEADER_LEN" in KNOWN else die("header_len() used before it is known"), e)
    e = re.sub(r"\b(?:[A-Za-z]\w*::)*([A-Z][A-Z0-9_]*)\b(?!\s*\()", lambda m: str(const_lookup(m.group(1), seen)), e)
    if not re.fullmatch(r"[0-9a-fA-Fx+\-*<>() ]+", e):
        die("non-constant expression `%s`" % expr.strip())
    v = int(eval(e, {"__builtins__": {}}))
    if not 0 <= v < 2 ** 32:
        die("constant expression `%s` = %d does not fit the abstraction of casts" % (expr.strip(), v))
    return v

out = {}
for name in ("PREFIX_MAGIC", "ACK_HEADER_LENGTH", "MINIMUM_ACK_SCD_LENGTH"):
    m = re.search(r"const\s+%s\s*:\s*\w+\s*=\s*([^;]+);" % name, src)
    if not m: die("const " + name)
    out[name] = ev(m.group(1))
m = re.search(r"pub const fn len\(\) -> u16 \{(.*?)\n    \}", src, re.S)
if not m: die("CommandCcd::len")
body = re.sub(r"//.*", "", m.group(1)).strip()
out["CCD_LEN"] = KNOWN["CCD_LEN"] = ev(body)
m = re.search(r"fn header_len\(\) -> usize \{\s*([^}]*?)\s*\}", src, re.S)
if not m: die("CommandPacket::header_len")
out["HEADER_LEN"] = KNOWN["HEADER_LEN"] = ev(m.group(1))
m = re.search(r"let flag_id: u16 = match self \{(.*?)\};", src, re.S)
if not m: die("CommandFlag::serialize match")
def strict_rows(block, what):
    """Every non-blank line of a match block must be exactly `Path::Variant => <const expr>,`."""
    rows = {}
    for line in re.sub(r"//.*", "", block).splitlines():
        line = line.strip()
        if not line:
            continue
        mm = re.fullmatch(r"(?:Self|CommandFlag|ScdKind)::(\w+)\s*=>\s*([^,|]+),", line)
        if not mm:
            die("%s: arm `%s` is not a plain `Variant => constant,` row" % (what, line))
        if mm.group(1) in rows:
            die("%s: duplicate arm %s" % (what, mm.group(1)))
        rows[mm.group(1)] = ev(mm.group(2))
    return rows
flags = strict_rows(m.group(1), "CommandFlag::serialize")
m = re.search(r"let kind_id: u16 = match self \{(.*?)\};", src, re.S)
if not m: die("ScdKind::serialize match")
kinds = strict_rows(m.group(1), "ScdKind::serialize")
for k in ("ReadMem", "WriteMem", "ReadMemStacked", "WriteMemStacked"):
    if k not in kinds: die("ScdKind arm " + k)
if "RequestAck" not in flags: die("CommandFlag::RequestAck arm")
# fixed scd_len / ack_scd_len of ReadMem and WriteMem impls
def impl_body(ty):
    m = re.search(r"impl(?:<[^>]*>)?\s+CommandScd\s+for\s+%s(?:<[^>]*>)?\s*\{(.*?)\n\}\n" % re.escape(ty), src, re.S)
    if not m: die("impl CommandScd for " + ty)
    return m.group(1)
def fn_const(body, fn):
    m = re.search(r"fn %s\(&self\) -> u16 \{(.*?)\n    \}" % fn, body, re.S)
    if not m: die("fn " + fn)
    return re.sub(r"//.*", "", m.group(1)).strip()
out["READMEM_SCD_LEN"] = ev(fn_const(impl_body("ReadMem"), "scd_len"))
out["WRITEMEM_ACK_SCD_LEN"] = ev(fn_const(impl_body("WriteMem"), "ack_scd_len"))
# chunk header arithmetic: `CommandPacket::<WriteMem>::header_len() + 8`
m = re.search(r"let cmd_header_len = (CommandPacket::<WriteMem(?:<[^>]*>)?>::header_len\(\) \+ [^;]+);", src)
if not m: die("WriteMem::chunks header arithmetic")
add = ev(m.group(1)) - out["HEADER_LEN"]
out["WRITE_CHUNK_HEADER"] = out["HEADER_LEN"] + int(add)
h = hashlib.sha1(src.encode()).hexdigest()[:16]
lines = ["/- GENERATED by tools/gen_cmd_consts.py from device/src/u3v/protocol/cmd.rs — do not edit.",
         "   Regenerated on every check run; property files prove the model's constants equal these. -/",
         "namespace CamVerif.Gen.CmdConsts", ""]
for k, v in out.items():
    lines.append(f"def {k} : Nat := {v}")
lines.append("def FLAG_REQUEST_ACK : Nat := %d" % flags["RequestAck"])
for k in ("ReadMem", "WriteMem", "ReadMemStacked", "WriteMemStacked"):
    lines.append(f"def KIND_{k} : Nat := {kinds[k]}")
lines += ["", "end CamVerif.Gen.CmdConsts", ""]
new = "\n".join(lines)
if not os.path.exists(OUT) or open(OUT).read() != new:
    os.makedirs(os.path.dirname(OUT), exist_ok=True)
    open(OUT, "w").write(new)
print("HASH device/src/u3v/protocol/cmd.rs", h)
