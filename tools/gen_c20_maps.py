#!/usr/bin/env python3
"""Generate harness/src/c20_maps.rs: the family of register maps (declared with the REAL
`#[memory]` / `#[register_map]` macros of /repo/impl) that the C20 harness exercises, plus a
table constant mirroring every declaration (sent to the Lean driver and cross-checked
against the macro-generated ADDRESS/LENGTH/LSB/MSB/base()/size() constants).

Deterministic (no randomness, no timestamps).  Usage: tools/gen_c20_maps.py [--check]
"""
import struct, sys, os

OUT = os.path.join(os.path.dirname(os.path.abspath(__file__)), "..", "harness", "src", "c20_maps.rs")

INT_BITS = {"u8": 8, "i8": 8, "u16": 16, "i16": 16, "u32": 32, "i32": 32, "u64": 64, "i64": 64}
SCALARS = ["u8", "u16", "u32", "u64", "i8", "i16", "i32", "i64", "f32", "f64"]


class Reg:
    def __init__(self, name, kind, length, access="RW", offset=None, init=None, len_tok=None, bf=None, off_tok=None, doc=None):
        self.doc = doc
        self.name, self.kind, self.len, self.access = name, kind, length, access
        self.offset, self.init, self.len_tok, self.bf, self.off_tok = offset, init, len_tok, bf, off_tok
        # init = (rust expression, protocol value) ; bf = (ty, lsb_lit, msb_lit)

    def ty_tok(self):
        if self.kind == "str":
            return "String"
        if self.kind == "bytes":
            return "Bytes"
        if self.kind == "bf":
            return "BitField<%s, LSB = %d, MSB = %d>" % self.bf
        return self.kind

    def kind_tok(self):
        if self.kind == "bf":
            return "bf:%s:%d:%d" % self.bf
        return self.kind

    def decl(self):
        off = ", offset = %s" % (self.off_tok or self.offset) if self.offset is not None else ""
        ln = self.len_tok or str(self.len)
        s = "".join("    /// %s\n" % l for l in (self.doc or "").split("\n") if l)
        s += "    #[register(len = %s, access = %s, ty = %s%s)]\n    %s" % (ln, self.access, self.ty_tok(), off, self.name)
        if self.init is not None:
            s += " = " + self.init[0]
        return s + ",\n"


class Map:
    def __init__(self, name, base, endian, regs, base_tok=None, vis="pub ", doc=None, after=""):
        self.doc, self.after = doc, after
        self.name, self.base, self.endian, self.regs, self.base_tok, self.vis = name, base, endian, regs, base_tok, vis

    def decl(self):
        s = "/// %s\n" % self.doc if self.doc else ""
        s += "#[register_map(base = %s, endianness = %s)]\n%senum %s {\n" % (self.base_tok or str(self.base), self.endian, self.vis, self.name)
        return s + "".join(r.decl() for r in self.regs) + "}\n" + self.after + "\n"


def word(v, bits):
    return "w:%d" % (v & ((1 << bits) - 1))


def f32bits(x):
    return struct.unpack("<I", struct.pack("<f", x))[0]


def f64bits(x):
    return struct.unpack("<Q", struct.pack("<d", x))[0]


def hexs(b):
    return b.hex() if b else "-"


def compiles(ty, lsb, msb):
    """every lsb <= msb < bits compiles since min/max are computed in i128 (fix of F-C20-3)."""
    return True


def bf_regs(ty, endian, pairs, offset, length=None, access="RW", inits=None, prefix="F"):
    bits = INT_BITS[ty]
    out = []
    for (l, m) in pairs:
        assert l <= m < bits and compiles(ty, l, m), (ty, l, m)
        if endian == "LE":
            ll, ml = l, m
        else:
            ll, ml = bits - 1 - l, bits - 1 - m
        name = "%s%s_%d_%d" % (prefix, ty.upper(), l, m)
        init = (inits or {}).get((l, m))
        out.append(Reg(name, "bf", length if length is not None else bits // 8, access, offset, init, bf=(ty, ll, ml)))
    return out


def all_pairs(bits):
    return [(l, m) for l in range(bits) for m in range(l, bits)]


def boundary_pairs(bits, pts):
    return [(l, m) for l in pts for m in pts if l <= m]


def build():
    maps, mems = [], []

    # ---- scalar maps, one per byte order; running offsets, non-zero base, inits, all rights ----
    for e, base, base_tok in (("LE", 0x10, None), ("BE", 0x100, "BASE_SC_BE")):
        regs = [
            Reg("U8", "u8", 1, "RW", init=("0x5a", word(0x5A, 8))),
            Reg("U16", "u16", 2, "RO", init=("321", word(321, 16))),
            Reg("U32", "u32", 4, "RW"),
            Reg("U64", "u64", 8, "RW", init=("BASE_SC_BE", word(0x100, 64))),
            Reg("I8", "i8", 1, "WO", init=("i8::MIN", word(-128, 8))),
            Reg("I16", "i16", 2, "RW", init=("-3", word(-3, 16))),
            Reg("I32", "i32", 4, "NA"),
            Reg("I64", "i64", 8, "RW", init=("i64::MIN", word(-(1 << 63), 64))),
            Reg("F32", "f32", 4, "RW", init=("1.5", word(f32bits(1.5), 32))),
            Reg("F64", "f64", 8, "RO", init=("0.25", word(f64bits(0.25), 64))),
            Reg("Name", "str", 8, "RW", init=('"Camel"', "s:" + hexs(b"Camel"))),
            Reg("Full", "str", 4, "RW", init=('"abcd"', "s:" + hexs(b"abcd"))),
            Reg("One", "str", 1, "RW"),
            Reg("Blob", "bytes", 4, "RW", init=("&[0x11, 0x22, 0x33, 0x44]", "b:11223344"), len_tok="BLOB_LEN"),
            Reg("B1", "bytes", 1, "RO"),
            Reg("Tail", "u16", 2, "RW"),
        ]
        maps.append(Map("Sc" + e, base, e, regs, base_tok))
        mems.append(("MemSc" + e, ["Sc" + e]))

    # ---- mixed memory: several fragments, explicit offsets, overlaps, gaps, backward offsets,
    #      zero-length registers, len != size_of(ty) ----
    mix_a = Map("MixA", 0, "LE", [
        Reg("A0", "u32", 4, "RW", init=("0xdead_beef_u32", word(0xDEADBEEF, 32))),
        Reg("A1", "u16", 2, "RO"),
        Reg("Jump", "u64", 8, "RW", offset=0x20),
        Reg("AfterJump", "u8", 1, "WO"),                 # running offset continues after the explicit one
        Reg("EmptyIn", "bytes", 0, "RW", offset=0x23),   # zero-length registers INSIDE the writable Jump
        Reg("EmptySIn", "str", 0, "NA", offset=0x24),
        Reg("Back", "u16", 2, "RW", offset=0x08),        # backward explicit offset
        Reg("AfterBack", "i16", 2, "RW", init=("-2", word(-2, 16))),
        Reg("OverA", "u32", 4, "RW", offset=0x10),       # three registers over the same bytes
        Reg("OverB", "bytes", 4, "RW", offset=0x10),
        Reg("OverC", "u16", 2, "RO", offset=0x12, off_tok="OVER_C_OFFSET"),   # const-path offset
        Reg("Empty", "bytes", 0, "RW", offset=0x18),     # zero-length registers
        Reg("EmptyS", "str", 0, "RW", offset=0x1a),
        Reg("Wide", "u16", 4, "RW", offset=0x1c),        # len > size_of(ty)
        Reg("Narrow", "u32", 2, "RW", offset=0x2c),      # len < size_of(ty)
        Reg("WideBf", "bf", 4, "RW", offset=0x30, bf=("u16", 3, 9)),
        Reg("NarrowBf", "bf", 1, "RW", offset=0x34, bf=("u16", 3, 9)),
    ])
    mix_b = Map("MixB", 0x40, "BE", [
        Reg("B0", "u32", 4, "RW", init=("0x01020304", word(0x01020304, 32))),
        Reg("Text", "str", 16, "RW", init=('"Cameleon"', "s:" + hexs(b"Cameleon"))),
        Reg("OverText", "u64", 8, "RO", offset=0x04),    # over the first half of Text
        Reg("Fl", "f32", 4, "RW", offset=0x20),
        Reg("Last", "i64", 8, "NA"),
    ])
    mix_c = Map("MixC", 0x38, "LE", [                     # fragment overlapping MixB's address range
        Reg("C0", "u64", 8, "RW"),
        Reg("C1", "u32", 4, "WO"),                        # 0x40..0x44 == MixB::B0
    ])
    maps += [mix_a, mix_b, mix_c]
    mems.append(("MemMix", ["MixA", "MixB", "MixC"]))
    # same fragments in another order: the later fragment's protection/init wins on overlaps
    mems.append(("MemMixRev", ["MixC", "MixB"]))

    # ---- a map far away from 0 (memory spans 0 .. base+size, the gap is NA) ----
    maps.append(Map("Far", 0x1000, "LE", [
        Reg("F0", "u64", 8, "RW", init=("0x1122_3344_5566_7788_u64", word(0x1122334455667788, 64))),
        Reg("F1", "str", 64, "RW", init=('"far away"', "s:" + hexs(b"far away"))),
        Reg("F2", "u8", 1, "RO", offset=0x100),
    ]))
    mems.append(("MemFar", ["ScLE", "Far"]))

    # ---- a long writable stretch over several registers (raw accesses of 16..1024 bytes) ----
    maps.append(Map("Big", 0, "LE", [
        Reg("B0", "bytes", 300, "RW"),
        Reg("B1", "bytes", 17, "RW"),
        Reg("B2", "bytes", 700, "RW"),
        Reg("B3", "u8", 1, "RO"),
        Reg("B4", "bytes", 200, "RW"),
        Reg("B5", "str", 64, "RW", init=('"tail"', "s:" + hexs(b"tail"))),
    ]))
    mems.append(("MemBig", ["Big"]))

    # ---- bit fields in maps with a non-zero base, private / pub(crate) maps ----
    maps.append(Map("BfBase", 0x200, "BE", [
        Reg("Pad", "u8", 1, "RO", init=("7", word(7, 8))),
        Reg("Whole", "u32", 4, "RW", init=("0x8000_0001_u32", word(0x80000001, 32))),
        Reg("Tail", "u16", 2, "RW")] +
        bf_regs("u32", "BE", [(0, 0), (4, 11), (12, 30), (31, 31)], 1, inits={(4, 11): ("0xa5", word(0xA5, 32))}) +
        bf_regs("i32", "BE", [(0, 3), (12, 30), (31, 31), (0, 31)], 1) +
        bf_regs("i16", "BE", [(0, 15), (3, 9)], 5, prefix="T"), vis=""))
    maps.append(Map("BfBaseLE", 0x33, "LE", [
        Reg("Whole", "u64", 8, "RW", init=("0xffff_0000_ffff_0000_u64", word(0xFFFF0000FFFF0000, 64)))] +
        bf_regs("u64", "LE", [(0, 63), (0, 62), (1, 63), (17, 40)], 0) +
        bf_regs("i64", "LE", [(0, 63), (1, 63), (63, 63), (17, 40)], 0, inits={(17, 40): ("-2", word(-2, 64))}),
        vis="pub(crate) "))
    mems.append(("MemBfBase", ["BfBase", "BfBaseLE"]))

    # ---- bit fields: all (lsb,msb) for 8/16 bit, boundary ones for 32/64 ----
    p32 = boundary_pairs(32, [0, 1, 7, 8, 15, 16, 23, 30, 31]) + [(9, 21), (14, 14), (3, 28)]
    p64 = boundary_pairs(64, [0, 1, 31, 32, 33, 61, 62, 63]) + [(9, 21), (5, 60), (2, 63)]
    for bits, uty, ity, pairs in ((8, "u8", "i8", all_pairs(8)), (16, "u16", "i16", all_pairs(16)),
                                   (32, "u32", "i32", sorted(set(p32))), (64, "u64", "i64", sorted(set(p64)))):
        nb = bits // 8
        for e in ("LE", "BE"):
            regs = [Reg("Lo", "bytes", 1, "RW", offset=0),
                    Reg("Whole", uty, nb, "RW", offset=1),
                    Reg("Hi", "bytes", 1, "RW", offset=1 + nb)]
            inits_u = {(1, 4): ("0b1011", word(0b1011, bits))} if bits == 8 else {}
            inits_i = {(1, 4): ("-3", word(-3, bits))} if bits == 8 else {}
            regs += bf_regs(uty, e, [p for p in pairs if compiles(uty, *p)], 1, inits=inits_u)
            regs += bf_regs(ity, e, [p for p in pairs if compiles(ity, *p)], 1, inits=inits_i)
            name = "Bf%d%s" % (bits, e)
            maps.append(Map(name, 0, e, regs))
            mems.append(("Mem" + name, [name]))
    return maps, mems


def build_inner():
    """the declaration forms of the real consumer (gentl): restricted visibilities inside a nested
    module, doc attributes on enum/variants/struct, const-path base from a sibling item, `super::`
    paths for base / len / offset / init (prepend_super_if_needed)."""
    in_p = Map("InP", 0, "LE", [
        Reg("TlPath", "str", 32, "RO", init=('"/opt/gentl"', "s:" + hexs(b"/opt/gentl")), doc="Full path to the producer."),
        Reg("UpdateList", "u32", 4, "RO", doc="Updates the internal list when a non zero value is\nwritten to this register."),
        Reg("Selector", "u32", 4, "RW", init=("3", word(3, 32)), doc="Selector."),
        Reg("Flags", "bf", 2, "RW", bf=("u16", 3, 9), init=("0x55", word(0x55, 16)), doc="A bit field with documentation."),
    ], vis="pub(super) ", doc="Registers declared like gentl's `GenApiReg`.",
        after="pub(super) const IN_XML: &str = \"<xml/>\";\npub(super) const IN_XML_LEN: usize = 16;\n"
              "pub(super) const IN_C_BASE: usize = InP::base() + InP::size();\n")
    in_c = Map("InC", 42, "BE", [
        Reg("Xml", "str", 16, "RO", init=("IN_XML", "s:" + hexs(b"<xml/>")), len_tok="IN_XML_LEN", doc="The XML."),
        Reg("After", "i16", 2, "WO", init=("-7", word(-7, 16))),
    ], base_tok="IN_C_BASE", vis="pub(crate) ")
    in_v = Map("InPriv", 0x80, "LE", [
        Reg("Blob", "bytes", 4, "RW", init=("super::OUTER_BLOB", "b:01020304"), len_tok="super::BLOB_LEN"),
        Reg("Word", "u64", 8, "RW", offset=0x12, off_tok="super::OVER_C_OFFSET", init=("super::BASE_SC_BE", word(0x100, 64))),
        Reg("Sign", "bf", 1, "RW", bf=("i8", 7, 7)),
    ], base_tok="super::OUTER_BASE", vis="")
    return [in_p, in_c, in_v], [("MemInner", ["InP", "InC", "InPriv"])]


def emit_scope(o, maps, mems, maps_tbl, mems_tbl, struct_vis, struct_doc=None):
    by_name = {m.name: m for m in maps}
    for m in maps:
        o.append(m.decl())
    for (mem, frs) in mems:
        if struct_doc:
            o.append("/// %s\n" % struct_doc)
        o.append("#[memory]\n%sstruct %s {\n" % (struct_vis, mem))
        for i, f in enumerate(frs):
            o.append("    f%d: %s,\n" % (i, f))
        o.append("}\n\n")
    # mirror table
    o.append("pub static %s: &[MapDesc] = &[\n" % maps_tbl)
    for m in maps:
        o.append("    MapDesc { name: \"%s\", base: %d, endian: \"%s\", base_fn: %s::base(), size_fn: %s::size(), regs: &[\n"
                 % (m.name, m.base, m.endian, m.name, m.name))
        for r in m.regs:
            lm = "Some((%s::%s::LSB, %s::%s::MSB))" % (m.name, r.name, m.name, r.name) if r.kind == "bf" else "None"
            o.append("        RegDesc { name: \"%s\", kind: \"%s\", len: %d, offset: %s, access: \"%s\", init: %s, "
                     "address: <%s::%s as Register>::ADDRESS, length: <%s::%s as Register>::LENGTH, "
                     "access_const: <%s::%s as Register>::ACCESS_RIGHT, lsb_msb: %s },\n"
                     % (r.name, r.kind_tok(), r.len, "Some(%d)" % r.offset if r.offset is not None else "None",
                        r.access, "Some(\"%s\")" % r.init[1] if r.init else "None",
                        m.name, r.name, m.name, r.name, m.name, r.name, lm))
        o.append("    ] },\n")
    o.append("];\n\n")
    o.append("pub static %s: &[MemDesc] = &[\n" % mems_tbl)
    for (mem, frs) in mems:
        o.append("    MemDesc { name: \"%s\", maps: &[%s], new: || Box::new(%s::new()) },\n"
                 % (mem, ", ".join('"%s"' % f for f in frs), mem))
    o.append("];\n\n")
    for (mem, frs) in mems:
        regs = ", ".join("%s::%s" % (f, r.name) for f in frs for r in by_name[f].regs)
        o.append("dyn_mem!(%s, \"%s\", [%s]);\n" % (mem, mem, regs))


def emit(maps, mems):
    o = []
    o.append("// @generated by tools/gen_c20_maps.py — do not edit by hand.\n")
    o.append("// Register-map family for the C20 harness, declared with the real macros of /repo/impl.\n\n")
    o.append("#![allow(non_snake_case, dead_code, clippy::all)]\n")
    o.append("use super::*;\nuse cameleon_impl::memory::*;\n\n")
    o.append("pub const BASE_SC_BE: u64 = 0x100;\npub const BLOB_LEN: usize = 4;\npub const OVER_C_OFFSET: usize = 0x12;\n")
    o.append("pub const OUTER_BASE: usize = 0x80;\npub const OUTER_BLOB: &[u8] = &[1, 2, 3, 4];\n\n")
    emit_scope(o, maps, mems, "MAPS", "MEMS", "pub ")
    imaps, imems = build_inner()
    o.append("\n/// Declarations in the form the real consumer (gentl) uses them.\npub mod inner {\n")
    # no glob import of the parent here: `super::X` paths in the declarations must really need the
    # extra `super` the macro prepends inside its generated module
    o.append("use super::{reg_op, sweep, DynMem, MapDesc, MemDesc, Op, Out, RegDesc, SweepCb};\n")
    o.append("use cameleon_impl::memory::*;\n\n")
    emit_scope(o, imaps, imems, "MAPS_INNER", "MEMS_INNER", "pub(super) ", struct_doc="A memory declared like gentl's.")
    o.append("}\n\n")
    # the parent of `inner` reaches the pub(super) map, as gentl's sibling modules do
    o.append("pub const INNER_VIS_PROBE: (usize, usize, usize) = (inner::InP::base() + inner::InP::size(), "
             "<inner::InP::Selector as Register>::ADDRESS, <inner::InC::After as Register>::LENGTH);\n")
    return "".join(o)


def main():
    maps, mems = build()
    text = emit(maps, mems)
    if "--check" in sys.argv:
        cur = open(OUT).read() if os.path.exists(OUT) else ""
        if cur != text:
            print("c20_maps.rs is stale: run tools/gen_c20_maps.py")
            return 1
        return 0
    cur = open(OUT).read() if os.path.exists(OUT) else ""
    if cur != text:  # keep the mtime when nothing changed (no needless cargo rebuild)
        with open(OUT, "w") as f:
            f.write(text)
    imaps, imems = build_inner()
    n = sum(len(m.regs) for m in maps + imaps)
    print("wrote %s: %d maps, %d registers, %d memories" % (os.path.normpath(OUT), len(maps + imaps), n, len(mems + imems)))
    return 0


if __name__ == "__main__":
    sys.exit(main())
