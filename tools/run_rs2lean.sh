#!/usr/bin/env bash
# Tie G, `fn` mode: re-emit lean/CamVerif/Gen/Fn*.lean from the CURRENT Rust sources.
#
#   tools/run_rs2lean.sh [GROUP ...]      GROUP in {FnBitMask, FnAccessRight, FnCmd}; default: all
#
#   FnBitMask      genapi/src/masked_int_reg.rs  impl BitMask                      (C02, Proofs/C02GenTie.lean)
#   FnAccessRight  impl/src/memory.rs            impl AccessRight                  (C20, Proofs/C20GenTie.lean)
#   FnCmd          device/src/u3v/protocol/cmd.rs  maximum_read_length, into_scd_len, ReadMem::chunks,
#                  <ReadMemChunks as Iterator>::next (state passing)  (C10, Proofs/C10GenTie.lean, C10GenTie2.lean);
#                  CommandPacket::{header_len, cmd_len, maximum_ack_len}, ReadMem/WriteMem CommandScd
#                  length methods                                      (C09, Proofs/C09GenTie.lean)
#   (every props/Cxx.json whose Lean import closure contains Gen/FnCmd.lean lists `FnCmd`: C06, C07, C09, C10)
#
# Builds the translator if needed (offline; under a lock so that concurrent checks do not race in
# cargo), then runs it on ${VERIF_REPO:-/repo}.  Prints `HASH <file> <sha256>` lines (picked up by
# ./check as evidence).  Exit status != 0 when a target is outside the supported subset (the
# construct is named as file:line); the stale Gen file of that group is then REMOVED, so the
# property's `lake build` fails loudly instead of proving things about old code.
set -u
ROOT="$(cd "$(dirname "${BASH_SOURCE[0]}")/.." && pwd)"
REPO="${VERIF_REPO:-/repo}"
OUT="$ROOT/lean/CamVerif/Gen"
mkdir -p "$ROOT/work"
(
  flock 9
  cd "$ROOT/rs2lean" && cargo build --release --quiet --offline
) 9>"$ROOT/work/.cargo-rs2lean.lock" || { echo "run_rs2lean: cargo build of rs2lean failed" >&2; exit 3; }
BIN="$ROOT/rs2lean/target/release/rs2lean"
rc=0
if [ "$#" -eq 0 ]; then
  "$BIN" --repo "$REPO" --out "$OUT" || rc=$?
else
  for g in "$@"; do
    "$BIN" --repo "$REPO" --out "$OUT" --only "$g" || rc=$?
  done
fi
exit $rc
