#!/usr/bin/env bash
# Tie G, `fn` mode: re-emit lean/CamVerif/Gen/Fn*.lean from the CURRENT Rust sources.
#
#   tools/run_rs2lean.sh [GROUP ...]      GROUP in {FnBitMask, FnAccessRight, FnCmd}; default: all
#
# Builds the translator if needed (offline; under a lock so that concurrent checks do not race in
# cargo), then runs it on ${VERIF_REPO:-/repo}.  Prints `HASH <file> <sha256>` lines (picked up by
# ./check as evidence).  Exit status != 0 when a target is outside the supported subset (the
# construct is named as file:line); the stale Gen file of that group is then REMOVED, so the
# property's `lake build` fails loudly instead of proving things about old code.
set -u
ROOT="$(cd "$(dirname "${BASH_SOURCE[0]}")/.." && pwd)"
REPO="${VERIF_REPO:-/repo}"
OUT="$ROOT/lean/CamVerif/Gen"
mkdir -p "$ROOT/work"
(
  flock 9
  cd "$ROOT/rs2lean" && cargo build --release --quiet --offline
) 9>"$ROOT/work/.cargo-rs2lean.lock" || { echo "run_rs2lean: cargo build of rs2lean failed" >&2; exit 3; }
BIN="$ROOT/rs2lean/target/release/rs2lean"
rc=0
if [ "$#" -eq 0 ]; then
  "$BIN" --repo "$REPO" --out "$OUT" || rc=$?
else
  for g in "$@"; do
    "$BIN" --repo "$REPO" --out "$OUT" --only "$g" || rc=$?
  done
fi
exit $rc
