#!/usr/bin/env python3
"""Regenerate lean/CamVerif/Gen/PixelFormat.lean from /repo/device/src/pixel_format.rs.

Tie (G) of property C11: the `PixelFormat` enum and the two big `match` tables
(`impl TryFrom<u32> for PixelFormat`, `impl From<PixelFormat> for u32`) are re-read
from the *current* source on every check run; the C11 bijection theorems are stated
over the emitted definitions, so a changed arm re-runs the proof obligations.

Purely syntactic (regex per line).  Anything that is not a comment, an attribute,
a blank line or an arm of exactly the expected shape makes the script FAIL (exit 2,
message names file:line) -- it never skips an arm and never keeps a stale output.

usage: gen_pixel_format.py [--repo /repo] [--out <file>] [--check]
  --check : do not write; exit 1 if the output file differs from what would be written
"""
import hashlib
import os
import re
import sys

ROOT = os.path.dirname(os.path.dirname(os.path.abspath(__file__)))
REL = "device/src/pixel_format.rs"

IDENT = r"[A-Za-z_][A-Za-z0-9_]*"
LIT = r"(0[xX][0-9A-Fa-f_]+|[0-9][0-9_]*)(?:_?u32)?"
RE_VARIANT = re.compile(r"^(%s),$" % IDENT)
RE_DEC_ARM = re.compile(r"^%s\s*=>\s*Ok\(\s*(?:PixelFormat::|Self::)?(%s)\s*\),$" % (LIT, IDENT))
RE_DEC_DEFAULT = re.compile(r"^(%s|_)\s*=>\s*Err\(.*\),$" % IDENT)
RE_ENC_ARM = re.compile(r"^(?:PixelFormat::|Self::)?(%s)\s*=>\s*%s,$" % (IDENT, LIT))

LEAN_KEYWORDS = {
    "def", "theorem", "end", "namespace", "structure", "inductive", "where", "match", "with", "if", "then",
    "else", "do", "let", "fun", "at", "in", "open", "import", "from", "have", "show", "by", "Type", "Prop",
    "Sort", "instance", "class", "deriving", "mutual", "private", "protected", "section", "variable", "axiom",
}


class GenError(Exception):
    pass


def fail(path, lineno, msg, text=""):
    raise GenError(f"gen_pixel_format: {path}:{lineno}: {msg}" + (f"\n    | {text.rstrip()}" if text else ""))


def strip_line_comment(s):
    i = s.find("//")
    return s if i < 0 else s[:i]


def find_line(lines, pattern, start, path, what):
    rx = re.compile(pattern)
    for i in range(start, len(lines)):
        if rx.search(lines[i]):
            return i
    fail(path, start + 1, f"cannot find {what} (pattern {pattern!r})")


def block_end(lines, open_line, path):
    """Index of the line holding the `}` that closes the `{` opened on `open_line`
    (brace counting over comment-stripped text; the blocks of interest contain no
    string literal with an unbalanced brace -- checked below because every inner
    line must match an arm shape)."""
    depth = 0
    seen = False
    for i in range(open_line, len(lines)):
        s = strip_line_comment(lines[i])
        # the default arm contains a format string with `{:x}`: balanced, harmless
        for ch in s:
            if ch == "{":
                depth += 1
                seen = True
            elif ch == "}":
                depth -= 1
                if seen and depth == 0:
                    return i
    fail(path, open_line + 1, "unterminated block")


def lit_value(tok, path, lineno, text):
    t = tok.replace("_", "")
    try:
        v = int(t, 16) if t.lower().startswith("0x") else int(t, 10)
    except ValueError:
        fail(path, lineno, f"cannot read integer literal {tok!r}", text)
    if not (0 <= v < 2 ** 32):
        fail(path, lineno, f"literal {tok!r} does not fit u32", text)
    return v


def parse(src, path):
    if "/*" in src.split("pub enum PixelFormat", 1)[-1]:
        fail(path, 1, "block comment after the enum declaration is outside the supported subset")
    lines = src.splitlines()

    # --- enum ---------------------------------------------------------------
    e0 = find_line(lines, r"^\s*pub\s+enum\s+PixelFormat\s*\{\s*$", 0, path, "`pub enum PixelFormat {`")
    e1 = block_end(lines, e0, path)
    variants = []
    for i in range(e0 + 1, e1):
        s = strip_line_comment(lines[i]).strip()
        if not s:
            continue
        if s.startswith("#["):
            # only attributes that cannot change which variants exist
            if not re.match(r"^#\[(doc|allow|deprecated)\b.*\]$", s):
                fail(path, i + 1, "attribute on an enum variant is outside the supported subset (could be conditional compilation)", lines[i])
            continue
        m = RE_VARIANT.match(s)
        if not m:
            fail(path, i + 1, "enum line is not a field-less variant `Name,`", lines[i])
        variants.append((m.group(1), i + 1))
    if strip_line_comment(lines[e1]).strip() != "}":
        fail(path, e1 + 1, "unexpected text on the enum's closing line", lines[e1])

    # --- TryFrom<u32> -------------------------------------------------------
    t0 = find_line(lines, r"^\s*impl\s+TryFrom<u32>\s+for\s+PixelFormat\s*\{\s*$", e1, path,
                   "`impl TryFrom<u32> for PixelFormat {`")
    t1 = block_end(lines, t0, path)
    f0 = find_line(lines, r"^\s*fn\s+try_from\(\s*(%s)\s*:\s*u32\s*\)\s*->\s*Result<Self,\s*Self::Error>\s*\{\s*$" % IDENT,
                   t0, path, "`fn try_from(value: u32) -> Result<Self, Self::Error> {`")
    if f0 > t1:
        fail(path, t0 + 1, "`fn try_from` not inside the TryFrom impl")
    arg = re.search(r"try_from\(\s*(%s)" % IDENT, lines[f0]).group(1)
    m0 = f0 + 1
    if not re.match(r"^\s*match\s+%s\s*\{\s*$" % re.escape(arg), lines[m0]):
        fail(path, m0 + 1, f"body of try_from is not a single `match {arg} {{`", lines[m0])
    m1 = block_end(lines, m0, path)
    # nothing but the closing braces may follow the match inside the fn
    if [strip_line_comment(l).strip() for l in lines[m1:t1 + 1]] != ["}", "}", "}"]:
        fail(path, m1 + 1, "try_from contains code after the match")
    decode = []
    default_seen = False
    for i in range(m0 + 1, m1):
        s = strip_line_comment(lines[i]).strip()
        if not s:
            continue
        if default_seen:
            fail(path, i + 1, "arm after the catch-all arm", lines[i])
        m = RE_DEC_ARM.match(s)
        if m:
            decode.append((lit_value(m.group(1), path, i + 1, lines[i]), m.group(2), i + 1))
            continue
        if RE_DEC_DEFAULT.match(s):
            default_seen = True
            continue
        fail(path, i + 1, "cannot parse arm of `TryFrom<u32>` (expected `<u32 literal> => Ok(<Variant>),`)", lines[i])
    if not default_seen:
        fail(path, m1 + 1, "`TryFrom<u32>` match has no catch-all `=> Err(..)` arm")

    # --- From<PixelFormat> for u32 -----------------------------------------
    u0 = find_line(lines, r"^\s*impl\s+From<PixelFormat>\s+for\s+u32\s*\{\s*$", t1, path,
                   "`impl From<PixelFormat> for u32 {`")
    u1 = block_end(lines, u0, path)
    g0 = find_line(lines, r"^\s*fn\s+from\(\s*(%s)\s*:\s*PixelFormat\s*\)\s*->\s*u32\s*\{\s*$" % IDENT, u0, path,
                   "`fn from(val: PixelFormat) -> u32 {`")
    if g0 > u1:
        fail(path, u0 + 1, "`fn from` not inside the From impl")
    arg = re.search(r"from\(\s*(%s)" % IDENT, lines[g0]).group(1)
    n0 = g0 + 1
    if not re.match(r"^\s*match\s+%s\s*\{\s*$" % re.escape(arg), lines[n0]):
        fail(path, n0 + 1, f"body of from is not a single `match {arg} {{`", lines[n0])
    n1 = block_end(lines, n0, path)
    if [strip_line_comment(l).strip() for l in lines[n1:u1 + 1]] != ["}", "}", "}"]:
        fail(path, n1 + 1, "from contains code after the match")
    encode = []
    for i in range(n0 + 1, n1):
        s = strip_line_comment(lines[i]).strip()
        if not s:
            continue
        m = RE_ENC_ARM.match(s)
        if not m:
            fail(path, i + 1, "cannot parse arm of `From<PixelFormat> for u32` (expected `<Variant> => <u32 literal>,`)", lines[i])
        encode.append((m.group(1), lit_value(m.group(2), path, i + 1, lines[i]), i + 1))

    # --- consistency the Lean side relies on --------------------------------
    names = [v for v, _ in variants]
    if not names:
        fail(path, e0 + 1, "enum has no variants")
    if len(set(names)) != len(names):
        fail(path, e0 + 1, "duplicate enum variant")
    for n, ln in variants:
        if n in LEAN_KEYWORDS:
            fail(path, ln, f"variant name {n!r} is a Lean keyword (extend the generator's escaping)")
    known = set(names)
    for _, n, ln in decode:
        if n not in known:
            fail(path, ln, f"TryFrom arm yields unknown variant {n!r}")
    for n, _, ln in encode:
        if n not in known:
            fail(path, ln, f"From arm matches unknown variant {n!r}")
    items = "\n".join(lines[e0:e1 + 1] + lines[t0:t1 + 1] + lines[u0:u1 + 1])
    return variants, decode, encode, hashlib.sha256(items.encode()).hexdigest(), (e0 + 1, e1 + 1, t0 + 1, t1 + 1, u0 + 1, u1 + 1)


def hex32(v):
    return "0x%08X" % v


def emit(variants, decode, encode, digest, spans):
    o = []
    w = o.append
    w("/-")
    w("GENERATED by /verif/tools/gen_pixel_format.py -- DO NOT EDIT.")
    w(f"source: {REL}")
    w(f"  enum PixelFormat                lines {spans[0]}-{spans[1]}  ({len(variants)} variants)")
    w(f"  impl TryFrom<u32> for PixelFormat  lines {spans[2]}-{spans[3]}  ({len(decode)} arms + catch-all)")
    w(f"  impl From<PixelFormat> for u32     lines {spans[4]}-{spans[5]}  ({len(encode)} arms)")
    w(f"sha256 of the three items: {digest}")
    w("")
    w("`decodeTable` / `encodeTable` list the arms in source order; a Rust `match` takes the")
    w("first arm that matches, which is what `lookupCode` / `lookupFormat` do.")
    w("-/")
    w("namespace CamVerif.Gen.PixelFormat")
    w("")
    w("/-- `pub enum PixelFormat` (declaration order). -/")
    w("inductive PixelFormat where")
    for n, _ in variants:
        w(f"  | {n}")
    w("  deriving DecidableEq")
    w("")
    w("/-- All enum variants in declaration order. -/")
    w("def allFormats : List PixelFormat := [")
    w(",\n".join(f"  .{n}" for n, _ in variants))
    w("]")
    w("")
    w("/-- Variant name (what Rust's `{:?}` prints). -/")
    w("def PixelFormat.name : PixelFormat → String")
    for n, _ in variants:
        w(f"  | .{n} => \"{n}\"")
    w("")
    w("/-- Arms of `impl TryFrom<u32> for PixelFormat`, source order: `code => Ok(variant)`. -/")
    w("def decodeTable : List (Nat × PixelFormat) := [")
    w(",\n".join(f"  ({hex32(c)}, .{n})" for c, n, _ in decode))
    w("]")
    w("")
    w("/-- Arms of `impl From<PixelFormat> for u32`, source order: `variant => code`. -/")
    w("def encodeTable : List (PixelFormat × Nat) := [")
    w(",\n".join(f"  (.{n}, {hex32(c)})" for n, c, _ in encode))
    w("]")
    w("")
    w("/-- First arm whose literal equals `c` (Rust `match` order). -/")
    w("def lookupCode (c : Nat) : List (Nat × PixelFormat) → Option PixelFormat")
    w("  | [] => none")
    w("  | (k, f) :: rest => if c = k then some f else lookupCode c rest")
    w("")
    w("/-- First arm whose pattern is the variant `f`. -/")
    w("def lookupFormat (f : PixelFormat) : List (PixelFormat × Nat) → Option Nat")
    w("  | [] => none")
    w("  | (g, c) :: rest => if f = g then some c else lookupFormat f rest")
    w("")
    w("/-- `PixelFormat::try_from(c)`; `none` is the catch-all `Err(..)` arm. -/")
    w("def decode (c : Nat) : Option PixelFormat := lookupCode c decodeTable")
    w("")
    w("/-- `u32::from(f)` as a table lookup (`none` would mean a non-exhaustive match, which")
    w("rustc rejects; `encode_total` in Props/C11 proves it never happens). -/")
    w("def encode? (f : PixelFormat) : Option Nat := lookupFormat f encodeTable")
    w("")
    w("end CamVerif.Gen.PixelFormat")
    return "\n".join(o) + "\n"


def main(argv):
    repo = os.environ.get("VERIF_REPO", "/repo")
    out = os.path.join(ROOT, "lean", "CamVerif", "Gen", "PixelFormat.lean")
    check_only = False
    i = 0
    while i < len(argv):
        if argv[i] == "--repo":
            repo = argv[i + 1]; i += 1
        elif argv[i] == "--out":
            out = argv[i + 1]; i += 1
        elif argv[i] == "--check":
            check_only = True
        else:
            print(__doc__); return 2
        i += 1
    path = os.path.join(repo, REL)
    try:
        with open(path, encoding="utf-8") as f:
            src = f.read()
        variants, decode, encode, digest, spans = parse(src, path)
    except (GenError, OSError) as e:
        print(str(e), file=sys.stderr)
        print("gen_pixel_format: FAILED -- Gen/PixelFormat.lean NOT regenerated (tie broken)", file=sys.stderr)
        # never leave a stale table behind: a failed regeneration must fail the Lean build
        if not check_only and os.path.exists(out):
            with open(out, "w") as f:
                f.write("/- gen_pixel_format.py FAILED on the current source; see the check log. -/\n"
                        "#eval (show Nat from \"regeneration of the pixel-format tables failed\")\n")
        return 2
    text = emit(variants, decode, encode, digest, spans)
    old = None
    if os.path.exists(out):
        with open(out) as f:
            old = f.read()
    if check_only:
        if old != text:
            print("gen_pixel_format: output differs from " + out, file=sys.stderr)
            return 1
        return 0
    if old != text:  # keep the mtime (and lake's cache) when nothing changed
        tmp = out + ".tmp"
        with open(tmp, "w") as f:
            f.write(text)
        os.replace(tmp, out)
    print(f"HASH pixel_format {digest}")
    print(f"gen_pixel_format: {len(variants)} variants, {len(decode)} decode arms, {len(encode)} encode arms -> "
          + os.path.relpath(out, ROOT) + (" (unchanged)" if old == text else " (rewritten)"))
    return 0


if __name__ == "__main__":
    sys.exit(main(sys.argv[1:]))
