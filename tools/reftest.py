#!/usr/bin/env python3
"""False-alarm measurement: run checks against a behaviour-preserving refactoring.

  tools/reftest.py <Cxx> <scratch worktree> <dir with patch.diff meta.json> <name>

Applies the patch in the scratch worktree (never /repo), runs the existing tests named in meta.json,
then `VERIF_REPO=<worktree> ./check P` for the property itself and every property whose anchored
files the patch touches, reverts, and stores patch + verdicts under refactors/<name>/.
Expected verdict for every check: rc 0 (no VIOLATION line)."""
import json, os, re, shutil, subprocess, sys
pid, wt, sd, name = sys.argv[1], os.path.realpath(sys.argv[2]), os.path.realpath(sys.argv[3]), sys.argv[4]
ROOT = os.path.dirname(os.path.dirname(os.path.abspath(__file__)))
env = dict(os.environ, CARGO_NET_OFFLINE="true")
def sh(cmd, cwd=wt, timeout=7200):
    p = subprocess.run(cmd, cwd=cwd, shell=True, stdout=subprocess.PIPE, stderr=subprocess.STDOUT, text=True, env=env, timeout=timeout)
    return p.returncode, p.stdout
FILEMAP = [
    (r"device/src/u3v/protocol/cmd\.rs", ["C09", "C10", "C06", "C07"]),
    (r"device/src/u3v/protocol/ack\.rs", ["C08", "C07", "C06"]),
    (r"device/src/u3v/protocol/event\.rs", ["C08"]),
    (r"device/src/u3v/protocol/stream\.rs", ["C11", "C12"]),
    (r"cameleon/src/u3v/stream_handle\.rs", ["C11", "C12"]),
    (r"device/src/u3v/async_read\.rs", ["C12"]),
    (r"cameleon/src/payload\.rs", ["C11", "C12"]),
    (r"cameleon/src/u3v/control_handle\.rs", ["C06", "C07", "C14", "C15"]),
    (r"src/u3v/register_map\.rs", ["C13", "C14", "C15"]),
    (r"genapi/src/formula\.rs", ["C05"]),
    (r"genapi/src/masked_int_reg\.rs", ["C02"]),
    (r"genapi/src/utils\.rs", ["C01", "C02", "C18"]),
    (r"genapi/src/register_base\.rs", ["C01", "C02", "C04"]),
    (r"genapi/src/parser/", ["C17"]),
    (r"impl/src/bytes_io\.rs", ["C09", "C08", "C20"]),
    (r"impl/", ["C20", "C19"]),
    (r"gentl/", ["C19"]),
    (r"cameleon/src/camera\.rs", ["C16"]),
    (r"cameleon/src/genapi/", ["C16"]),
    (r"genapi/src/(ivalue|enumeration|node_base|integer|float|boolean|command|converter|int_converter|swiss_knife|int_swiss_knife|string)\.rs", ["C03", "C18"]),
    (r"genapi/src/store\.rs", ["C04"]),
    (r"genapi/src/(int_reg|float_reg|string_reg|register)\.rs", ["C01", "C04"]),
]
meta = json.load(open(os.path.join(sd, "meta.json")))
patch = open(os.path.join(sd, "patch.diff")).read()
files = re.findall(r"^\+\+\+ b/(\S+)", patch, re.M)
props = [pid]
for f in files:
    for pat, ps in FILEMAP:
        if re.search(pat, f):
            for q in ps:
                if q not in props: props.append(q)
if "--only" in sys.argv: props = sys.argv[sys.argv.index("--only") + 1].split(",")
sh("git checkout -q -- . && git clean -fdq -e target")
sh("git checkout -q --detach $(git -C /repo rev-parse HEAD)")
res = {"name": name, "property": pid, "files": files, "summary": meta.get("summary"), "why_preserving": meta.get("why_preserving"), "checks": {}}
rc, out = sh(f"git apply {sd}/patch.diff"); res["applies"] = rc == 0
if rc == 0:
    rc, out = sh(re.sub(r"/tmp/ref-%s(?![-\w])" % pid, wt, meta["existing_tests_cmd"])); res["existing_tests_pass"] = rc == 0
    for q in props:
        rc, out = sh(f"VERIF_REPO={wt} ./check {q}", cwd=ROOT)
        lines = [l for l in out.splitlines() if l.startswith(("VIOLATION", "[" + q))]
        res["checks"][q] = {"rc": rc, "lines": lines[:6]}
        if rc != 0:
            # keep the replay texts for analysis
            res["checks"][q]["replays"] = []
            for l in lines:
                m = re.search(r"replay=(\S+)", l)
                if m and os.path.exists(m.group(1)):
                    res["checks"][q]["replays"].append(open(m.group(1)).read()[:3000])
res["false_alarms"] = [q for q, v in res["checks"].items() if v["rc"] != 0]
sh("git checkout -q -- . && git clean -fdq -e target")
d = os.path.join(ROOT, "refactors", name); os.makedirs(d, exist_ok=True)
shutil.copy(os.path.join(sd, "patch.diff"), d)
shutil.copy(os.path.join(sd, "meta.json"), d)
json.dump(res, open(os.path.join(d, "result.json"), "w"), indent=1)
print(name, "applies" if res["applies"] else "DOES-NOT-APPLY", "tests-ok" if res.get("existing_tests_pass") else "TESTS-FAIL",
      " ".join(f"{q}:{v['rc']}" for q, v in res["checks"].items()), "FALSE-ALARMS:" + ",".join(res["false_alarms"]) if res["false_alarms"] else "clean")
