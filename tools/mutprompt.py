#!/usr/bin/env python3
"""Print the prompt for a seeding sub-agent: only the property text + scratch worktree (nothing from /verif)."""
import json, sys
pid, n = sys.argv[1], int(sys.argv[2]) if len(sys.argv) > 2 else 3
hint = sys.argv[3] if len(sys.argv) > 3 else ""
for l in open('/verif/properties.jsonl'):
    p = json.loads(l)
    if p['id'] == pid: break
import os
wt = f"/tmp/{os.environ.get('MUT_PREFIX', 'mut')}-{pid}"
print(f"""You are testing how robust a Rust library's behaviour is against subtle regressions. You work ONLY inside the git worktree {wt} (a checkout of the repository cameleon-rs/cameleon: GenICam / USB3 Vision camera library; crates device/, cameleon/, genapi/, impl/ (+impl/macros), gentl/). Do not look at or touch /repo or /verif. Network is unavailable; build with `--offline` (first build takes 1-2 minutes). Note: `cameleon-device`'s and `cameleon`'s u3v modules need `--features libusb` (e.g. `cargo test -p cameleon-device --features libusb --offline`, `cargo test -p cameleon --features libusb --offline --lib`); genapi: `cargo test -p cameleon-genapi --offline`; impl: `cargo test -p cameleon-impl --offline`; gentl: `cargo test -p cameleon-gentl --offline`. Code marked `#[cfg(cameleon_verif)]` is test instrumentation: ignore it, do not modify it, and do not rely on it.

The property under study (it is supposed to hold for the current code):

"{pid} — {p['title']}. {p['statement']}"
Quantified over: {p['quantifier']['text']}
Files where the behaviour lives: {', '.join(p['anchors']['files'])}
{hint}
YOUR TASK: produce {n} different, independent source changes (each a separate small patch against the pristine worktree) that each BREAK this property while (a) still compiling, (b) still passing the existing test suite of the touched crate(s), and (c) looking like a plausible refactoring / optimisation / bug a developer could introduce. Prefer changes that need something SPECIFIC to manifest — a particular interleaving, a crash or fault at a particular point, a multi-step sequence of operations, an unusual input or boundary value, or two cooperating sites that each look fine alone — not ones ordinary use would expose at once. Make the {n} changes different in kind and location (different functions / different clauses of the property). For each change also write a DEMONSTRATION: a small Rust integration test file (placed in the touched crate's tests/ directory, using only that crate's public API; or a small example program if a test is impractical) that FAILS with the change applied and PASSES on the pristine code.

Procedure per change N = 1..{n}: start from a clean tree (`git -C {wt} checkout -- . && git -C {wt} clean -fdq -e target`), make the edit, run the existing tests of the touched crate(s) (must pass), add the demo test and run it (must fail), save the source change WITHOUT the demo as {wt}-out/N/patch.diff (`git diff -- <source files>`; create the directory), copy the demo test file to {wt}-out/N/demo.rs, revert the source change, run the demo again (must pass), and write {wt}-out/N/meta.json: {{"property":"{pid}","summary":"<one line>","needs":"<what it needs in order to manifest>","demo_cmd":"<exact shell command, run from the repository root, that installs the demo (cp {wt}-out/N/demo.rs <crate>/tests/<name>.rs) and runs it>","existing_tests_cmd":"<exact command>","files":["…"]}}.

Finish by leaving the worktree clean (git checkout -- . ; remove demo test files) and report the summaries. Do not delete {wt} itself.""")
