#!/bin/bash
# tools/rerun_seeds.sh Cxx...  : re-confirm every stored seed of these properties against /repo's current HEAD
cd /verif
WT=/tmp/mut-rerun
git -C /repo worktree remove --force $WT 2>/dev/null
git -C /repo worktree add -q --detach $WT HEAD
for p in "$@"; do
  for d in seeded/$p-*/; do
    name=$(basename $d)
    echo "== $name"
    tools/keepseed.py $p $WT /verif/seeded/$name $name 2>&1 | grep -E "\"applies|\"detected|kept|NOT KEPT|existing_tests_pass|\"demo_"
  done
done
git -C /repo worktree remove --force $WT

