#!/bin/bash
# tools/runseeds2.sh Cxx... : keepseed for every /tmp/mut2-Cxx-out/N (round 2), then remove the worktree
cd /verif
for p in "$@"; do
  for d in /tmp/mut2-$p-out/*/; do
    [ -f $d/patch.diff ] || continue
    n=$(basename $d)
    echo "== $p r2-$n"
    tools/keepseed.py $p /tmp/mut2-$p $d $p-r2-seed$n 2>&1 | grep -E "\"applies|\"detected|VIOLATION|kept|NOT KEPT|existing_tests_pass|\"demo_|tail"
  done
  git -C /repo worktree remove --force /tmp/mut2-$p && rm -rf /tmp/mut2-$p-out
done

