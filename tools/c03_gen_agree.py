# generates CamVerif/Proofs/C03Acyclic.lean: syntactic acyclicity implies the semantic one
src=open('/verif/tools/c03_gen_fuel.py').read()
table=src[src.index('SON="ImmOrPNode SlotId"'):src.index("TAIL=")]
exec(table)
fields_r=["intValue","intMin","intMax","intInc","intIsReadable","intIsWritable","floatValue","floatMin","floatMax","floatInc","floatIsReadable","floatIsWritable","strValue","strMaxLength","strIsReadable","strIsWritable","boolValue","boolIsReadable","boolIsWritable","enumCurrentValue","enumCurrentEntry","enumIsReadable","enumIsWritable"]
fields_m=["intSet","floatSet","strSet","boolSet","enumSetByValue"]
allf=fields_r+fields_m
REFDEFS="ImmOrPNode.Ref, ValueKind.Ref, AddressKind.Ref, Base.Ref, RegBase.Ref, Formulaic.Ref, Node.Ref, NodeRef"
def mention(name,a,t):
    if t=="NodeId":
        if name.endswith("F") and a=="n": return "NodeRef cx n p"
        return f"p = {a}"
    if t.startswith("ImmOrPNode"): return f"ImmOrPNode.Ref {a} p"
    if t=="List NodeId":
        if name in ("enumCurrentEntryOf","enumSetByValueOf"): return None
        return f"p ∈ {a}"
    if t=="ValueKind": return f"ValueKind.Ref {a} p"
    if t==ENT: return f"(∃ j, (j, ImmOrPNode.pnode p) ∈ {a})"
    if t=="Base": return f"Base.Ref {a} p"
    if t=="RegBase": return f"RegBase.Ref {a} p"
    if t=="AddressKind": return f"AddressKind.Ref {a} p"
    if t=="List AddressKind": return f"(∃ k ∈ {a}, AddressKind.Ref k p)"
    if t==FM: return f"Formulaic.Ref {a} p"
    if t=="List (String × NodeId)": return f"(∃ nm, (nm, p) ∈ {a})"
    return None
out='''/-
C03 helper lemmas: the syntactic form of acyclicity (every node id a node mentions has a
strictly smaller rank) implies the semantic one (`Acyclic`): every dispatch function
consults the interface records only on the node ids its arguments mention.  Generated
per helper; proofs by the tactic `ag_auto`.
-/
import CamVerif.Proofs.C03Total
namespace CamVerif.C03
open CamVerif CamVerif.GenApi

variable {F E : Type}

/-! ### which node ids a piece of a node mentions -/

def ImmOrPNode.Ref {α : Type} (a : ImmOrPNode α) (p : NodeId) : Prop := a = .pnode p

def ValueKind.Ref (vk : ValueKind) (p : NodeId) : Prop :=
  match vk with
  | .value _ => False
  | .pValue q cs => p = q ∨ p ∈ cs
  | .pIndex sel es d => p = sel ∨ ImmOrPNode.Ref d p ∨ ∃ j, (j, ImmOrPNode.pnode p) ∈ es

def AddressKind.Ref (k : AddressKind) (p : NodeId) : Prop :=
  match k with
  | .address a => ImmOrPNode.Ref a p
  | .intSwissKnife n => p = n
  | .pIndex sel off => p = sel ∨ ∃ o, off = some o ∧ ImmOrPNode.Ref o p

def Base.Ref (b : Base) (p : NodeId) : Prop :=
  b.pIsImplemented = some p ∨ b.pIsAvailable = some p ∨ b.pIsLocked = some p

def RegBase.Ref (rb : RegBase) (p : NodeId) : Prop :=
  Base.Ref rb.base p ∨ ImmOrPNode.Ref rb.length p ∨ ∃ k ∈ rb.addrs, AddressKind.Ref k p

def Formulaic.Ref (fm : Formulaic F E) (p : NodeId) : Prop := ∃ nm, (nm, p) ∈ fm.vars

/-- the node ids a stored node mentions (enumeration entries and the port of a register
are looked up in the graph directly, not through the interface records) -/
def Node.Ref (nd : Node F E) (p : NodeId) : Prop :=
  match nd with
  | .integer b vk mn mx inc =>
    Base.Ref b p ∨ ValueKind.Ref vk p ∨ ImmOrPNode.Ref mn p ∨ ImmOrPNode.Ref mx p ∨ ImmOrPNode.Ref inc p
  | .float b vk mn mx inc =>
    Base.Ref b p ∨ ValueKind.Ref vk p ∨ ImmOrPNode.Ref mn p ∨ ImmOrPNode.Ref mx p ∨
      ∃ i, inc = some i ∧ ImmOrPNode.Ref i p
  | .intReg rb .. | .maskedIntReg rb .. | .floatReg rb _ | .stringReg rb | .register rb => RegBase.Ref rb p
  | .boolean b v _ _ | .enumeration b _ v | .string b v => Base.Ref b p ∨ ImmOrPNode.Ref v p
  | .command b v c => Base.Ref b p ∨ ImmOrPNode.Ref v p ∨ ImmOrPNode.Ref c p
  | .converter b fm _ _ pv | .intConverter b fm _ _ pv => Base.Ref b p ∨ Formulaic.Ref fm p ∨ p = pv
  | .swissKnife b fm _ | .intSwissKnife b fm _ => Base.Ref b p ∨ Formulaic.Ref fm p
  | .enumEntry b .. | .port b _ | .category b _ | .node b => Base.Ref b p

def NodeRef (cx : Ctx F E) (n p : NodeId) : Prop := ∃ nd, cx.graph n = some nd ∧ Node.Ref nd p

/-- **syntactic acyclicity**: every node id mentioned by a node has a strictly smaller rank -/
def WellRanked (cx : Ctx F E) (rank : NodeId → Nat) : Prop :=
  ∀ n nd p, cx.graph n = some nd → Node.Ref nd p → rank p < rank n

theorem Node.base_ref {nd : Node F E} {p : NodeId} (h : Base.Ref nd.base p) : Node.Ref nd p := by
  cases nd <;> simp only [Node.base] at h <;> simp [Node.Ref, RegBase.Ref, h]

theorem Node.regBase_ref {nd : Node F E} {rb : RegBase} {p : NodeId} (hr : nd.regBase? = some rb)
    (h : RegBase.Ref rb p) : Node.Ref nd p := by
  cases nd <;> simp [Node.regBase?] at hr <;> subst hr <;> simpa [Node.Ref] using h

theorem pIndexSelect_ref {es : List (Int × ImmOrPNode SlotId)} {d : ImmOrPNode SlotId} {i : Int} {p : NodeId}
    (h : ImmOrPNode.Ref (pIndexSelect es d i) p) :
    ImmOrPNode.Ref d p ∨ ∃ j, (j, ImmOrPNode.pnode p) ∈ es := by
  unfold pIndexSelect at h
  split at h
  · rename_i e he
    right
    have := List.mem_of_find?_eq_some he
    exact ⟨e.1, by unfold ImmOrPNode.Ref at h; rw [← h]; exact this⟩
  · left; exact h

theorem R.bind_congr {α β : Type} {m1 m2 : R F α} {f1 f2 : α → R F β} (hm : m1 = m2) (hf : ∀ a, f1 a = f2 a) :
    (m1 >>= f1) = (m2 >>= f2) := by
  subst hm; congr; funext a; exact hf a
theorem M.bind_congr {α β : Type} {m1 m2 : M F α} {f1 f2 : α → M F β} (hm : m1 = m2) (hf : ∀ a, f1 a = f2 a) :
    (m1 >>= f1) = (m2 >>= f2) := by
  subst hm; congr; funext a; exact hf a

/- discharges "the node ids the callee mentions are among those the caller mentions" -/
set_option hygiene false in
macro "ref_tac" : tactic => `(tactic|
  (intro p hp; apply hP; (try clear hA);
   first
   | exact hp
   | (exact ⟨_, by assumption, Node.base_ref hp⟩)
   | (exact ⟨_, by assumption, Node.regBase_ref (by assumption) hp⟩)
   | (refine ⟨_, by assumption, ?_⟩; simp only [Node.Ref]; simp [hp]; done)
   | (rcases pIndexSelect_ref hp with h | h <;> simp [h, ValueKind.Ref]; done)
   | (simp only [ImmOrPNode.Ref, ValueKind.Ref, AddressKind.Ref, Base.Ref, RegBase.Ref, Formulaic.Ref] at hp ⊢; simp_all; done)
   | (refine ⟨_, by assumption, ?_⟩; simp only [Node.Ref, ImmOrPNode.Ref, ValueKind.Ref, AddressKind.Ref, Base.Ref, RegBase.Ref, Formulaic.Ref] at hp ⊢; simp_all; done)
   | grind [ImmOrPNode.Ref, ValueKind.Ref, AddressKind.Ref, Base.Ref, RegBase.Ref, Formulaic.Ref, Node.Ref, NodeRef]))

open Lean in
syntax "ag_auto " ident (" [" term,* "]")? : tactic
open Lean in
macro_rules
  | `(tactic| ag_auto $h:ident) => `(tactic| ag_auto $h [])
  | `(tactic| ag_auto $h:ident [$ts,*]) => do
    let mut alts : Array (TSyntax `tactic) := #[← `(tactic| fail "no lemma applies")]
    for t in ts.getElems do
      alts := alts.push (← `(tactic| exact $t $h (by ref_tac)))
    `(tactic|
      repeat' (first
      | rfl
      | (first $[| $alts:tactic]*)
      | apply R.bind_congr | apply M.bind_congr | apply congrArg M.ofR
      | intro _
      | split))

section
variable {cx : Ctx F E} {r1 r2 : Rec F} {P : NodeId → Prop}

'''
D={name:deps for (name,_,_,deps) in L}
def closure(name, seen=None):
    seen = seen if seen is not None else []
    for d in D[name]:
        if d not in seen:
            seen.append(d); closure(d, seen)
    return seen
for (name,mon,args,deps) in L:
    q = "GenApi."+name if name=="varsReadable" else name
    extra=" {α : Type}" if name=="withRead" else ""
    binders=" ".join("{"+f"{a} : {t}"+"}" for a,t in args)
    argnames=" ".join(a for a,_ in args)
    ms=[m for m in (mention(name,a,t) for a,t in args) if m]
    men=" ∨ ".join(ms) if ms else "False"
    direct=[a for a,t in args if t=="NodeId" and not (name.endswith("F") and a=="n")]
    pre=""
    simps=[]
    for x in direct:
        pre+=f"  have h_{x} := hA {x} (hP {x} (by simp))\n"
        simps+= [f"h_{x}.{f}" for f in allf]
    alld=list(D[name]) if name.endswith('F') else closure(name)
    dl=", ".join(d+"_ag" for d in alld)
    if name in REC:
        ind,_=REC[name]
        others=[a for a,_ in args if a!=ind]
        gen=(" generalizing "+" ".join(others)) if others else ""
        out+=f'''theorem {name}_ag (hA : ∀ p, P p → AgreeAt r1 r2 p) {binders} (hP : ∀ p, {men} → P p) :
    {q} cx r1 {argnames} = {q} cx r2 {argnames} := by
  induction {ind}{gen} with
  | nil => rfl
  | cons x xs ih =>
    unfold {q}
    ag_auto hA [{dl}]
    all_goals first | exact ih (by ref_tac) | (apply ih; ref_tac)

'''
    elif name=="strMaxLengthF":
        out+='''theorem strMaxLengthF_ag (hA : ∀ p, P p → AgreeAt r1 r2 p) {n : NodeId} (hP : ∀ p, NodeRef cx n p → P p) :
    strMaxLengthF cx r1 n = strMaxLengthF cx r2 n := by
  unfold strMaxLengthF
  split
  · split
    · rfl
    · rename_i q _
      have hq := hA q (hP q ⟨_, by assumption, by simp [Node.Ref, ImmOrPNode.Ref]⟩)
      rw [hq.strMaxLength]
  · exact regLength_ag hA (by ref_tac)
  · rfl

'''
    else:
        simp_line = f"  try simp only [{', '.join(simps)}]\n" if simps else ""
        out+=f'''theorem {name}_ag{extra} (hA : ∀ p, P p → AgreeAt r1 r2 p) {binders} (hP : ∀ p, {men} → P p) :
    {q} cx r1 {argnames} = {q} cx r2 {argnames} := by
{pre}  unfold {q}
{simp_line}  ag_auto hA [{dl}]

'''
out+='''end

/-- **syntactic ⇒ semantic acyclicity** -/
theorem WellRanked.acyclic {cx : Ctx F E} {rank : NodeId → Nat} (hW : WellRanked cx rank) : Acyclic cx rank where
  step n r1 r2 h := by
    have hP : ∀ p, NodeRef cx n p → rank p < rank n := fun p ⟨nd, hg, hr⟩ => hW n nd p hg hr
    constructor
'''
for f in allf:
    helper={"enumCurrentValue":"enumCurrentValueF","enumCurrentEntry":"enumCurrentEntryF","enumSetByValue":"enumSetByValueF"}.get(f,f+"F")
    if f in fields_m:
        out+=f"    · funext v; exact {helper}_ag (P := fun p => rank p < rank n) h hP\n"
    else:
        out+=f"    · exact {helper}_ag (P := fun p => rank p < rank n) h hP\n"
out+='''  top req st r1 r2 h := by
    cases req with
    | intValue n =>
      have hP : ∀ p, NodeRef cx n p → rank p < rank n := fun p ⟨nd, hg, hr⟩ => hW n nd p hg hr
      simp only [reqNode] at h
      simp only [top]
      rw [intValueF_ag (P := fun p => rank p < rank n) h hP]
    | intSet n v =>
      have hP : ∀ p, NodeRef cx n p → rank p < rank n := fun p ⟨nd, hg, hr⟩ => hW n nd p hg hr
      simp only [reqNode] at h
      simp only [top]
      rw [intSetF_ag (P := fun p => rank p < rank n) h hP]
    | intMin n =>
      have hP : ∀ p, NodeRef cx n p → rank p < rank n := fun p ⟨nd, hg, hr⟩ => hW n nd p hg hr
      simp only [reqNode] at h
      simp only [top]
      rw [intMinF_ag (P := fun p => rank p < rank n) h hP]
    | intMax n =>
      have hP : ∀ p, NodeRef cx n p → rank p < rank n := fun p ⟨nd, hg, hr⟩ => hW n nd p hg hr
      simp only [reqNode] at h
      simp only [top]
      rw [intMaxF_ag (P := fun p => rank p < rank n) h hP]
    | intInc n =>
      have hP : ∀ p, NodeRef cx n p → rank p < rank n := fun p ⟨nd, hg, hr⟩ => hW n nd p hg hr
      simp only [reqNode] at h
      simp only [top]
      rw [intIncF_ag (P := fun p => rank p < rank n) h hP]
    | intSetMin n v =>
      have hP : ∀ p, NodeRef cx n p → rank p < rank n := fun p ⟨nd, hg, hr⟩ => hW n nd p hg hr
      simp only [reqNode] at h
      simp only [top]
      rw [intSetMinF_ag (P := fun p => rank p < rank n) h hP]
    | intSetMax n v =>
      have hP : ∀ p, NodeRef cx n p → rank p < rank n := fun p ⟨nd, hg, hr⟩ => hW n nd p hg hr
      simp only [reqNode] at h
      simp only [top]
      rw [intSetMaxF_ag (P := fun p => rank p < rank n) h hP]
    | floatValue n =>
      have hP : ∀ p, NodeRef cx n p → rank p < rank n := fun p ⟨nd, hg, hr⟩ => hW n nd p hg hr
      simp only [reqNode] at h
      simp only [top]
      rw [floatValueF_ag (P := fun p => rank p < rank n) h hP]
    | floatSet n v =>
      have hP : ∀ p, NodeRef cx n p → rank p < rank n := fun p ⟨nd, hg, hr⟩ => hW n nd p hg hr
      simp only [reqNode] at h
      simp only [top]
      rw [floatSetF_ag (P := fun p => rank p < rank n) h hP]
    | floatMin n =>
      have hP : ∀ p, NodeRef cx n p → rank p < rank n := fun p ⟨nd, hg, hr⟩ => hW n nd p hg hr
      simp only [reqNode] at h
      simp only [top]
      rw [floatMinF_ag (P := fun p => rank p < rank n) h hP]
    | floatMax n =>
      have hP : ∀ p, NodeRef cx n p → rank p < rank n := fun p ⟨nd, hg, hr⟩ => hW n nd p hg hr
      simp only [reqNode] at h
      simp only [top]
      rw [floatMaxF_ag (P := fun p => rank p < rank n) h hP]
    | floatInc n =>
      have hP : ∀ p, NodeRef cx n p → rank p < rank n := fun p ⟨nd, hg, hr⟩ => hW n nd p hg hr
      simp only [reqNode] at h
      simp only [top]
      rw [floatIncF_ag (P := fun p => rank p < rank n) h hP]
    | floatSetMin n v =>
      have hP : ∀ p, NodeRef cx n p → rank p < rank n := fun p ⟨nd, hg, hr⟩ => hW n nd p hg hr
      simp only [reqNode] at h
      simp only [top]
      rw [floatSetMinF_ag (P := fun p => rank p < rank n) h hP]
    | floatSetMax n v =>
      have hP : ∀ p, NodeRef cx n p → rank p < rank n := fun p ⟨nd, hg, hr⟩ => hW n nd p hg hr
      simp only [reqNode] at h
      simp only [top]
      rw [floatSetMaxF_ag (P := fun p => rank p < rank n) h hP]
    | strValue n =>
      have hP : ∀ p, NodeRef cx n p → rank p < rank n := fun p ⟨nd, hg, hr⟩ => hW n nd p hg hr
      simp only [reqNode] at h
      simp only [top]
      rw [strValueF_ag (P := fun p => rank p < rank n) h hP]
    | strSet n v =>
      have hP : ∀ p, NodeRef cx n p → rank p < rank n := fun p ⟨nd, hg, hr⟩ => hW n nd p hg hr
      simp only [reqNode] at h
      simp only [top]
      rw [strSetF_ag (P := fun p => rank p < rank n) h hP]
    | strMaxLength n =>
      have hP : ∀ p, NodeRef cx n p → rank p < rank n := fun p ⟨nd, hg, hr⟩ => hW n nd p hg hr
      simp only [reqNode] at h
      simp only [top]
      rw [strMaxLengthF_ag (P := fun p => rank p < rank n) h hP]
    | boolValue n =>
      have hP : ∀ p, NodeRef cx n p → rank p < rank n := fun p ⟨nd, hg, hr⟩ => hW n nd p hg hr
      simp only [reqNode] at h
      simp only [top]
      rw [boolValueF_ag (P := fun p => rank p < rank n) h hP]
    | boolSet n v =>
      have hP : ∀ p, NodeRef cx n p → rank p < rank n := fun p ⟨nd, hg, hr⟩ => hW n nd p hg hr
      simp only [reqNode] at h
      simp only [top]
      rw [boolSetF_ag (P := fun p => rank p < rank n) h hP]
    | enumCurrentValue n =>
      have hP : ∀ p, NodeRef cx n p → rank p < rank n := fun p ⟨nd, hg, hr⟩ => hW n nd p hg hr
      simp only [reqNode] at h
      simp only [top]
      rw [enumCurrentValueF_ag (P := fun p => rank p < rank n) h hP]
    | enumCurrentEntry n =>
      have hP : ∀ p, NodeRef cx n p → rank p < rank n := fun p ⟨nd, hg, hr⟩ => hW n nd p hg hr
      simp only [reqNode] at h
      simp only [top]
      rw [enumCurrentEntryF_ag (P := fun p => rank p < rank n) h hP]
    | enumSetByValue n v =>
      have hP : ∀ p, NodeRef cx n p → rank p < rank n := fun p ⟨nd, hg, hr⟩ => hW n nd p hg hr
      simp only [reqNode] at h
      simp only [top]
      rw [enumSetByValueF_ag (P := fun p => rank p < rank n) h hP]
    | enumSetByName n v =>
      have hP : ∀ p, NodeRef cx n p → rank p < rank n := fun p ⟨nd, hg, hr⟩ => hW n nd p hg hr
      simp only [reqNode] at h
      simp only [top]
      rw [enumSetByNameF_ag (P := fun p => rank p < rank n) h hP]
    | enumEntries n => rfl
    | cmdExecute n =>
      have hP : ∀ p, NodeRef cx n p → rank p < rank n := fun p ⟨nd, hg, hr⟩ => hW n nd p hg hr
      simp only [reqNode] at h
      simp only [top]
      rw [cmdExecuteF_ag (P := fun p => rank p < rank n) h hP]
    | cmdIsDone n =>
      have hP : ∀ p, NodeRef cx n p → rank p < rank n := fun p ⟨nd, hg, hr⟩ => hW n nd p hg hr
      simp only [reqNode] at h
      simp only [top]
      rw [cmdIsDoneF_ag (P := fun p => rank p < rank n) h hP]
    | regRead n v =>
      have hP : ∀ p, NodeRef cx n p → rank p < rank n := fun p ⟨nd, hg, hr⟩ => hW n nd p hg hr
      simp only [reqNode] at h
      simp only [top]
      rw [regReadF_ag (P := fun p => rank p < rank n) h hP]
    | regWrite n v =>
      have hP : ∀ p, NodeRef cx n p → rank p < rank n := fun p ⟨nd, hg, hr⟩ => hW n nd p hg hr
      simp only [reqNode] at h
      simp only [top]
      rw [regWriteF_ag (P := fun p => rank p < rank n) h hP]
    | regAddress n =>
      have hP : ∀ p, NodeRef cx n p → rank p < rank n := fun p ⟨nd, hg, hr⟩ => hW n nd p hg hr
      simp only [reqNode] at h
      simp only [top]
      rw [regAddressF_ag (P := fun p => rank p < rank n) h hP]
    | regLength n =>
      have hP : ∀ p, NodeRef cx n p → rank p < rank n := fun p ⟨nd, hg, hr⟩ => hW n nd p hg hr
      simp only [reqNode] at h
      simp only [top]
      rw [regLengthF_ag (P := fun p => rank p < rank n) h hP]
    | isReadable n =>
      have hP : ∀ p, NodeRef cx n p → rank p < rank n := fun p ⟨nd, hg, hr⟩ => hW n nd p hg hr
      simp only [reqNode] at h
      simp only [top]
      rw [isReadableF_ag (P := fun p => rank p < rank n) h hP]
    | isWritable n =>
      have hP : ∀ p, NodeRef cx n p → rank p < rank n := fun p ⟨nd, hg, hr⟩ => hW n nd p hg hr
      simp only [reqNode] at h
      simp only [top]
      rw [isWritableF_ag (P := fun p => rank p < rank n) h hP]
    | isImplemented n =>
      have hP : ∀ p, NodeRef cx n p → rank p < rank n := fun p ⟨nd, hg, hr⟩ => hW n nd p hg hr
      simp only [reqNode] at h
      simp only [top]
      rw [isImplementedF_ag (P := fun p => rank p < rank n) h hP]
    | isAvailable n =>
      have hP : ∀ p, NodeRef cx n p → rank p < rank n := fun p ⟨nd, hg, hr⟩ => hW n nd p hg hr
      simp only [reqNode] at h
      simp only [top]
      rw [isAvailableF_ag (P := fun p => rank p < rank n) h hP]
    | isLocked n =>
      have hP : ∀ p, NodeRef cx n p → rank p < rank n := fun p ⟨nd, hg, hr⟩ => hW n nd p hg hr
      simp only [reqNode] at h
      simp only [top]
      rw [isLockedF_ag (P := fun p => rank p < rank n) h hP]
'''
out+='''
end CamVerif.C03
'''
open('CamVerif/Proofs/C03Acyclic.lean','w').write(out)
