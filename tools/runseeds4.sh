#!/bin/bash
# tools/runseeds2.sh Cxx... : keepseed for every /tmp/mut4-Cxx-out/N (round 4), then remove the worktree
cd /verif
for p in "$@"; do
  for d in /tmp/mut4-$p-out/*/; do
    [ -f $d/patch.diff ] || continue
    n=$(basename $d)
    echo "== $p r4-$n"
    tools/keepseed.py $p /tmp/mut4-$p $d $p-r4-seed$n $SEEDARGS 2>&1 | tee -a work/seeds4-$p.keep | grep -E "\"applies|\"detected|VIOLATION|kept|NOT KEPT|existing_tests_pass|\"demo_|tail"
  done
  # keep the outputs of anything that was not stored, for inspection
  if grep -q "NOT KEPT" work/seeds4-$p.keep 2>/dev/null; then echo "outputs of $p kept in /tmp/mut4-$p-out"; else rm -rf /tmp/mut4-$p-out /tmp/mut4-$p-task.txt; fi
  git -C /repo worktree remove --force /tmp/mut4-$p; rm -rf /tmp/mut4-$p
done

