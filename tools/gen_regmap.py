#!/usr/bin/env python3
"""C13 (G tie): re-emit lean/CamVerif/Gen/RegMap.lean from /repo's CURRENT sources.

  python3 tools/gen_regmap.py [--repo /repo] [--out lean/CamVerif/Gen/RegMap.lean] [--check]

Reads
  * device/src/u3v/register_map.rs   -> the `(offset, length)` constant tables
  * cameleon/src/u3v/register_map.rs -> the accessor table (accessor |-> register constant,
    Rust return/argument type, capability guard, base kind), capability bit positions,
    bit fields of the version / file-info / alignment decoders, enumerant tables, the
    setter/getter pairs, and it verifies the text of the private helpers
    (`read_register`, `write_register`, `register_address`, codecs) against the shapes
    the hand-written Lean model (`Model/RegMap.lean`) mirrors.

Pinned texts are compared up to the names of parameters / locals (alpha-renaming), the text
of string literals and the syntax of generic bounds; unknown PRIVATE functions nothing in the
file uses are accepted as dead code.  Everything else is strict:

Lightweight (regex + brace matching), but it FAILS LOUDLY: any public accessor whose body is
neither one of the uniform shapes nor in the explicit HAND list, any helper whose text
changed, any unknown type or constant makes the run exit non-zero naming the construct;
the stale Gen file is then NOT kept (it is replaced by a file that does not compile).
"""
import hashlib
import os
import re
import sys

ROOT = os.path.dirname(os.path.dirname(os.path.abspath(__file__)))


class Refuse(Exception):
    pass


def refuse(what):
    raise Refuse(what)


# --------------------------------------------------------------------------- lexical helpers

def strip_comments(src):
    """Remove // comments (incl. doc comments) and /* */ comments; keep string literals."""
    out, i, n = [], 0, len(src)
    while i < n:
        c = src[i]
        if c == '"':
            j = i + 1
            while j < n and src[j] != '"':
                j += 2 if src[j] == "\\" else 1
            out.append(src[i:j + 1])
            i = j + 1
        elif src.startswith("//", i):
            j = src.find("\n", i)
            i = n if j < 0 else j
        elif src.startswith("/*", i):
            j = src.find("*/", i)
            i = n if j < 0 else j + 2
        elif c == "'" and i + 2 < n and (src[i + 2] == "'" or (src[i + 1] == "\\" and i + 3 < n and src[i + 3] == "'")):
            j = i + (3 if src[i + 2] == "'" else 4)   # char literal
            out.append(src[i:j])
            i = j
        else:
            out.append(c)
            i += 1
    return "".join(out)


def mask_strings(s):
    """replace the contents of every string literal by <msg>: message texts are not behaviour"""
    out, i, n = [], 0, len(s)
    while i < n:
        if s[i] == '"':
            j = i + 1
            while j < n and s[j] != '"':
                j += 2 if s[j] == "\\" else 1
            out.append('"<msg>"')
            i = j + 1
        else:
            out.append(s[i])
            i += 1
    return "".join(out)


def norm(s):
    s = mask_strings(s)
    s = re.sub(r"\s+", " ", s).strip()
    s = re.sub(r"\s*\.\s*(?=[A-Za-z_])", ".", s)      # method chains broken over lines
    s = re.sub(r",\s*\)", ")", s)                      # trailing commas
    s = re.sub(r",\s*\}", " }", s)
    s = re.sub(r"\(\s+", "(", s)
    s = re.sub(r"\s+\)", ")", s)
    return s


def match_brace(src, open_idx):
    """index just past the brace block starting at src[open_idx] == '{' (string aware)."""
    assert src[open_idx] == "{"
    depth, i, n = 0, open_idx, len(src)
    while i < n:
        c = src[i]
        if c == '"':
            i += 1
            while i < n and src[i] != '"':
                i += 2 if src[i] == "\\" else 1
        elif c == "{":
            depth += 1
        elif c == "}":
            depth -= 1
            if depth == 0:
                return i + 1
        i += 1
    refuse("unbalanced braces")


def block_after(src, header_re, what):
    m = re.search(header_re, src)
    if not m:
        refuse(f"cannot find {what}")
    o = src.index("{", m.end() - 1)
    e = match_brace(src, o)
    return src[o + 1:e - 1]


def functions(block):
    """[(is_pub, name, signature, body)] of the fns directly inside an impl block."""
    out, i = [], 0
    for m in re.finditer(r"(?:(pub(?:\s*\([^)]*\))?)\s+)?(?:(?:const|async|unsafe)\s+)*fn\s+(\w+)", block):
        if m.start() < i:
            continue
        # body starts at the first '{' outside parentheses / angle brackets of the signature
        j, depth = m.end(), 0
        while True:
            c = block[j]
            if c in "(<[":
                depth += 1
            elif c in ")>]":
                # '->' is not a closing bracket
                if not (c == ">" and block[j - 1] == "-"):
                    depth -= 1
            elif c == "{" and depth == 0:
                break
            j += 1
        e = match_brace(block, j)
        vis = "private" if m.group(1) is None else ("pub" if m.group(1) == "pub" else "restricted")
        out.append((vis, m.group(2), norm("fn " + block[m.start(2):j]), norm(block[j + 1:e - 1])))
        i = e
    return out


def intlit(s):
    s = s.replace("_", "")
    s = re.sub(r"(u8|u16|u32|u64|usize|i32|i64)$", "", s)
    if s.startswith("0x"):
        return int(s[2:], 16)
    if s.startswith("0b"):
        return int(s[2:], 2)
    return int(s)


# --------------------------------------------------------------------------- the constant tables

TABLE_MODULES = ["abrm", "sbrm", "eirm", "sirm", "manifest_entry"]


def parse_tables(src):
    src = strip_comments(src)
    tables = {}
    for m in re.finditer(r"pub\s+mod\s+(\w+)\s*\{", src):
        name = m.group(1)
        e = match_brace(src, m.end() - 1)
        body = src[m.end():e - 1]
        rows = []
        for item in [x.strip() for x in body.split(";") if x.strip()]:
            c = re.fullmatch(r"pub\s+const\s+(\w+)\s*:\s*\(\s*u64\s*,\s*u16\s*\)\s*=\s*\(\s*([0-9A-Fa-fxX_]+)\s*,\s*([0-9_]+)\s*\)", item, re.S)
            if not c:
                refuse(f"device register_map.rs: module `{name}`: item is not `pub const X: (u64, u16) = (offset, len)`: `{norm(item)[:80]}`")
            rows.append((c.group(1), intlit(c.group(2).lower()), intlit(c.group(3))))
        tables[name] = rows
    for t in TABLE_MODULES:
        if t not in tables:
            refuse(f"device register_map.rs: module `{t}` is missing")
    for t in tables:
        if t not in TABLE_MODULES:
            refuse(f"device register_map.rs: unknown register module `{t}` (teach tools/gen_regmap.py and Spec/U3V.lean about it)")
    return tables


# --------------------------------------------------------------------------- accessors

IMPLS = {  # struct -> (Lean Base, register module its accessors must use, base-address field)
    "Abrm": ("abrm", "abrm", None),
    "Sbrm": ("sbrm", "sbrm", "sbrm_addr"),
    "Sirm": ("sirm", "sirm", "sirm_addr"),
    "ManifestTable": ("manifestTable", None, "manifest_address"),
    "ManifestEntry": ("manifestEntry", "manifest_entry", "entry_addr"),
}

RET_TY = {"u32": "u32", "u64": "u64", "String": "string", "Duration": "duration", "u3v::BusSpeed": "busSpeed",
          "DeviceConfiguration": "deviceConfiguration", "GenICamFileInfo": "fileInfo"}
ARG_TY = {"u32": "u32", "&str": "string", "DeviceConfiguration": "deviceConfiguration"}

# Non-uniform accessors, modelled by hand in Model/RegMap.lean.
#  tag != None : a getter that reads ONE register as u32 (or 20 raw bytes for sha1) and
#                post-processes it; its WHOLE body is pinned by a template in DECODER_TEMPLATES
#                (exact text; only the register constant and the shift / mask literals are
#                placeholders, which are emitted and compared with the standards by proof).
#  tag == None : constructors, navigation, cached capability words; exact bodies in HAND_BODIES;
#                emitted in `handModelled` with the register constants / accessors they reference.
HAND = {
    "Abrm.gencp_version": "ver1616",
    "Sbrm.u3v_version": "ver1616",
    "ManifestEntry.genicam_file_version": "fileVer",
    "Sirm.payload_size_alignment": "align",
    "Sirm.is_stream_enable": "bit0",
    "ManifestEntry.sha1_hash": "sha1",
    "Abrm.new": None, "Abrm.sbrm": None, "Abrm.manifest_table": None, "Abrm.device_capability": None,
    "Sbrm.new": None, "Sbrm.sirm": None, "Sbrm.u3v_capability": None,
    "Sirm.new": None,
    "ManifestTable.new": None, "ManifestTable.entries": None,
    "ManifestEntry.new": None,
}

# Templates: literal text after normalisation; `<REG>` = register constant `mod::CONST`,
# `<f.shift>` / `<f.mask>` = integer literals of bit field `f`.  The raw variable the fields are
# taken from is part of the literal text, so `let major = (minor >> 16) & ..` does not match.
DECODER_TEMPLATES = {
    "Abrm.gencp_version": "let gencp_version: u32 = self.read_register(device, <REG>)?; let gencp_version_minor = gencp_version & <minor.mask>; let gencp_version_major = (gencp_version >> <major.shift>_i32) & <major.mask>; Ok(semver::Version::new(u64::from(gencp_version_major), u64::from(gencp_version_minor), 0))",
    "Sbrm.u3v_version": "let u3v_version: u32 = self.read_register(device, <REG>)?; let u3v_version_minor = u3v_version & <minor.mask>; let u3v_version_major = (u3v_version >> <major.shift>_i32) & <major.mask>; Ok(semver::Version::new(u64::from(u3v_version_major), u64::from(u3v_version_minor), 0))",
    "ManifestEntry.genicam_file_version": "let file_version: u32 = self.read_register(device, <REG>)?; let subminor = file_version & <patch.mask>; let minor = (file_version >> <minor.shift>_i32) & <minor.mask>; let major = (file_version >> <major.shift>_i32) & <major.mask>; Ok(semver::Version::new(u64::from(major), u64::from(minor), u64::from(subminor)))",
    "Sirm.payload_size_alignment": "let si_info: u32 = self.read_register(device, <REG>)?; let exponent = si_info >> <exponent.shift>_i32; 1_usize.checked_shl(exponent).ok_or_else(|| { ControlError::InvalidDevice(format!(\"payload size alignment is too large: 2^{}\", exponent).into()) })",
    "Sirm.is_stream_enable": "let si_ctrl: u32 = self.read_register(device, <REG>)?; Ok((si_ctrl & <bit.mask>) == 1)",
    "GenICamFileInfo.schema_version": "let major = (self.0 >> <major.shift>_i32) & <major.mask>; let minor = (self.0 >> <minor.shift>_i32) & <minor.mask>; semver::Version::new(u64::from(major), u64::from(minor), 0)",
    "GenICamFileInfo.file_type": "let raw = self.0 & <raw.mask>; match raw { <ARMS> }",
    "GenICamFileInfo.compression_type": "let raw = (self.0 >> <raw.shift>_i32) & <raw.mask>; match raw { <ARMS> }",
    "ParseBytes for u3v::BusSpeed": "use u3v::BusSpeed::{FullSpeed, HighSpeed, LowSpeed, SuperSpeed, SuperSpeedPlus}; let raw = u32::parse_bytes(bytes)?; let speed = match raw { <ARMS> }; Ok(speed)",
}
_GET = "fn f<Ctrl: DeviceControl + ?Sized>(&self, device: &mut Ctrl) -> "
TEMPLATE_SIGS = {
    "Abrm.gencp_version": _GET + "ControlResult<semver::Version>",
    "Sbrm.u3v_version": _GET + "ControlResult<semver::Version>",
    "ManifestEntry.genicam_file_version": _GET + "ControlResult<semver::Version>",
    "Sirm.payload_size_alignment": _GET + "ControlResult<usize>",
    "Sirm.is_stream_enable": _GET + "ControlResult<bool>",
    "GenICamFileInfo.schema_version": "fn f(&self) -> semver::Version",
    "GenICamFileInfo.file_type": "fn f(&self) -> ControlResult<GenICamFileType>",
    "GenICamFileInfo.compression_type": "fn f(&self) -> ControlResult<CompressionType>",
    "ParseBytes for u3v::BusSpeed": "fn f(bytes: &[u8]) -> ControlResult<Self>",
}
# order in which the fields of a decoder are emitted
FIELD_ORDER = {
    "Abrm.gencp_version": ["major", "minor"], "Sbrm.u3v_version": ["major", "minor"],
    "ManifestEntry.genicam_file_version": ["major", "minor", "patch"],
    "Sirm.payload_size_alignment": ["exponent"], "Sirm.is_stream_enable": ["bit"],
    "GenICamFileInfo.schema_version": ["major", "minor"], "GenICamFileInfo.file_type": ["raw"],
    "GenICamFileInfo.compression_type": ["raw"],
}
# match arms: every arm but the last must be exactly `LITERAL => <ARM_VALUE>`; the last arm exactly FALLBACK
ARM_SHAPES = {
    "ParseBytes for u3v::BusSpeed": (r"(\w+)", "other => { return Err(ControlError::InvalidDevice(format!(\"invalid bus speed defined: {:#b}\", other).into())) }"),
    "GenICamFileInfo.file_type": (r"Ok\(GenICamFileType::(\w+)\)", "_ => Err(ControlError::InvalidDevice(format!(\"Invalid U3V GenICamFileType value: {}\", raw).into()))"),
    "GenICamFileInfo.compression_type": (r"Ok\(CompressionType::(\w+)\)", "_ => Err(ControlError::InvalidDevice(format!(\"Invalid U3V GenICamFilFormat value: {}\", raw).into()))"),
}

# exact (normalised) bodies of the structural accessors — the hand model mirrors these
HAND_BODIES = {
    "Abrm.new": "let (capability_addr, capability_len) = abrm::DEVICE_CAPABILITY; let device_capability = read_register(device, capability_addr, capability_len)?; Ok(Self { device_capability })",
    "Abrm.sbrm": "let sbrm_address = self.sbrm_address(device)?; Sbrm::new(device, sbrm_address)",
    "Abrm.manifest_table": "Ok(ManifestTable::new(self.manifest_table_address(device)?))",
    "Abrm.device_capability": "Ok(self.device_capability)",
    "Sbrm.new": "let (capability_offset, capability_len) = sbrm::U3VCP_CAPABILITY_REGISTER; let capability_addr = register_address(sbrm_addr, capability_offset)?; let capability = read_register(device, capability_addr, capability_len)?; Ok(Self { sbrm_addr, capability })",
    "Sbrm.sirm": "Ok(self.sirm_address(device)?.map(Sirm::new))",
    "Sbrm.u3v_capability": "Ok(self.capability)",
    "Sirm.new": "Self { sirm_addr }",
    "ManifestTable.new": "Self { manifest_address }",
    "ManifestTable.entries": "let entry_num: u64 = self.read_register(device, (0, 8))?; let table_end = u128::from(self.manifest_address) + 8 + u128::from(entry_num) * 64; if table_end > 1_u128 << 64_i32 { return Err(ControlError::InvalidDevice(\"manifest table doesn't fit into the address space\".into())); } let manifest_address = self.manifest_address; Ok((0..entry_num).map(move |i| ManifestEntry::new(manifest_address + 8 + i * 64)))",
    "ManifestEntry.new": "Self { entry_addr }",
    "ManifestEntry.sha1_hash": "let mut sha1_hash: [u8; 20] = [0; 20]; let addr = register_address(self.entry_addr, manifest_entry::SHA1_HASH.0)?; device.read(addr, &mut sha1_hash)?; if sha1_hash.iter().all(|byte| *byte == 0) { Ok(None) } else { Ok(Some(sha1_hash)) }",
}
# exact signatures (after the name) of the structural accessors: what they take and return
HAND_SIGS = {
    "Abrm.new": "<Ctrl: DeviceControl + ?Sized>(device: &mut Ctrl) -> ControlResult<Self>",
    "Abrm.sbrm": "<Ctrl: DeviceControl + ?Sized>(&self, device: &mut Ctrl) -> ControlResult<Sbrm>",
    "Abrm.manifest_table": "<Ctrl: DeviceControl + ?Sized>(&self, device: &mut Ctrl) -> ControlResult<ManifestTable>",
    "Abrm.device_capability": "(&self) -> ControlResult<DeviceCapability>",
    "Sbrm.new": "<Ctrl: DeviceControl + ?Sized>(device: &mut Ctrl, sbrm_addr: u64) -> ControlResult<Self>",
    "Sbrm.sirm": "<Ctrl: DeviceControl + ?Sized>(&self, device: &mut Ctrl) -> ControlResult<Option<Sirm>>",
    "Sbrm.u3v_capability": "(&self) -> ControlResult<U3VCapablitiy>",
    "Sirm.new": "(sirm_addr: u64) -> Self",
    "ManifestTable.new": "(manifest_address: u64) -> Self",
    "ManifestTable.entries": "<Ctrl: DeviceControl + ?Sized>(&self, device: &mut Ctrl) -> ControlResult<impl Iterator<Item = ManifestEntry>>",
    "ManifestEntry.new": "(entry_addr: u64) -> Self",
    "ManifestEntry.sha1_hash": "<Ctrl: DeviceControl + ?Sized>(&self, device: &mut Ctrl) -> ControlResult<Option<[u8; 20]>>",
}

_RD = "fn f<T, Ctrl: DeviceControl + ?Sized>(&self, device: &mut Ctrl, register: (u64, u16)) -> ControlResult<T>"
_WR = "fn f<Ctrl: DeviceControl + ?Sized>(&self, device: &mut Ctrl, register: (u64, u16), data: impl DumpBytes) -> ControlResult<()>"
HELPER_SIGS = {
    ("Abrm", "read_register"): _RD, ("Abrm", "write_register"): _WR, ("Sbrm", "read_register"): _RD,
    ("Sirm", "read_register"): _RD, ("Sirm", "write_register"): _WR,
    ("ManifestTable", "read_register"): _RD, ("ManifestEntry", "read_register"): _RD,
}
FREE_FN_SIGS = {
    "register_address": "fn f(base: u64, offset: u64) -> ControlResult<u64>",
    "read_register": "fn f<T, Ctrl: DeviceControl + ?Sized>(device: &mut Ctrl, addr: u64, len: u16) -> ControlResult<T>",
}
CODEC_SIGS = {
    "ParseBytes for String": "fn f(bytes: &[u8]) -> ControlResult<Self>",
    "ParseBytes for Duration": "fn f(bytes: &[u8]) -> ControlResult<Self>",
    "DumpBytes for &str": "fn f(&self, buf: &mut [u8]) -> ControlResult<()>",
    "DumpBytes for DeviceConfiguration": "fn f(&self, buf: &mut [u8]) -> ControlResult<()>",
    "<T> DumpBytes for &T where T: DumpBytes,": "fn f(&self, buf: &mut [u8]) -> ControlResult<()>",
}

# private helpers: bodies (per struct) the model's address/IO plumbing mirrors; compared up to
# local names and message texts
HELPER_BODIES = {
    ("Abrm", "read_register"): "read_register(device, register.0, register.1)",
    ("Abrm", "write_register"): "let (addr, len) = register; let mut buf = vec![0; len as usize]; data.dump_bytes(&mut buf)?; device.write(addr, &buf)",
    ("Sbrm", "read_register"): "let (offset, len) = register; let addr = register_address(self.sbrm_addr, offset)?; read_register(device, addr, len)",
    ("Sirm", "read_register"): "let (offset, len) = register; let addr = register_address(self.sirm_addr, offset)?; read_register(device, addr, len)",
    ("Sirm", "write_register"): "let (offset, len) = register; let addr = register_address(self.sirm_addr, offset)?; let mut buf = vec![0; len as usize]; data.dump_bytes(&mut buf)?; device.write(addr, &buf)",
    ("ManifestTable", "read_register"): "let (offset, len) = register; let addr = register_address(self.manifest_address, offset)?; read_register(device, addr, len)",
    ("ManifestEntry", "read_register"): "let (offset, len) = register; let addr = register_address(self.entry_addr, offset)?; read_register(device, addr, len)",
}

FREE_FN_BODIES = {
    "register_address": "base.checked_add(offset).ok_or_else(|| { ControlError::InvalidDevice(\"register address exceeds the 64 bit address space\".into()) })",
    "read_register": "let len = len as usize; let mut buf = vec![0; len]; device.read(addr, &mut buf[..len])?; T::parse_bytes(&buf[..len])",
}

MACROS = {
    "is_bit_set": "($val:expr, $bit:expr) => { (($val >> $bit) & 1) == 1 };",
    "set_bit": "($val:expr, $bit:expr) => { $val |= (1 << $bit) };",
    "unset_bit": "($val:expr, $bit:expr) => { $val &= !(1 << $bit) };",
    "impl_parse_bytes_for_numeric": "($ty:ty) => { impl ParseBytes for $ty { fn parse_bytes(bytes: &[u8]) -> ControlResult<Self> { let bytes = bytes.try_into().unwrap(); Ok(<$ty>::from_le_bytes(bytes)) } } };",
    "impl_dump_bytes_for_numeric": "($ty:ty) => { impl DumpBytes for $ty { fn dump_bytes(&self, buf: &mut [u8]) -> ControlResult<()> { let data = self.to_le_bytes(); debug_assert_eq!(data.len(), buf.len()); buf.copy_from_slice(&data); Ok(()) } } };",
}

CODEC_BODIES = {
    "ParseBytes for String": "let len = bytes.iter().position(|&b| b == 0); let s = len.map_or_else(|| std::str::from_utf8(bytes), |len| std::str::from_utf8(&bytes[..len])); let s = s.map_err(|_| { ControlError::InvalidDevice(\"device's string register value is broken\".into()) })?; Ok(s.into())",
    "ParseBytes for Duration": "let raw = u32::parse_bytes(bytes)?; Ok(Duration::from_millis(u64::from(raw)))",
    "DumpBytes for &str": "if !self.is_ascii() { return Err(ControlError::InvalidData(\"string encoding must be ascii\".into())); } if self.contains('\\0') { return Err(ControlError::InvalidData(\"string must not contain NUL character\".into())); } let data_len = self.len(); if data_len > buf.len() { return Err(ControlError::InvalidData(\"too large string\".into())); } buf[..data_len].copy_from_slice(self.as_bytes()); if data_len < buf.len() { buf[data_len] = 0; } Ok(())",
    "DumpBytes for DeviceConfiguration": "self.0.dump_bytes(buf)",
    "<T> DumpBytes for &T where T: DumpBytes,": "(*self).dump_bytes(buf)",
}
NEWTYPES = ["DeviceConfiguration", "DeviceCapability", "GenICamFileInfo", "U3VCapablitiy"]
VALUE_STRUCTS = ["DeviceConfiguration", "DeviceCapability", "U3VCapablitiy", "GenICamFileInfo"]
NUMERIC_MACRO_CALLS = ["impl_parse_bytes_for_numeric", "impl_dump_bytes_for_numeric"]

EXTRA_PAIRS = [  # setter |-> getter beyond the `set_X` / `X` naming convention
    ("Abrm.write_device_configuration", "Abrm.device_configuration"),
    ("Sirm.enable_stream", "Sirm.is_stream_enable"),
    ("Sirm.disable_stream", "Sirm.is_stream_enable"),
]

REG = r"(abrm|sbrm|sirm|manifest_entry)::([A-Z][A-Z0-9_]*)"
LIT = r"0x[0-9a-fA-F_]+|0b[01_]+|\d[\d_]*"


def ret_type(sig, name):
    m = re.search(r"->\s*(.+?)(?:\s+where\b.*)?$", sig)
    if not m:
        refuse(f"{name}: no return type in `{sig}`")
    return m.group(1).strip()


def params(sig):
    """[(name, type)] of the non-self, non-device parameters."""
    inner = sig[sig.index("(") + 1:]
    depth, cur, parts = 0, "", []
    for c in inner:
        if c in "(<[":
            depth += 1
        elif c in ")>]":
            if depth == 0:
                break
            depth -= 1
        if c == "," and depth == 0:
            parts.append(cur)
            cur = ""
        else:
            cur += c
    parts.append(cur)
    out = []
    for p in [x.strip() for x in parts if x.strip()]:
        if p in ("&self", "self", "&mut self") or p.startswith("device:"):
            continue
        n, t = p.split(":", 1)
        out.append((n.strip(), t.strip()))
    return out


def split_top(text, sep=","):
    """split at separators outside (), [], {} and string literals"""
    out, cur, depth, i, n = [], "", 0, 0, len(text)
    while i < n:
        c = text[i]
        if c == '"':
            j = i + 1
            while j < n and text[j] != '"':
                j += 2 if text[j] == "\\" else 1
            cur += text[i:j + 1]
            i = j + 1
            continue
        if c in "([{":
            depth += 1
        elif c in ")]}":
            depth -= 1
        if c == sep and depth == 0:
            out.append(cur.strip())
            cur = ""
        else:
            cur += c
        i += 1
    if cur.strip():
        out.append(cur.strip())
    return out


IDENT = r"[a-z_][a-z0-9_]*"


def all_params(sig):
    """[(name, type)] of all parameters except the self receiver (the device included)."""
    inner = sig[sig.index("(", sig.index(">(") + 1 if ">(" in sig else 0) + 1:]
    depth, cur, parts = 0, "", []
    for c in inner:
        if c in "(<[":
            depth += 1
        elif c in ")>]":
            if depth == 0:
                break
            depth -= 1
        if c == "," and depth == 0:
            parts.append(cur)
            cur = ""
        else:
            cur += c
    parts.append(cur)
    out = []
    for q in [x.strip() for x in parts if x.strip()]:
        if q in ("&self", "self", "&mut self", "mut self"):
            continue
        n, t = q.split(":", 1)
        out.append((n.strip().replace("mut ", ""), t.strip()))
    return out


def sig_shape(sig):
    """what a signature means for the model: receiver, parameter types in order, return type"""
    recv = re.search(r"\((&mut self|&self|mut self|self)\b", sig)
    ret = re.search(r"->\s*(.+?)(?:\s+where\b.*)?$", sig)
    return (recv.group(1) if recv else "-", tuple(t for _, t in all_params(sig)), ret.group(1).strip() if ret else "()")


def alpha(sig, body):
    """Rename parameters (P1, P2, …, in declaration order) and local binders — `let`, closure
    parameters, identifier match-arm patterns — (L1, L2, …, in order of first binding) so that
    pinned texts are compared up to the choice of local names.  Returns (body', {orig: canon})."""
    cmap = {}
    for i, (n, _) in enumerate(all_params(sig)):
        cmap.setdefault(n, f"P{i + 1}__")
    found = []
    for m in re.finditer(r"\blet (?:mut )?\(?((?:mut )?%s(?:, (?:mut )?%s)*)\)?\s*(?::[^=;]+)?=[^=]" % (IDENT, IDENT), body):
        found += [(m.start(), x.replace("mut ", "").strip()) for x in m.group(1).split(",")]
    for m in re.finditer(r"(?<![|\w])\|([^|]*)\|", body):
        for q in m.group(1).split(","):
            q = q.split(":")[0].replace("&", "").replace("mut ", "").strip()
            if re.fullmatch(IDENT, q):
                found.append((m.start(), q))
    for m in re.finditer(r"(?<![\w.:])(%s) => " % IDENT, body):
        found.append((m.start(), m.group(1)))
    k = 0
    for _, n in sorted(found):
        if n in ("_", "self", "true", "false") or n in cmap:
            continue
        k += 1
        cmap[n] = f"L{k}__"
    out = body
    for n, c in cmap.items():
        # not fields / methods (`.x`), not template placeholders (`<x.shift>`), not paths (`x::`), not macros
        out = re.sub(r"(?<![\w.<$])%s(?!\w|::|!|\.(?:shift|mask)>)" % re.escape(n), c, out)
    return out, cmap


def canon_fn(sig, body):
    b, _ = alpha(sig, body)
    return sig_shape(sig), b


def same_fn(what, kind, sig, body, pinned_sig, pinned_body):
    """refuse unless (sig, body) equals the pinned function up to local names, string texts, generics syntax"""
    if canon_fn(sig, body) != canon_fn(norm(pinned_sig), norm(pinned_body)):
        shape, b = canon_fn(sig, body)
        pshape, pb = canon_fn(norm(pinned_sig), norm(pinned_body))
        if shape != pshape:
            refuse(f"{what}: {kind} signature changed; the model mirrors (receiver, parameter types, return type)\n    {pshape}\n  but the source has\n    {shape}")
        refuse(f"{what}: {kind} body changed (compared up to local names and message texts); the model mirrors\n    {pb}\n  but the source has\n    {b}")


def occurrences(src, name):
    """uses of identifier `name` in the file other than its own definition(s)"""
    return len(re.findall(r"\b%s\b" % re.escape(name), src)) - len(re.findall(r"\bfn\s+%s\b" % re.escape(name), src))


def match_template(name, sig, body):
    """Fullmatch `body` against DECODER_TEMPLATES[name]; returns (groupdict, arms-text or None)."""
    template = norm(DECODER_TEMPLATES[name])
    tsig = norm(TEMPLATE_SIGS[name])
    if sig_shape(sig) != sig_shape(tsig):
        refuse(f"{name}: decoder signature changed; the model mirrors\n    {sig_shape(tsig)}\n  but the source has\n    {sig_shape(sig)}")
    template, _ = alpha(tsig, template)
    body, _ = alpha(sig, body)
    rx = ""
    for part in re.split(r"(<[A-Za-z_.]+>)", template):
        if part == "<REG>":
            rx += r"(?P<REGMOD>abrm|sbrm|sirm|manifest_entry)::(?P<REGCONST>[A-Z][A-Z0-9_]*)"
        elif part == "<ARMS>":
            rx += r"(?P<ARMS>.*)"
        elif part.startswith("<") and part.endswith(".shift>"):
            rx += r"(?P<%s_shift>\d+)" % part[1:-7]
        elif part.startswith("<") and part.endswith(".mask>"):
            rx += r"(?P<%s_mask>%s)" % (part[1:-6], LIT)
        else:
            rx += re.escape(part)
    m = re.fullmatch(rx, body)
    if not m:
        refuse(f"{name}: decoder body changed (compared up to local names and message texts); the model mirrors the shape\n    {template}\n  but the source has\n    {body}")
    return m.groupdict()


def fields_of(name, gd):
    out = []
    for f in FIELD_ORDER[name]:
        sh = int(gd.get(f + "_shift") or 0)
        mk = gd.get(f + "_mask")
        # a plain `raw >> s` on a u32: mask of the bits that can be set after the shift
        mask = intlit(mk.lower()) if mk is not None else (0xFFFFFFFF >> sh)
        out.append((name, f, sh, mask))
    return out


def arms_of(name, arms_text):
    """[(literal, variant)]: every arm but the last is exactly `LIT => value`, the last the pinned fallback."""
    value_rx, fallback = ARM_SHAPES[name]
    # the arms come out of the alpha-renamed body: rename the pinned fallback the same way
    fallback, _ = alpha(norm(TEMPLATE_SIGS[name]), norm(DECODER_TEMPLATES[name]).replace("<ARMS>", norm(fallback)))
    fallback = split_top(re.search(r"match \w+ \{ (.*) \}", fallback).group(1))[-1]
    arms = split_top(arms_text)
    if not arms or arms[-1] != fallback:
        refuse(f"{name}: last match arm is not the pinned fallback\n    {fallback}\n  but\n    {arms[-1] if arms else '<none>'}")
    table = []
    for a in arms[:-1]:
        m = re.fullmatch(r"(" + LIT + r") => " + value_rx, a)
        if not m:
            refuse(f"{name}: match arm is not exactly `LITERAL => variant` (alternatives `|`, guards, ranges and bindings are not modelled): `{a}`")
        lit = intlit(m.group(1).lower())
        if lit in [t[0] for t in table]:
            refuse(f"{name}: literal {lit} matched by two arms")
        table.append((lit, m.group(2)))
    if not table:
        refuse(f"{name}: no arms")
    return table


def top_level_items(src):
    """Top-level items of the (comment-stripped) file: inherent / trait impl blocks, fns, macro
    definitions and invocations, modules.  Returns dict kind -> list."""
    items = {"impl": [], "fn": [], "macro_rules": [], "macro_call": [], "mod": []}
    i, n, depth = 0, len(src), 0
    tok = re.compile(r"\"|\{|\}|\b(macro_rules!)|\b(?:(impl|fn|mod)\b)|\b(\w+)!\s*[\(\[\{]")
    while i < n:
        m = tok.search(src, i)
        if not m:
            break
        t = m.group(0)
        if t == '"':
            j = m.end()
            while j < n and src[j] != '"':
                j += 2 if src[j] == "\\" else 1
            i = j + 1
            continue
        if t == "{":
            depth += 1
            i = m.end()
            continue
        if t == "}":
            depth -= 1
            i = m.end()
            continue
        if depth != 0:
            i = m.end()
            continue
        kw = m.group(1) or m.group(2)
        if kw == "impl":
            # an item, not `x: impl Trait` / `-> impl Trait` in a signature
            prev = src[:m.start()].rstrip()
            if prev and prev[-1] not in "};]" and not prev.endswith("unsafe"):
                i = m.end()
                continue
            o = src.index("{", m.end())
            e = match_brace(src, o)
            items["impl"].append((norm(src[m.end():o]), src[o + 1:e - 1]))
            i = e
        elif kw == "fn":
            o = m.end()
            # signature up to the body brace at bracket depth 0
            j, d = o, 0
            while True:
                c = src[j]
                if c in "(<[":
                    d += 1
                elif c in ")>]" and not (c == ">" and src[j - 1] == "-"):
                    d -= 1
                elif c == "{" and d == 0:
                    break
                j += 1
            e = match_brace(src, j)
            vm = re.search(r"\b(pub(?:\s*\([^)]*\))?)\s+(?:(?:const|async|unsafe)\s+)*$", src[:m.start()])
            vis = "private" if not vm else ("pub" if vm.group(1) == "pub" else "restricted")
            items["fn"].append((vis, norm(src[m.start():j]), norm(src[j + 1:e - 1])))
            i = e
        elif kw == "mod":
            items["mod"].append(norm(src[m.start():m.start() + 60]))
            i = m.end()
        elif kw == "macro_rules!":
            nm = re.match(r"\s*(\w+)\s*", src[m.end():])
            o = src.index("{", m.end())
            e = match_brace(src, o)
            items["macro_rules"].append((nm.group(1), norm(src[o + 1:e - 1])))
            i = e
        else:
            items["macro_call"].append(m.group(3))
            # skip the invocation's delimited body
            o = m.end() - 1
            if src[o] == "{":
                i = match_brace(src, o)
            else:
                close = ")" if src[o] == "(" else "]"
                d, j = 0, o
                while True:
                    if src[j] == src[o]:
                        d += 1
                    elif src[j] == close:
                        d -= 1
                        if d == 0:
                            break
                    j += 1
                i = j + 1
    return items


def parse_accessors(src, tables):
    src = strip_comments(src)
    rows, hand, fields, pub_names, ignored = [], [], [], [], []
    items = top_level_items(src)

    # ---- nothing in the file may escape: modules, macros, free fns, impl blocks are all accounted for
    for m in items["mod"]:
        if not re.match(r"mod \w+\s*;", m):
            refuse(f"inline module `{m}…`: items inside it would escape the extraction")
    for name, body in items["macro_rules"]:
        if name not in MACROS:
            refuse(f"unknown macro definition `{name}!` (it could generate accessors the extraction cannot see)")
        if body != MACROS[name]:
            refuse(f"macro `{name}!` changed; the model mirrors\n    {MACROS[name]}\n  but the source has\n    {body}")
    for mac in MACROS:
        if mac not in [x[0] for x in items["macro_rules"]]:
            refuse(f"macro `{mac}!` not found")
    for call in items["macro_call"]:
        if call not in NUMERIC_MACRO_CALLS:
            refuse(f"unknown top-level macro invocation `{call}!(…)` (it could generate items the extraction cannot see)")
    seen_free = set()
    for vis, sig, body in items["fn"]:
        fn = re.match(r"fn (\w+)", sig).group(1)
        if fn not in FREE_FN_BODIES:
            # dead private code cannot change what an accessor does
            if vis == "private" and occurrences(src, fn) == 0:
                ignored.append(f"fn {fn}")
                continue
            refuse(f"unknown free function `{fn}` (visibility {vis}, {occurrences(src, fn)} use(s)); the model does not know it: `{sig[:120]}`")
        if vis != "private":
            refuse(f"free function `{fn}` became public")
        if fn in seen_free:
            refuse(f"free function `{fn}` defined twice")
        seen_free.add(fn)
        same_fn(f"free function `{fn}`", "helper", sig, body, FREE_FN_SIGS[fn], FREE_FN_BODIES[fn])
    for fn in FREE_FN_BODIES:
        if fn not in seen_free:
            refuse(f"free function `{fn}` not found")

    inherent = {}     # struct -> [(is_pub, fn, sig, body)] merged over ALL `impl Struct {` blocks
    trait_impls = {}  # header -> [fns]
    for header, body in items["impl"]:
        if re.fullmatch(r"[A-Za-z_]\w*", header):
            fns = functions(body)
            have = [f[1] for f in inherent.get(header, [])]
            for f in fns:
                if f[1] in have:
                    refuse(f"{header}.{f[1]}: defined in more than one `impl {header}` block")
            inherent.setdefault(header, []).extend(fns)
        else:
            if header in trait_impls:
                refuse(f"`impl {header}` appears twice")
            trait_impls[header] = functions(body)
    for st in inherent:
        if st not in IMPLS and st not in VALUE_STRUCTS:
            refuse(f"`impl {st} {{…}}`: inherent impl of a type the extraction does not know "
                   f"(methods: {', '.join(f[1] for f in inherent[st])}); teach tools/gen_regmap.py, the model and Spec/U3V.lean")
    for st in list(IMPLS) + VALUE_STRUCTS:
        if st not in inherent:
            refuse(f"`impl {st}` not found")
    known_traits = set(CODEC_BODIES) | {f"ParseBytes for {t}" for t in NEWTYPES} | {"ParseBytes for u3v::BusSpeed"}
    for header, fns in trait_impls.items():
        if header not in known_traits:
            refuse(f"unknown trait impl `impl {header}` (methods: {', '.join(f[1] for f in fns)}): it may add "
                   f"device accesses or codecs the model does not know")
    for header in known_traits:
        if header not in trait_impls:
            refuse(f"`impl {header}` not found")

    # struct fields -> capability struct
    cap_field = {}
    for st in IMPLS:
        body = block_after(src, r"pub\s+struct\s+" + st + r"\s*\{", f"struct {st}")
        for f in [x.strip() for x in body.split(",") if x.strip()]:
            n, t = [y.strip() for y in f.split(":")]
            cap_field[(st, n)] = t

    for st, (base, regmod, _) in IMPLS.items():
        for vis, fn, sig, body in inherent[st]:
            name = f"{st}.{fn}"
            if vis != "pub":
                if (st, fn) in HELPER_BODIES:
                    if vis != "private":
                        refuse(f"{name}: helper is no longer private (`{vis}`)")
                    same_fn(name, "private helper", sig, body, HELPER_SIGS[(st, fn)], HELPER_BODIES[(st, fn)])
                    continue
                # dead private code cannot change what an accessor does
                if vis == "private" and occurrences(src, fn) == 0:
                    ignored.append(name)
                    continue
                refuse(f"{name}: unknown helper (visibility {vis}, {occurrences(src, fn)} use(s) in the file); the model does not know it")
            pub_names.append(name)
            recv, ptypes, ret = sig_shape(sig)
            cbody, cmap = alpha(sig, body)
            ctrl_bound = re.search(r"\bCtrl: DeviceControl \+ \?Sized\b", sig) is not None
            is_get_sig = recv == "&self" and ptypes == ("&mut Ctrl",) and ctrl_bound
            is_set_sig = recv == "&self" and len(ptypes) in (1, 2) and ptypes[0] == "&mut Ctrl" and ctrl_bound and ret == "ControlResult<()>"

            def reg_of(mod, const):
                if regmod is not None and mod != regmod:
                    refuse(f"{name}: uses register constant `{mod}::{const}` of a foreign register map (expected `{regmod}::`)")
                if const not in [r[0] for r in tables[mod]]:
                    refuse(f"{name}: unknown register constant `{mod}::{const}`")
                return mod, const

            def guard_of(field, pred):
                t = cap_field.get((st, field))
                if t is None:
                    refuse(f"{name}: capability guard through unknown field `{field}`")
                return t, pred

            if name in HAND:
                tag = HAND[name]
                if name in HAND_BODIES:
                    same_fn(name, "hand-modelled accessor", sig, body, "fn f" + HAND_SIGS[name], HAND_BODIES[name])
                regs = sorted(set(re.findall(REG, body)))
                for mod, const in regs:
                    reg_of(mod, const)
                if tag is None:
                    calls = sorted(set(re.findall(r"self\.(\w+)\(P1__\)", cbody)) - {"read_register", "write_register"})
                    hand.append((name, base, regs, [f"{st}.{c}" for c in calls]))
                    continue
                if tag == "sha1":
                    if regs != [("manifest_entry", "SHA1_HASH")]:
                        refuse(f"{name}: expected exactly manifest_entry::SHA1_HASH, found {regs}")
                    sha_len = dict((r[0], r[2]) for r in tables["manifest_entry"])["SHA1_HASH"]
                    if sha_len != 20:
                        refuse(f"{name}: reads into a [u8; 20] but manifest_entry::SHA1_HASH has length {sha_len}")
                    rows.append((name, base, "get", "manifest_entry", "SHA1_HASH", "sha1", None))
                    continue
                if not ctrl_bound:
                    refuse(f"{name}: `Ctrl` is not bound by `DeviceControl + ?Sized`: `{sig}`")
                gd = match_template(name, sig, body)
                mod, const = reg_of(gd["REGMOD"], gd["REGCONST"])
                fields += fields_of(name, gd)
                rows.append((name, base, "get", mod, const, tag, None))
                continue

            # ---- uniform shapes (on the alpha-renamed body: P1__ = the device, P2__ = the argument)
            m = re.fullmatch(r"self\.read_register\(P1__, " + REG + r"\)", cbody)
            if m:
                rt = re.fullmatch(r"ControlResult<(.+)>", ret)
                if not is_get_sig or not rt or rt.group(1) not in RET_TY:
                    refuse(f"{name}: getter with unknown signature / return type `{sig}`")
                mod, const = reg_of(*m.groups())
                rows.append((name, base, "get", mod, const, RET_TY[rt.group(1)], None))
                continue
            m = re.fullmatch(r"if self\.(\w+)\.(\w+)\(\) \{ self\.read_register\(P1__, " + REG + r"\)\.map\(Some\) \} else \{ Ok\(None\) \}", cbody)
            if m:
                rt = re.fullmatch(r"ControlResult<Option<(.+)>>", ret)
                if not is_get_sig or not rt or rt.group(1) not in RET_TY:
                    refuse(f"{name}: guarded getter with unknown signature / return type `{sig}`")
                field, pred, mod, const = m.groups()
                mod, const = reg_of(mod, const)
                rows.append((name, base, "get", mod, const, RET_TY[rt.group(1)], guard_of(field, pred)))
                continue
            m = re.fullmatch(r"(?:let L1__ = (\d+)_u32; )?self\.write_register\(P1__, " + REG + r", (\w+)\)", cbody)
            if m:
                if not is_set_sig:
                    refuse(f"{name}: setter with unknown signature `{sig}`")
                const_v, mod, const, argname = m.groups()
                mod, const = reg_of(mod, const)
                if const_v is not None or re.fullmatch(r"\d+_u32", argname):
                    if const_v is not None and argname != "L1__":
                        refuse(f"{name}: constant setter does not pass its constant")
                    if len(ptypes) != 1:
                        refuse(f"{name}: constant setter with extra parameters {ptypes[1:]}")
                    v = int(const_v) if const_v is not None else intlit(argname)
                    rows.append((name, base, f"setConst {v}", mod, const, "u32", None))
                else:
                    if len(ptypes) != 2 or argname != "P2__" or ptypes[1] not in ARG_TY:
                        refuse(f"{name}: setter does not pass its single parameter of a known type: parameters {ptypes}, passes `{argname}`")
                    rows.append((name, base, "set", mod, const, ARG_TY[ptypes[1]], None))
                continue
            m = re.fullmatch(r"if !self\.(\w+)\.(\w+)\(\) \{ return Ok\(\(\)\); \} self\.write_register\(P1__, " + REG + r", (\w+)\)", cbody)
            if m:
                if not is_set_sig:
                    refuse(f"{name}: setter with unknown signature `{sig}`")
                field, pred, mod, const, argname = m.groups()
                mod, const = reg_of(mod, const)
                if len(ptypes) != 2 or argname != "P2__" or ptypes[1] not in ARG_TY:
                    refuse(f"{name}: setter does not pass its single parameter of a known type: parameters {ptypes}, passes `{argname}`")
                rows.append((name, base, "set", mod, const, ARG_TY[ptypes[1]], guard_of(field, pred)))
                continue
            refuse(f"{name}: accessor body matches no uniform shape and is not in the HAND list of tools/gen_regmap.py:\n    {body[:300]}")

    for h in HAND:
        if h not in pub_names:
            refuse(f"{h}: listed as hand-modelled but no such public accessor exists any more")

    # ---- codecs
    nums_parse = sorted(re.findall(r"impl_parse_bytes_for_numeric!\((\w+)\);", src))
    nums_dump = sorted(re.findall(r"impl_dump_bytes_for_numeric!\((\w+)\);", src))
    for t in ("u32", "u64"):
        if nums_parse.count(t) != 1 or nums_dump.count(t) != 1:
            refuse(f"numeric codec for `{t}` missing or duplicated")
    for what, want in CODEC_BODIES.items():
        fns = trait_impls[what]
        if len(fns) != 1:
            refuse(f"`impl {what}`: expected exactly one method")
        same_fn(f"`impl {what}`", "codec", fns[0][2], fns[0][3], CODEC_SIGS[what], want)

    newtypes = []
    for t in NEWTYPES:
        fns = trait_impls[f"ParseBytes for {t}"]
        nm = re.fullmatch(r"Ok\(Self\((u\d+)::parse_bytes\(P1__\)\?\)\)", alpha(fns[0][2], fns[0][3])[0]) if len(fns) == 1 else None
        if not nm:
            refuse(f"`impl ParseBytes for {t}` is not a newtype over a numeric codec: `{fns[0][3] if fns else ''}`")
        if not re.search(r"pub\s+struct\s+" + t + r"\(" + nm.group(1) + r"\)\s*;", src):
            refuse(f"`pub struct {t}({nm.group(1)});` not found")
        newtypes.append((t, nm.group(1)))
    newtypes.sort()

    # ---- bus speed: whole body pinned, arms split at top-level commas
    fns = trait_impls["ParseBytes for u3v::BusSpeed"]
    if len(fns) != 1:
        refuse("`impl ParseBytes for u3v::BusSpeed`: expected exactly `parse_bytes`")
    gd = match_template("ParseBytes for u3v::BusSpeed", fns[0][2], fns[0][3])
    speeds = arms_of("ParseBytes for u3v::BusSpeed", gd["ARMS"])

    # ---- capability / configuration bits
    capbits, cfgops = [], []
    for st in ("DeviceCapability", "U3VCapablitiy", "DeviceConfiguration"):
        for vis, fn, sig, body in inherent[st]:
            if vis == "private" and occurrences(src, fn) == 0:
                ignored.append(f"{st}.{fn}")
                continue
            if vis != "pub":
                refuse(f"{st}.{fn}: non-public method that is used in the file (visibility {vis}); the model does not know it")
            m = re.fullmatch(r"is_bit_set!\(&?self\.0, (\d+)_i32\)", body)
            if m and sig == f"fn {fn}(self) -> bool":
                capbits.append((st, fn, int(m.group(1))))
                continue
            m = re.fullmatch(r"(set_bit|unset_bit)!\(self\.0, (\d+)_i32\)", body)
            if m and st == "DeviceConfiguration" and sig == f"fn {fn}(&mut self)":
                cfgops.append((fn, m.group(1), int(m.group(2))))
                continue
            refuse(f"{st}.{fn}: not an `is_bit_set!/set_bit!/unset_bit!(self.0, N_i32)` method: `{sig}` `{body}`")

    # ---- GenICamFileInfo: bodies pinned
    enums = {}
    for vis, fn, sig, body in inherent["GenICamFileInfo"]:
        name = f"GenICamFileInfo.{fn}"
        if vis == "private" and occurrences(src, fn) == 0:
            ignored.append(name)
            continue
        if name not in DECODER_TEMPLATES or vis != "pub":
            refuse(f"{name}: unknown method (visibility {vis}); teach the model")
        gd = match_template(name, sig, body)
        fields += fields_of(name, gd)
        if fn in ("file_type", "compression_type"):
            enums[fn] = arms_of(name, gd["ARMS"])
    for fn in ("file_type", "compression_type", "schema_version"):
        if fn not in [f[1] for f in inherent["GenICamFileInfo"]]:
            refuse(f"GenICamFileInfo.{fn} missing")

    # ---- setter/getter pairs
    names = {r[0]: r for r in rows}
    pairs = []
    for r in rows:
        st, fn = r[0].split(".")
        if r[2] == "set" and fn.startswith("set_"):
            g = f"{st}.{fn[4:]}"
            if g not in names or names[g][2] != "get":
                refuse(f"{r[0]}: no paired getter `{g}`")
            pairs.append((r[0], g))
    for s, g in EXTRA_PAIRS:
        if s not in names or g not in names:
            refuse(f"pair {s} / {g}: accessor missing")
        pairs.append((s, g))
    for r in rows:
        if r[2] != "get" and not r[0].endswith("set_timestamp_latch_bit") and r[0] not in [p[0] for p in pairs]:
            refuse(f"{r[0]}: setter without a paired getter (extend EXTRA_PAIRS or the model)")
    pairs.sort()

    return dict(rows=rows, hand=hand, fields=fields, newtypes=newtypes, speeds=speeds, capbits=capbits,
                cfgops=cfgops, enums=enums, pairs=pairs, ignored=ignored)


# --------------------------------------------------------------------------- emit

def lstr(s):
    return '"' + s + '"'


def emit(tables, acc, hashes):
    o = []
    w = o.append
    w("/-")
    w("GENERATED by tools/gen_regmap.py from /repo — do not edit; re-emitted on every `./check C13`.")
    for k, v in hashes.items():
        w(f"  source {k} sha256 {v}")
    if acc["ignored"]:
        w("  unused private functions accepted without a model (dead code): " + ", ".join(acc["ignored"]))
    w("-/")
    w("import CamVerif.Model.RegMapTypes")
    w("namespace CamVerif.Gen.RegMap")
    w("open CamVerif.RegMap")
    w("")
    lean_name = {"abrm": "abrm", "sbrm": "sbrm", "eirm": "eirm", "sirm": "sirm", "manifest_entry": "manifestEntry"}
    for mod in TABLE_MODULES:
        w(f"/-- `device/src/u3v/register_map.rs`, `pub mod {mod}`: (constant, offset, length) -/")
        w(f"def {lean_name[mod]} : List (String × Nat × Nat) := [")
        w(",\n".join(f"  ({lstr(n)}, 0x{off:04X}, {ln})" for n, off, ln in tables[mod]))
        w("]")
        w("")
    w("/-- register module name ↦ its table -/")
    w("def tables : List (String × List (String × Nat × Nat)) := [")
    w(",\n".join(f"  ({lstr(mod)}, {lean_name[mod]})" for mod in TABLE_MODULES))
    w("]")
    w("")
    w("/-- accessors with a uniform body, and the single-register decoders of the HAND list -/")
    w("def accessors : List Row := [")
    rows = []
    for name, base, kind, mod, const, ty, guard in acc["rows"]:
        g = "none" if guard is None else f"some ({lstr(guard[0])}, {lstr(guard[1])})"
        k = f".{kind}" if not kind.startswith("setConst") else f"(.{kind})"
        rows.append(f"  ⟨{lstr(name)}, .{base}, {k}, {lstr(mod)}, {lstr(const)}, .{ty}, {g}⟩")
    w(",\n".join(rows))
    w("]")
    w("")
    w("/-- structural accessors modelled by hand: (name, register constants referenced, accessors called) -/")
    w("def handModelled : List (String × List (String × String) × List String) := [")
    w(",\n".join("  (" + lstr(n) + ", [" + ", ".join(f"({lstr(a)}, {lstr(b)})" for a, b in regs) + "], [" + ", ".join(lstr(c) for c in calls) + "])"
                 for n, base, regs, calls in acc["hand"]))
    w("]")
    w("")
    w("/-- capability predicates: (struct, predicate, bit tested by `is_bit_set!`) -/")
    w("def capBits : List (String × String × Nat) := [")
    w(",\n".join(f"  ({lstr(a)}, {lstr(b)}, {c})" for a, b, c in acc["capbits"] if a != "DeviceConfiguration"))
    w("]")
    w("")
    w("/-- `DeviceConfiguration` bit tests (struct, predicate, bit) -/")
    w("def cfgBits : List (String × String × Nat) := [")
    w(",\n".join(f"  ({lstr(a)}, {lstr(b)}, {c})" for a, b, c in acc["capbits"] if a == "DeviceConfiguration"))
    w("]")
    w("")
    w("/-- `DeviceConfiguration` mutators: (method, `set_bit`/`unset_bit`, bit) -/")
    w("def cfgOps : List (String × String × Nat) := [")
    w(",\n".join(f"  ({lstr(a)}, {lstr(b)}, {c})" for a, b, c in acc["cfgops"]))
    w("]")
    w("")
    w("/-- bit fields of the hand-modelled decoders: (function, field, shift, mask); a field")
    w("without `& mask` in the source (a plain `raw >> s` on a u32) gets the mask of the bits")
    w("that can be set after the shift, `0xFFFF_FFFF >> s` -/")
    w("def bitFields : List (String × String × Nat × Nat) := [")
    w(",\n".join(f"  ({lstr(f)}, {lstr(v)}, {s}, 0x{((0xFFFFFFFF >> s) if m is None else m):X})" for f, v, s, m in acc["fields"]))
    w("]")
    w("")
    w("/-- `impl ParseBytes for u3v::BusSpeed`: raw value ↦ variant; anything else is `InvalidDevice` -/")
    w("def busSpeed : List (Nat × String) := [" + ", ".join(f"({a}, {lstr(b)})" for a, b in acc["speeds"]) + "]")
    w("")
    w("/-- `GenICamFileInfo::file_type` arms -/")
    w("def fileType : List (Nat × String) := [" + ", ".join(f"({a}, {lstr(b)})" for a, b in acc["enums"]["file_type"]) + "]")
    w("")
    w("/-- `GenICamFileInfo::compression_type` arms -/")
    w("def compressionType : List (Nat × String) := [" + ", ".join(f"({a}, {lstr(b)})" for a, b in acc["enums"]["compression_type"]) + "]")
    w("")
    w("/-- `ParseBytes` newtypes: (type, underlying numeric codec) -/")
    w("def newtypes : List (String × String) := [" + ", ".join(f"({lstr(a)}, {lstr(b)})" for a, b in acc["newtypes"]) + "]")
    w("")
    w("/-- setter ↦ getter that reads the same register back -/")
    w("def pairs : List (String × String) := [")
    w(",\n".join(f"  ({lstr(a)}, {lstr(b)})" for a, b in acc["pairs"]))
    w("]")
    w("")
    w("end CamVerif.Gen.RegMap")
    return "\n".join(o) + "\n"


def main():
    a = sys.argv[1:]
    repo = a[a.index("--repo") + 1] if "--repo" in a else os.environ.get("VERIF_REPO", "/repo")
    out = a[a.index("--out") + 1] if "--out" in a else os.path.join(ROOT, "lean", "CamVerif", "Gen", "RegMap.lean")
    srcs = {"device/src/u3v/register_map.rs": None, "cameleon/src/u3v/register_map.rs": None}
    try:
        hashes = {}
        for k in srcs:
            with open(os.path.join(repo, k)) as f:
                srcs[k] = f.read()
            hashes[k] = hashlib.sha256(srcs[k].encode()).hexdigest()[:16]
        tables = parse_tables(srcs["device/src/u3v/register_map.rs"])
        acc = parse_accessors(srcs["cameleon/src/u3v/register_map.rs"], tables)
        text = emit(tables, acc, hashes)
    except (Refuse, OSError) as e:
        msg = f"gen_regmap: REFUSED: {e}"
        print(msg, file=sys.stderr)
        if "--check" not in a:
            # never keep a stale Gen file: leave one that cannot be elaborated
            os.makedirs(os.path.dirname(out), exist_ok=True)
            with open(out, "w") as f:
                f.write("/- gen_regmap.py refused the current /repo sources:\n" + msg.replace("-/", "- /") + "\n-/\n"
                        "#eval (throw (IO.userError \"CamVerif.Gen.RegMap: generator refused the source, see comment above\") : IO Unit)\n"
                        "theorem CamVerif.Gen.RegMap.generator_refused : False := by decide\n")
        return 2
    if "--check" in a:
        cur = open(out).read() if os.path.exists(out) else ""
        print("gen_regmap: up to date" if cur == text else "gen_regmap: Gen/RegMap.lean differs from the source")
        return 0 if cur == text else 1
    os.makedirs(os.path.dirname(out), exist_ok=True)
    cur = open(out).read() if os.path.exists(out) else None
    if cur != text:          # keep the mtime when nothing changed (no needless rebuild)
        with open(out, "w") as f:
            f.write(text)
    for k, v in hashes.items():
        print(f"HASH {k} {v}")
    print(f"gen_regmap: {len(acc['rows'])} accessor rows, {len(acc['hand'])} hand-modelled, "
          f"{sum(len(t) for t in tables.values())} register constants -> {os.path.relpath(out, ROOT)}"
          + ("" if cur != text else " (unchanged)"))
    return 0


if __name__ == "__main__":
    sys.exit(main())
