# generates CamVerif/Proofs/C03Total.lean (totality: no helper invents `outOfFuel`)
import re
src=open('/verif/tools/c03_gen_fuel.py').read()
table=src[src.index('SON="ImmOrPNode SlotId"'):src.index("TAIL=")]
exec(table)
fields_r=["intValue","intMin","intMax","intInc","intIsReadable","intIsWritable","floatValue","floatMin","floatMax","floatInc","floatIsReadable","floatIsWritable","strValue","strMaxLength","strIsReadable","strIsWritable","boolValue","boolIsReadable","boolIsWritable","enumCurrentValue","enumCurrentEntry","enumIsReadable","enumIsWritable"]
fields_m=["intSet","floatSet","strSet","boolSet","enumSetByValue"]
ftype={"intValue":"Int","intMin":"Int","intMax":"Int","intInc":"(Option Int)","floatValue":"F","floatMin":"F","floatMax":"F","floatInc":"(Option F)","strValue":"Bytes","strMaxLength":"Int","boolValue":"Bool","enumCurrentValue":"Int","enumCurrentEntry":"NodeId"}
margs={"intSet":"Int","floatSet":"F","strSet":"Bytes","boolSet":"Bool","enumSetByValue":"Int"}
alts="\n      | ".join([f"exact ($h).{f} _" for f in fields_r]+[f"exact ($h).{f} _ _" for f in fields_m])
opsf=["intFromSlice _ _ _","bytesFromInt _ _ _ _","floatFromSlice _ _","bytesFromFloat _ _ _","applyMask _ _ _ _ _ _","maskedValue _ _ _ _ _ _ _","maskMin _ _ _ _ _","maskMax _ _ _ _ _","eval _ _ _"]
opalts="\n      | ".join([f"exact RT.ofRes (($o).{f.split()[0]} {' '.join(f.split()[1:])})" for f in opsf]+[f"exact MT.ofRes (($o).{f.split()[0]} {' '.join(f.split()[1:])})" for f in opsf])
out='''/-
C03 helper lemmas for termination: no dispatch function invents `outOfFuel` — if every
interface call available for referenced nodes is total (never answers `outOfFuel`) and the
helper layers `Ops` never answer `outOfFuel`, then so is one more unfolding.  Generated
per helper; the proofs are by the tactic `rt_auto`.
-/
import CamVerif.Proofs.GenApiLemmas
namespace CamVerif.C03
open CamVerif CamVerif.GenApi

variable {F E α β : Type}

/-- never answers `outOfFuel` -/
structure RT (m : R F α) : Prop where
  ne : ∀ s, (m s).1 ≠ .err .outOfFuel
structure MT (m : M F α) : Prop where
  ne : ∀ s, (m s).1 ≠ .err .outOfFuel

theorem RT.pure (a : α) : RT (Pure.pure a : R F α) := ⟨fun _ h => by cases h⟩
theorem MT.pure (a : α) : MT (Pure.pure a : M F α) := ⟨fun _ h => by cases h⟩
theorem RT.err {e : Err} (h : e ≠ .outOfFuel) : RT (R.err e : R F α) := ⟨fun _ h' => h (by injection h')⟩
theorem MT.err {e : Err} (h : e ≠ .outOfFuel) : MT (M.err e : M F α) := ⟨fun _ h' => h (by injection h')⟩
theorem RT.panic : RT (R.panic : R F α) := ⟨fun _ h => by cases h⟩
theorem MT.panic : MT (M.panic : M F α) := ⟨fun _ h => by cases h⟩
theorem RT.ofRes {x : Res Err α} (h : x ≠ .err .outOfFuel) : RT (R.ofRes x : R F α) := ⟨fun _ => h⟩
theorem MT.ofRes {x : Res Err α} (h : x ≠ .err .outOfFuel) : MT (M.ofRes x : M F α) := ⟨fun _ => h⟩

theorem RT.bind {m : R F α} {f : α → R F β} (hm : RT m) (hf : ∀ a, RT (f a)) : RT (m >>= f) := by
  constructor
  intro s
  show (R.bind m f s).1 ≠ _
  unfold R.bind
  have h1 := hm.ne s
  cases hms : m s with
  | mk r l =>
    rw [hms] at h1
    cases r with
    | ok a =>
      simp only
      have := (hf a).ne s
      cases hfa : f a s
      rw [hfa] at this
      exact this
    | err e => simpa using h1
    | panic => simp

theorem MT.bind {m : M F α} {f : α → M F β} (hm : MT m) (hf : ∀ a, MT (f a)) : MT (m >>= f) := by
  constructor
  intro s
  show (M.bind m f s).1 ≠ _
  unfold M.bind
  have h1 := hm.ne s
  cases hms : m s with
  | mk r rest =>
    obtain ⟨s', l⟩ := rest
    rw [hms] at h1
    cases r with
    | ok a =>
      simp only
      have := (hf a).ne s'
      cases hfa : f a s' with
      | mk r2 rest2 =>
        obtain ⟨s2, l2⟩ := rest2
        rw [hfa] at this
        exact this
    | err e => simpa using h1
    | panic => simp

theorem MT.ofR {m : R F α} (hm : RT m) : MT (M.ofR m) := by
  constructor
  intro s
  unfold M.ofR
  have := hm.ne s
  cases hms : m s
  rw [hms] at this
  exact this

/-- the helper layers never answer `outOfFuel` (it is a model-only error) -/
structure OpsTotal (ops : Ops F E) : Prop where
  intFromSlice : ∀ a b c, ops.intFromSlice a b c ≠ .err .outOfFuel
  bytesFromInt : ∀ a b c d, ops.bytesFromInt a b c d ≠ .err .outOfFuel
  floatFromSlice : ∀ a b, ops.floatFromSlice a b ≠ .err .outOfFuel
  bytesFromFloat : ∀ a b c, ops.bytesFromFloat a b c ≠ .err .outOfFuel
  applyMask : ∀ a b c d e f, ops.applyMask a b c d e f ≠ .err .outOfFuel
  maskedValue : ∀ a b c d e f g, ops.maskedValue a b c d e f g ≠ .err .outOfFuel
  maskMin : ∀ a b c d e, ops.maskMin a b c d e ≠ .err .outOfFuel
  maskMax : ∀ a b c d e, ops.maskMax a b c d e ≠ .err .outOfFuel
  eval : ∀ a b c, ops.eval a b c ≠ .err .outOfFuel

theorem addI64_ne (p : Profile) (a b : Int) : addI64 p a b ≠ .err .outOfFuel := by
  unfold addI64; split <;> (try split) <;> intro h <;> cases h
theorem mulI64_ne (p : Profile) (a b : Int) : mulI64 p a b ≠ .err .outOfFuel := by
  unfold mulI64; split <;> (try split) <;> intro h <;> cases h
theorem allocLen_ne (l : Int) : allocLen l ≠ .err .outOfFuel := by
  unfold allocLen; split <;> intro h <;> cases h
theorem ofParts_ne (ps : List String) : VarKind.ofParts ps ≠ .err .outOfFuel := by
  unfold VarKind.ofParts; repeat' split
  all_goals intro h; cases h
theorem ofName_ne (s : String) : VarKind.ofName s ≠ .err .outOfFuel := ofParts_ne _
theorem findEntryByValue_ne (cx : Ctx F E) (es : List NodeId) (v : Int) :
    findEntryByValue cx es v ≠ .err .outOfFuel := by
  induction es with
  | nil => intro h; cases h
  | cons e es ih =>
    unfold findEntryByValue
    split
    · split
      · intro h; cases h
      · exact ih
    · intro h; cases h
theorem entryValueBySymbolic_ne (cx : Ctx F E) (es : List NodeId) (nm : String) :
    entryValueBySymbolic cx es nm ≠ .err .outOfFuel := by
  induction es with
  | nil => intro h; cases h
  | cons e es ih =>
    unfold entryValueBySymbolic
    split
    · split
      · intro h; cases h
      · exact ih
    · intro h; cases h

theorem slotIntegerValue_rt (cx : Ctx F E) (id : SlotId) : RT (slotIntegerValue cx id) := by
  constructor; intro s; unfold slotIntegerValue; split <;> intro h <;> cases h
theorem slotFloatValue_rt (cx : Ctx F E) (id : SlotId) : RT (slotFloatValue cx id) := by
  constructor; intro s; unfold slotFloatValue; split <;> intro h <;> cases h
theorem slotStrValue_rt (id : SlotId) : RT (slotStrValue (F := F) id) := by
  constructor; intro s; unfold slotStrValue; split <;> intro h <;> cases h
theorem intIdValue_rt (cx : Ctx F E) (id : SlotId) : RT (intIdValue cx id) := slotIntegerValue_rt cx id
theorem floatIdValue_rt (cx : Ctx F E) (id : SlotId) : RT (floatIdValue cx id) := slotFloatValue_rt cx id
theorem slotUpdate_mt (id : SlotId) (v : ValueData F) : MT (slotUpdate id v) := by
  constructor; intro s h; cases h
theorem portRead_rt (cx : Ctx F E) (port : NodeId) (a : Int) (len : Nat) : RT (portRead cx port a len) := by
  constructor; intro s; unfold portRead
  generalize cx.graph port = g
  cases g with
  | none => intro h; cases h
  | some nd =>
    cases nd <;> try (intro h; cases h; done)
    rename_i b chunk
    cases chunk
    · show (match s.dev.read a len with
        | some bs => ((Res.ok bs : Res Err Bytes), [Access.read a len true])
        | none => (Res.err Err.device, [Access.read a len false])).1 ≠ _
      split <;> intro h <;> cases h
    · intro h; cases h
theorem portWrite_mt (cx : Ctx F E) (port : NodeId) (a : Int) (data : Bytes) : MT (portWrite cx port a data) := by
  constructor; intro s; unfold portWrite
  generalize cx.graph port = g
  cases g with
  | none => intro h; cases h
  | some nd =>
    cases nd <;> try (intro h; cases h; done)
    rename_i b chunk
    cases chunk
    · show (match s.dev.write a data with
        | some d => ((Res.ok () : Res Err Unit), ({ s with dev := d } : S F), [Access.write a data true])
        | none => (Res.err Err.device, s, [Access.write a data false])).1 ≠ _
      split <;> intro h <;> cases h
    · intro h; cases h
theorem readAndCache_rt (cx : Ctx F E) (rb : RegBase) (a l : Int) (n : Nat) : RT (readAndCache cx rb a l n) := by
  unfold readAndCache; split
  · exact RT.err (by decide)
  · exact portRead_rt _ _ _ _
theorem entryNumeric_rt (cx : Ctx F E) (e : NodeId) : RT (entryNumeric cx e) := by
  unfold entryNumeric
  split
  · split <;> exact RT.pure _
  · exact RT.panic
theorem enumEntriesF_rt (cx : Ctx F E) (n : NodeId) : RT (enumEntriesF cx n) := by
  unfold enumEntriesF; split
  · exact RT.pure _
  · exact RT.err (by decide)

/-- every interface call, on every node, never answers `outOfFuel` -/
structure TotalRec (r : Rec F) : Prop where
'''
for f in fields_r: out+=f"  {f} : ∀ n, RT (r.{f} n)\n"
for f in fields_m: out+=f"  {f} : ∀ n v, MT (r.{f} n v)\n"
out+=f'''
/- `rt_auto h o [lemmas]`: decomposes totality goals. -/
open Lean in
syntax "rt_auto " ident ident (" [" term,* "]")? : tactic
open Lean in
macro_rules
  | `(tactic| rt_auto $h:ident $o:ident) => `(tactic| rt_auto $h $o [])
  | `(tactic| rt_auto $h:ident $o:ident [$ts,*]) => do
    let mut alts : Array (TSyntax `tactic) := #[← `(tactic| fail "no lemma applies")]
    for t in ts.getElems do
      alts := alts.push (← `(tactic| exact $t $h $o _))
      alts := alts.push (← `(tactic| exact $t $h $o _ _))
      alts := alts.push (← `(tactic| exact $t $h $o _ _ _))
      alts := alts.push (← `(tactic| exact $t $h $o _ _ _ _))
      alts := alts.push (← `(tactic| exact $t $h $o _ _ _ _ _))
      alts := alts.push (← `(tactic| exact $t $h $o))
    `(tactic|
      repeat' (first
      | exact RT.pure _ | exact MT.pure _ | exact RT.panic | exact MT.panic
      | exact RT.err (by decide) | exact MT.err (by decide)
      | {alts}
      | exact intIdValue_rt _ _ | exact floatIdValue_rt _ _ | exact slotStrValue_rt _ | exact slotUpdate_mt _ _
      | exact slotIntegerValue_rt _ _ | exact slotFloatValue_rt _ _
      | exact portRead_rt _ _ _ _ | exact portWrite_mt _ _ _ _ | exact readAndCache_rt _ _ _ _ _
      | exact entryNumeric_rt _ _
      | exact RT.ofRes (addI64_ne _ _ _) | exact RT.ofRes (mulI64_ne _ _ _) | exact RT.ofRes (allocLen_ne _)
      | exact MT.ofRes (allocLen_ne _) | exact RT.ofRes (ofName_ne _)
      | exact RT.ofRes (findEntryByValue_ne _ _ _) | exact MT.ofRes (findEntryByValue_ne _ _ _)
      | exact RT.ofRes (entryValueBySymbolic_ne _ _ _) | exact MT.ofRes (entryValueBySymbolic_ne _ _ _)
      | {opalts}
      | exact RT.ofRes (by intro hh; cases hh)
      | (first $[| $alts:tactic]*)
      | apply RT.bind | apply MT.bind | apply MT.ofR
      | intro _
      | split))

section
variable {{cx : Ctx F E}} {{r : Rec F}}

'''
ACYC='\n/-! ### acyclicity vocabulary -/\n\n/-- two records of interface calls coincide on node `p` -/\nstructure AgreeAt (r1 r2 : Rec F) (p : NodeId) : Prop where\n  intValue : r1.intValue p = r2.intValue p\n  intMin : r1.intMin p = r2.intMin p\n  intMax : r1.intMax p = r2.intMax p\n  intInc : r1.intInc p = r2.intInc p\n  intIsReadable : r1.intIsReadable p = r2.intIsReadable p\n  intIsWritable : r1.intIsWritable p = r2.intIsWritable p\n  floatValue : r1.floatValue p = r2.floatValue p\n  floatMin : r1.floatMin p = r2.floatMin p\n  floatMax : r1.floatMax p = r2.floatMax p\n  floatInc : r1.floatInc p = r2.floatInc p\n  floatIsReadable : r1.floatIsReadable p = r2.floatIsReadable p\n  floatIsWritable : r1.floatIsWritable p = r2.floatIsWritable p\n  strValue : r1.strValue p = r2.strValue p\n  strMaxLength : r1.strMaxLength p = r2.strMaxLength p\n  strIsReadable : r1.strIsReadable p = r2.strIsReadable p\n  strIsWritable : r1.strIsWritable p = r2.strIsWritable p\n  boolValue : r1.boolValue p = r2.boolValue p\n  boolIsReadable : r1.boolIsReadable p = r2.boolIsReadable p\n  boolIsWritable : r1.boolIsWritable p = r2.boolIsWritable p\n  enumCurrentValue : r1.enumCurrentValue p = r2.enumCurrentValue p\n  enumCurrentEntry : r1.enumCurrentEntry p = r2.enumCurrentEntry p\n  enumIsReadable : r1.enumIsReadable p = r2.enumIsReadable p\n  enumIsWritable : r1.enumIsWritable p = r2.enumIsWritable p\n  intSet : r1.intSet p = r2.intSet p\n  floatSet : r1.floatSet p = r2.floatSet p\n  strSet : r1.strSet p = r2.strSet p\n  boolSet : r1.boolSet p = r2.boolSet p\n  enumSetByValue : r1.enumSetByValue p = r2.enumSetByValue p\n\n/-- the interface calls on node `p` never answer `outOfFuel` -/\nstructure TotalAt (r : Rec F) (p : NodeId) : Prop where\n  intValue : RT (r.intValue p)\n  intMin : RT (r.intMin p)\n  intMax : RT (r.intMax p)\n  intInc : RT (r.intInc p)\n  intIsReadable : RT (r.intIsReadable p)\n  intIsWritable : RT (r.intIsWritable p)\n  floatValue : RT (r.floatValue p)\n  floatMin : RT (r.floatMin p)\n  floatMax : RT (r.floatMax p)\n  floatInc : RT (r.floatInc p)\n  floatIsReadable : RT (r.floatIsReadable p)\n  floatIsWritable : RT (r.floatIsWritable p)\n  strValue : RT (r.strValue p)\n  strMaxLength : RT (r.strMaxLength p)\n  strIsReadable : RT (r.strIsReadable p)\n  strIsWritable : RT (r.strIsWritable p)\n  boolValue : RT (r.boolValue p)\n  boolIsReadable : RT (r.boolIsReadable p)\n  boolIsWritable : RT (r.boolIsWritable p)\n  enumCurrentValue : RT (r.enumCurrentValue p)\n  enumCurrentEntry : RT (r.enumCurrentEntry p)\n  enumIsReadable : RT (r.enumIsReadable p)\n  enumIsWritable : RT (r.enumIsWritable p)\n  intSet : ∀ v, MT (r.intSet p v)\n  floatSet : ∀ v, MT (r.floatSet p v)\n  strSet : ∀ v, MT (r.strSet p v)\n  boolSet : ∀ v, MT (r.boolSet p v)\n  enumSetByValue : ∀ v, MT (r.enumSetByValue p v)\n\n/-- `r` on the nodes selected by `ok`, a fixed non-`outOfFuel` answer elsewhere -/\ndef patchRec (ok : NodeId → Bool) (r : Rec F) : Rec F where\n  intValue p := if ok p then r.intValue p else R.err .invalidNode\n  intMin p := if ok p then r.intMin p else R.err .invalidNode\n  intMax p := if ok p then r.intMax p else R.err .invalidNode\n  intInc p := if ok p then r.intInc p else R.err .invalidNode\n  intIsReadable p := if ok p then r.intIsReadable p else R.err .invalidNode\n  intIsWritable p := if ok p then r.intIsWritable p else R.err .invalidNode\n  floatValue p := if ok p then r.floatValue p else R.err .invalidNode\n  floatMin p := if ok p then r.floatMin p else R.err .invalidNode\n  floatMax p := if ok p then r.floatMax p else R.err .invalidNode\n  floatInc p := if ok p then r.floatInc p else R.err .invalidNode\n  floatIsReadable p := if ok p then r.floatIsReadable p else R.err .invalidNode\n  floatIsWritable p := if ok p then r.floatIsWritable p else R.err .invalidNode\n  strValue p := if ok p then r.strValue p else R.err .invalidNode\n  strMaxLength p := if ok p then r.strMaxLength p else R.err .invalidNode\n  strIsReadable p := if ok p then r.strIsReadable p else R.err .invalidNode\n  strIsWritable p := if ok p then r.strIsWritable p else R.err .invalidNode\n  boolValue p := if ok p then r.boolValue p else R.err .invalidNode\n  boolIsReadable p := if ok p then r.boolIsReadable p else R.err .invalidNode\n  boolIsWritable p := if ok p then r.boolIsWritable p else R.err .invalidNode\n  enumCurrentValue p := if ok p then r.enumCurrentValue p else R.err .invalidNode\n  enumCurrentEntry p := if ok p then r.enumCurrentEntry p else R.err .invalidNode\n  enumIsReadable p := if ok p then r.enumIsReadable p else R.err .invalidNode\n  enumIsWritable p := if ok p then r.enumIsWritable p else R.err .invalidNode\n  intSet p v := if ok p then r.intSet p v else M.err .invalidNode\n  floatSet p v := if ok p then r.floatSet p v else M.err .invalidNode\n  strSet p v := if ok p then r.strSet p v else M.err .invalidNode\n  boolSet p v := if ok p then r.boolSet p v else M.err .invalidNode\n  enumSetByValue p v := if ok p then r.enumSetByValue p v else M.err .invalidNode\n\ntheorem patch_total {ok : NodeId → Bool} {r : Rec F} (h : ∀ p, ok p = true → TotalAt r p) :\n    TotalRec (patchRec ok r) where\n  intValue := fun p => by\n    unfold patchRec; dsimp only; split\n    · rename_i hp; exact (h p hp).intValue\n    · exact RT.err (by decide)\n  intMin := fun p => by\n    unfold patchRec; dsimp only; split\n    · rename_i hp; exact (h p hp).intMin\n    · exact RT.err (by decide)\n  intMax := fun p => by\n    unfold patchRec; dsimp only; split\n    · rename_i hp; exact (h p hp).intMax\n    · exact RT.err (by decide)\n  intInc := fun p => by\n    unfold patchRec; dsimp only; split\n    · rename_i hp; exact (h p hp).intInc\n    · exact RT.err (by decide)\n  intIsReadable := fun p => by\n    unfold patchRec; dsimp only; split\n    · rename_i hp; exact (h p hp).intIsReadable\n    · exact RT.err (by decide)\n  intIsWritable := fun p => by\n    unfold patchRec; dsimp only; split\n    · rename_i hp; exact (h p hp).intIsWritable\n    · exact RT.err (by decide)\n  floatValue := fun p => by\n    unfold patchRec; dsimp only; split\n    · rename_i hp; exact (h p hp).floatValue\n    · exact RT.err (by decide)\n  floatMin := fun p => by\n    unfold patchRec; dsimp only; split\n    · rename_i hp; exact (h p hp).floatMin\n    · exact RT.err (by decide)\n  floatMax := fun p => by\n    unfold patchRec; dsimp only; split\n    · rename_i hp; exact (h p hp).floatMax\n    · exact RT.err (by decide)\n  floatInc := fun p => by\n    unfold patchRec; dsimp only; split\n    · rename_i hp; exact (h p hp).floatInc\n    · exact RT.err (by decide)\n  floatIsReadable := fun p => by\n    unfold patchRec; dsimp only; split\n    · rename_i hp; exact (h p hp).floatIsReadable\n    · exact RT.err (by decide)\n  floatIsWritable := fun p => by\n    unfold patchRec; dsimp only; split\n    · rename_i hp; exact (h p hp).floatIsWritable\n    · exact RT.err (by decide)\n  strValue := fun p => by\n    unfold patchRec; dsimp only; split\n    · rename_i hp; exact (h p hp).strValue\n    · exact RT.err (by decide)\n  strMaxLength := fun p => by\n    unfold patchRec; dsimp only; split\n    · rename_i hp; exact (h p hp).strMaxLength\n    · exact RT.err (by decide)\n  strIsReadable := fun p => by\n    unfold patchRec; dsimp only; split\n    · rename_i hp; exact (h p hp).strIsReadable\n    · exact RT.err (by decide)\n  strIsWritable := fun p => by\n    unfold patchRec; dsimp only; split\n    · rename_i hp; exact (h p hp).strIsWritable\n    · exact RT.err (by decide)\n  boolValue := fun p => by\n    unfold patchRec; dsimp only; split\n    · rename_i hp; exact (h p hp).boolValue\n    · exact RT.err (by decide)\n  boolIsReadable := fun p => by\n    unfold patchRec; dsimp only; split\n    · rename_i hp; exact (h p hp).boolIsReadable\n    · exact RT.err (by decide)\n  boolIsWritable := fun p => by\n    unfold patchRec; dsimp only; split\n    · rename_i hp; exact (h p hp).boolIsWritable\n    · exact RT.err (by decide)\n  enumCurrentValue := fun p => by\n    unfold patchRec; dsimp only; split\n    · rename_i hp; exact (h p hp).enumCurrentValue\n    · exact RT.err (by decide)\n  enumCurrentEntry := fun p => by\n    unfold patchRec; dsimp only; split\n    · rename_i hp; exact (h p hp).enumCurrentEntry\n    · exact RT.err (by decide)\n  enumIsReadable := fun p => by\n    unfold patchRec; dsimp only; split\n    · rename_i hp; exact (h p hp).enumIsReadable\n    · exact RT.err (by decide)\n  enumIsWritable := fun p => by\n    unfold patchRec; dsimp only; split\n    · rename_i hp; exact (h p hp).enumIsWritable\n    · exact RT.err (by decide)\n  intSet := fun p v => by\n    unfold patchRec; dsimp only; split\n    · rename_i hp; exact (h p hp).intSet v\n    · exact MT.err (by decide)\n  floatSet := fun p v => by\n    unfold patchRec; dsimp only; split\n    · rename_i hp; exact (h p hp).floatSet v\n    · exact MT.err (by decide)\n  strSet := fun p v => by\n    unfold patchRec; dsimp only; split\n    · rename_i hp; exact (h p hp).strSet v\n    · exact MT.err (by decide)\n  boolSet := fun p v => by\n    unfold patchRec; dsimp only; split\n    · rename_i hp; exact (h p hp).boolSet v\n    · exact MT.err (by decide)\n  enumSetByValue := fun p v => by\n    unfold patchRec; dsimp only; split\n    · rename_i hp; exact (h p hp).enumSetByValue v\n    · exact MT.err (by decide)\n\ntheorem patch_agree {ok : NodeId → Bool} (r : Rec F) {p : NodeId} (hp : ok p = true) :\n    AgreeAt r (patchRec ok r) p where\n  intValue := by unfold patchRec; simp [hp]\n  intMin := by unfold patchRec; simp [hp]\n  intMax := by unfold patchRec; simp [hp]\n  intInc := by unfold patchRec; simp [hp]\n  intIsReadable := by unfold patchRec; simp [hp]\n  intIsWritable := by unfold patchRec; simp [hp]\n  floatValue := by unfold patchRec; simp [hp]\n  floatMin := by unfold patchRec; simp [hp]\n  floatMax := by unfold patchRec; simp [hp]\n  floatInc := by unfold patchRec; simp [hp]\n  floatIsReadable := by unfold patchRec; simp [hp]\n  floatIsWritable := by unfold patchRec; simp [hp]\n  strValue := by unfold patchRec; simp [hp]\n  strMaxLength := by unfold patchRec; simp [hp]\n  strIsReadable := by unfold patchRec; simp [hp]\n  strIsWritable := by unfold patchRec; simp [hp]\n  boolValue := by unfold patchRec; simp [hp]\n  boolIsReadable := by unfold patchRec; simp [hp]\n  boolIsWritable := by unfold patchRec; simp [hp]\n  enumCurrentValue := by unfold patchRec; simp [hp]\n  enumCurrentEntry := by unfold patchRec; simp [hp]\n  enumIsReadable := by unfold patchRec; simp [hp]\n  enumIsWritable := by unfold patchRec; simp [hp]\n  intSet := by unfold patchRec; funext v; simp [hp]\n  floatSet := by unfold patchRec; funext v; simp [hp]\n  strSet := by unfold patchRec; funext v; simp [hp]\n  boolSet := by unfold patchRec; funext v; simp [hp]\n  enumSetByValue := by unfold patchRec; funext v; simp [hp]\n\ntheorem TotalAt.of_agree {r1 r2 : Rec F} {p : NodeId} (h : AgreeAt r1 r2 p) (ht : TotalAt r2 p) :\n    TotalAt r1 p where\n  intValue := by rw [h.intValue]; exact ht.intValue\n  intMin := by rw [h.intMin]; exact ht.intMin\n  intMax := by rw [h.intMax]; exact ht.intMax\n  intInc := by rw [h.intInc]; exact ht.intInc\n  intIsReadable := by rw [h.intIsReadable]; exact ht.intIsReadable\n  intIsWritable := by rw [h.intIsWritable]; exact ht.intIsWritable\n  floatValue := by rw [h.floatValue]; exact ht.floatValue\n  floatMin := by rw [h.floatMin]; exact ht.floatMin\n  floatMax := by rw [h.floatMax]; exact ht.floatMax\n  floatInc := by rw [h.floatInc]; exact ht.floatInc\n  floatIsReadable := by rw [h.floatIsReadable]; exact ht.floatIsReadable\n  floatIsWritable := by rw [h.floatIsWritable]; exact ht.floatIsWritable\n  strValue := by rw [h.strValue]; exact ht.strValue\n  strMaxLength := by rw [h.strMaxLength]; exact ht.strMaxLength\n  strIsReadable := by rw [h.strIsReadable]; exact ht.strIsReadable\n  strIsWritable := by rw [h.strIsWritable]; exact ht.strIsWritable\n  boolValue := by rw [h.boolValue]; exact ht.boolValue\n  boolIsReadable := by rw [h.boolIsReadable]; exact ht.boolIsReadable\n  boolIsWritable := by rw [h.boolIsWritable]; exact ht.boolIsWritable\n  enumCurrentValue := by rw [h.enumCurrentValue]; exact ht.enumCurrentValue\n  enumCurrentEntry := by rw [h.enumCurrentEntry]; exact ht.enumCurrentEntry\n  enumIsReadable := by rw [h.enumIsReadable]; exact ht.enumIsReadable\n  enumIsWritable := by rw [h.enumIsWritable]; exact ht.enumIsWritable\n  intSet := fun v => by rw [h.intSet]; exact ht.intSet v\n  floatSet := fun v => by rw [h.floatSet]; exact ht.floatSet v\n  strSet := fun v => by rw [h.strSet]; exact ht.strSet v\n  boolSet := fun v => by rw [h.boolSet]; exact ht.boolSet v\n  enumSetByValue := fun v => by rw [h.enumSetByValue]; exact ht.enumSetByValue v\n\ntheorem TotalRec.at {r : Rec F} (h : TotalRec r) (p : NodeId) : TotalAt r p where\n  intValue := h.intValue p\n  intMin := h.intMin p\n  intMax := h.intMax p\n  intInc := h.intInc p\n  intIsReadable := h.intIsReadable p\n  intIsWritable := h.intIsWritable p\n  floatValue := h.floatValue p\n  floatMin := h.floatMin p\n  floatMax := h.floatMax p\n  floatInc := h.floatInc p\n  floatIsReadable := h.floatIsReadable p\n  floatIsWritable := h.floatIsWritable p\n  strValue := h.strValue p\n  strMaxLength := h.strMaxLength p\n  strIsReadable := h.strIsReadable p\n  strIsWritable := h.strIsWritable p\n  boolValue := h.boolValue p\n  boolIsReadable := h.boolIsReadable p\n  boolIsWritable := h.boolIsWritable p\n  enumCurrentValue := h.enumCurrentValue p\n  enumCurrentEntry := h.enumCurrentEntry p\n  enumIsReadable := h.enumIsReadable p\n  enumIsWritable := h.enumIsWritable p\n  intSet := fun v => h.intSet p v\n  floatSet := fun v => h.floatSet p v\n  strSet := fun v => h.strSet p v\n  boolSet := fun v => h.boolSet p v\n  enumSetByValue := fun v => h.enumSetByValue p v\n\n/-- the node a request addresses -/\ndef reqNode : Req F → NodeId\n  | .intValue n | .intSet n _ | .intMin n | .intMax n | .intInc n | .intSetMin n _ | .intSetMax n _\n  | .floatValue n | .floatSet n _ | .floatMin n | .floatMax n | .floatInc n | .floatSetMin n _\n  | .floatSetMax n _ | .strValue n | .strSet n _ | .strMaxLength n | .boolValue n | .boolSet n _\n  | .enumCurrentValue n | .enumCurrentEntry n | .enumSetByValue n _ | .enumSetByName n _\n  | .enumEntries n | .cmdExecute n | .cmdIsDone n | .regRead n _ | .regWrite n _ | .regAddress n\n  | .regLength n | .isReadable n | .isWritable n | .isImplemented n | .isAvailable n | .isLocked n => n\n\n/-- **Acyclicity** of a graph w.r.t. a rank function, stated semantically: what the\ninterface calls on a node answer is determined by the interface calls on nodes of strictly\nsmaller rank (a node only consults lower-ranked nodes). -/\nstructure Acyclic (cx : Ctx F E) (rank : NodeId → Nat) : Prop where\n  step : ∀ n r1 r2, (∀ p, rank p < rank n → AgreeAt r1 r2 p) → AgreeAt (step cx r1) (step cx r2) n\n  top : ∀ (req : Req F) (st : St F) r1 r2, (∀ p, rank p < rank (reqNode req) → AgreeAt r1 r2 p) →\n    top cx r1 req st = top cx r2 req st\n\n/-- with `k` levels of fuel every node of rank below `k` is total -/\ntheorem total_below {cx : Ctx F E} {rank : NodeId → Nat} (hA : Acyclic cx rank) (o : OpsTotal cx.ops) :\n    ∀ k n, rank n < k → TotalAt (execRec cx k) n\n  | 0, _, h => by omega\n  | k + 1, n, hn => by\n    have ih := total_below hA o k\n    let ok : NodeId → Bool := fun p => decide (rank p < k)\n    have ht : TotalRec (patchRec ok (execRec cx k)) :=\n      patch_total (fun p hp => ih p (by simpa [ok] using hp))\n    have hs := step_total (cx := cx) ht o\n    have ha : AgreeAt (step cx (execRec cx k)) (step cx (patchRec ok (execRec cx k))) n :=\n      hA.step n _ _ (fun p hp => patch_agree _ (by simp only [ok, decide_eq_true_eq]; omega))\n    exact TotalAt.of_agree ha (hs.at n)\n'
D={name:deps for (name,_,_,deps) in L}
def closure(name, seen=None):
    seen = seen if seen is not None else []
    for d in D[name]:
        if d not in seen:
            seen.append(d); closure(d, seen)
    return seen
for (name,mon,args,deps) in L:
    binders=" ".join(f"({a} : {t})" for a,t in args)
    argnames=" ".join(a for a,_ in args)
    t="RT" if mon=="R" else "MT"
    extra=" {α : Type}" if name=="withRead" else ""
    q = "GenApi."+name if name=="varsReadable" else name
    alld=closure(name)
    dl=", ".join(d+"_rt" for d in alld)
    fhyp=" (hf : ∀ b, f b ≠ .err .outOfFuel)" if name=="withRead" else ""
    if name in REC:
        ind,_=REC[name]
        others=[a for a,_ in args if a!=ind]
        out+=f'''theorem {name}_rt (h : TotalRec r) (o : OpsTotal cx.ops) {binders} :
    {t} ({q} cx r {argnames}) := by
  induction {ind} generalizing {" ".join(others)} with
  | nil => unfold {q}; exact {t}.pure _
  | cons x xs ih =>
    unfold {q}
    rt_auto h o [{dl}]
    all_goals first | exact ih _ | exact ih _ _

'''
    elif name=="withRead":
        out+=f'''theorem withRead_rt {{α : Type}} (h : TotalRec r) (o : OpsTotal cx.ops) (rb : RegBase) (f : Bytes → Res Err α)
    (hf : ∀ b, f b ≠ .err .outOfFuel) : RT (withRead cx r rb f) := by
  unfold withRead; rt_auto h o [{dl}]
  all_goals exact RT.ofRes (hf _)

'''
    elif name in ("intRegValue","maskedValue","floatRegValue","strRegValue","maskedSet"):
        body={
"intRegValue":"  unfold intRegValue; exact withRead_rt h o _ _ (fun _ => o.intFromSlice _ _ _)",
"floatRegValue":"  unfold floatRegValue; exact withRead_rt h o _ _ (fun _ => o.floatFromSlice _ _)",
"strRegValue":"  unfold strRegValue; exact withRead_rt h o _ _ (fun _ hh => by cases hh)",
"maskedValue":"  unfold maskedValue\n  refine RT.bind (withRead_rt h o _ _ (fun _ => o.intFromSlice _ _ _)) (fun _ => ?_)\n  rt_auto h o ["+", ".join(d+"_rt" for d in alld if d!="withRead")+"]",
"maskedSet":"  unfold maskedSet\n  refine MT.bind (MT.ofR (withRead_rt h o _ _ (fun _ => o.intFromSlice _ _ _))) (fun _ => ?_)\n  rt_auto h o ["+", ".join(d+"_rt" for d in alld if d!="withRead")+"]",
}[name]
        out+=f'''theorem {name}_rt (h : TotalRec r) (o : OpsTotal cx.ops) {binders} :
    {t} ({q} cx r {argnames}) := by
{body}

'''
    else:
        out+=f'''theorem {name}_rt{extra} (h : TotalRec r) (o : OpsTotal cx.ops) {binders} :
    {t} ({q} cx r {argnames}) := by
  unfold {q}; rt_auto h o [{dl}]

'''
out+='''/-- one unfolding of total interface calls is total -/
theorem step_total (h : TotalRec r) (o : OpsTotal cx.ops) : TotalRec (step cx r) where
'''
for f in fields_r+fields_m:
    helper={"enumCurrentValue":"enumCurrentValueF","enumCurrentEntry":"enumCurrentEntryF","enumSetByValue":"enumSetByValueF"}.get(f,f+"F")
    if f in fields_m:
        out+=f"  {f} := fun n v => {helper}_rt h o n v\n"
    else:
        out+=f"  {f} := fun n => {helper}_rt h o n\n"
out+='''
theorem runR_total {m : R F α} (h : RT m) (f : α → Val F) (st : St F) :
    (runR m f st).1 ≠ .err .outOfFuel := by
  unfold runR
  have := h.ne st.s
  cases hm : m st.s with
  | mk x l => rw [hm] at this; cases x <;> simp at this ⊢; exact this

theorem runM_total {m : M F Unit} (h : MT m) (st : St F) : (runM m st).1 ≠ .err .outOfFuel := by
  unfold runM
  have := h.ne st.s
  cases hm : m st.s with
  | mk x rest => obtain ⟨s', l⟩ := rest; rw [hm] at this; cases x <;> simp at this ⊢; exact this

/-- a request against total interface calls never answers `outOfFuel` -/
theorem top_total (h : TotalRec r) (o : OpsTotal cx.ops) (req : Req F) (st : St F) :
    (top cx r req st).1 ≠ .err .outOfFuel := by
  cases req <;> simp only [top] <;>
    first
    | exact runR_total (by first
        | exact intValueF_rt h o _ | exact intMinF_rt h o _ | exact intMaxF_rt h o _ | exact intIncF_rt h o _
        | exact floatValueF_rt h o _ | exact floatMinF_rt h o _ | exact floatMaxF_rt h o _ | exact floatIncF_rt h o _
        | exact strValueF_rt h o _ | exact strMaxLengthF_rt h o _ | exact boolValueF_rt h o _
        | exact enumCurrentValueF_rt h o _ | exact enumCurrentEntryF_rt h o _ | exact enumEntriesF_rt _ _
        | exact cmdIsDoneF_rt h o _ | exact regReadF_rt h o _ _ | exact regAddressF_rt h o _ | exact regLengthF_rt h o _
        | exact isReadableF_rt h o _ | exact isWritableF_rt h o _ | exact isImplementedF_rt h o _
        | exact isAvailableF_rt h o _ | exact isLockedF_rt h o _) _ _
    | exact runM_total (by first
        | exact intSetF_rt h o _ _ | exact intSetMinF_rt h o _ _ | exact intSetMaxF_rt h o _ _
        | exact floatSetF_rt h o _ _ | exact floatSetMinF_rt h o _ _ | exact floatSetMaxF_rt h o _ _
        | exact strSetF_rt h o _ _ | exact boolSetF_rt h o _ _ | exact enumSetByValueF_rt h o _ _
        | exact enumSetByNameF_rt h o _ _ | exact cmdExecuteF_rt h o _ | exact regWriteF_rt h o _ _) _
end
'''+ACYC+'''
end CamVerif.C03
'''
open('CamVerif/Proofs/C03Total.lean','w').write(out)
