#!/usr/bin/env python3
"""mutation smoke tests for C03 / C18 against a scratch copy of the repository
(/repo itself is never edited: the copy lives in /tmp and is handed to ./check via VERIF_REPO)

usage: c03_c18_mutate.py [name-prefix ...]      e.g.  c03_c18_mutate.py A1 A2
"""
import subprocess, sys, shutil, os, json
MUT="/tmp/c03_mut"
# (property, name, [(path, old, new), ...])
M=[
 ("C18","M1 is_writable ignores pIsLocked",[("genapi/src/node_base.rs",
  "            && !self.is_locked(device, store, cx)?\n","            && (self.is_locked(device, store, cx)? || true)\n")]),
 ("C18","M2 RegisterBase::is_readable ignores AccessMode WO",[("genapi/src/register_base.rs",
  "            && !matches!(self.access_mode(), AccessMode::WO))","            && (!matches!(self.access_mode(), AccessMode::WO) || true))")]),
 ("C18","M3 PValue::is_writable ignores pValueCopy targets",[("genapi/src/ivalue.rs",
  "            b &= nid.is_writable(device, store, cx)?;","            b &= nid.is_writable(device, store, cx)? || true;")]),
 ("C18","M4 integer controller read as == 1 instead of != 0 (reverts fix F-C18-3)",[("genapi/src/utils.rs",
  "        Ok(node.value(device, store, cx)? != 0)","        Ok(node.value(device, store, cx)? == 1)")]),
 ("C18","M5 imposed access mode WO still readable",[("genapi/src/node_base.rs",
  "            && matches!(self.imposed_access_mode, AccessMode::RO | AccessMode::RW))","            && matches!(self.imposed_access_mode, AccessMode::RO | AccessMode::RW | AccessMode::WO))")]),
 ("C03","M6 pIndex picks the last matching entry",[("genapi/src/ivalue.rs",
  "        if let Some(value_indexed) = self.value_indexed.iter().find(|vi| vi.index == index) {\n            value_indexed.indexed.value(device, store, cx)",
  "        if let Some(value_indexed) = self.value_indexed.iter().rev().find(|vi| vi.index == index) {\n            value_indexed.indexed.value(device, store, cx)")]),
 ("C03","M7 pValueCopy skipped on write",[("genapi/src/ivalue.rs",
  "        for nid in self.p_value_copies() {\n            nid.set_value(value, device, store, cx)?;\n        }","        for nid in self.p_value_copies().iter().skip(1) {\n            nid.set_value(value, device, store, cx)?;\n        }")]),
 ("C03","M8 pIndex Offset added instead of multiplied",[("genapi/src/elem_type.rs",
  "            Ok(base * offset)","            Ok(base + offset)")]),
 ("C03","M9 enumeration accepts undeclared values",[("genapi/src/enumeration.rs",
  "            .any(|ent| ent.value() == value)","            .any(|ent| ent.value() == value || true)")]),
 ("C03","M10 Boolean::set_value swaps On/Off",[("genapi/src/boolean.rs",
  "        let value = if value { self.on_value } else { self.off_value };","        let value = if value { self.off_value } else { self.on_value };")]),
 ("C03","M11 command is_done inverted comparison",[("genapi/src/command.rs",
  "            Ok(command_value != reg_value)","            Ok(command_value == reg_value)")]),
 ("C18","M12 revert fix F-C18-1 (SwissKnife::is_readable ignores variables)",[("genapi/src/swiss_knife.rs",
  "        Ok(self.elem_base.is_readable(device, store, cx)?\n            && collector.is_readable(device, store, cx)?)","        let _ = &collector;\n        self.elem_base.is_readable(device, store, cx)")]),
 ("C18","M13 revert fix F-C18-2 (enumeration target unwritable)",[("genapi/src/ivalue.rs",
  "        } else if let Some(e) = self.as_ienumeration_kind(store) {\n            e.is_writable(device, store, cx)\n","        } else if let Some(_e) = self.as_ienumeration_kind(store) {\n            Ok(false)\n")]),
 # ---- the round-1 auditors' survivors / weakly caught mutants ----
 ("C03","A1 stale pLength: a register's pLength value is memoised at its first evaluation",[
  ("genapi/src/register_base.rs",
   "        self.length_elem().value(device, store, cx)\n    }",
   "        let key = &self.length as *const _ as usize;\n"
   "        if let ImmOrPNode::PNode(_) = self.length_elem() {\n"
   "            if let Some(v) = LEN_MEMO.with(|m| m.borrow().get(&key).copied()) {\n"
   "                return Ok(v);\n"
   "            }\n"
   "        }\n"
   "        let v = self.length_elem().value(device, store, cx)?;\n"
   "        LEN_MEMO.with(|m| m.borrow_mut().insert(key, v));\n"
   "        Ok(v)\n    }"),
  ("genapi/src/register_base.rs",
   "#[derive(Debug, Clone)]\npub struct RegisterBase {",
   "thread_local! { pub(crate) static LEN_MEMO: std::cell::RefCell<std::collections::HashMap<usize, i64>> = std::cell::RefCell::new(std::collections::HashMap::new()); }\n\n#[derive(Debug, Clone)]\npub struct RegisterBase {"),
  ("genapi/src/builder.rs",
   "        let reg_desc = parser::parse(\n",
   "        crate::register_base::LEN_MEMO.with(|m| m.borrow_mut().clear());\n        let reg_desc = parser::parse(\n")]),
 ("C03","A2 formula environment: expressions collected before constants (shadowing order swapped)",[("genapi/src/utils.rs",
  "        // Collect constatns.\n        for constant in self.constants {\n            let name = constant.name();\n            let value: Expr = (constant.value()).into();\n            self.var_env.insert(name, Cow::Owned(value));\n        }\n\n        // Collect expressions.\n        for expr in self.expressions {\n            let name = expr.name();\n            let value = expr.value_ref();\n            self.var_env.insert(name, Cow::Borrowed(value));\n        }\n",
  "        // Collect expressions.\n        for expr in self.expressions {\n            let name = expr.name();\n            let value = expr.value_ref();\n            self.var_env.insert(name, Cow::Borrowed(value));\n        }\n\n        // Collect constatns.\n        for constant in self.constants {\n            let name = constant.name();\n            let value: Expr = (constant.value()).into();\n            self.var_env.insert(name, Cow::Owned(value));\n        }\n")]),
 ("C03","A2b formula environment: variables collected last (variables shadow constants / expressions)",[("genapi/src/utils.rs",
  "        // Collect variables.\n        self.collect_variables(device, store, cx)?;\n\n        // Collect constatns.",
  "        // Collect constatns."),
  ("genapi/src/utils.rs",
  "            self.var_env.insert(name, Cow::Borrowed(value));\n        }\n\n        Ok(self.var_env)",
  "            self.var_env.insert(name, Cow::Borrowed(value));\n        }\n        self.collect_variables(device, store, cx)?;\n\n        Ok(self.var_env)")]),
 ("C03","C2 .Enum.<entry> accessor yields NumericValue instead of Value",[("genapi/src/utils.rs",
  "                        .map(|nid| nid.expect_enum_entry(store).unwrap())?\n                        .value()\n                        .into()",
  "                        .map(|nid| nid.expect_enum_entry(store).unwrap())?\n                        .numeric_value()\n                        .into()")]),
 ("C03","C1 IntReg::set_value of a value whose image looks like a NaN stores another NaN-like image",[("genapi/src/int_reg.rs",
  "        let mut buf = vec![0; len as usize];\n        utils::bytes_from_int(value, &mut buf, self.endianness, self.sign)?;\n        reg.write_and_cache(nid, &buf, device, store, cx)?;",
  "        let mut buf = vec![0; len as usize];\n        let value = if (value as u64) >> 52 == 0xFFF { value ^ 1 } else { value };\n        utils::bytes_from_int(value, &mut buf, self.endianness, self.sign)?;\n        reg.write_and_cache(nid, &buf, device, store, cx)?;")]),
 # ---- round-2 auditors' thin mutants ----
 ("C18","T1 bool_from_id rejects IntSwissKnife / IntConverter controllers (every feature gated by a mask expression answers Err)",[("genapi/src/utils.rs",
  "    } else if let Some(node) = node_id.as_iinteger_kind(store) {\n        // GenApi: an integer valued",
  "    } else if let Some(node) = node_id.as_iinteger_kind(store).filter(|k| !matches!(k, crate::interface::IIntegerKind::IntSwissKnife(_) | crate::interface::IIntegerKind::IntConverter(_))) {\n        // GenApi: an integer valued")]),
 ("C18","T2 integer controller true only when > 0",[("genapi/src/utils.rs",
  "        Ok(node.value(device, store, cx)? != 0)","        Ok(node.value(device, store, cx)? > 0)")]),
 ("C03","T3 pIndex read compares the selector in 32 bits",[("genapi/src/ivalue.rs",
  "        if let Some(value_indexed) = self.value_indexed.iter().find(|vi| vi.index == index) {\n            value_indexed.indexed.value(device, store, cx)",
  "        if let Some(value_indexed) = self.value_indexed.iter().find(|vi| vi.index as i32 == index as i32) {\n            value_indexed.indexed.value(device, store, cx)")]),
 ("C03","S1 seeded C03-r2-seed1 (set_eval_result derives the boolean from as_integer)",[("genapi/src/utils.rs",
  "        node.set_value(result.as_bool(), device, store, cx)?","        node.set_value(result.as_integer() != 0, device, store, cx)?")]),
 # ---- refactorings that change NO clause (order of independent evaluations): must NOT be flagged ----
 ("C03","R1 (harmless) with_cache_or_read evaluates the address before the length",[("genapi/src/register_base.rs",
  "        let length = self.length(device, store, cx)?;\n        let address = self.address(device, store, cx)?;\n        if let Some(cache) = cx.get_cache(nid, address, length) {",
  "        let address = self.address(device, store, cx)?;\n        let length = self.length(device, store, cx)?;\n        if let Some(cache) = cx.get_cache(nid, address, length) {")]),
 ("C18","R2 (harmless) is_writable tests the lock before the availability",[("genapi/src/node_base.rs",
  "        Ok(self.is_implemented(device, store, cx)?\n            && self.is_available(device, store, cx)?\n            && !self.is_locked(device, store, cx)?\n",
  "        Ok(self.is_implemented(device, store, cx)?\n            && !self.is_locked(device, store, cx)?\n            && self.is_available(device, store, cx)?\n")]),
 ("C03","R2 (harmless) is_writable tests the lock before the availability",[("genapi/src/node_base.rs",
  "        Ok(self.is_implemented(device, store, cx)?\n            && self.is_available(device, store, cx)?\n            && !self.is_locked(device, store, cx)?\n",
  "        Ok(self.is_implemented(device, store, cx)?\n            && !self.is_locked(device, store, cx)?\n            && self.is_available(device, store, cx)?\n")]),
 ("C18","R1 (harmless) with_cache_or_read evaluates the address before the length",[("genapi/src/register_base.rs",
  "        let length = self.length(device, store, cx)?;\n        let address = self.address(device, store, cx)?;\n        if let Some(cache) = cx.get_cache(nid, address, length) {",
  "        let address = self.address(device, store, cx)?;\n        let length = self.length(device, store, cx)?;\n        if let Some(cache) = cx.get_cache(nid, address, length) {")]),
 ("C18","B3 cache only: a port write no longer invalidates the caches that declare the port as pInvalidator",[("genapi/src/port.rs",
  "        cx.invalidate_cache_by(self.node_base().id());\n","")]),
]
os.makedirs(MUT,exist_ok=True)
subprocess.run(["rsync","-a","--delete","--exclude","target","--exclude",".git","/repo/",MUT+"/"],check=True)
only=sys.argv[1:]
res=[]
for (prop,name,edits) in M:
    if only and not any(name.startswith(o) for o in only): continue
    touched=set()
    for (path,old,new) in edits:
        dst=os.path.join(MUT,path)
        s=open(dst).read()
        assert s.count(old)>=1, (name,"pattern not found",path,old[:60])
        open(dst,"w").write(s.replace(old,new,1))
        touched.add(path)
    env=dict(os.environ, VERIF_REPO=MUT)
    p=subprocess.run(["./check",prop],cwd="/verif",env=env,stdout=subprocess.PIPE,stderr=subprocess.STDOUT,text=True)
    last=[l for l in p.stdout.splitlines() if l.startswith("[")][-1:]
    viol=[l for l in p.stdout.splitlines() if l.startswith("VIOLATION")]
    res.append({"property":prop,"mutant":name,"rc":p.returncode,"summary":last,"violations":viol[:2]})
    print(prop,name,"rc=",p.returncode,last,[v[:200] for v in viol[:1]],flush=True)
    for path in touched:
        shutil.copy(os.path.join("/repo",path),os.path.join(MUT,path))
os.makedirs("/verif/work/C03",exist_ok=True)
out="/verif/work/C03/mutation_results.json"
prev=[]
if only and os.path.exists(out):
    try: prev=[r for r in json.load(open(out)) if isinstance(r,dict) and r.get("mutant") not in {x["mutant"] for x in res}]
    except Exception: prev=[]
json.dump(prev+res,open(out,"w"),indent=1)
