#!/usr/bin/env python3
"""mutation smoke tests for C03 / C18 against a scratch copy of the repository"""
import subprocess, sys, shutil, os, json
MUT="/tmp/c03_mut"
M=[
 ("C18","M1 is_writable ignores pIsLocked","genapi/src/node_base.rs",
  "            && !self.is_locked(device, store, cx)?\n","            && (self.is_locked(device, store, cx)? || true)\n"),
 ("C18","M2 RegisterBase::is_readable ignores AccessMode WO","genapi/src/register_base.rs",
  "            && !matches!(self.access_mode(), AccessMode::WO))","            && (!matches!(self.access_mode(), AccessMode::WO) || true))"),
 ("C18","M3 PValue::is_writable ignores pValueCopy targets","genapi/src/ivalue.rs",
  "            b &= nid.is_writable(device, store, cx)?;","            b &= nid.is_writable(device, store, cx)? || true;"),
 ("C18","M4 integer controller read as != 0 instead of == 1","genapi/src/utils.rs",
  "        Ok(node.value(device, store, cx)? == 1)","        Ok(node.value(device, store, cx)? != 0)"),
 ("C18","M5 imposed access mode WO still readable","genapi/src/node_base.rs",
  "            && matches!(self.imposed_access_mode, AccessMode::RO | AccessMode::RW))","            && matches!(self.imposed_access_mode, AccessMode::RO | AccessMode::RW | AccessMode::WO))"),
 ("C03","M6 pIndex picks the last matching entry","genapi/src/ivalue.rs",
  "        if let Some(value_indexed) = self.value_indexed.iter().find(|vi| vi.index == index) {\n            value_indexed.indexed.value(device, store, cx)",
  "        if let Some(value_indexed) = self.value_indexed.iter().rev().find(|vi| vi.index == index) {\n            value_indexed.indexed.value(device, store, cx)"),
 ("C03","M7 pValueCopy skipped on write","genapi/src/ivalue.rs",
  "        for nid in self.p_value_copies() {\n            nid.set_value(value, device, store, cx)?;\n        }","        for nid in self.p_value_copies().iter().skip(1) {\n            nid.set_value(value, device, store, cx)?;\n        }"),
 ("C03","M8 pIndex Offset added instead of multiplied","genapi/src/elem_type.rs",
  "            Ok(base * offset)","            Ok(base + offset)"),
 ("C03","M9 enumeration accepts undeclared values","genapi/src/enumeration.rs",
  "            .any(|ent| ent.value() == value)","            .any(|ent| ent.value() == value || true)"),
 ("C03","M10 Boolean::set_value swaps On/Off","genapi/src/boolean.rs",
  "        let value = if value { self.on_value } else { self.off_value };","        let value = if value { self.off_value } else { self.on_value };"),
 ("C03","M11 command is_done inverted comparison","genapi/src/command.rs",
  "            Ok(command_value != reg_value)","            Ok(command_value == reg_value)"),
 ("C18","M12 revert fix F-C18-1 (SwissKnife::is_readable ignores variables)","genapi/src/swiss_knife.rs",
  "        Ok(self.elem_base.is_readable(device, store, cx)?\n            && collector.is_readable(device, store, cx)?)","        let _ = &collector;\n        self.elem_base.is_readable(device, store, cx)"),
 ("C18","M13 revert fix F-C18-2 (enumeration target unwritable)","genapi/src/ivalue.rs",
  "        } else if let Some(e) = self.as_ienumeration_kind(store) {\n            e.is_writable(device, store, cx)\n","        } else if let Some(_e) = self.as_ienumeration_kind(store) {\n            Ok(false)\n"),
]
os.makedirs(MUT,exist_ok=True)
subprocess.run(["rsync","-a","--delete","--exclude","target","--exclude",".git","/repo/",MUT+"/"],check=True)
only=sys.argv[1:] 
res=[]
for (prop,name,path,old,new) in M:
    if only and not any(name.startswith(o) for o in only): continue
    src=os.path.join("/repo",path); dst=os.path.join(MUT,path)
    s=open(src).read()
    assert s.count(old)>=1, (name,"pattern not found")
    open(dst,"w").write(s.replace(old,new,1))
    env=dict(os.environ, VERIF_REPO=MUT)
    p=subprocess.run(["./check",prop],cwd="/verif",env=env,stdout=subprocess.PIPE,stderr=subprocess.STDOUT,text=True)
    last=[l for l in p.stdout.splitlines() if l.startswith("[")][-1:] 
    viol=[l for l in p.stdout.splitlines() if l.startswith("VIOLATION")]
    res.append((prop,name,p.returncode,last,viol[:2]))
    print(prop,name,"rc=",p.returncode,last,viol[:1],flush=True)
    shutil.copy(src,dst)
json.dump(res,open("/verif/work/C03/mutation_results.json","w"),indent=1)
