#!/bin/bash
# tools/runseeds.sh Cxx...  : keepseed for every /tmp/mut-Cxx-out/N, then remove the worktree
cd /verif
for p in "$@"; do
  for d in /tmp/mut-$p-out/*/; do
    n=$(basename $d)
    echo "== $p $n"
    tools/keepseed.py $p /tmp/mut-$p $d $p-seed$n 2>&1 | grep -E "\"detected|VIOLATION|kept|NOT KEPT|existing_tests_pass|demo_|applies|tail"
  done
  git -C /repo worktree remove --force /tmp/mut-$p && rm -rf /tmp/mut-$p-out
done
