//! SHA-256 (FIPS 180-4), self-contained so the crate needs nothing beyond syn/quote/proc-macro2.

const K: [u32; 64] = [
    0x428a2f98, 0x71374491, 0xb5c0fbcf, 0xe9b5dba5, 0x3956c25b, 0x59f111f1, 0x923f82a4, 0xab1c5ed5,
    0xd807aa98, 0x12835b01, 0x243185be, 0x550c7dc3, 0x72be5d74, 0x80deb1fe, 0x9bdc06a7, 0xc19bf174,
    0xe49b69c1, 0xefbe4786, 0x0fc19dc6, 0x240ca1cc, 0x2de92c6f, 0x4a7484aa, 0x5cb0a9dc, 0x76f988da,
    0x983e5152, 0xa831c66d, 0xb00327c8, 0xbf597fc7, 0xc6e00bf3, 0xd5a79147, 0x06ca6351, 0x14292967,
    0x27b70a85, 0x2e1b2138, 0x4d2c6dfc, 0x53380d13, 0x650a7354, 0x766a0abb, 0x81c2c92e, 0x92722c85,
    0xa2bfe8a1, 0xa81a664b, 0xc24b8b70, 0xc76c51a3, 0xd192e819, 0xd6990624, 0xf40e3585, 0x106aa070,
    0x19a4c116, 0x1e376c08, 0x2748774c, 0x34b0bcb5, 0x391c0cb3, 0x4ed8aa4a, 0x5b9cca4f, 0x682e6ff3,
    0x748f82ee, 0x78a5636f, 0x84c87814, 0x8cc70208, 0x90befffa, 0xa4506ceb, 0xbef9a3f7, 0xc67178f2,
];

pub fn sha256_hex(data: &[u8]) -> String {
    let mut h: [u32; 8] = [
        0x6a09e667, 0xbb67ae85, 0x3c6ef372, 0xa54ff53a, 0x510e527f, 0x9b05688c, 0x1f83d9ab, 0x5be0cd19,
    ];
    let mut msg = data.to_vec();
    let bitlen = (data.len() as u64).wrapping_mul(8);
    msg.push(0x80);
    while msg.len() % 64 != 56 {
        msg.push(0);
    }
    msg.extend_from_slice(&bitlen.to_be_bytes());
    for chunk in msg.chunks(64) {
        let mut w = [0u32; 64];
        for i in 0..16 {
            w[i] = u32::from_be_bytes([chunk[4 * i], chunk[4 * i + 1], chunk[4 * i + 2], chunk[4 * i + 3]]);
        }
        for i in 16..64 {
            let s0 = w[i - 15].rotate_right(7) ^ w[i - 15].rotate_right(18) ^ (w[i - 15] >> 3);
            let s1 = w[i - 2].rotate_right(17) ^ w[i - 2].rotate_right(19) ^ (w[i - 2] >> 10);
            w[i] = w[i - 16].wrapping_add(s0).wrapping_add(w[i - 7]).wrapping_add(s1);
        }
        let mut a = h;
        for i in 0..64 {
            let s1 = a[4].rotate_right(6) ^ a[4].rotate_right(11) ^ a[4].rotate_right(25);
            let ch = (a[4] & a[5]) ^ (!a[4] & a[6]);
            let t1 = a[7].wrapping_add(s1).wrapping_add(ch).wrapping_add(K[i]).wrapping_add(w[i]);
            let s0 = a[0].rotate_right(2) ^ a[0].rotate_right(13) ^ a[0].rotate_right(22);
            let maj = (a[0] & a[1]) ^ (a[0] & a[2]) ^ (a[1] & a[2]);
            let t2 = s0.wrapping_add(maj);
            a[7] = a[6];
            a[6] = a[5];
            a[5] = a[4];
            a[4] = a[3].wrapping_add(t1);
            a[3] = a[2];
            a[2] = a[1];
            a[1] = a[0];
            a[0] = t1.wrapping_add(t2);
        }
        for i in 0..8 {
            h[i] = h[i].wrapping_add(a[i]);
        }
    }
    h.iter().map(|x| format!("{:08x}", x)).collect()
}

#[cfg(test)]
mod tests {
    #[test]
    fn vectors() {
        assert_eq!(
            super::sha256_hex(b""),
            "e3b0c44298fc1c149afbf4c8996fb92427ae41e4649b934ca495991b7852b855"
        );
        assert_eq!(
            super::sha256_hex(b"abc"),
            "ba7816bf8f01cfea414140de5dae2223b00361a396177a9cb410ff61f20015ad"
        );
    }
}
