//! rs2lean — `fn` mode of the G tie: translate the bodies of a whitelist of pure integer
//! functions of the repository under verification into Lean 4 definitions.
//!
//! usage: rs2lean --repo <path> --out <dir> [--only <group>] [--stdout] [--file <rel.rs> --name <Out>]
//!
//! Exit status: 0 = all groups written; 2 = a target contains a construct outside the supported
//! subset (reported as `file:line: what`), nothing is written for that group and a stale output
//! file of that group is removed so that it can never be used silently.

mod expr;
mod front;
mod ir;
mod lower;
mod sha;
mod stmt;
mod targets;

use front::*;
use ir::*;
use std::collections::{BTreeMap, BTreeSet};
use std::path::{Path, PathBuf};

fn find_items<'f>(file: &'f syn::File) -> Vec<&'f syn::Item> {
    // top level only (plus nothing from `mod tests`)
    file.items.iter().collect()
}

/// Any attribute inside a body (`#[cfg(..)]` on a statement or expression, `#[allow]`, ...) could
/// change what is compiled; none is accepted.
struct AttrFinder {
    first: Option<(usize, String)>,
}
impl<'ast> syn::visit::Visit<'ast> for AttrFinder {
    fn visit_attribute(&mut self, a: &'ast syn::Attribute) {
        if self.first.is_none() {
            self.first = Some((line_of(a), tok(a)));
        }
    }
}

fn is_cfg(attrs: &[syn::Attribute]) -> bool {
    attrs.iter().any(|a| a.path.is_ident("cfg") || a.path.is_ident("cfg_attr"))
}

fn add_helper(d: &mut Decls, rel: &str, owner: &str, attrs: &[syn::Attribute], sig: &syn::Signature, block: &syn::Block, under_cfg: bool) {
    let name = sig.ident.to_string();
    let mut unusable = None;
    if under_cfg || is_cfg(attrs) {
        unusable = Some("it is under `#[cfg]`".to_string());
    }
    let mut af = AttrFinder { first: None };
    syn::visit::Visit::visit_block(&mut af, block);
    if let Some((l, a)) = af.first {
        unusable = Some(format!("attribute `{}` inside its body ({}:{})", a, rel, l));
    }
    let key = (owner.to_string(), name.clone());
    if let Some(prev) = d.helpers.get_mut(&key) {
        prev.unusable = Some(format!("it is defined more than once ({}:{} and {}:{})", prev.file, prev.line, rel, line_of(sig)));
        return;
    }
    let text = format!("{} {}", tok(sig), tok(block));
    d.helpers.insert(
        key,
        Helper {
            file: rel.to_string(),
            owner: owner.to_string(),
            name,
            sig: sig.clone(),
            block: block.clone(),
            line: line_of(sig),
            hash: sha::sha256_hex(text.as_bytes()),
            unusable,
        },
    );
}

#[allow(clippy::too_many_arguments)]
fn add_const_src(d: &mut Decls, rel: &str, owner: &str, attrs: &[syn::Attribute], ident: &syn::Ident, ty: &syn::Type, expr: &syn::Expr, under_cfg: bool) {
    let key = (owner.to_string(), ident.to_string());
    let mut unusable = None;
    if under_cfg || is_cfg(attrs) {
        unusable = Some("it is under `#[cfg]`".to_string());
    }
    if let Some(prev) = d.const_srcs.get_mut(&key) {
        prev.unusable = Some(format!("it is defined more than once ({}:{} and {}:{})", prev.file, line_of(&prev.ident), rel, line_of(ident)));
        return;
    }
    d.const_srcs.insert(
        key,
        ConstSrc { file: rel.to_string(), ident: ident.clone(), ty: ty.clone(), expr: expr.clone(), unusable },
    );
}

fn impl_owner(i: &syn::ItemImpl) -> Option<String> {
    if i.trait_.is_some() {
        return None;
    }
    match &*i.self_ty {
        syn::Type::Path(tp) if tp.qself.is_none() => tp.path.segments.last().map(|s| s.ident.to_string()),
        _ => None,
    }
}

/// `Type` (inherent impl) or `Type@Trait` (the `impl Trait for Type` block)
fn split_owner(o: &str) -> (&str, Option<&str>) {
    match o.split_once('@') {
        Some((t, tr)) => (t, Some(tr)),
        None => (o, None),
    }
}

fn last_seg(p: &syn::Path) -> Option<String> {
    p.segments.last().map(|s| s.ident.to_string())
}

/// does this impl block hold the methods of owner spec `spec`?
fn impl_matches(i: &syn::ItemImpl, spec: &str) -> bool {
    let (ty, tr) = split_owner(spec);
    let self_ty = match &*i.self_ty {
        syn::Type::Path(tp) if tp.qself.is_none() => last_seg(&tp.path),
        _ => None,
    };
    if self_ty.as_deref() != Some(ty) {
        return false;
    }
    match (tr, &i.trait_) {
        (None, None) => true,
        (Some(t), Some((None, path, _))) => last_seg(path).as_deref() == Some(t),
        _ => false,
    }
}

/// In the state-passing translation of a `&mut self` target every value the body yields in tail
/// position becomes `(value, self)` with the version of `self` in scope at that point (`return`s
/// were paired when they were translated).
fn wrap_tails(e: E, cur: &str, versions: &BTreeSet<String>) -> E {
    match e {
        E::Let(p, i, b) => {
            let next = match &p {
                Pat::Var(v) if versions.contains(v) => v.clone(),
                _ => cur.to_string(),
            };
            E::Let(p, i, Box::new(wrap_tails(*b, &next, versions)))
        }
        E::If(c, t, f) => E::If(c, Box::new(wrap_tails(*t, cur, versions)), Box::new(wrap_tails(*f, cur, versions))),
        E::Match(s, st, arms) => E::Match(
            s,
            st,
            arms.into_iter().map(|a| Arm { pat: a.pat, guard: a.guard, body: wrap_tails(a.body, cur, versions) }).collect(),
        ),
        E::Return(_) | E::Panic => e,
        other => E::Tuple(vec![other, E::Var(cur.to_string())]),
    }
}

struct Parsed {
    rel: String,
    ast: syn::File,
}

fn translate_group(repo: &Path, g: &targets::Group) -> R<String> {
    // ---- parse the files of the group once
    let mut files: BTreeMap<String, Parsed> = BTreeMap::new();
    let mut need = BTreeSet::new();
    for (f, _) in g.enums.iter().chain(g.structs.iter()) {
        need.insert(f.to_string());
    }
    for (f, _, _) in g.consts.iter().chain(g.fns.iter()) {
        need.insert(f.to_string());
    }
    for rel in need {
        let path = repo.join(&rel);
        let src = match std::fs::read_to_string(&path) {
            Ok(s) => s,
            Err(e) => return refuse(&rel, 0, format!("cannot read source file: {}", e)),
        };
        let ast = match syn::parse_file(&src) {
            Ok(a) => a,
            Err(e) => return refuse(&rel, e.span().start().line, format!("cannot parse: {}", e)),
        };
        files.insert(rel.clone(), Parsed { rel, ast });
    }

    let mut d = Decls::default();
    d.result_aliases = g.result_aliases.clone();

    // ---- type declarations
    for (f, name) in &g.enums {
        let p = &files[f];
        let it = find_items(&p.ast).into_iter().find_map(|it| match it {
            syn::Item::Enum(e) if e.ident == name.as_str() => Some(e),
            _ => None,
        });
        match it {
            Some(e) => d.add_enum(&p.rel, e)?,
            None => return refuse(&p.rel, 0, format!("whitelisted enum `{}` not found", name)),
        }
    }
    for (f, name) in &g.structs {
        let p = &files[f];
        let it = find_items(&p.ast).into_iter().find_map(|it| match it {
            syn::Item::Struct(e) if e.ident == name.as_str() => Some(e),
            _ => None,
        });
        match it {
            Some(e) => d.add_struct(&p.rel, e)?,
            None => return refuse(&p.rel, 0, format!("whitelisted struct `{}` not found", name)),
        }
    }

    // ---- everything else in those files: candidates for inlining / value substitution
    for p in files.values() {
        for it in find_items(&p.ast) {
            match it {
                syn::Item::Fn(func) => {
                    let name = func.sig.ident.to_string();
                    if g.fns.iter().any(|(f, o, n)| f == &p.rel && o.is_empty() && n == &name) {
                        continue;
                    }
                    add_helper(&mut d, &p.rel, "", &func.attrs, &func.sig, &func.block, false);
                }
                syn::Item::Const(c) => {
                    let name = c.ident.to_string();
                    if g.consts.iter().any(|(f, o, n)| f == &p.rel && o.is_empty() && n == &name) {
                        continue;
                    }
                    add_const_src(&mut d, &p.rel, "", &c.attrs, &c.ident, &c.ty, &c.expr, false);
                }
                syn::Item::Impl(i) => {
                    let owner = match impl_owner(i) {
                        Some(o) => o,
                        None => continue,
                    };
                    let under_cfg = i.attrs.iter().any(|a| a.path.is_ident("cfg") || a.path.is_ident("cfg_attr"));
                    for ii in &i.items {
                        match ii {
                            syn::ImplItem::Method(m) => {
                                let name = m.sig.ident.to_string();
                                if g.fns.iter().any(|(f, o, n)| f == &p.rel && o == &owner && n == &name) {
                                    continue;
                                }
                                add_helper(&mut d, &p.rel, &owner, &m.attrs, &m.sig, &m.block, under_cfg);
                            }
                            syn::ImplItem::Const(c) => {
                                let name = c.ident.to_string();
                                if g.consts.iter().any(|(f, o, n)| f == &p.rel && o == &owner && n == &name) {
                                    continue;
                                }
                                add_const_src(&mut d, &p.rel, &owner, &c.attrs, &c.ident, &c.ty, &c.expr, under_cfg);
                            }
                            _ => {}
                        }
                    }
                }
                _ => {}
            }
        }
    }

    // ---- constants (in whitelist order)
    for (f, owner, name) in &g.consts {
        let p = &files[f];
        let mut found = false;
        for it in find_items(&p.ast) {
            match it {
                syn::Item::Const(c) if owner.is_empty() && c.ident == name.as_str() => {
                    d.add_const(&p.rel, "", &c.ident, &c.ty, &c.expr)?;
                    found = true;
                }
                syn::Item::Impl(i) if impl_owner(i).as_deref() == Some(owner.as_str()) => {
                    for ii in &i.items {
                        if let syn::ImplItem::Const(c) = ii {
                            if c.ident == name.as_str() {
                                if found {
                                    return refuse(&p.rel, line_of(c), format!("constant `{}::{}` is defined twice", owner, name));
                                }
                                d.add_const(&p.rel, owner, &c.ident, &c.ty, &c.expr)?;
                                found = true;
                            }
                        }
                    }
                }
                _ => {}
            }
        }
        if !found {
            return refuse(&p.rel, 0, format!("whitelisted constant `{}::{}` not found", owner, name));
        }
    }

    // ---- function signatures first (so that bodies can call each other), then bodies
    struct Src<'s> {
        rel: String,
        owner: String,
        /// owner as written in the whitelist (`Type` or `Type@Trait`)
        spec: String,
        name: String,
        sig: &'s syn::Signature,
        block: &'s syn::Block,
        text: String,
    }
    let mut srcs: Vec<Src> = vec![];
    for (f, owner, name) in &g.fns {
        let p = &files[f];
        let mut found: Option<Src> = None;
        for it in find_items(&p.ast) {
            match it {
                syn::Item::Fn(func) if owner.is_empty() && func.sig.ident == name.as_str() => {
                    if found.is_some() {
                        return refuse(&p.rel, line_of(func), format!("fn `{}` is defined twice", name));
                    }
                    if func.attrs.iter().any(|a| a.path.is_ident("cfg") || a.path.is_ident("cfg_attr")) {
                        return refuse(&p.rel, line_of(func), format!("fn `{}` is under `#[cfg]`", name));
                    }
                    let text = format!("{} {}", tok(&func.sig), tok(&func.block));
                    found = Some(Src { rel: p.rel.clone(), owner: String::new(), spec: String::new(), name: name.to_string(), sig: &func.sig, block: &func.block, text });
                }
                syn::Item::Impl(i) if !owner.is_empty() && impl_matches(i, owner) => {
                    if is_cfg(&i.attrs) {
                        return refuse(&p.rel, line_of(i), format!("the impl block of `{}` is under `#[cfg]`", owner));
                    }
                    for ii in &i.items {
                        if let syn::ImplItem::Method(m) = ii {
                            if m.sig.ident == name.as_str() {
                                if found.is_some() {
                                    return refuse(&p.rel, line_of(m), format!("fn `{}::{}` is defined twice", owner, name));
                                }
                                if m.attrs.iter().any(|a| a.path.is_ident("cfg") || a.path.is_ident("cfg_attr")) {
                                    return refuse(&p.rel, line_of(m), format!("fn `{}::{}` is under `#[cfg]`", owner, name));
                                }
                                let text = format!("{} {}", tok(&m.sig), tok(&m.block));
                                found = Some(Src { rel: p.rel.clone(), owner: split_owner(owner).0.to_string(), spec: owner.to_string(), name: name.to_string(), sig: &m.sig, block: &m.block, text });
                            }
                        }
                    }
                }
                _ => {}
            }
        }
        match found {
            Some(s) => srcs.push(s),
            None => return refuse(&p.rel, 0, format!("whitelisted fn `{}::{}` not found", owner, name)),
        }
    }
    for s in &srcs {
        // a receiver is only meaningful for an owner that is a translated type; associated
        // functions of other types (e.g. `ReadMem::maximum_read_length`) keep the owner as a
        // name prefix only
        d.add_sig(&s.rel, &s.owner, s.sig)?;
        // opaque calls of this target: one extra parameter each, typed by the trait declaration
        for o in g.opaque.iter().filter(|o| o.owner == s.spec && o.func == s.name) {
            let p = &files[&s.rel];
            let mut ty: Option<Ty> = None;
            for it in find_items(&p.ast) {
                if let syn::Item::Trait(t) = it {
                    if t.ident != o.tr.as_str() {
                        continue;
                    }
                    for ti in &t.items {
                        if let syn::TraitItem::Method(m) = ti {
                            if m.sig.ident != o.method.as_str() {
                                continue;
                            }
                            let only_ref_self = m.sig.inputs.len() == 1
                                && matches!(m.sig.inputs.first(), Some(syn::FnArg::Receiver(r)) if r.reference.is_some() && r.mutability.is_none());
                            if !only_ref_self || !m.sig.generics.params.is_empty() {
                                return refuse(&s.rel, line_of(m), format!("trait method `{}::{}` is not `fn(&self) -> T`", o.tr, o.method));
                            }
                            if ty.is_some() {
                                return refuse(&s.rel, line_of(m), format!("trait method `{}::{}` is declared twice", o.tr, o.method));
                            }
                            ty = Some(match &m.sig.output {
                                syn::ReturnType::Type(_, t) => d.ty(&s.rel, t, None)?,
                                syn::ReturnType::Default => Ty::Unit,
                            });
                        }
                    }
                }
            }
            let ty = match ty {
                Some(t @ Ty::Int(..)) | Some(t @ Ty::Bool) => t,
                _ => return refuse(&s.rel, line_of(s.sig), format!("opaque call `{}`: trait method `{}::{}` with an integer result not found", o.expr, o.tr, o.method)),
            };
            // the abstraction is only meaningful for a call on a field of `self` of the generic type
            d.fns.get_mut(&(s.owner.clone(), s.name.clone())).unwrap().params.push((o.param.clone(), ty));
        }
    }

    let mut defs: Vec<FnDef> = vec![];
    for s in &srcs {
        let sig = d.fns[&(s.owner.clone(), s.name.clone())].clone();
        let (mut cx, params) = FnCx::new(&d, &s.rel, &s.owner, &sig);
        cx.inline_stack.push((s.owner.clone(), s.name.clone()));
        for o in g.opaque.iter().filter(|o| o.owner == s.spec && o.func == s.name) {
            let ty = sig.params.iter().find(|(n, _)| *n == o.param).map(|(_, t)| t.clone()).unwrap();
            cx.opaque.push((o.expr.split_whitespace().collect(), o.param.clone(), ty));
        }
        let ret = sig.ret.clone();
        let mut af = AttrFinder { first: None };
        syn::visit::Visit::visit_block(&mut af, s.block);
        if let Some((l, a)) = af.first {
            return refuse(&s.rel, l, format!("attribute `{}` inside the body of `{}`", a, s.name));
        }
        let (mut body, _) = cx.block(s.block, Some(&ret))?;
        let mut sig2 = sig.clone();
        if sig.mut_self {
            let self_name = params.iter().find(|(n, _)| n == "self").map(|(n, _)| n.clone()).unwrap_or_else(|| "self".to_string());
            body = wrap_tails(body, &self_name, &cx.self_versions);
            sig2.ret = Ty::Tuple(vec![ret.clone(), Ty::Struct(s.owner.clone())]);
        }
        cx.zonk(&mut body, line_of(s.sig))?;
        sig2.params = params;
        defs.push(FnDef {
            sig: sig2,
            body,
            deps: cx.deps.iter().cloned().collect(),
            errs: cx.errs.iter().cloned().collect(),
            inlined: cx.inlined.iter().map(|(k, v)| (k.clone(), v.clone())).collect(),
            hash: sha::sha256_hex(s.text.as_bytes()),
            file: s.rel.clone(),
            line: line_of(s.sig),
            rust_path: match split_owner(&s.spec) {
                _ if s.owner.is_empty() => s.name.clone(),
                (t, Some(tr)) => format!("<{} as {}>::{}", t, tr, s.name),
                (t, None) => format!("{}::{}", t, s.name),
            },
        });
    }

    // ---- order by dependency (whitelist order among the ready ones); recursion is refused
    let mut ordered: Vec<FnDef> = vec![];
    let mut done: BTreeSet<String> = BTreeSet::new();
    let mut pending = defs;
    while !pending.is_empty() {
        let pos = pending.iter().position(|f| f.deps.iter().all(|x| done.contains(x)));
        match pos {
            Some(i) => {
                let f = pending.remove(i);
                done.insert(f.sig.lean.clone());
                ordered.push(f);
            }
            None => {
                let f = &pending[0];
                return refuse(&f.file, f.line, format!("fn `{}` is (mutually) recursive", f.rust_path));
            }
        }
    }

    Ok(emit(g, &d, &ordered))
}

fn emit(g: &targets::Group, d: &Decls, fns: &[FnDef]) -> String {
    let mut o = String::new();
    o.push_str(&format!(
        "/- GENERATED by rs2lean (mode `fn`) — do not edit.  Regenerated from the Rust sources on every\n   check run; `{}` proves each definition equal to the hand-written model.\n   {}\n\n   sources (sha256 of the token stream of each translated item):\n",
        g.tie, g.doc
    ));
    let mut enums: Vec<&EnumDef> = g.enums.iter().map(|(_, n)| &d.enums[n]).collect();
    enums.dedup_by_key(|e| e.name.clone());
    for e in &enums {
        o.push_str(&format!("     {}:{} enum {} {}\n", e.file, e.line, e.name, e.hash));
    }
    for (_, n) in &g.structs {
        let s = &d.structs[n];
        o.push_str(&format!("     {}:{} struct {} {}\n", s.file, s.line, s.name, s.hash));
    }
    for (_, ow, n) in &g.consts {
        let c = &d.consts[&(ow.to_string(), n.to_string())];
        o.push_str(&format!("     {}:{} const {} {}\n", c.file, c.line, c.lean, c.hash));
    }
    for f in fns {
        o.push_str(&format!("     {}:{} fn {} {}\n", f.file, f.line, f.rust_path, f.hash));
    }
    // non-whitelisted items of the same files that the targets use (inlined / substituted)
    let mut extra: BTreeMap<String, String> = d.used_extra.borrow().clone();
    for f in fns {
        for (k, v) in &f.inlined {
            extra.insert(k.clone(), v.clone());
        }
    }
    for (k, v) in &extra {
        o.push_str(&format!("     {} {}\n", k, v));
    }
    o.push_str("-/\nimport CamVerif.Prelude.Machine\nset_option linter.unusedVariables false\n");
    o.push_str(&format!("namespace CamVerif.Gen.{}\nopen CamVerif\n\n", g.out));

    // error constructors (abstracted to their constructor path)
    let mut errs: BTreeSet<String> = BTreeSet::new();
    for f in fns {
        errs.extend(f.errs.iter().cloned());
    }
    if !errs.is_empty() {
        o.push_str("/-- The error values the targets construct, abstracted to the path of their Rust constructor\n(payloads are constant messages).  Every `Result`-returning target takes an `Errs ε`, so the tie\ninstantiates the constructors with the model's error values. -/\nstructure Errs (ε : Type) where\n");
        for e in &errs {
            o.push_str(&format!("  {} : ε\n", e));
        }
        o.push('\n');
    }

    for e in &enums {
        o.push_str(&format!("/-- `enum {}` ({}:{}) -/\ninductive {} where\n", e.name, e.file, e.line, e.name));
        for (v, fields) in &e.variants {
            o.push_str(&format!("  | {}", v));
            for (i, (n, t)) in fields.iter().enumerate() {
                let fname = n.clone().map(|x| lean_ident(&x)).unwrap_or(format!("a{}", i));
                o.push_str(&format!(" ({} : {})", fname, lower::lean_ty(t)));
            }
            o.push('\n');
        }
        o.push_str("  deriving Repr, DecidableEq, Inhabited\n\n");
    }
    for (_, n) in &g.structs {
        let s = &d.structs[n];
        o.push_str(&format!("/-- `struct {}` ({}:{}) -/\nstructure {} where\n", s.name, s.file, s.line, s.name));
        for (f, t) in &s.fields {
            o.push_str(&format!("  {} : {}\n", lean_ident(f), lower::lean_ty(t)));
        }
        o.push_str("  deriving Repr, DecidableEq, Inhabited\n\n");
    }
    for (_, ow, n) in &g.consts {
        let c = &d.consts[&(ow.to_string(), n.to_string())];
        let b = match c.ty {
            Ty::Int(b, _) => b,
            _ => 0,
        };
        let v = if c.value >= 0 { format!("{}#{}", c.value, b) } else { format!("-({}#{})", -c.value, b) };
        o.push_str(&format!("/-- `const {}` ({}:{}) -/\ndef {} : {} := {}\n\n", c.src, c.file, c.line, c.lean, lower::lean_ty(&c.ty), v));
    }
    for f in fns {
        let is_res = matches!(f.sig.ret, Ty::Res(..));
        let mut lw = lower::Lower::new("ε");
        let comp = lw.lower(&f.body, lower::K::Yield);
        o.push_str(&format!("/-- `{}` ({}:{}) -/\ndef {}", f.rust_path, f.file, f.line, f.sig.lean));
        o.push_str(" {ε : Type}");
        if is_res {
            o.push_str(" (E : Errs ε)");
        }
        o.push_str(" (p : Profile)");
        for (n, t) in &f.sig.params {
            o.push_str(&format!(" ({} : {})", n, lower::lean_ty(t)));
        }
        o.push_str(&format!(" :\n    Res ε {} :=\n", lower::lean_ty_arg(&f.sig.ret)));
        o.push_str(&lower::print(&comp, 2));
        o.push_str("\n\n");
    }
    o.push_str(&format!("end CamVerif.Gen.{}\n", g.out));
    o
}

fn main() {
    let args: Vec<String> = std::env::args().collect();
    let mut repo: Option<PathBuf> = None;
    let mut out: Option<PathBuf> = None;
    let mut only: Option<String> = None;
    let mut to_stdout = false;
    let mut adhoc_file: Option<String> = None;
    let mut adhoc_name: Option<String> = None;
    let mut i = 1;
    while i < args.len() {
        match args[i].as_str() {
            "--repo" => {
                repo = args.get(i + 1).map(PathBuf::from);
                i += 2;
            }
            "--out" => {
                out = args.get(i + 1).map(PathBuf::from);
                i += 2;
            }
            "--only" => {
                only = args.get(i + 1).cloned();
                i += 2;
            }
            "--file" => {
                adhoc_file = args.get(i + 1).cloned();
                i += 2;
            }
            "--name" => {
                adhoc_name = args.get(i + 1).cloned();
                i += 2;
            }
            "--stdout" => {
                to_stdout = true;
                i += 1;
            }
            other => {
                eprintln!("rs2lean: unknown argument `{}`\nusage: rs2lean --repo <path> --out <dir> [--only <group>] [--stdout] [--file <rel.rs> --name <Out>]", other);
                std::process::exit(64);
            }
        }
    }
    let (repo, out) = match (repo, out) {
        (Some(r), Some(o)) => (r, o),
        _ => {
            eprintln!("usage: rs2lean --repo <path> --out <dir> [--only <group>] [--stdout] [--file <rel.rs> --name <Out>]");
            std::process::exit(64);
        }
    };
    let mut failed = false;
    let mut groups = targets::groups();
    if let Some(f) = &adhoc_file {
        let name = adhoc_name.clone().unwrap_or_else(|| "FnAdhoc".to_string());
        match targets::adhoc(&repo, f, &name) {
            Ok(g) => {
                only = Some(name);
                groups = vec![g];
            }
            Err(e) => {
                eprintln!("rs2lean: {}", e);
                std::process::exit(2);
            }
        }
    }
    if let Some(o) = &only {
        if !groups.iter().any(|g| &g.out == o) {
            eprintln!("rs2lean: unknown group `{}`", o);
            std::process::exit(64);
        }
    }
    for g in groups {
        if let Some(o) = &only {
            if o != &g.out {
                continue;
            }
        }
        let path = out.join(format!("{}.lean", g.out));
        match translate_group(&repo, &g) {
            Ok(text) => {
                if to_stdout {
                    print!("{}", text);
                    continue;
                }
                let old = std::fs::read_to_string(&path).ok();
                if old.as_deref() != Some(text.as_str()) {
                    if let Err(e) = std::fs::write(&path, &text) {
                        eprintln!("rs2lean: cannot write {}: {}", path.display(), e);
                        std::process::exit(1);
                    }
                    println!("WROTE {}", path.display());
                }
                println!("HASH {} {}", path.display(), sha::sha256_hex(text.as_bytes()));
            }
            Err(r) => {
                failed = true;
                eprintln!("rs2lean: REFUSED group {}: {}", g.out, r);
                println!("REFUSED {} {}", g.out, r);
                if !to_stdout && path.exists() {
                    // never leave a stale translation behind
                    let _ = std::fs::remove_file(&path);
                    println!("REMOVED {}", path.display());
                }
            }
        }
    }
    if failed {
        std::process::exit(2);
    }
}

#[cfg(test)]
mod tests {
    //! Unit tests of the constructs added for the command-packet / chunk-iterator targets:
    //! struct literals, `&mut self` as state passing, trait-impl targets (`Type@Trait`), opaque
    //! trait-method calls on a generic field, message locals / parameters.
    use super::*;
    use std::sync::atomic::{AtomicUsize, Ordering};

    static N: AtomicUsize = AtomicUsize::new(0);

    fn group(structs: &[&str], fns: &[(&str, &str)], opaque: Vec<targets::Opaque>) -> targets::Group {
        targets::Group {
            out: "FnT".into(),
            doc: "test".into(),
            tie: "(none)".into(),
            enums: vec![],
            structs: structs.iter().map(|s| ("t.rs".to_string(), s.to_string())).collect(),
            consts: vec![],
            fns: fns.iter().map(|(o, n)| ("t.rs".to_string(), o.to_string(), n.to_string())).collect(),
            result_aliases: vec!["Result".into()],
            opaque,
        }
    }

    fn tr(src: &str, g: &targets::Group) -> std::result::Result<String, String> {
        let dir = std::env::temp_dir().join(format!("rs2lean-test-{}-{}", std::process::id(), N.fetch_add(1, Ordering::SeqCst)));
        std::fs::create_dir_all(&dir).unwrap();
        std::fs::write(dir.join("t.rs"), src).unwrap();
        let r = translate_group(&dir, g).map_err(|e| e.to_string());
        let _ = std::fs::remove_dir_all(&dir);
        r
    }

    fn flat(s: &str) -> String {
        s.split_whitespace().collect::<Vec<_>>().join(" ")
    }

    const IT: &str = r#"
        pub struct Item { pub pos: u64, pub len: u16 }
        pub struct It { pos: u64, left: u16, max: usize }
        impl Item { pub fn new(pos: u64, len: u16) -> Self { Self { pos, len } } }
    "#;

    #[test]
    fn struct_literal_fields_in_source_order() {
        let src = format!("{}\nimpl Item {{ pub fn swap(self) -> Item {{ Item {{ len: self.len + 1, pos: self.pos * 2 }} }} }}", IT);
        let out = flat(&tr(&src, &group(&["Item", "It"], &[("Item", "swap")], vec![])).unwrap());
        // `len` is evaluated (and may panic) before `at`
        let a = out.find("Machine.addU p self.len 1#16").expect("len expr");
        let b = out.find("Machine.mulU p self.pos 2#64").expect("at expr");
        assert!(a < b, "{}", out);
        assert!(out.contains("({ len := t__1, pos := t__2 } : Item)"), "{}", out);
    }

    #[test]
    fn struct_literal_must_be_complete_and_plain() {
        let src = format!("{}\nimpl Item {{ pub fn f(self) -> Item {{ Item {{ len: 1, ..self }} }} }}", IT);
        let e = tr(&src, &group(&["Item", "It"], &[("Item", "f")], vec![])).unwrap_err();
        assert!(e.contains("struct literal with `..base`"), "{}", e);
        let src = format!("{}\npub struct Other {{ x: u8 }}\nimpl Item {{ pub fn f(self) -> u8 {{ let o = Other {{ x: 1 }}; 2 }} }}", IT);
        let e = tr(&src, &group(&["Item", "It"], &[("Item", "f")], vec![])).unwrap_err();
        assert!(e.contains("not a whitelisted struct"), "{}", e);
    }

    const NEXT: &str = r#"
        impl Iterator for It {
            type Item = Item;
            fn next(&mut self) -> Option<Item> {
                if self.left == 0 {
                    return None;
                }
                if self.left as usize > self.max {
                    let item = Item::new(self.pos, self.max as u16);
                    self.left -= self.max as u16;
                    self.pos += self.max as u64;
                    Some(item)
                } else {
                    let item = Item::new(self.pos, self.left);
                    self.left = 0;
                    Some(item)
                }
            }
        }
    "#;

    #[test]
    fn mut_self_is_state_passing_and_trait_impl_targets_are_found() {
        let src = format!("{}{}", IT, NEXT);
        let out = flat(&tr(&src, &group(&["Item", "It"], &[("It@Iterator", "next")], vec![])).unwrap());
        assert!(out.contains("def It.next {ε : Type} (p : Profile) (self : It) : Res ε ((Option Item) × It)"), "{}", out);
        // the early return pairs the untouched state, the branches their own last version
        assert!(out.contains("Res.ok (none, self)"), "{}", out);
        assert!(out.contains("let self_1 := { self with left := t__2 };"), "{}", out);
        assert!(out.contains("(Machine.addU p self_1.pos self_1.max)"), "{}", out);
        assert!(out.contains("Res.ok ((some item), self_2)"), "{}", out);
        assert!(out.contains("let self_3 := { self with left := 0#16 }; Res.ok ((some item_1), self_3)"), "{}", out);
        assert!(out.contains("fn <It as Iterator>::next"), "{}", out);
        // without `@Iterator` the inherent impls are searched and the method is not there
        let e = tr(&src, &group(&["Item", "It"], &[("It", "next")], vec![])).unwrap_err();
        assert!(e.contains("whitelisted fn `It::next` not found"), "{}", e);
    }

    #[test]
    fn assignment_needs_the_tail_flow() {
        // followed by a join point
        let src = format!("{}\nimpl It {{ pub fn f(&mut self) -> u16 {{ if self.left > 9 {{ self.left = 9; }} self.left }} }}", IT);
        let e = tr(&src, &group(&["Item", "It"], &[("It", "f")], vec![])).unwrap_err();
        assert!(e.contains("outside the tail flow"), "{}", e);
        // nested in an operand
        let src = format!("{}\nimpl It {{ pub fn f(&mut self) -> u16 {{ 1 + {{ self.left = 9; self.left }} }} }}", IT);
        let e = tr(&src, &group(&["Item", "It"], &[("It", "f")], vec![])).unwrap_err();
        assert!(e.contains("outside the tail flow"), "{}", e);
        // not a field of `self`
        let src = format!("{}\nimpl It {{ pub fn f(&mut self, o: Item) -> u16 {{ o.len = 1; 2 }} }}", IT);
        let e = tr(&src, &group(&["Item", "It"], &[("It", "f")], vec![])).unwrap_err();
        assert!(e.contains("assignment target is not `self.field`"), "{}", e);
        // in a method that does not take `&mut self`
        let src = format!("{}\nimpl It {{ pub fn f(&self) -> u16 {{ self.left = 1; 2 }} }}", IT);
        let e = tr(&src, &group(&["Item", "It"], &[("It", "f")], vec![])).unwrap_err();
        assert!(e.contains("only `self.field = e` in a `&mut self` method"), "{}", e);
        // `&mut self` on a type that is not translated
        let src = format!("{}\npub struct G<T> {{ t: T }}\nimpl<T> G<T> {{ pub fn f(&mut self) -> u16 {{ 2 }} }}", IT);
        let e = tr(&src, &group(&["Item", "It"], &[("G", "f")], vec![])).unwrap_err();
        assert!(e.contains("`&mut self` / `mut self` on a type that is not a whitelisted struct"), "{}", e);
    }

    #[test]
    fn if_then_return_keeps_the_tail_flow_and_unit_methods_work() {
        let src = format!(
            "{}\nimpl It {{ pub fn f(&mut self, k: u16) {{ self.left ^= k; if k == 0 {{ self.pos = 0; return; }} match k {{ 1 => self.left |= 1, _ => {{ self.max = 7; }} }} }} }}",
            IT
        );
        let out = flat(&tr(&src, &group(&["Item", "It"], &[("It", "f")], vec![])).unwrap());
        assert!(out.contains("Res ε (Unit × It)"), "{}", out);
        assert!(out.contains("let self_2 := { self_1 with pos := 0#64 }; Res.ok ((), self_2)"), "{}", out);
        assert!(out.contains("let self_3 := { self_1 with left := (self_1.left ||| 1#16) }; Res.ok ((), self_3)"), "{}", out);
        assert!(out.contains("let self_4 := { self_1 with max := 7#64 }; Res.ok ((), self_4)"), "{}", out);
    }

    const PKT: &str = r#"
        pub struct Packet<T> { ccd: u8, scd: T }
        pub trait Scd { fn scd_len(&self) -> u16; fn name(&self) -> String; fn grow(&mut self) -> u16; }
        impl<T> Packet<T> where T: Scd {
            const MIN: u16 = 4;
            pub fn cmd_len(&self) -> usize { 4 + 8 + self.scd.scd_len() as usize }
            pub fn bad(&self) -> usize { self.ccd as usize + self.scd.scd_len() as usize }
        }
    "#;

    #[test]
    fn opaque_trait_call_on_a_generic_field_becomes_a_parameter() {
        let o = || vec![targets::Opaque { owner: "Packet".into(), func: "cmd_len".into(), expr: "self.scd.scd_len()".into(), param: "scd_len".into(), tr: "Scd".into(), method: "scd_len".into() }];
        let out = flat(&tr(PKT, &group(&[], &[("Packet", "cmd_len")], o())).unwrap());
        assert!(out.contains("def Packet.cmd_len {ε : Type} (p : Profile) (scd_len : BitVec 16) : Res ε (BitVec 64)"), "{}", out);
        assert!(out.contains("(Machine.castU 64 scd_len)"), "{}", out);
        // any other use of the abstracted receiver refuses the target
        let mut ob = o();
        ob[0].func = "bad".into();
        let e = tr(PKT, &group(&[], &[("Packet", "bad")], ob)).unwrap_err();
        assert!(e.contains("unknown identifier `self`"), "{}", e);
        // the trait method must be `fn(&self) -> integer`
        for m in ["name", "grow", "missing"] {
            let mut ob = o();
            ob[0].method = m.into();
            let e = tr(PKT, &group(&[], &[("Packet", "cmd_len")], ob)).unwrap_err();
            assert!(e.contains("is not `fn(&self) -> T`") || e.contains("with an integer result not found") || e.contains("is not an integer"), "{}: {}", m, e);
        }
    }

    #[test]
    fn messages_are_abstracted_and_never_values() {
        let src = r#"
            fn room(what: &str, len: usize, over: usize) -> Result<usize> {
                if len <= over {
                    let msg = format!("{} must be larger than {}", what, over);
                    return Err(Error::InvalidPacket(msg.into()));
                }
                Ok(len - over)
            }
            pub fn f(len: usize) -> Result<usize> { let r = room("ack length", len, 12)?; Ok(r) }
            pub fn g(len: usize) -> Result<usize> { let r = room(len, len, 12)?; Ok(r) }
            pub fn h(len: usize) -> usize { let msg = format!("{}", len); msg.len() }
        "#;
        let out = flat(&tr(src, &group(&[], &[("", "f")], vec![])).unwrap());
        assert!(out.contains("Res.err E.Error_InvalidPacket"), "{}", out);
        assert!(out.contains("Machine.subU p len over"), "{}", out);
        let e = tr(src, &group(&[], &[("", "g")], vec![])).unwrap_err();
        assert!(e.contains("is not a constant message"), "{}", e);
        let e = tr(src, &group(&[], &[("", "h")], vec![])).unwrap_err();
        assert!(e.contains("unknown identifier `msg`"), "{}", e);
    }

    #[test]
    fn lean_name_collisions_are_refused_and_none_takes_its_type_from_the_context() {
        let src = format!("{}\nimpl Item {{ pub fn len(&self) -> u16 {{ self.len }} pub fn mk(a: u64) -> Item {{ Item {{ pos: a, len: 0 }} }} }}", IT);
        for n in ["len", "mk"] {
            let e = tr(&src, &group(&["Item", "It"], &[("Item", n)], vec![])).unwrap_err();
            assert!(e.contains("would collide"), "{}", e);
        }
        let src = format!("{}\npub fn pick(k: u16) -> Option<Item> {{ if k == 0 {{ return None; }} Some(Item::new(1, k)) }}", IT);
        let out = flat(&tr(&src, &group(&["Item", "It"], &[("", "pick")], vec![])).unwrap());
        assert!(out.contains("Res ε (Option Item)") && out.contains("Res.ok none"), "{}", out);
    }
}
