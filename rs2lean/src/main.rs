fn main(){}
