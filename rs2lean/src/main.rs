//! rs2lean — `fn` mode of the G tie: translate the bodies of a whitelist of pure integer
//! functions of the repository under verification into Lean 4 definitions.
//!
//! usage: rs2lean --repo <path> --out <dir> [--only <group>] [--stdout] [--file <rel.rs> --name <Out>]
//!
//! Exit status: 0 = all groups written; 2 = a target contains a construct outside the supported
//! subset (reported as `file:line: what`), nothing is written for that group and a stale output
//! file of that group is removed so that it can never be used silently.

mod expr;
mod front;
mod ir;
mod lower;
mod sha;
mod stmt;
mod targets;

use front::*;
use ir::*;
use std::collections::{BTreeMap, BTreeSet};
use std::path::{Path, PathBuf};

fn find_items<'f>(file: &'f syn::File) -> Vec<&'f syn::Item> {
    // top level only (plus nothing from `mod tests`)
    file.items.iter().collect()
}

/// Any attribute inside a body (`#[cfg(..)]` on a statement or expression, `#[allow]`, ...) could
/// change what is compiled; none is accepted.
struct AttrFinder {
    first: Option<(usize, String)>,
}
impl<'ast> syn::visit::Visit<'ast> for AttrFinder {
    fn visit_attribute(&mut self, a: &'ast syn::Attribute) {
        if self.first.is_none() {
            self.first = Some((line_of(a), tok(a)));
        }
    }
}

fn is_cfg(attrs: &[syn::Attribute]) -> bool {
    attrs.iter().any(|a| a.path.is_ident("cfg") || a.path.is_ident("cfg_attr"))
}

fn add_helper(d: &mut Decls, rel: &str, owner: &str, attrs: &[syn::Attribute], sig: &syn::Signature, block: &syn::Block, under_cfg: bool) {
    let name = sig.ident.to_string();
    let mut unusable = None;
    if under_cfg || is_cfg(attrs) {
        unusable = Some("it is under `#[cfg]`".to_string());
    }
    let mut af = AttrFinder { first: None };
    syn::visit::Visit::visit_block(&mut af, block);
    if let Some((l, a)) = af.first {
        unusable = Some(format!("attribute `{}` inside its body ({}:{})", a, rel, l));
    }
    let key = (owner.to_string(), name.clone());
    if let Some(prev) = d.helpers.get_mut(&key) {
        prev.unusable = Some(format!("it is defined more than once ({}:{} and {}:{})", prev.file, prev.line, rel, line_of(sig)));
        return;
    }
    let text = format!("{} {}", tok(sig), tok(block));
    d.helpers.insert(
        key,
        Helper {
            file: rel.to_string(),
            owner: owner.to_string(),
            name,
            sig: sig.clone(),
            block: block.clone(),
            line: line_of(sig),
            hash: sha::sha256_hex(text.as_bytes()),
            unusable,
        },
    );
}

#[allow(clippy::too_many_arguments)]
fn add_const_src(d: &mut Decls, rel: &str, owner: &str, attrs: &[syn::Attribute], ident: &syn::Ident, ty: &syn::Type, expr: &syn::Expr, under_cfg: bool) {
    let key = (owner.to_string(), ident.to_string());
    let mut unusable = None;
    if under_cfg || is_cfg(attrs) {
        unusable = Some("it is under `#[cfg]`".to_string());
    }
    if let Some(prev) = d.const_srcs.get_mut(&key) {
        prev.unusable = Some(format!("it is defined more than once ({}:{} and {}:{})", prev.file, line_of(&prev.ident), rel, line_of(ident)));
        return;
    }
    d.const_srcs.insert(
        key,
        ConstSrc { file: rel.to_string(), ident: ident.clone(), ty: ty.clone(), expr: expr.clone(), unusable },
    );
}

fn impl_owner(i: &syn::ItemImpl) -> Option<String> {
    if i.trait_.is_some() {
        return None;
    }
    match &*i.self_ty {
        syn::Type::Path(tp) if tp.qself.is_none() => tp.path.segments.last().map(|s| s.ident.to_string()),
        _ => None,
    }
}

struct Parsed {
    rel: String,
    ast: syn::File,
}

fn translate_group(repo: &Path, g: &targets::Group) -> R<String> {
    // ---- parse the files of the group once
    let mut files: BTreeMap<String, Parsed> = BTreeMap::new();
    let mut need = BTreeSet::new();
    for (f, _) in g.enums.iter().chain(g.structs.iter()) {
        need.insert(f.to_string());
    }
    for (f, _, _) in g.consts.iter().chain(g.fns.iter()) {
        need.insert(f.to_string());
    }
    for rel in need {
        let path = repo.join(&rel);
        let src = match std::fs::read_to_string(&path) {
            Ok(s) => s,
            Err(e) => return refuse(&rel, 0, format!("cannot read source file: {}", e)),
        };
        let ast = match syn::parse_file(&src) {
            Ok(a) => a,
            Err(e) => return refuse(&rel, e.span().start().line, format!("cannot parse: {}", e)),
        };
        files.insert(rel.clone(), Parsed { rel, ast });
    }

    let mut d = Decls::default();
    d.result_aliases = g.result_aliases.clone();

    // ---- type declarations
    for (f, name) in &g.enums {
        let p = &files[f];
        let it = find_items(&p.ast).into_iter().find_map(|it| match it {
            syn::Item::Enum(e) if e.ident == name.as_str() => Some(e),
            _ => None,
        });
        match it {
            Some(e) => d.add_enum(&p.rel, e)?,
            None => return refuse(&p.rel, 0, format!("whitelisted enum `{}` not found", name)),
        }
    }
    for (f, name) in &g.structs {
        let p = &files[f];
        let it = find_items(&p.ast).into_iter().find_map(|it| match it {
            syn::Item::Struct(e) if e.ident == name.as_str() => Some(e),
            _ => None,
        });
        match it {
            Some(e) => d.add_struct(&p.rel, e)?,
            None => return refuse(&p.rel, 0, format!("whitelisted struct `{}` not found", name)),
        }
    }

    // ---- everything else in those files: candidates for inlining / value substitution
    for p in files.values() {
        for it in find_items(&p.ast) {
            match it {
                syn::Item::Fn(func) => {
                    let name = func.sig.ident.to_string();
                    if g.fns.iter().any(|(f, o, n)| f == &p.rel && o.is_empty() && n == &name) {
                        continue;
                    }
                    add_helper(&mut d, &p.rel, "", &func.attrs, &func.sig, &func.block, false);
                }
                syn::Item::Const(c) => {
                    let name = c.ident.to_string();
                    if g.consts.iter().any(|(f, o, n)| f == &p.rel && o.is_empty() && n == &name) {
                        continue;
                    }
                    add_const_src(&mut d, &p.rel, "", &c.attrs, &c.ident, &c.ty, &c.expr, false);
                }
                syn::Item::Impl(i) => {
                    let owner = match impl_owner(i) {
                        Some(o) => o,
                        None => continue,
                    };
                    let under_cfg = i.attrs.iter().any(|a| a.path.is_ident("cfg") || a.path.is_ident("cfg_attr"));
                    for ii in &i.items {
                        match ii {
                            syn::ImplItem::Method(m) => {
                                let name = m.sig.ident.to_string();
                                if g.fns.iter().any(|(f, o, n)| f == &p.rel && o == &owner && n == &name) {
                                    continue;
                                }
                                add_helper(&mut d, &p.rel, &owner, &m.attrs, &m.sig, &m.block, under_cfg);
                            }
                            syn::ImplItem::Const(c) => {
                                let name = c.ident.to_string();
                                if g.consts.iter().any(|(f, o, n)| f == &p.rel && o == &owner && n == &name) {
                                    continue;
                                }
                                add_const_src(&mut d, &p.rel, &owner, &c.attrs, &c.ident, &c.ty, &c.expr, under_cfg);
                            }
                            _ => {}
                        }
                    }
                }
                _ => {}
            }
        }
    }

    // ---- constants (in whitelist order)
    for (f, owner, name) in &g.consts {
        let p = &files[f];
        let mut found = false;
        for it in find_items(&p.ast) {
            match it {
                syn::Item::Const(c) if owner.is_empty() && c.ident == name.as_str() => {
                    d.add_const(&p.rel, "", &c.ident, &c.ty, &c.expr)?;
                    found = true;
                }
                syn::Item::Impl(i) if impl_owner(i).as_deref() == Some(owner.as_str()) => {
                    for ii in &i.items {
                        if let syn::ImplItem::Const(c) = ii {
                            if c.ident == name.as_str() {
                                if found {
                                    return refuse(&p.rel, line_of(c), format!("constant `{}::{}` is defined twice", owner, name));
                                }
                                d.add_const(&p.rel, owner, &c.ident, &c.ty, &c.expr)?;
                                found = true;
                            }
                        }
                    }
                }
                _ => {}
            }
        }
        if !found {
            return refuse(&p.rel, 0, format!("whitelisted constant `{}::{}` not found", owner, name));
        }
    }

    // ---- function signatures first (so that bodies can call each other), then bodies
    struct Src<'s> {
        rel: String,
        owner: String,
        name: String,
        sig: &'s syn::Signature,
        block: &'s syn::Block,
        text: String,
    }
    let mut srcs: Vec<Src> = vec![];
    for (f, owner, name) in &g.fns {
        let p = &files[f];
        let mut found: Option<Src> = None;
        for it in find_items(&p.ast) {
            match it {
                syn::Item::Fn(func) if owner.is_empty() && func.sig.ident == name.as_str() => {
                    if found.is_some() {
                        return refuse(&p.rel, line_of(func), format!("fn `{}` is defined twice", name));
                    }
                    if func.attrs.iter().any(|a| a.path.is_ident("cfg") || a.path.is_ident("cfg_attr")) {
                        return refuse(&p.rel, line_of(func), format!("fn `{}` is under `#[cfg]`", name));
                    }
                    let text = format!("{} {}", tok(&func.sig), tok(&func.block));
                    found = Some(Src { rel: p.rel.clone(), owner: String::new(), name: name.to_string(), sig: &func.sig, block: &func.block, text });
                }
                syn::Item::Impl(i) if !owner.is_empty() && impl_owner(i).as_deref() == Some(owner.as_str()) => {
                    for ii in &i.items {
                        if let syn::ImplItem::Method(m) = ii {
                            if m.sig.ident == name.as_str() {
                                if found.is_some() {
                                    return refuse(&p.rel, line_of(m), format!("fn `{}::{}` is defined twice", owner, name));
                                }
                                if m.attrs.iter().any(|a| a.path.is_ident("cfg")) {
                                    return refuse(&p.rel, line_of(m), format!("fn `{}::{}` is under `#[cfg]`", owner, name));
                                }
                                let text = format!("{} {}", tok(&m.sig), tok(&m.block));
                                found = Some(Src { rel: p.rel.clone(), owner: owner.to_string(), name: name.to_string(), sig: &m.sig, block: &m.block, text });
                            }
                        }
                    }
                }
                _ => {}
            }
        }
        match found {
            Some(s) => srcs.push(s),
            None => return refuse(&p.rel, 0, format!("whitelisted fn `{}::{}` not found", owner, name)),
        }
    }
    for s in &srcs {
        // a receiver is only meaningful for an owner that is a translated type; associated
        // functions of other types (e.g. `ReadMem::maximum_read_length`) keep the owner as a
        // name prefix only
        d.add_sig(&s.rel, &s.owner, s.sig)?;
    }

    let mut defs: Vec<FnDef> = vec![];
    for s in &srcs {
        let sig = d.fns[&(s.owner.clone(), s.name.clone())].clone();
        let (mut cx, params) = FnCx::new(&d, &s.rel, &s.owner, &sig);
        cx.inline_stack.push((s.owner.clone(), s.name.clone()));
        let ret = sig.ret.clone();
        let mut af = AttrFinder { first: None };
        syn::visit::Visit::visit_block(&mut af, s.block);
        if let Some((l, a)) = af.first {
            return refuse(&s.rel, l, format!("attribute `{}` inside the body of `{}`", a, s.name));
        }
        let (mut body, _) = cx.block(s.block, Some(&ret))?;
        cx.zonk(&mut body, line_of(s.sig))?;
        let mut sig2 = sig.clone();
        sig2.params = params;
        defs.push(FnDef {
            sig: sig2,
            body,
            deps: cx.deps.iter().cloned().collect(),
            errs: cx.errs.iter().cloned().collect(),
            inlined: cx.inlined.iter().map(|(k, v)| (k.clone(), v.clone())).collect(),
            hash: sha::sha256_hex(s.text.as_bytes()),
            file: s.rel.clone(),
            line: line_of(s.sig),
            rust_path: if s.owner.is_empty() { s.name.clone() } else { format!("{}::{}", s.owner, s.name) },
        });
    }

    // ---- order by dependency (whitelist order among the ready ones); recursion is refused
    let mut ordered: Vec<FnDef> = vec![];
    let mut done: BTreeSet<String> = BTreeSet::new();
    let mut pending = defs;
    while !pending.is_empty() {
        let pos = pending.iter().position(|f| f.deps.iter().all(|x| done.contains(x)));
        match pos {
            Some(i) => {
                let f = pending.remove(i);
                done.insert(f.sig.lean.clone());
                ordered.push(f);
            }
            None => {
                let f = &pending[0];
                return refuse(&f.file, f.line, format!("fn `{}` is (mutually) recursive", f.rust_path));
            }
        }
    }

    Ok(emit(g, &d, &ordered))
}

fn emit(g: &targets::Group, d: &Decls, fns: &[FnDef]) -> String {
    let mut o = String::new();
    o.push_str(&format!(
        "/- GENERATED by rs2lean (mode `fn`) — do not edit.  Regenerated from the Rust sources on every\n   check run; `{}` proves each definition equal to the hand-written model.\n   {}\n\n   sources (sha256 of the token stream of each translated item):\n",
        g.tie, g.doc
    ));
    let mut enums: Vec<&EnumDef> = g.enums.iter().map(|(_, n)| &d.enums[n]).collect();
    enums.dedup_by_key(|e| e.name.clone());
    for e in &enums {
        o.push_str(&format!("     {}:{} enum {} {}\n", e.file, e.line, e.name, e.hash));
    }
    for (_, n) in &g.structs {
        let s = &d.structs[n];
        o.push_str(&format!("     {}:{} struct {} {}\n", s.file, s.line, s.name, s.hash));
    }
    for (_, ow, n) in &g.consts {
        let c = &d.consts[&(ow.to_string(), n.to_string())];
        o.push_str(&format!("     {}:{} const {} {}\n", c.file, c.line, c.lean, c.hash));
    }
    for f in fns {
        o.push_str(&format!("     {}:{} fn {} {}\n", f.file, f.line, f.rust_path, f.hash));
    }
    // non-whitelisted items of the same files that the targets use (inlined / substituted)
    let mut extra: BTreeMap<String, String> = d.used_extra.borrow().clone();
    for f in fns {
        for (k, v) in &f.inlined {
            extra.insert(k.clone(), v.clone());
        }
    }
    for (k, v) in &extra {
        o.push_str(&format!("     {} {}\n", k, v));
    }
    o.push_str("-/\nimport CamVerif.Prelude.Machine\nset_option linter.unusedVariables false\n");
    o.push_str(&format!("namespace CamVerif.Gen.{}\nopen CamVerif\n\n", g.out));

    // error constructors (abstracted to their constructor path)
    let mut errs: BTreeSet<String> = BTreeSet::new();
    for f in fns {
        errs.extend(f.errs.iter().cloned());
    }
    if !errs.is_empty() {
        o.push_str("/-- The error values the targets construct, abstracted to the path of their Rust constructor\n(payloads are constant messages).  Every `Result`-returning target takes an `Errs ε`, so the tie\ninstantiates the constructors with the model's error values. -/\nstructure Errs (ε : Type) where\n");
        for e in &errs {
            o.push_str(&format!("  {} : ε\n", e));
        }
        o.push('\n');
    }

    for e in &enums {
        o.push_str(&format!("/-- `enum {}` ({}:{}) -/\ninductive {} where\n", e.name, e.file, e.line, e.name));
        for (v, fields) in &e.variants {
            o.push_str(&format!("  | {}", v));
            for (i, (n, t)) in fields.iter().enumerate() {
                let fname = n.clone().map(|x| lean_ident(&x)).unwrap_or(format!("a{}", i));
                o.push_str(&format!(" ({} : {})", fname, lower::lean_ty(t)));
            }
            o.push('\n');
        }
        o.push_str("  deriving Repr, DecidableEq, Inhabited\n\n");
    }
    for (_, n) in &g.structs {
        let s = &d.structs[n];
        o.push_str(&format!("/-- `struct {}` ({}:{}) -/\nstructure {} where\n", s.name, s.file, s.line, s.name));
        for (f, t) in &s.fields {
            o.push_str(&format!("  {} : {}\n", lean_ident(f), lower::lean_ty(t)));
        }
        o.push_str("  deriving Repr, DecidableEq, Inhabited\n\n");
    }
    for (_, ow, n) in &g.consts {
        let c = &d.consts[&(ow.to_string(), n.to_string())];
        let b = match c.ty {
            Ty::Int(b, _) => b,
            _ => 0,
        };
        let v = if c.value >= 0 { format!("{}#{}", c.value, b) } else { format!("-({}#{})", -c.value, b) };
        o.push_str(&format!("/-- `const {}` ({}:{}) -/\ndef {} : {} := {}\n\n", c.src, c.file, c.line, c.lean, lower::lean_ty(&c.ty), v));
    }
    for f in fns {
        let is_res = matches!(f.sig.ret, Ty::Res(..));
        let mut lw = lower::Lower::new("ε");
        let comp = lw.lower(&f.body, lower::K::Yield);
        o.push_str(&format!("/-- `{}` ({}:{}) -/\ndef {}", f.rust_path, f.file, f.line, f.sig.lean));
        o.push_str(" {ε : Type}");
        if is_res {
            o.push_str(" (E : Errs ε)");
        }
        o.push_str(" (p : Profile)");
        for (n, t) in &f.sig.params {
            o.push_str(&format!(" ({} : {})", n, lower::lean_ty(t)));
        }
        o.push_str(&format!(" :\n    Res ε {} :=\n", lower::lean_ty_arg(&f.sig.ret)));
        o.push_str(&lower::print(&comp, 2));
        o.push_str("\n\n");
    }
    o.push_str(&format!("end CamVerif.Gen.{}\n", g.out));
    o
}

fn main() {
    let args: Vec<String> = std::env::args().collect();
    let mut repo: Option<PathBuf> = None;
    let mut out: Option<PathBuf> = None;
    let mut only: Option<String> = None;
    let mut to_stdout = false;
    let mut adhoc_file: Option<String> = None;
    let mut adhoc_name: Option<String> = None;
    let mut i = 1;
    while i < args.len() {
        match args[i].as_str() {
            "--repo" => {
                repo = args.get(i + 1).map(PathBuf::from);
                i += 2;
            }
            "--out" => {
                out = args.get(i + 1).map(PathBuf::from);
                i += 2;
            }
            "--only" => {
                only = args.get(i + 1).cloned();
                i += 2;
            }
            "--file" => {
                adhoc_file = args.get(i + 1).cloned();
                i += 2;
            }
            "--name" => {
                adhoc_name = args.get(i + 1).cloned();
                i += 2;
            }
            "--stdout" => {
                to_stdout = true;
                i += 1;
            }
            other => {
                eprintln!("rs2lean: unknown argument `{}`\nusage: rs2lean --repo <path> --out <dir> [--only <group>] [--stdout] [--file <rel.rs> --name <Out>]", other);
                std::process::exit(64);
            }
        }
    }
    let (repo, out) = match (repo, out) {
        (Some(r), Some(o)) => (r, o),
        _ => {
            eprintln!("usage: rs2lean --repo <path> --out <dir> [--only <group>] [--stdout] [--file <rel.rs> --name <Out>]");
            std::process::exit(64);
        }
    };
    let mut failed = false;
    let mut groups = targets::groups();
    if let Some(f) = &adhoc_file {
        let name = adhoc_name.clone().unwrap_or_else(|| "FnAdhoc".to_string());
        match targets::adhoc(&repo, f, &name) {
            Ok(g) => {
                only = Some(name);
                groups = vec![g];
            }
            Err(e) => {
                eprintln!("rs2lean: {}", e);
                std::process::exit(2);
            }
        }
    }
    if let Some(o) = &only {
        if !groups.iter().any(|g| &g.out == o) {
            eprintln!("rs2lean: unknown group `{}`", o);
            std::process::exit(64);
        }
    }
    for g in groups {
        if let Some(o) = &only {
            if o != &g.out {
                continue;
            }
        }
        let path = out.join(format!("{}.lean", g.out));
        match translate_group(&repo, &g) {
            Ok(text) => {
                if to_stdout {
                    print!("{}", text);
                    continue;
                }
                let old = std::fs::read_to_string(&path).ok();
                if old.as_deref() != Some(text.as_str()) {
                    if let Err(e) = std::fs::write(&path, &text) {
                        eprintln!("rs2lean: cannot write {}: {}", path.display(), e);
                        std::process::exit(1);
                    }
                    println!("WROTE {}", path.display());
                }
                println!("HASH {} {}", path.display(), sha::sha256_hex(text.as_bytes()));
            }
            Err(r) => {
                failed = true;
                eprintln!("rs2lean: REFUSED group {}: {}", g.out, r);
                println!("REFUSED {} {}", g.out, r);
                if !to_stdout && path.exists() {
                    // never leave a stale translation behind
                    let _ = std::fs::remove_file(&path);
                    println!("REMOVED {}", path.display());
                }
            }
        }
    }
    if failed {
        std::process::exit(2);
    }
}
