//! The built-in whitelist.  One group = one generated Lean file `CamVerif/Gen/<out>.lean`.

pub struct Group {
    /// Lean module / file name
    pub out: &'static str,
    pub doc: &'static str,
    /// the proof file that ties the group to the hand-written model
    pub tie: &'static str,
    /// (file, enum name)
    pub enums: &'static [(&'static str, &'static str)],
    /// (file, struct name)
    pub structs: &'static [(&'static str, &'static str)],
    /// (file, owner type or "", const name) — list a constant before its users
    pub consts: &'static [(&'static str, &'static str, &'static str)],
    /// (file, owner type or "", fn name)
    pub fns: &'static [(&'static str, &'static str, &'static str)],
    /// type aliases `X<T> = Result<T, _>` used by the targets
    pub result_aliases: &'static [&'static str],
}

const ELEM: &str = "genapi/src/elem_type.rs";
const MASKED: &str = "genapi/src/masked_int_reg.rs";
const MEMORY: &str = "impl/src/memory.rs";
const CMD: &str = "device/src/u3v/protocol/cmd.rs";

pub fn groups() -> Vec<Group> {
    vec![
        Group {
            out: "FnBitMask",
            doc: "C02: `impl BitMask` of genapi/src/masked_int_reg.rs (field extraction / merge arithmetic).",
            tie: "CamVerif/Proofs/C02GenTie.lean",
            enums: &[(ELEM, "Endianness"), (ELEM, "Sign"), (ELEM, "BitMask")],
            structs: &[],
            consts: &[],
            fns: &[
                (MASKED, "BitMask", "lsb"),
                (MASKED, "BitMask", "msb"),
                (MASKED, "BitMask", "min"),
                (MASKED, "BitMask", "max"),
                (MASKED, "BitMask", "mask"),
                (MASKED, "BitMask", "apply_mask"),
                (MASKED, "BitMask", "masked_value"),
            ],
            result_aliases: &["GenApiResult"],
        },
        Group {
            out: "FnAccessRight",
            doc: "C20: `impl AccessRight` of impl/src/memory.rs (two-bit access-right lattice).",
            tie: "CamVerif/Proofs/C20GenTie.lean",
            enums: &[(MEMORY, "AccessRight")],
            structs: &[],
            consts: &[],
            fns: &[
                (MEMORY, "AccessRight", "as_num"),
                (MEMORY, "AccessRight", "is_readable"),
                (MEMORY, "AccessRight", "is_writable"),
                (MEMORY, "AccessRight", "from_num"),
                (MEMORY, "AccessRight", "meet"),
            ],
            result_aliases: &[],
        },
        Group {
            out: "FnCmd",
            doc: "C10: length arithmetic of device/src/u3v/protocol/cmd.rs.",
            tie: "CamVerif/Proofs/C10GenTie.lean",
            enums: &[],
            structs: &[],
            consts: &[(CMD, "CommandPacket", "ACK_HEADER_LENGTH")],
            fns: &[(CMD, "ReadMem", "maximum_read_length"), (CMD, "", "into_scd_len")],
            result_aliases: &["Result"],
        },
    ]
}
