//! The built-in whitelist.  One group = one generated Lean file `CamVerif/Gen/<out>.lean`.

pub struct Group {
    /// Lean module / file name
    pub out: String,
    pub doc: String,
    /// the proof file that ties the group to the hand-written model
    pub tie: String,
    /// (file, enum name)
    pub enums: Vec<(String, String)>,
    /// (file, struct name)
    pub structs: Vec<(String, String)>,
    /// (file, owner type or "", const name) — list a constant before its users
    pub consts: Vec<(String, String, String)>,
    /// (file, owner type or "", fn name)
    pub fns: Vec<(String, String, String)>,
    /// type aliases `X<T> = Result<T, _>` used by the targets
    pub result_aliases: Vec<String>,
    /// calls that are abstracted to an extra parameter of one target
    pub opaque: Vec<Opaque>,
}

/// In target `owner::func` the expression `expr` (token text, whitespace ignored) — a call of the
/// trait method `tr::method` (`fn(&self) -> integer`) on a field of generic type — is replaced by
/// the parameter `param`, typed by the trait's declaration.
pub struct Opaque {
    pub owner: String,
    pub func: String,
    pub expr: String,
    pub param: String,
    pub tr: String,
    pub method: String,
}

fn opq(owner: &str, func: &str, expr: &str, param: &str, tr: &str, method: &str) -> Opaque {
    Opaque { owner: owner.into(), func: func.into(), expr: expr.into(), param: param.into(), tr: tr.into(), method: method.into() }
}

fn p2(v: &[(&str, &str)]) -> Vec<(String, String)> {
    v.iter().map(|(a, b)| (a.to_string(), b.to_string())).collect()
}
fn p3(v: &[(&str, &str, &str)]) -> Vec<(String, String, String)> {
    v.iter().map(|(a, b, c)| (a.to_string(), b.to_string(), c.to_string())).collect()
}
fn p1(v: &[&str]) -> Vec<String> {
    v.iter().map(|a| a.to_string()).collect()
}

const ELEM: &str = "genapi/src/elem_type.rs";
const MASKED: &str = "genapi/src/masked_int_reg.rs";
const MEMORY: &str = "impl/src/memory.rs";
const CMD: &str = "device/src/u3v/protocol/cmd.rs";

pub fn groups() -> Vec<Group> {
    vec![
        Group {
            out: "FnBitMask".into(),
            doc: "C02: `impl BitMask` of genapi/src/masked_int_reg.rs (field extraction / merge arithmetic).".into(),
            tie: "CamVerif/Proofs/C02GenTie.lean".into(),
            enums: p2(&[(ELEM, "Endianness"), (ELEM, "Sign"), (ELEM, "BitMask")]),
            structs: p2(&[]),
            consts: p3(&[]),
            fns: p3(&[
                (MASKED, "BitMask", "lsb"),
                (MASKED, "BitMask", "msb"),
                (MASKED, "BitMask", "min"),
                (MASKED, "BitMask", "max"),
                (MASKED, "BitMask", "mask"),
                (MASKED, "BitMask", "apply_mask"),
                (MASKED, "BitMask", "masked_value"),
            ]),
            result_aliases: p1(&["GenApiResult"]),
            opaque: vec![],
        },
        Group {
            out: "FnAccessRight".into(),
            doc: "C20: `impl AccessRight` of impl/src/memory.rs (two-bit access-right lattice).".into(),
            tie: "CamVerif/Proofs/C20GenTie.lean".into(),
            enums: p2(&[(MEMORY, "AccessRight")]),
            structs: p2(&[]),
            consts: p3(&[]),
            fns: p3(&[
                (MEMORY, "AccessRight", "as_num"),
                (MEMORY, "AccessRight", "is_readable"),
                (MEMORY, "AccessRight", "is_writable"),
                (MEMORY, "AccessRight", "from_num"),
                (MEMORY, "AccessRight", "meet"),
            ]),
            result_aliases: p1(&[]),
            opaque: vec![],
        },
        Group {
            out: "FnCmd".into(),
            doc: "C09/C10: length arithmetic and read-chunk iterator of device/src/u3v/protocol/cmd.rs.".into(),
            tie: "CamVerif/Proofs/C10GenTie.lean (+ C10GenTie2.lean, C09GenTie.lean)".into(),
            enums: p2(&[]),
            structs: p2(&[(CMD, "ReadMem"), (CMD, "ReadMemChunks")]),
            consts: p3(&[(CMD, "CommandPacket", "ACK_HEADER_LENGTH")]),
            fns: p3(&[
                (CMD, "ReadMem", "maximum_read_length"),
                (CMD, "", "into_scd_len"),
                (CMD, "CommandPacket", "header_len"),
                (CMD, "CommandPacket", "cmd_len"),
                (CMD, "CommandPacket", "maximum_ack_len"),
                (CMD, "ReadMem@CommandScd", "scd_len"),
                (CMD, "ReadMem@CommandScd", "ack_scd_len"),
                (CMD, "WriteMem@CommandScd", "ack_scd_len"),
                (CMD, "ReadMem", "chunks"),
                (CMD, "ReadMemChunks@Iterator", "next"),
            ]),
            result_aliases: p1(&["Result"]),
            opaque: vec![
                opq("CommandPacket", "cmd_len", "self.scd.scd_len()", "scd_scd_len", "CommandScd", "scd_len"),
                opq("CommandPacket", "maximum_ack_len", "self.scd.ack_scd_len()", "scd_ack_scd_len", "CommandScd", "ack_scd_len"),
            ],
        },
    ]
}

/// `--file <rel> --name <Out>`: an ad-hoc group made of EVERY top-level enum, struct, integer
/// constant, free fn and inherent method (of those enums/structs) of one source file.  Used by the
/// self-test to exercise the whole supported subset on a synthetic file; not used by the checks.
pub fn adhoc(repo: &std::path::Path, rel: &str, name: &str) -> Result<Group, String> {
    let src = std::fs::read_to_string(repo.join(rel)).map_err(|e| format!("{}: {}", rel, e))?;
    let ast = syn::parse_file(&src).map_err(|e| format!("{}:{}: {}", rel, e.span().start().line, e))?;
    let mut g = Group {
        out: name.to_string(),
        doc: format!("ad-hoc translation of every item of {}", rel),
        tie: "(none)".into(),
        enums: vec![],
        structs: vec![],
        consts: vec![],
        fns: vec![],
        result_aliases: vec![],
        opaque: vec![],
    };
    let mut types = vec![];
    for it in &ast.items {
        match it {
            syn::Item::Enum(e) => {
                g.enums.push((rel.to_string(), e.ident.to_string()));
                types.push(e.ident.to_string());
            }
            syn::Item::Struct(e) => {
                g.structs.push((rel.to_string(), e.ident.to_string()));
                types.push(e.ident.to_string());
            }
            syn::Item::Const(c) if !c.ident.to_string().starts_with("INL_") => g.consts.push((rel.to_string(), String::new(), c.ident.to_string())),
            // (fns named `inl_*` are left out of the whitelist so that their calls get inlined)
            syn::Item::Fn(f) if !f.sig.ident.to_string().starts_with("inl_") => g.fns.push((rel.to_string(), String::new(), f.sig.ident.to_string())),

            syn::Item::Type(t) => g.result_aliases.push(t.ident.to_string()),
            _ => {}
        }
    }
    for it in &ast.items {
        if let syn::Item::Impl(i) = it {
            if i.trait_.is_some() {
                continue;
            }
            if let syn::Type::Path(tp) = &*i.self_ty {
                let owner = tp.path.segments.last().map(|s| s.ident.to_string()).unwrap_or_default();
                for ii in &i.items {
                    match ii {
                        syn::ImplItem::Const(c) => g.consts.push((rel.to_string(), owner.clone(), c.ident.to_string())),
                        syn::ImplItem::Method(m) if !m.sig.ident.to_string().starts_with("inl_") => g.fns.push((rel.to_string(), owner.clone(), m.sig.ident.to_string())),
                        _ => {}
                    }
                }
            }
        }
    }
    Ok(g)
}
