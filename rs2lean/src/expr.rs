//! Expression inference: syn::Expr -> (IR, type).

use crate::front::*;
use crate::ir::*;
use syn::spanned::Spanned;

fn strip(e: &syn::Expr) -> &syn::Expr {
    match e {
        syn::Expr::Paren(p) => strip(&p.expr),
        syn::Expr::Group(p) => strip(&p.expr),
        _ => e,
    }
}

/// `x.try_into()` or `T::try_from(x)`: (source expression, explicit target)
fn as_try_conv(e: &syn::Expr) -> Option<(&syn::Expr, Option<Ty>)> {
    match strip(e) {
        syn::Expr::MethodCall(m) if m.method == "try_into" && m.args.is_empty() && m.turbofish.is_none() => Some((&m.receiver, None)),
        syn::Expr::Call(c) if c.args.len() == 1 => {
            if let syn::Expr::Path(p) = strip(&c.func) {
                let segs: Vec<String> = p.path.segments.iter().map(|s| s.ident.to_string()).collect();
                if segs.len() == 2 && segs[1] == "try_from" {
                    if let Some(t) = int_ty_of_name(&segs[0]) {
                        return Some((&c.args[0], Some(t)));
                    }
                }
            }
            None
        }
        _ => None,
    }
}

/// A constant / formatted message (the payload of an error constructor, abstracted away).
/// `mv`: locals bound by `let msg = format!(..)`.
fn is_message(e: &syn::Expr, mv: &std::collections::BTreeSet<String>) -> bool {
    match strip(e) {
        syn::Expr::Lit(l) => matches!(l.lit, syn::Lit::Str(_)),
        syn::Expr::MethodCall(m) => {
            m.args.is_empty() && ["into", "to_string", "to_owned"].contains(&m.method.to_string().as_str()) && is_message(&m.receiver, mv)
        }
        syn::Expr::Macro(m) => m.mac.path.is_ident("format"),
        syn::Expr::Reference(r) => is_message(&r.expr, mv),
        syn::Expr::Path(p) if p.qself.is_none() && p.path.segments.len() == 1 => mv.contains(&p.path.segments[0].ident.to_string()),
        syn::Expr::Call(c) => {
            if let syn::Expr::Path(p) = strip(&c.func) {
                let s = tok(&p.path).replace(' ', "");
                (s == "String::from") && c.args.len() == 1 && is_message(&c.args[0], mv)
            } else {
                false
            }
        }
        _ => false,
    }
}

/// `&str` / `&'a str` / `String`: the type of a message parameter of an inlined helper
fn is_str_type(t: &syn::Type) -> bool {
    match t {
        syn::Type::Reference(r) if r.mutability.is_none() => is_str_type(&r.elem),
        syn::Type::Paren(p) => is_str_type(&p.elem),
        syn::Type::Path(tp) if tp.qself.is_none() => tp.path.is_ident("str") || tp.path.is_ident("String"),
        _ => false,
    }
}

pub(crate) fn is_format_macro(e: &syn::Expr) -> bool {
    matches!(strip(e), syn::Expr::Macro(m) if m.mac.path.is_ident("format"))
}

impl<'a> FnCx<'a> {
    /// An error value is abstracted to its constructor path (`Type::ctor`); its arguments must
    /// be constant messages.
    pub(crate) fn err_tag(&mut self, e: &syn::Expr) -> R<String> {
        let line = line_of(e);
        let path_tag = |p: &syn::Path| -> Option<String> {
            let segs: Vec<String> = p.segments.iter().map(|s| s.ident.to_string()).collect();
            if segs.len() >= 2 {
                Some(format!("{}_{}", segs[segs.len() - 2], segs[segs.len() - 1]))
            } else {
                None
            }
        };
        let tag = match strip(e) {
            syn::Expr::Call(c) => match strip(&c.func) {
                syn::Expr::Path(p) if p.qself.is_none() && c.args.iter().all(|a| is_message(a, &self.msg_vars)) => path_tag(&p.path),
                _ => None,
            },
            syn::Expr::Path(p) if p.qself.is_none() => path_tag(&p.path),
            _ => None,
        };
        match tag {
            Some(t) => {
                self.errs.insert(t.clone());
                Ok(t)
            }
            None => self.no(line, format!("error value `{}` is not `Type::constructor(constant message…)`", tok(e))),
        }
    }

    fn closure1<'e>(&self, e: &'e syn::Expr) -> R<(Option<String>, &'e syn::Expr)> {
        let line = line_of(e);
        match strip(e) {
            syn::Expr::Closure(c) if c.inputs.len() == 1 && c.capture.is_none() && c.asyncness.is_none() => {
                let mut pat = &c.inputs[0];
                if let syn::Pat::Type(pt) = pat {
                    pat = &pt.pat;
                }
                match pat {
                    syn::Pat::Wild(_) => Ok((None, &c.body)),
                    syn::Pat::Ident(pi) if pi.by_ref.is_none() && pi.mutability.is_none() && pi.subpat.is_none() => {
                        Ok((Some(pi.ident.to_string()), &c.body))
                    }
                    _ => self.no(line, format!("closure parameter `{}`", tok(pat))),
                }
            }
            _ => self.no(line, format!("expected a one-parameter closure, found `{}`", tok(e))),
        }
    }

    fn int_of(&self, line: usize, t: &Ty, ctx: &str) -> R<()> {
        match self.resolve(t) {
            Ty::Int(..) | Ty::Var(_) => Ok(()),
            other => self.no(line, format!("{}: integer expected, found {:?}", ctx, other)),
        }
    }

    pub fn expr(&mut self, e: &syn::Expr, want: Option<&Ty>) -> R<(E, Ty)> {
        let line = line_of(e);
        let (ir, ty) = self.expr0(e, want)?;
        let ty = self.want(line, &ty, want, &format!("`{}`", short(e)))?;
        Ok((ir, ty))
    }

    /// `expr` for a position that is not in the tail flow of the target
    pub(crate) fn expr_nt(&mut self, e: &syn::Expr, want: Option<&Ty>) -> R<(E, Ty)> {
        self.tail_ok = false;
        self.expr(e, want)
    }

    fn expr0(&mut self, e: &syn::Expr, want: Option<&Ty>) -> R<(E, Ty)> {
        // the tail-flow flag is consumed here; only the structured forms (`if` branches, blocks,
        // `match` arms, parentheses) hand it on, every operand position sees `false`
        let tail = std::mem::replace(&mut self.tail_ok, false);
        let r = self.expr1(e, want, tail);
        self.tail_ok = false;
        r
    }

    fn expr1(&mut self, e: &syn::Expr, want: Option<&Ty>, tail: bool) -> R<(E, Ty)> {
        let line = line_of(e);
        if !self.opaque.is_empty() && self.inline_stack.len() == 1 {
            let t: String = tok(e).split_whitespace().collect();
            if let Some((_, pn, ty)) = self.opaque.iter().find(|(x, _, _)| *x == t).cloned() {
                if let Some((ln, _)) = self.lookup(&pn) {
                    return Ok((E::Var(ln), ty));
                }
            }
        }
        match e {
            syn::Expr::Paren(p) => {
                self.tail_ok = tail;
                self.expr(&p.expr, want)
            }
            syn::Expr::Group(p) => {
                self.tail_ok = tail;
                self.expr(&p.expr, want)
            }
            syn::Expr::Struct(st) => self.struct_lit(line, st),
            // an assignment as the value of a block / `match` arm (type `()`)
            syn::Expr::Assign(_) | syn::Expr::AssignOp(_) => self.assign_self(line, e, &[], want, tail),
            syn::Expr::Reference(r) => {
                if r.mutability.is_some() {
                    return self.no(line, format!("`{}`: mutable borrow", short(e)));
                }
                self.expr(&r.expr, want)
            }
            syn::Expr::Lit(l) => match &l.lit {
                syn::Lit::Int(li) => {
                    let v = match li.base10_parse::<u128>().ok().and_then(|v| i128::try_from(v).ok()) {
                        Some(v) => v,
                        None => return self.no(line, "integer literal too large"),
                    };
                    let ty = if li.suffix().is_empty() {
                        self.fresh_var()
                    } else {
                        match int_ty_of_name(li.suffix()) {
                            Some(t) => t,
                            None => return self.no(line, format!("literal suffix `{}`", li.suffix())),
                        }
                    };
                    Ok((E::Int(v, ty.clone(), line), ty))
                }
                syn::Lit::Bool(b) => Ok((E::Bool(b.value), Ty::Bool)),
                _ => self.no(line, format!("literal `{}`", tok(e))),
            },
            syn::Expr::Path(p) => {
                if p.qself.is_some() {
                    return self.no(line, format!("qualified path `{}`", tok(e)));
                }
                self.path_expr(line, &p.path, want)
            }
            syn::Expr::Tuple(t) => {
                if t.elems.is_empty() {
                    return Ok((E::Unit, Ty::Unit));
                }
                let wants: Vec<Option<Ty>> = match want.map(|w| self.resolve(w)) {
                    Some(Ty::Tuple(ws)) if ws.len() == t.elems.len() => ws.into_iter().map(Some).collect(),
                    _ => vec![None; t.elems.len()],
                };
                let mut es = vec![];
                let mut ts = vec![];
                for (x, w) in t.elems.iter().zip(wants.iter()) {
                    let (ir, ty) = self.expr(x, w.as_ref())?;
                    es.push(ir);
                    ts.push(ty);
                }
                Ok((E::Tuple(es), Ty::Tuple(ts)))
            }
            syn::Expr::Unary(u) => match u.op {
                syn::UnOp::Deref(_) => self.expr(&u.expr, want),
                syn::UnOp::Not(_) => {
                    let (ir, ty) = self.expr(&u.expr, want)?;
                    match self.resolve(&ty) {
                        Ty::Bool | Ty::Int(..) | Ty::Var(_) => Ok((E::Not(Box::new(ir), ty.clone()), ty)),
                        other => self.no(line, format!("`!` on {:?}", other)),
                    }
                }
                syn::UnOp::Neg(_) => {
                    let (ir, ty) = self.expr(&u.expr, want)?;
                    self.int_of(line, &ty, "unary `-`")?;
                    if let (E::Int(v, t, l), true) = (&ir, matches!(strip(&u.expr), syn::Expr::Lit(_))) {
                        return Ok((E::Int(-*v, t.clone(), *l), ty));
                    }
                    Ok((E::Neg(Box::new(ir), ty.clone()), ty))
                }
            },
            syn::Expr::Binary(b) => self.binary(line, b, want),
            syn::Expr::Cast(c) => {
                let to = self.d.ty(&self.file, &c.ty, Some(&self.owner))?;
                if !matches!(to, Ty::Int(..)) {
                    return self.no(line, format!("cast to `{}`", tok(&c.ty)));
                }
                // rustc types a bare literal operand by the cast target
                let inner = strip(&c.expr);
                let bare_lit = match inner {
                    syn::Expr::Lit(l) => matches!(&l.lit, syn::Lit::Int(li) if li.suffix().is_empty()),
                    syn::Expr::Unary(u) => matches!(u.op, syn::UnOp::Neg(_)) && matches!(strip(&u.expr), syn::Expr::Lit(l) if matches!(&l.lit, syn::Lit::Int(li) if li.suffix().is_empty())),
                    _ => false,
                };
                if bare_lit {
                    let (ir, _) = self.expr(inner, Some(&to))?;
                    return Ok((ir, to));
                }
                let (ir, from) = self.expr(&c.expr, None)?;
                match self.resolve(&from) {
                    Ty::Int(..) | Ty::Bool => Ok((E::Cast(Box::new(ir), from, to.clone()), to)),
                    Ty::Var(_) => self.no(line, format!("`{}`: cannot determine the type of the cast operand", short(e))),
                    other => self.no(line, format!("`{}`: cast from {:?}", short(e), other)),
                }
            }
            syn::Expr::If(i) => {
                if matches!(strip(&i.cond), syn::Expr::Let(_)) {
                    return self.no(line, "`if let`");
                }
                let (c, _) = self.expr(&i.cond, Some(&Ty::Bool))?;
                match &i.else_branch {
                    Some((_, els)) => {
                        self.tail_ok = tail;
                        let (t, tt) = self.block(&i.then_branch, want)?;
                        let w2 = match want {
                            Some(w) => Some(w.clone()),
                            None => Some(tt.clone()),
                        };
                        self.tail_ok = tail;
                        let (f, ft) = self.expr(els, w2.as_ref())?;
                        let ty = self.unify(line, &tt, &ft, "`if` branches")?;
                        Ok((E::If(Box::new(c), Box::new(t), Box::new(f)), ty))
                    }
                    None => {
                        // (in tail flow only as the last expression of the body, or — decided by
                        // `stmts` — when the block ends in a `return`)
                        self.tail_ok = tail;
                        let (t, _) = self.block(&i.then_branch, Some(&Ty::Unit))?;
                        Ok((E::If(Box::new(c), Box::new(t), Box::new(E::Unit)), Ty::Unit))
                    }
                }
            }
            syn::Expr::Block(b) => {
                if b.label.is_some() {
                    return self.no(line, "labelled block");
                }
                self.tail_ok = tail;
                self.block(&b.block, want)
            }
            syn::Expr::Match(m) => self.match_expr(line, m, want, tail),
            syn::Expr::Return(r) => {
                let ret = self.ret.clone();
                let v = match &r.expr {
                    Some(x) => self.expr(x, Some(&ret))?.0,
                    None => {
                        self.unify(line, &Ty::Unit, &ret, "`return;`")?;
                        E::Unit
                    }
                };
                // state-passing translation of a `&mut self` target: return `(value, self)`
                let v = if self.mut_self && self.inline_stack.len() == 1 {
                    match self.lookup("self") {
                        Some((ln, _)) => E::Tuple(vec![v, E::Var(ln)]),
                        None => return self.no(line, "`return` in a `&mut self` target without `self` in scope"),
                    }
                } else {
                    v
                };
                Ok((E::Return(Box::new(v)), Ty::Never))
            }
            syn::Expr::Try(t) => {
                let key = match &self.ret {
                    Ty::Res(_, k) => k.clone(),
                    _ => return self.no(line, "`?` in a function that does not return `Result` (`?` on `Option` is not supported)"),
                };
                let inner_want = want.map(|w| Ty::Res(Box::new(w.clone()), key.clone()));
                let (ir, ty) = self.expr(&t.expr, inner_want.as_ref())?;
                match self.resolve(&ty) {
                    Ty::Res(inner, k) => {
                        if k != key {
                            return self.no(line, format!("`?` from error type `{}` into `{}` (a `From` conversion cannot be seen syntactically)", k, key));
                        }
                        Ok((E::Try(Box::new(ir)), *inner))
                    }
                    other => self.no(line, format!("`?` on {:?}", other)),
                }
            }
            syn::Expr::Field(f) => {
                let (b, bt) = self.expr(&f.base, None)?;
                match (&f.member, self.resolve(&bt)) {
                    (syn::Member::Named(id), Ty::Struct(s)) => {
                        let sd = &self.d.structs[&s];
                        match sd.fields.iter().find(|(n, _)| id == n) {
                            Some((n, t)) => Ok((E::Field(Box::new(b), lean_ident(n)), t.clone())),
                            None => self.no(line, format!("struct `{}` has no field `{}`", s, id)),
                        }
                    }
                    (syn::Member::Unnamed(ix), Ty::Tuple(ts)) if (ix.index as usize) < ts.len() => {
                        let i = ix.index as usize;
                        Ok((E::TupleField(Box::new(b), i, ts.len()), ts[i].clone()))
                    }
                    (_, other) => self.no(line, format!("field access `{}` on {:?}", short(e), other)),
                }
            }
            syn::Expr::Call(c) => self.call(line, c, want),
            syn::Expr::MethodCall(m) => self.method(line, m, want),
            syn::Expr::Macro(m) => self.macro_expr(line, &m.mac),
            other => self.no(line, format!("unsupported expression `{}` ({})", short(e), kind(other))),
        }
    }

    /// `Name { f: e, g }` / `Self { .. }` of a whitelisted struct: every field exactly once, no
    /// `..base`; the field expressions are evaluated in source order.
    fn struct_lit(&mut self, line: usize, st: &syn::ExprStruct) -> R<(E, Ty)> {
        let last = st.path.segments.last().map(|s| s.ident.to_string()).unwrap_or_default();
        let name = if last == "Self" { self.owner.clone() } else { last };
        let sd = match self.d.structs.get(&name) {
            Some(sd) => sd.clone(),
            None => return self.no(line, format!("struct literal of `{}` which is not a whitelisted struct", name)),
        };
        if st.rest.is_some() || st.dot2_token.is_some() {
            return self.no(line, "struct literal with `..base`");
        }
        if !st.attrs.is_empty() {
            return self.no(line, "attribute on a struct literal");
        }
        let mut fs: Vec<(String, E)> = vec![];
        for f in &st.fields {
            let id = match &f.member {
                syn::Member::Named(id) => id.to_string(),
                syn::Member::Unnamed(_) => return self.no(line, "positional field in a struct literal"),
            };
            let ft = match sd.fields.iter().find(|(n, _)| *n == id) {
                Some((_, t)) => t.clone(),
                None => return self.no(line, format!("struct `{}` has no field `{}`", name, id)),
            };
            if fs.iter().any(|(n, _)| *n == lean_ident(&id)) {
                return self.no(line, format!("field `{}` given twice", id));
            }
            let (v, _) = self.expr(&f.expr, Some(&ft))?;
            fs.push((lean_ident(&id), v));
        }
        if fs.len() != sd.fields.len() {
            return self.no(line, format!("struct literal of `{}` does not give every field", name));
        }
        Ok((E::StructLit(name.clone(), fs), Ty::Struct(name)))
    }

    fn path_expr(&mut self, line: usize, p: &syn::Path, _want: Option<&Ty>) -> R<(E, Ty)> {
        let segs: Vec<String> = p.segments.iter().map(|s| s.ident.to_string()).collect();
        if segs.len() == 1 {
            let id = &segs[0];
            if let Some((ln, t)) = self.lookup(id) {
                return Ok((E::Var(ln), t));
            }
            if let Some((en, vn)) = self.alias(id) {
                return self.unit_variant(line, &en, &vn);
            }
            if id == "None" {
                if let Some(Ty::Opt(t)) = _want.map(|w| self.resolve(w)) {
                    return Ok((E::NoneE, Ty::Opt(t)));
                }
                let v = self.fresh_var();
                return Ok((E::NoneE, Ty::Opt(Box::new(v))));
            }
            if let Some(c) = self.d.consts.get(&(String::new(), id.clone())) {
                return Ok((E::Const(c.lean.clone()), c.ty.clone()));
            }
            if let Some((t, v)) = self.d.auto_const(&self.file, line, "", id)? {
                return Ok((E::Int(v, t.clone(), line), t));
            }
            return self.no(line, format!("unknown identifier `{}` (not a local, not an integer constant of the group's files)", id));
        }
        let owner = {
            let o = &segs[segs.len() - 2];
            if o == "Self" { self.owner.clone() } else { o.clone() }
        };
        let name = &segs[segs.len() - 1];
        if let Some(Ty::Int(b, s)) = int_ty_of_name(&owner) {
            let (lo, hi) = int_range(b, s);
            match name.as_str() {
                "MAX" => return Ok((E::Int(hi, Ty::Int(b, s), line), Ty::Int(b, s))),
                "MIN" => return Ok((E::Int(lo, Ty::Int(b, s), line), Ty::Int(b, s))),
                "BITS" => return Ok((E::Int(b as i128, Ty::Int(32, false), line), Ty::Int(32, false))),
                _ => {}
            }
        }
        if self.d.enums.contains_key(&owner) {
            if self.d.enums[&owner].variants.iter().any(|(v, _)| v == name) {
                return self.unit_variant(line, &owner, name);
            }
        }
        if let Some(c) = self.d.consts.get(&(owner.clone(), name.clone())) {
            return Ok((E::Const(c.lean.clone()), c.ty.clone()));
        }
        if let Some((t, v)) = self.d.auto_const(&self.file, line, &owner, name)? {
            return Ok((E::Int(v, t.clone(), line), t));
        }
        self.no(line, format!("path `{}` is not a variant of a whitelisted enum nor a whitelisted constant", tok(p).replace(' ', "")))
    }

    fn unit_variant(&mut self, line: usize, en: &str, vn: &str) -> R<(E, Ty)> {
        let ed = &self.d.enums[en];
        match ed.variants.iter().find(|(v, _)| v == vn) {
            Some((_, f)) if f.is_empty() => Ok((E::Ctor(en.to_string(), vn.to_string(), vec![]), Ty::Enum(en.to_string()))),
            _ => self.no(line, format!("`{}::{}` used as a value but it has fields", en, vn)),
        }
    }

    fn binary(&mut self, line: usize, b: &syn::ExprBinary, want: Option<&Ty>) -> R<(E, Ty)> {
        use syn::BinOp as B;
        let op = match b.op {
            B::Add(_) => BinOp::Add,
            B::Sub(_) => BinOp::Sub,
            B::Mul(_) => BinOp::Mul,
            B::Div(_) => BinOp::Div,
            B::Rem(_) => BinOp::Rem,
            B::BitAnd(_) => BinOp::BitAnd,
            B::BitOr(_) => BinOp::BitOr,
            B::BitXor(_) => BinOp::BitXor,
            B::Shl(_) => BinOp::Shl,
            B::Shr(_) => BinOp::Shr,
            B::Eq(_) => BinOp::Eq,
            B::Ne(_) => BinOp::Ne,
            B::Lt(_) => BinOp::Lt,
            B::Le(_) => BinOp::Le,
            B::Gt(_) => BinOp::Gt,
            B::Ge(_) => BinOp::Ge,
            B::And(_) | B::Or(_) => {
                let (l, _) = self.expr(&b.left, Some(&Ty::Bool))?;
                let (r, _) = self.expr(&b.right, Some(&Ty::Bool))?;
                return Ok((
                    if matches!(b.op, B::And(_)) { E::And(Box::new(l), Box::new(r)) } else { E::Or(Box::new(l), Box::new(r)) },
                    Ty::Bool,
                ));
            }
            _ => return self.no(line, format!("compound assignment `{}`", tok(&b.op))),
        };
        match op {
            BinOp::Shl | BinOp::Shr => {
                let (l, lt) = self.expr(&b.left, want)?;
                self.int_of(line, &lt, "shift")?;
                let (r, rt) = self.expr(&b.right, None)?;
                self.int_of(line, &rt, "shift amount")?;
                if let Ty::Var(i) = self.resolve(&rt) {
                    self.shift_vars.insert(i);
                }
                Ok((E::Bin(op, Box::new(l), Box::new(r), lt.clone(), rt), lt))
            }
            BinOp::Eq | BinOp::Ne | BinOp::Lt | BinOp::Le | BinOp::Gt | BinOp::Ge => {
                let (l, lt) = self.expr(&b.left, None)?;
                let (r, rt) = self.expr(&b.right, Some(&lt))?;
                let t = self.unify(line, &lt, &rt, "comparison")?;
                match self.resolve(&t) {
                    Ty::Int(..) | Ty::Var(_) => {}
                    Ty::Bool if matches!(op, BinOp::Eq | BinOp::Ne) => {}
                    Ty::Enum(en) if matches!(op, BinOp::Eq | BinOp::Ne) => {
                        if !self.d.enums[&en].derives_eq {
                            return self.no(line, format!("`==` on enum `{}` which does not `#[derive(PartialEq)]`", en));
                        }
                        if self.d.enums[&en].variants.iter().any(|(_, f)| !f.is_empty()) {
                            // derived structural equality: fine, Lean's DecidableEq is structural too
                        }
                    }
                    other => return self.no(line, format!("comparison `{}` on {:?}", tok(&b.op), other)),
                }
                Ok((E::Bin(op, Box::new(l), Box::new(r), t.clone(), t), Ty::Bool))
            }
            _ => {
                let (l, lt) = self.expr(&b.left, want)?;
                let (r, rt) = self.expr(&b.right, Some(&lt))?;
                let t = self.unify(line, &lt, &rt, "arithmetic operands")?;
                match self.resolve(&t) {
                    Ty::Int(..) | Ty::Var(_) => {}
                    Ty::Bool if matches!(op, BinOp::BitAnd | BinOp::BitOr | BinOp::BitXor) => {}
                    other => return self.no(line, format!("operator `{}` on {:?}", tok(&b.op), other)),
                }
                Ok((E::Bin(op, Box::new(l), Box::new(r), t.clone(), t.clone()), t))
            }
        }
    }

    fn args_against(&mut self, line: usize, what: &str, args: Vec<&syn::Expr>, params: &[(String, Ty)]) -> R<Vec<E>> {
        if args.len() != params.len() {
            return self.no(line, format!("call of `{}`: {} arguments for {} parameters", what, args.len(), params.len()));
        }
        let mut out = vec![];
        for (a, (_, t)) in args.iter().zip(params.iter()) {
            out.push(self.expr(a, Some(t))?.0);
        }
        Ok(out)
    }

    fn call(&mut self, line: usize, c: &syn::ExprCall, want: Option<&Ty>) -> R<(E, Ty)> {
        let p = match strip(&c.func) {
            syn::Expr::Path(p) if p.qself.is_none() => &p.path,
            _ => return self.no(line, format!("call of a non-path `{}`", short(&c.func))),
        };
        let segs: Vec<String> = p.segments.iter().map(|s| s.ident.to_string()).collect();
        let args: Vec<&syn::Expr> = c.args.iter().collect();
        let last = segs.last().unwrap().clone();
        if segs.len() == 1 {
            match last.as_str() {
                "Ok" if args.len() == 1 => {
                    let (inner_want, key) = match (want.map(|w| self.resolve(w)), &self.ret) {
                        (Some(Ty::Res(t, k)), _) => (Some(*t), k.clone()),
                        (_, Ty::Res(_, k)) => (None, k.clone()),
                        _ => return self.no(line, "`Ok(..)` in a function that does not return `Result`"),
                    };
                    let (v, t) = self.expr(args[0], inner_want.as_ref())?;
                    return Ok((E::OkE(Box::new(v)), Ty::Res(Box::new(t), key)));
                }
                "Err" if args.len() == 1 => {
                    let (inner, key) = match (want.map(|w| self.resolve(w)), &self.ret) {
                        (Some(Ty::Res(t, k)), _) => (*t, k.clone()),
                        (_, Ty::Res(_, k)) => (Ty::Never, k.clone()),
                        _ => return self.no(line, "`Err(..)` in a function that does not return `Result`"),
                    };
                    let tag = self.err_tag(args[0])?;
                    return Ok((E::ErrE(tag), Ty::Res(Box::new(inner), key)));
                }
                "Some" if args.len() == 1 => {
                    let iw = match want.map(|w| self.resolve(w)) {
                        Some(Ty::Opt(t)) => Some(*t),
                        _ => None,
                    };
                    let (v, t) = self.expr(args[0], iw.as_ref())?;
                    return Ok((E::SomeE(Box::new(v)), Ty::Opt(Box::new(t))));
                }
                _ => {}
            }
            if let Some((en, vn)) = self.alias(&last) {
                return self.variant_ctor(line, &en, &vn, args);
            }
            if let Some(sig) = self.d.fns.get(&(String::new(), last.clone())).cloned() {
                return self.known_call(line, &last, &sig, args);
            }
            if let Some(h) = self.d.helpers.get(&(String::new(), last.clone())).cloned() {
                return self.inline_call(line, &h, None, args);
            }
            return self.no(line, format!("call of `{}` which is neither whitelisted nor a fn of the group's source files", last));
        }
        let owner = {
            let o = &segs[segs.len() - 2];
            if o == "Self" { self.owner.clone() } else { o.clone() }
        };
        if owner == "cmp" && (last == "max" || last == "min") && args.len() == 2 {
            let (a, at) = self.expr(args[0], want)?;
            let (b, bt) = self.expr(args[1], Some(&at))?;
            let t = self.unify(line, &at, &bt, "cmp::min/max")?;
            self.int_of(line, &t, "cmp::min/max")?;
            return Ok((E::Method(if last == "max" { StdM::Max } else { StdM::Min }, vec![a, b], t.clone()), t));
        }
        if as_try_conv(&syn::Expr::Call(c.clone())).is_some() {
            return self.no(line, format!("`{}`: a bare `try_from` result (follow it by `.unwrap_or(c)`, `.map_err(|_| E)`, `.unwrap()`)", short(&syn::Expr::Call(c.clone()))));
        }
        if self.d.enums.contains_key(&owner) && self.d.enums[&owner].variants.iter().any(|(v, _)| *v == last) {
            return self.variant_ctor(line, &owner, &last, args);
        }
        if let Some(sig) = self.d.fns.get(&(owner.clone(), last.clone())).cloned() {
            return self.known_call(line, &format!("{}::{}", owner, last), &sig, args);
        }
        if let Some(h) = self.d.helpers.get(&(owner.clone(), last.clone())).cloned() {
            return self.inline_call(line, &h, None, args);
        }
        // `T::from(x)` between integer types: the std impls are exactly the lossless conversions
        if last == "from" && args.len() == 1 {
            if let Some(to) = int_ty_of_name(&owner) {
                return self.lossless(line, args[0], &to, &format!("{}::from", owner));
            }
        }
        self.no(line, format!("call of `{}` which is neither whitelisted nor a fn of the group's source files", tok(p).replace(' ', "")))
    }

    fn variant_ctor(&mut self, line: usize, en: &str, vn: &str, args: Vec<&syn::Expr>) -> R<(E, Ty)> {
        let fields = self.d.enums[en].variants.iter().find(|(v, _)| v == vn).unwrap().1.clone();
        if fields.iter().any(|(n, _)| n.is_some()) {
            return self.no(line, format!("`{}::{}` is a struct variant", en, vn));
        }
        let params: Vec<(String, Ty)> = fields.iter().map(|(_, t)| (String::new(), t.clone())).collect();
        let a = self.args_against(line, &format!("{}::{}", en, vn), args, &params)?;
        Ok((E::Ctor(en.to_string(), vn.to_string(), a), Ty::Enum(en.to_string())))
    }

    fn known_call(&mut self, line: usize, what: &str, sig: &FnSig, args: Vec<&syn::Expr>) -> R<(E, Ty)> {
        let a = self.args_against(line, what, args, &sig.params)?;
        self.deps.insert(sig.lean.clone());
        Ok((E::Call(sig.lean.clone(), a, matches!(sig.ret, Ty::Res(..))), sig.ret.clone()))
    }

    fn lossless(&mut self, line: usize, arg: &syn::Expr, to: &Ty, what: &str) -> R<(E, Ty)> {
        let (a, at) = self.expr(arg, None)?;
        let at = self.resolve(&at);
        self.lossless_ir(line, a, &at, to, what)
    }

    /// `T::from(x)` / `x.into()` between primitive integers (and from `bool`): only std impls can
    /// exist, and they are the value preserving ones; anything else is refused.
    fn lossless_ir(&mut self, line: usize, a: E, from: &Ty, to: &Ty, what: &str) -> R<(E, Ty)> {
        let ok = match (from, to) {
            (Ty::Bool, Ty::Int(..)) => true,
            (Ty::Int(fb, false), Ty::Int(tb, false)) => tb >= fb,
            (Ty::Int(fb, false), Ty::Int(tb, true)) => tb > fb,
            (Ty::Int(fb, true), Ty::Int(tb, true)) => tb >= fb,
            _ => false,
        };
        if !ok {
            return self.no(line, format!("`{}` from {:?} to {:?} is not a lossless integer conversion (or the source type is not determined)", what, from, to));
        }
        Ok((E::Cast(Box::new(a), from.clone(), to.clone()), to.clone()))
    }

    /// Inline a call of a non-whitelisted fn / inherent method of the group's source files:
    /// arguments are evaluated left to right (receiver first) in the caller's scope, then the
    /// callee's body is translated in a fresh scope that only sees its parameters.
    fn inline_call(&mut self, line: usize, h: &Helper, recv: Option<(E, Ty)>, args: Vec<&syn::Expr>) -> R<(E, Ty)> {
        let what = if h.owner.is_empty() { h.name.clone() } else { format!("{}::{}", h.owner, h.name) };
        if let Some(why) = &h.unusable {
            return self.no(line, format!("call of `{}` ({}:{}) which cannot be inlined: {}", what, h.file, h.line, why));
        }
        let key = (h.owner.clone(), h.name.clone());
        if self.inline_stack.contains(&key) {
            return self.no(line, format!("call of `{}` which is (mutually) recursive", what));
        }
        let sig = &h.sig;
        if sig.asyncness.is_some() || sig.unsafety.is_some() || sig.abi.is_some() || sig.variadic.is_some() {
            return self.no(line, format!("call of `{}` which is async/unsafe/extern", what));
        }
        if !sig.generics.params.is_empty() || sig.generics.where_clause.is_some() {
            return self.no(line, format!("call of `{}` which has generic parameters", what));
        }
        let self_ty = if h.owner.is_empty() { None } else { Some(h.owner.as_str()) };
        // ---- parameters (name, type), receiver first
        let mut params: Vec<(String, Ty)> = vec![];
        // parameters of type `&str` / `String`: message text, usable in the callee only as an
        // error payload (abstracted); the argument must itself be a message
        let mut msg_params: Vec<String> = vec![];
        let mut is_msg_param: Vec<bool> = vec![];
        let mut has_recv = false;
        for a in &sig.inputs {
            match a {
                syn::FnArg::Receiver(r) => {
                    if r.mutability.is_some() {
                        return self.no(line, format!("call of `{}` which takes `&mut self` / `mut self`", what));
                    }
                    let t = if self.d.enums.contains_key(&h.owner) {
                        Ty::Enum(h.owner.clone())
                    } else if self.d.structs.contains_key(&h.owner) {
                        Ty::Struct(h.owner.clone())
                    } else {
                        return self.no(line, format!("call of `{}` whose receiver type is not a whitelisted enum/struct", what));
                    };
                    has_recv = true;
                    params.push(("self".to_string(), t));
                }
                syn::FnArg::Typed(pt) => {
                    let id = match &*pt.pat {
                        syn::Pat::Ident(pi) if pi.by_ref.is_none() && pi.mutability.is_none() && pi.subpat.is_none() => pi.ident.to_string(),
                        syn::Pat::Wild(_) => "_".to_string(),
                        _ => return refuse(&h.file, line_of(a), format!("fn `{}` (inlined at line {}): parameter pattern `{}`", what, line, tok(&pt.pat))),
                    };
                    if is_str_type(&pt.ty) {
                        msg_params.push(id);
                        is_msg_param.push(true);
                        continue;
                    }
                    is_msg_param.push(false);
                    if let syn::Type::Reference(r) = &*pt.ty {
                        if r.mutability.is_some() {
                            return refuse(&h.file, line_of(a), format!("fn `{}` (inlined at line {}): `&mut` parameter", what, line));
                        }
                    }
                    let t = match self.d.ty(&h.file, &pt.ty, self_ty) {
                        Ok(t) => t,
                        Err(mut r) => {
                            r.what = format!("fn `{}` (inlined at {}:{}): {}", what, self.file, line, r.what);
                            return Err(r);
                        }
                    };
                    params.push((id, t));
                }
            }
        }
        let ret = match &sig.output {
            syn::ReturnType::Default => Ty::Unit,
            syn::ReturnType::Type(_, t) => match self.d.ty(&h.file, t, self_ty) {
                Ok(t) => t,
                Err(mut r) => {
                    r.what = format!("fn `{}` (inlined at {}:{}): {}", what, self.file, line, r.what);
                    return Err(r);
                }
            },
        };
        // ---- arguments, in the caller's scope
        let mut arg_ir: Vec<E> = vec![];
        let mut rest_params = &params[..];
        let mut args = args;
        if has_recv {
            match recv {
                Some((r, rt)) => {
                    self.unify(line, &rt, &params[0].1, &format!("receiver of `{}`", what))?;
                    arg_ir.push(r);
                }
                None => {
                    // `Type::method(receiver, ..)`
                    if args.is_empty() {
                        return self.no(line, format!("call of `{}` without a receiver", what));
                    }
                    let first = args.remove(0);
                    arg_ir.push(self.expr(first, Some(&params[0].1))?.0);
                }
            }
            rest_params = &params[1..];
        } else if recv.is_some() {
            return self.no(line, format!("`{}` has no receiver", what));
        }
        if args.len() != is_msg_param.len() {
            return self.no(line, format!("call of `{}`: {} arguments for {} parameters", what, args.len(), is_msg_param.len()));
        }
        let mut value_args = vec![];
        for (a, is_msg) in args.into_iter().zip(is_msg_param.iter()) {
            if *is_msg {
                if !is_message(a, &self.msg_vars) {
                    return self.no(line, format!("call of `{}`: the argument `{}` of a `&str`/`String` parameter is not a constant message", what, short(a)));
                }
            } else {
                value_args.push(a);
            }
        }
        arg_ir.extend(self.args_against(line, &what, value_args, rest_params)?);
        // ---- the body, in a fresh frame
        let saved_scopes = std::mem::replace(&mut self.scopes, vec![vec![]]);
        let saved_aliases = std::mem::replace(&mut self.aliases, vec![std::collections::BTreeMap::new()]);
        let saved_ret = std::mem::replace(&mut self.ret, ret.clone());
        let saved_owner = std::mem::replace(&mut self.owner, h.owner.clone());
        let saved_file = std::mem::replace(&mut self.file, h.file.clone());
        self.inline_stack.push(key);
        let saved_msgs = std::mem::take(&mut self.msg_vars);
        self.msg_vars.extend(msg_params.iter().cloned());
        self.tail_ok = false;
        let mut binds: Vec<(String, E)> = vec![];
        for ((pn, pt), a) in params.iter().zip(arg_ir.into_iter()) {
            match &a {
                // an argument that is a plain variable needs no new binding: alias the parameter
                E::Var(ln) if pn != "_" => {
                    self.scopes.last_mut().unwrap().push((pn.clone(), ln.clone(), pt.clone()));
                }
                _ => {
                    let ln = self.bind(pn, pt.clone());
                    binds.push((ln, a));
                }
            }
        }
        let r = self.block(&h.block, Some(&ret));
        self.inline_stack.pop();
        self.msg_vars = saved_msgs;
        self.tail_ok = false;
        self.scopes = saved_scopes;
        self.aliases = saved_aliases;
        self.ret = saved_ret;
        self.owner = saved_owner;
        self.file = saved_file;
        let (body, bt) = r?;
        self.inlined.insert(format!("{}:{} fn {}", h.file, h.line, what), format!("{} (inlined)", h.hash));
        let ty = self.unify(line, &bt, &ret, &format!("result of `{}`", what))?;
        Ok((E::Inline(binds, Box::new(body)), ty))
    }

    fn method(&mut self, line: usize, m: &syn::ExprMethodCall, want: Option<&Ty>) -> R<(E, Ty)> {
        let name = m.method.to_string();
        let args: Vec<&syn::Expr> = m.args.iter().collect();
        let whole = syn::Expr::MethodCall(m.clone());
        if m.turbofish.is_some() {
            return self.no(line, format!("`{}`: turbofish on a method", short(&whole)));
        }
        // ---- try_into()/try_from() chains
        if let Some((src, explicit)) = as_try_conv(&m.receiver) {
            let (s, st) = self.expr(src, None)?;
            if !matches!(self.resolve(&st), Ty::Int(..)) {
                return self.no(line, format!("`{}`: cannot determine the source type of the conversion", short(&whole)));
            }
            let tgt = match explicit {
                Some(t) => t,
                None => self.fresh_var(),
            };
            let conv = E::TryInto(Box::new(s), st, tgt.clone(), line);
            return match (name.as_str(), args.len()) {
                ("unwrap_or", 1) => {
                    let tw = match want {
                        Some(w) => self.unify(line, &tgt, w, "try_into().unwrap_or")?,
                        None => tgt.clone(),
                    };
                    let (c, ct) = self.expr(args[0], Some(&tw))?;
                    Ok((E::UnwrapOr(Box::new(conv), Box::new(c)), ct))
                }
                ("unwrap", 0) | ("expect", 1) => {
                    if name == "expect" && !is_message(args[0], &self.msg_vars) {
                        return self.no(line, "`expect` with a non-constant message");
                    }
                    Ok((E::Unwrap(Box::new(conv)), tgt))
                }
                ("map_err", 1) => {
                    let key = match (want.map(|w| self.resolve(w)), &self.ret) {
                        (Some(Ty::Res(t, k)), _) => {
                            self.unify(line, &tgt, &t, "try_into().map_err")?;
                            k
                        }
                        (_, Ty::Res(_, k)) => k.clone(),
                        _ => return self.no(line, "`map_err` in a function that does not return `Result`"),
                    };
                    let (pv, body) = self.closure1(args[0])?;
                    if pv.is_some() {
                        return self.no(line, "`map_err` closure must ignore its argument (`|_| ..`)");
                    }
                    let tag = self.err_tag(body)?;
                    Ok((E::OkOr(Box::new(conv), tag), Ty::Res(Box::new(tgt), key)))
                }
                ("is_ok", 0) | ("is_err", 0) | ("ok", 0) => self.no(line, format!("`{}`: target type of the conversion is not determined syntactically", short(&whole))),
                _ => self.no(line, format!("`{}`: unsupported use of a `try_into`/`try_from` result", short(&whole))),
            };
        }
        if name == "try_into" {
            return self.no(line, format!("`{}`: a bare `try_into()` result (follow it by `.unwrap_or(c)`, `.map_err(|_| E)`, `.unwrap()`)", short(&whole)));
        }
        // ---- by receiver type
        let (recv, rt) = self.expr(&m.receiver, None)?;
        let rt = self.resolve(&rt);
        match &rt {
            Ty::Enum(n) | Ty::Struct(n) => {
                if let Some(sig) = self.d.fns.get(&(n.clone(), name.clone())).cloned() {
                    if sig.params.first().map(|(p, _)| p.as_str()) != Some("self") {
                        return self.no(line, format!("`{}::{}` has no receiver", n, name));
                    }
                    if sig.mut_self {
                        return self.no(line, format!("call of `{}::{}` which takes `&mut self`", n, name));
                    }
                    let mut a = vec![recv];
                    a.extend(self.args_against(line, &format!("{}::{}", n, name), args, &sig.params[1..])?);
                    self.deps.insert(sig.lean.clone());
                    return Ok((E::Call(sig.lean.clone(), a, matches!(sig.ret, Ty::Res(..))), sig.ret.clone()));
                }
                if let Some(h) = self.d.helpers.get(&(n.clone(), name.clone())).cloned() {
                    return self.inline_call(line, &h, Some((recv, rt.clone())), args);
                }
                self.no(line, format!("method `{}::{}` is neither whitelisted nor an inherent method in the group's source files", n, name))
            }
            Ty::Int(bits, signed) => {
                let same = |cx: &mut Self, a: &syn::Expr| -> R<E> { Ok(cx.expr(a, Some(&rt))?.0) };
                let u32t = Ty::Int(32, false);
                if name == "into" && args.is_empty() {
                    return match want.map(|w| self.resolve(w)) {
                        Some(to @ Ty::Int(..)) => self.lossless_ir(line, recv, &rt, &to, "into()"),
                        _ => self.no(line, format!("`{}`: the target type of `.into()` is not determined by its context", short(&whole))),
                    };
                }
                let (sm, argv, res): (StdM, Vec<E>, Ty) = match (name.as_str(), args.len()) {
                    ("wrapping_add", 1) => (StdM::WrappingAdd, vec![same(self, args[0])?], rt.clone()),
                    ("wrapping_sub", 1) => (StdM::WrappingSub, vec![same(self, args[0])?], rt.clone()),
                    ("wrapping_mul", 1) => (StdM::WrappingMul, vec![same(self, args[0])?], rt.clone()),
                    ("wrapping_neg", 0) => (StdM::WrappingNeg, vec![], rt.clone()),
                    ("wrapping_shl", 1) => (StdM::WrappingShl, vec![self.expr(args[0], Some(&u32t))?.0], rt.clone()),
                    ("wrapping_shr", 1) => (StdM::WrappingShr, vec![self.expr(args[0], Some(&u32t))?.0], rt.clone()),
                    ("checked_add", 1) => (StdM::CheckedAdd, vec![same(self, args[0])?], Ty::Opt(Box::new(rt.clone()))),
                    ("checked_sub", 1) => (StdM::CheckedSub, vec![same(self, args[0])?], Ty::Opt(Box::new(rt.clone()))),
                    ("checked_mul", 1) => (StdM::CheckedMul, vec![same(self, args[0])?], Ty::Opt(Box::new(rt.clone()))),
                    ("saturating_add", 1) => (StdM::SaturatingAdd, vec![same(self, args[0])?], rt.clone()),
                    ("saturating_sub", 1) => (StdM::SaturatingSub, vec![same(self, args[0])?], rt.clone()),
                    ("overflowing_add", 1) => (StdM::OverflowingAdd, vec![same(self, args[0])?], Ty::Tuple(vec![rt.clone(), Ty::Bool])),
                    ("overflowing_sub", 1) => (StdM::OverflowingSub, vec![same(self, args[0])?], Ty::Tuple(vec![rt.clone(), Ty::Bool])),
                    ("overflowing_mul", 1) => (StdM::OverflowingMul, vec![same(self, args[0])?], Ty::Tuple(vec![rt.clone(), Ty::Bool])),
                    ("min", 1) => (StdM::Min, vec![same(self, args[0])?], rt.clone()),
                    ("max", 1) => (StdM::Max, vec![same(self, args[0])?], rt.clone()),
                    ("unsigned_abs", 0) if *signed => (StdM::UnsignedAbs, vec![], Ty::Int(*bits, false)),
                    ("count_ones", 0) => (StdM::CountOnes, vec![], u32t.clone()),
                    ("leading_zeros", 0) => (StdM::LeadingZeros, vec![], u32t.clone()),
                    _ => return self.no(line, format!("integer method `{}` with {} argument(s) is not in the supported list", name, args.len())),
                };
                let mut all = vec![recv];
                all.extend(argv);
                Ok((E::Method(sm, all, rt.clone()), res))
            }
            Ty::Opt(inner) => match (name.as_str(), args.len()) {
                ("is_some", 0) => Ok((E::Method(StdM::IsSome, vec![recv], rt.clone()), Ty::Bool)),
                ("is_none", 0) => Ok((E::Method(StdM::IsNone, vec![recv], rt.clone()), Ty::Bool)),
                ("unwrap_or", 1) => {
                    let (c, _) = self.expr(args[0], Some(inner))?;
                    Ok((E::UnwrapOr(Box::new(recv), Box::new(c)), (**inner).clone()))
                }
                ("unwrap", 0) => Ok((E::Unwrap(Box::new(recv)), (**inner).clone())),
                ("expect", 1) if is_message(args[0], &self.msg_vars) => Ok((E::Unwrap(Box::new(recv)), (**inner).clone())),
                ("ok_or", 1) => {
                    let key = match &self.ret {
                        Ty::Res(_, k) => k.clone(),
                        _ => return self.no(line, "`ok_or` in a function that does not return `Result`"),
                    };
                    let tag = self.err_tag(args[0])?;
                    Ok((E::OkOr(Box::new(recv), tag), Ty::Res(inner.clone(), key)))
                }
                ("ok_or_else", 1) => {
                    let key = match &self.ret {
                        Ty::Res(_, k) => k.clone(),
                        _ => return self.no(line, "`ok_or_else` in a function that does not return `Result`"),
                    };
                    let body = match strip(args[0]) {
                        syn::Expr::Closure(c) if c.inputs.is_empty() => &c.body,
                        _ => return self.no(line, "`ok_or_else` expects `|| ERR`"),
                    };
                    let tag = self.err_tag(body)?;
                    Ok((E::OkOr(Box::new(recv), tag), Ty::Res(inner.clone(), key)))
                }
                ("is_some_and", 1) => {
                    let (pv, body) = self.closure1(args[0])?;
                    self.push();
                    let ln = match pv {
                        Some(v) => self.bind(&v, (**inner).clone()),
                        None => self.fresh_name("_u"),
                    };
                    let r = self.expr(body, Some(&Ty::Bool));
                    self.pop();
                    let (b, _) = r?;
                    Ok((E::IsSomeAnd(Box::new(recv), ln, Box::new(b)), Ty::Bool))
                }
                _ => self.no(line, format!("`Option` method `{}` is not in the supported list", name)),
            },
            Ty::Var(_) => self.no(line, format!("`{}`: cannot determine the receiver's integer type", short(&whole))),
            other => self.no(line, format!("method `{}` on {:?}", name, other)),
        }
    }

    pub(crate) fn macro_expr(&mut self, line: usize, mac: &syn::Macro) -> R<(E, Ty)> {
        let name = mac.path.segments.last().map(|s| s.ident.to_string()).unwrap_or_default();
        let parse_args = |cx: &Self| -> R<Vec<syn::Expr>> {
            let parser = syn::punctuated::Punctuated::<syn::Expr, syn::Token![,]>::parse_terminated;
            match syn::parse::Parser::parse2(parser, mac.tokens.clone()) {
                Ok(p) => Ok(p.into_iter().collect()),
                Err(_) => cx.no(line, format!("cannot parse the arguments of `{}!`", name)),
            }
        };
        match name.as_str() {
            "unreachable" | "panic" | "todo" | "unimplemented" => Ok((E::Panic, Ty::Never)),
            "debug_assert" | "assert" => {
                let a = parse_args(self)?;
                if a.is_empty() {
                    return self.no(line, format!("`{}!` without a condition", name));
                }
                let (c, _) = self.expr(&a[0], Some(&Ty::Bool))?;
                Ok((if name == "assert" { E::Assert(Box::new(c)) } else { E::DebugAssert(Box::new(c)) }, Ty::Unit))
            }
            "debug_assert_eq" | "assert_eq" | "debug_assert_ne" | "assert_ne" => {
                let a = parse_args(self)?;
                if a.len() < 2 {
                    return self.no(line, format!("`{}!` needs two operands", name));
                }
                let (l, lt) = self.expr(&a[0], None)?;
                let (r, rt) = self.expr(&a[1], Some(&lt))?;
                let t = self.unify(line, &lt, &rt, "assert_eq operands")?;
                let op = if name.ends_with("_eq") { BinOp::Eq } else { BinOp::Ne };
                let c = E::Bin(op, Box::new(l), Box::new(r), t.clone(), t);
                Ok((if name.starts_with("debug_") { E::DebugAssert(Box::new(c)) } else { E::Assert(Box::new(c)) }, Ty::Unit))
            }
            _ => self.no(line, format!("macro `{}!`", tok(&mac.path).replace(' ', ""))),
        }
    }
}

pub fn short(e: &syn::Expr) -> String {
    let s = tok(e);
    if s.len() > 70 {
        let mut t: String = s.chars().take(67).collect();
        t.push_str("...");
        t
    } else {
        s
    }
}

pub fn kind(e: &syn::Expr) -> &'static str {
    match e {
        syn::Expr::Array(_) => "array",
        syn::Expr::Assign(_) => "assignment",
        syn::Expr::AssignOp(_) => "compound assignment",
        syn::Expr::Async(_) => "async block",
        syn::Expr::Await(_) => "await",
        syn::Expr::Box(_) => "box",
        syn::Expr::Break(_) => "break",
        syn::Expr::Closure(_) => "closure",
        syn::Expr::Continue(_) => "continue",
        syn::Expr::ForLoop(_) => "for loop",
        syn::Expr::Index(_) => "indexing",
        syn::Expr::Let(_) => "let expression",
        syn::Expr::Loop(_) => "loop",
        syn::Expr::Range(_) => "range",
        syn::Expr::Repeat(_) => "array repeat",
        syn::Expr::Struct(_) => "struct literal",
        syn::Expr::TryBlock(_) => "try block",
        syn::Expr::Type(_) => "type ascription",
        syn::Expr::Unsafe(_) => "unsafe block",
        syn::Expr::While(_) => "while loop",
        syn::Expr::Yield(_) => "yield",
        _ => "expression",
    }
}

// silence the unused import warning when Spanned is only used through line_of
#[allow(dead_code)]
fn _spanned_used<T: Spanned>(_t: &T) {}
