//! Blocks, statements, patterns, `match`, final type resolution ("zonk").

use crate::expr::short;
use crate::front::*;
use crate::ir::*;
use std::collections::BTreeMap;

type Binds = BTreeMap<String, (String, Ty)>;

impl<'a> FnCx<'a> {
    pub fn block(&mut self, b: &syn::Block, want: Option<&Ty>) -> R<(E, Ty)> {
        self.push();
        let r = self.stmts(&b.stmts, want, line_of(b));
        self.pop();
        r
    }

    fn stmts(&mut self, ss: &[syn::Stmt], want: Option<&Ty>, line: usize) -> R<(E, Ty)> {
        // tail-flow flag of this statement list (see `FnCx::tail_ok`); every call below sets the
        // flag explicitly for the position it translates
        let tail = std::mem::replace(&mut self.tail_ok, false);
        if ss.is_empty() {
            let t = self.want(line, &Ty::Unit, want, "empty block")?;
            return Ok((E::Unit, t));
        }
        let s = &ss[0];
        let rest = &ss[1..];
        let sl = line_of(s);
        match s {
            syn::Stmt::Local(l) => {
                if !l.attrs.is_empty() {
                    return self.no(sl, "attribute on a `let`");
                }
                let init = match &l.init {
                    Some((_, e)) => e,
                    None => return self.no(sl, "`let` without initialiser"),
                };
                // `let msg = format!(..);` — a message, usable only as an error payload (abstracted)
                if let (syn::Pat::Ident(pi), true) = (&l.pat, crate::expr::is_format_macro(init)) {
                    if pi.by_ref.is_none() && pi.mutability.is_none() && pi.subpat.is_none() {
                        self.msg_vars.insert(pi.ident.to_string());
                        self.tail_ok = tail;
                        return self.stmts(rest, want, sl);
                    }
                }
                let (pat, declared) = match &l.pat {
                    syn::Pat::Type(pt) => (&*pt.pat, Some(self.d.ty(&self.file, &pt.ty, Some(&self.owner))?)),
                    p => (p, None),
                };
                let (ie, it) = self.expr_nt(init, declared.as_ref())?;
                if matches!(self.resolve(&it), Ty::Res(..)) {
                    return self.no(sl, "a `Result` bound to a variable (only `?`, `return` and tail position are supported)");
                }
                let mut binds = Binds::new();
                let p = self.pattern(pat, &it, &mut binds, true)?;
                self.commit(binds);
                self.tail_ok = tail;
                let (body, bt) = self.stmts(rest, want, sl)?;
                Ok((E::Let(p, Box::new(ie), Box::new(body)), bt))
            }
            syn::Stmt::Item(syn::Item::Use(u)) => {
                self.local_use(sl, &u.tree, None)?;
                self.tail_ok = tail;
                self.stmts(rest, want, sl)
            }
            syn::Stmt::Item(syn::Item::Macro(m)) => {
                self.tail_ok = false;
                let (e, t) = self.macro_expr(sl, &m.mac)?;
                self.sequence(sl, e, t, rest, want, tail)
            }
            syn::Stmt::Item(_) => self.no(sl, "nested item in a function body"),
            syn::Stmt::Semi(e, _) if matches!(e, syn::Expr::Assign(_) | syn::Expr::AssignOp(_)) => self.assign_self(sl, e, rest, want, tail),
            syn::Stmt::Semi(e, _) => {
                // `if c { ..; return x; }` keeps the tail flow: every path through its block ends
                // in a `return` (paired with the current `self`), so no join point follows it
                self.tail_ok = tail && is_if_then_return(e);
                let (ir, t) = self.expr(e, None)?;
                if matches!(self.resolve(&t), Ty::Res(..)) {
                    return self.no(sl, format!("`{}`: unused `Result`", short(e)));
                }
                self.sequence(sl, ir, t, rest, want, tail)
            }
            syn::Stmt::Expr(e) => {
                if rest.is_empty() {
                    self.tail_ok = tail;
                    self.expr(e, want)
                } else {
                    self.tail_ok = tail && is_if_then_return(e);
                    let (ir, t) = self.expr(e, Some(&Ty::Unit))?;
                    self.sequence(sl, ir, t, rest, want, tail)
                }
            }
        }
    }

    /// `self.field = e;` / `self.field op= e;` in a target that takes `&mut self` on a whitelisted
    /// struct of integer fields: a functional update of `self`, visible to the REST of this
    /// statement list.  Only accepted in the tail flow of the body (no join point after it), so
    /// that the updated `self` can never be lost; everything else is refused.
    pub(crate) fn assign_self(&mut self, sl: usize, e: &syn::Expr, rest: &[syn::Stmt], want: Option<&Ty>, tail: bool) -> R<(E, Ty)> {
        use syn::BinOp as B;
        let (lhs, rhs, op): (&syn::Expr, &syn::Expr, Option<BinOp>) = match e {
            syn::Expr::Assign(a) => (&a.left, &a.right, None),
            syn::Expr::AssignOp(a) => (
                &a.left,
                &a.right,
                Some(match a.op {
                    B::AddEq(_) => BinOp::Add,
                    B::SubEq(_) => BinOp::Sub,
                    B::MulEq(_) => BinOp::Mul,
                    B::DivEq(_) => BinOp::Div,
                    B::RemEq(_) => BinOp::Rem,
                    B::BitAndEq(_) => BinOp::BitAnd,
                    B::BitOrEq(_) => BinOp::BitOr,
                    B::BitXorEq(_) => BinOp::BitXor,
                    _ => return self.no(sl, format!("compound assignment `{}`", tok(&a.op))),
                }),
            ),
            _ => unreachable!(),
        };
        if !(self.mut_self && self.inline_stack.len() == 1) {
            return self.no(sl, format!("`{}`: assignment (only `self.field = e` in a `&mut self` method of a whitelisted struct is supported)", short(e)));
        }
        if !tail {
            return self.no(sl, format!("`{}`: assignment to `self` outside the tail flow of the body (a join point follows)", short(e)));
        }
        let field = match lhs {
            syn::Expr::Field(f) => match (&*f.base, &f.member) {
                (syn::Expr::Path(p), syn::Member::Named(id)) if p.qself.is_none() && p.path.is_ident("self") => id.to_string(),
                _ => return self.no(sl, format!("`{}`: assignment target is not `self.field`", short(e))),
            },
            _ => return self.no(sl, format!("`{}`: assignment target is not `self.field`", short(e))),
        };
        let (cur, sty) = match self.lookup("self") {
            Some(x) => x,
            None => return self.no(sl, "assignment without `self` in scope"),
        };
        let sname = match &sty {
            Ty::Struct(s) => s.clone(),
            other => return self.no(sl, format!("assignment to a field of {:?}", other)),
        };
        let ft = match self.d.structs[&sname].fields.iter().find(|(n, _)| *n == field) {
            Some((_, t)) => t.clone(),
            None => return self.no(sl, format!("struct `{}` has no field `{}`", sname, field)),
        };
        if !matches!(ft, Ty::Int(..) | Ty::Bool) {
            return self.no(sl, format!("assignment to the non-integer field `{}`", field));
        }
        let (r, _) = self.expr_nt(rhs, Some(&ft))?;
        let lf = lean_ident(&field);
        let value = match op {
            None => r,
            Some(o) => {
                if matches!(ft, Ty::Bool) && !matches!(o, BinOp::BitAnd | BinOp::BitOr | BinOp::BitXor) {
                    return self.no(sl, "arithmetic compound assignment on a bool field");
                }
                E::Bin(o, Box::new(E::Field(Box::new(E::Var(cur.clone())), lf.clone())), Box::new(r), ft.clone(), ft.clone())
            }
        };
        let new = self.bind("self", sty);
        self.self_versions.insert(new.clone());
        self.tail_ok = tail;
        let (body, bt) = self.stmts(rest, want, sl)?;
        Ok((E::Let(Pat::Var(new), Box::new(E::StructUpd(Box::new(E::Var(cur)), lf, Box::new(value))), Box::new(body)), bt))
    }

    fn sequence(&mut self, sl: usize, first: E, first_ty: Ty, rest: &[syn::Stmt], want: Option<&Ty>, tail: bool) -> R<(E, Ty)> {
        if rest.is_empty() {
            // `e;` as last statement: the block has type `()` unless `e` diverges
            let t = if matches!(self.resolve(&first_ty), Ty::Never) { Ty::Never } else { Ty::Unit };
            let t = self.want(sl, &t, want, "block value")?;
            return Ok((if matches!(t, Ty::Never) || matches!(first, E::Return(_) | E::Panic) { first } else { E::Let(Pat::Wild, Box::new(first), Box::new(E::Unit)) }, t));
        }
        if matches!(first, E::Return(_) | E::Panic) {
            return self.no(sl, "unreachable statements after a diverging expression");
        }
        self.tail_ok = tail;
        let (body, bt) = self.stmts(rest, want, sl)?;
        Ok((E::Let(Pat::Wild, Box::new(first), Box::new(body)), bt))
    }

    fn local_use(&mut self, line: usize, t: &syn::UseTree, en: Option<String>) -> R<()> {
        match t {
            syn::UseTree::Path(p) => {
                let id = p.ident.to_string();
                let id = if id == "Self" { self.owner.clone() } else { id };
                let next = if self.d.enums.contains_key(&id) { Some(id) } else { None };
                self.local_use(line, &p.tree, next)
            }
            syn::UseTree::Group(g) => {
                for it in &g.items {
                    self.local_use(line, it, en.clone())?;
                }
                Ok(())
            }
            syn::UseTree::Name(n) => {
                let en = match en {
                    Some(e) => e,
                    None => return self.no(line, "local `use` of something that is not a variant of a whitelisted enum"),
                };
                let vn = n.ident.to_string();
                if !self.d.enums[&en].variants.iter().any(|(v, _)| *v == vn) {
                    return self.no(line, format!("`{}` is not a variant of `{}`", vn, en));
                }
                self.aliases.last_mut().unwrap().insert(vn.clone(), (en, vn));
                Ok(())
            }
            syn::UseTree::Glob(_) => {
                let en = match en {
                    Some(e) => e,
                    None => return self.no(line, "local `use ..::*` of something that is not a whitelisted enum"),
                };
                let vs: Vec<String> = self.d.enums[&en].variants.iter().map(|(v, _)| v.clone()).collect();
                for vn in vs {
                    self.aliases.last_mut().unwrap().insert(vn.clone(), (en.clone(), vn));
                }
                Ok(())
            }
            syn::UseTree::Rename(_) => self.no(line, "local `use .. as ..`"),
        }
    }

    fn commit(&mut self, binds: Binds) {
        for (rust, (lean, ty)) in binds {
            // a value binding shadows a message local of the same name
            self.msg_vars.remove(&rust);
            self.scopes.last_mut().unwrap().push((rust, lean, ty));
        }
    }

    fn bind_in(&mut self, line: usize, binds: &mut Binds, rust: &str, ty: &Ty) -> R<String> {
        if let Some((ln, t)) = binds.get(rust).cloned() {
            self.unify(line, &t, ty, "or-pattern bindings")?;
            return Ok(ln);
        }
        let ln = self.fresh_name(rust);
        binds.insert(rust.to_string(), (ln.clone(), ty.clone()));
        Ok(ln)
    }

    /// `irrefutable`: a `let` pattern (identifiers, `_`, tuples only)
    pub(crate) fn pattern(&mut self, p: &syn::Pat, ty: &Ty, binds: &mut Binds, irrefutable: bool) -> R<Pat> {
        let line = line_of(p);
        let rty = self.resolve(ty);
        match p {
            syn::Pat::Wild(_) => Ok(Pat::Wild),
            syn::Pat::Reference(r) if r.mutability.is_none() => self.pattern(&r.pat, ty, binds, irrefutable),
            syn::Pat::Ident(pi) => {
                if pi.by_ref.is_some() || pi.mutability.is_some() || pi.subpat.is_some() {
                    return self.no(line, format!("pattern `{}` (`mut` / `ref` / `@`)", tok(p)));
                }
                let id = pi.ident.to_string();
                if let Some((en, vn)) = self.alias(&id) {
                    if irrefutable {
                        return self.no(line, format!("refutable pattern `{}` in `let`", id));
                    }
                    return self.ctor_pat(line, &en, &vn, vec![], false, &rty, binds);
                }
                if id == "None" {
                    if let Ty::Opt(_) = rty {
                        return Ok(Pat::NoneP);
                    }
                }
                if id.chars().next().map_or(false, |c| c.is_uppercase()) {
                    return self.no(line, format!("pattern `{}` looks like a constant or variant that is not in scope of the translator", id));
                }
                Ok(Pat::Var(self.bind_in(line, binds, &id, ty)?))
            }
            syn::Pat::Tuple(t) => match &rty {
                Ty::Tuple(ts) if ts.len() == t.elems.len() => {
                    let mut v = vec![];
                    for (x, xt) in t.elems.iter().zip(ts.iter()) {
                        v.push(self.pattern(x, xt, binds, irrefutable)?);
                    }
                    Ok(Pat::Tuple(v))
                }
                other => self.no(line, format!("tuple pattern `{}` against {:?}", tok(p), other)),
            },
            _ if irrefutable => self.no(line, format!("`let` pattern `{}`", tok(p))),
            syn::Pat::Lit(l) => {
                let (neg, lit) = match &*l.expr {
                    syn::Expr::Lit(x) => (false, &x.lit),
                    syn::Expr::Unary(u) if matches!(u.op, syn::UnOp::Neg(_)) => match &*u.expr {
                        syn::Expr::Lit(x) => (true, &x.lit),
                        _ => return self.no(line, format!("pattern `{}`", tok(p))),
                    },
                    _ => return self.no(line, format!("pattern `{}`", tok(p))),
                };
                match lit {
                    syn::Lit::Int(li) => {
                        let v = match li.base10_parse::<u128>().ok().and_then(|v| i128::try_from(v).ok()) {
                            Some(v) => v,
                            None => return self.no(line, "integer literal too large"),
                        };
                        if !li.suffix().is_empty() {
                            let st = int_ty_of_name(li.suffix()).ok_or(Refuse { file: self.file.clone(), line, what: "literal suffix".into() })?;
                            self.unify(line, &st, ty, "literal pattern")?;
                        }
                        match rty {
                            Ty::Int(..) | Ty::Var(_) => Ok(Pat::Int(if neg { -v } else { v }, ty.clone(), line)),
                            other => self.no(line, format!("integer pattern against {:?}", other)),
                        }
                    }
                    syn::Lit::Bool(b) if matches!(rty, Ty::Bool) => Ok(Pat::Bool(b.value)),
                    _ => self.no(line, format!("pattern `{}`", tok(p))),
                }
            }
            syn::Pat::Or(o) => {
                let mut alts = vec![];
                let mut first: Option<Vec<String>> = None;
                for c in &o.cases {
                    let mut b = Binds::new();
                    // share names with the previous alternatives
                    for (k, v) in binds.iter() {
                        b.insert(k.clone(), v.clone());
                    }
                    let before: Vec<String> = binds.keys().cloned().collect();
                    let pat = self.pattern(c, ty, &mut b, false)?;
                    let new: Vec<String> = b.keys().filter(|k| !before.contains(k)).cloned().collect();
                    match &first {
                        None => {
                            first = Some(new);
                            for (k, v) in b {
                                binds.insert(k, v);
                            }
                        }
                        Some(f) => {
                            // every alternative must bind the same names (they were all already known)
                            let bound_here = pat_vars(&pat);
                            for k in f {
                                let ln = &binds[k].0;
                                if !bound_here.contains(ln) {
                                    return self.no(line, format!("or-pattern alternatives bind different names (`{}`)", k));
                                }
                            }
                            if !new.is_empty() {
                                return self.no(line, format!("or-pattern alternatives bind different names (`{}`)", new[0]));
                            }
                        }
                    }
                    alts.push(pat);
                }
                Ok(Pat::Or(alts))
            }
            syn::Pat::Path(pp) if pp.qself.is_none() => {
                let (en, vn) = self.variant_path(line, &pp.path)?;
                self.ctor_pat(line, &en, &vn, vec![], false, &rty, binds)
            }
            syn::Pat::TupleStruct(ts) => {
                let segs: Vec<String> = ts.path.segments.iter().map(|s| s.ident.to_string()).collect();
                if segs.len() == 1 && segs[0] == "Some" && ts.pat.elems.len() == 1 {
                    return match &rty {
                        Ty::Opt(inner) => Ok(Pat::SomeP(Box::new(self.pattern(&ts.pat.elems[0], inner, binds, false)?))),
                        other => self.no(line, format!("`Some(..)` pattern against {:?}", other)),
                    };
                }
                let (en, vn) = self.variant_path(line, &ts.path)?;
                let subs: Vec<(Option<String>, &syn::Pat)> = ts.pat.elems.iter().map(|x| (None, x)).collect();
                self.ctor_pat(line, &en, &vn, subs, false, &rty, binds)
            }
            syn::Pat::Struct(ps) => {
                let (en, vn) = self.variant_path(line, &ps.path)?;
                let mut subs = vec![];
                for f in &ps.fields {
                    match &f.member {
                        syn::Member::Named(id) => subs.push((Some(id.to_string()), &*f.pat)),
                        syn::Member::Unnamed(_) => return self.no(line, "positional field in a struct pattern"),
                    }
                }
                self.ctor_pat(line, &en, &vn, subs, ps.dot2_token.is_some(), &rty, binds)
            }
            other => self.no(line, format!("pattern `{}`", tok(other))),
        }
    }

    fn variant_path(&mut self, line: usize, p: &syn::Path) -> R<(String, String)> {
        let segs: Vec<String> = p.segments.iter().map(|s| s.ident.to_string()).collect();
        if segs.len() == 1 {
            if let Some(a) = self.alias(&segs[0]) {
                return Ok(a);
            }
            return self.no(line, format!("pattern `{}` is not a variant in scope", segs[0]));
        }
        let o = &segs[segs.len() - 2];
        let en = if o == "Self" { self.owner.clone() } else { o.clone() };
        let vn = segs[segs.len() - 1].clone();
        match self.d.enums.get(&en) {
            Some(ed) if ed.variants.iter().any(|(v, _)| *v == vn) => Ok((en, vn)),
            _ => self.no(line, format!("pattern `{}` is not a variant of a whitelisted enum", tok(p).replace(' ', ""))),
        }
    }

    #[allow(clippy::too_many_arguments)]
    fn ctor_pat(&mut self, line: usize, en: &str, vn: &str, subs: Vec<(Option<String>, &syn::Pat)>, rest: bool, scrut: &Ty, binds: &mut Binds) -> R<Pat> {
        match scrut {
            Ty::Enum(s) if s == en => {}
            other => return self.no(line, format!("pattern `{}::{}` against {:?}", en, vn, other)),
        }
        let fields = self.d.enums[en].variants.iter().find(|(v, _)| v == vn).unwrap().1.clone();
        let mut out: Vec<Pat> = vec![Pat::Wild; fields.len()];
        let named = subs.iter().any(|(n, _)| n.is_some());
        if named {
            let mut seen = 0;
            for (n, sp) in &subs {
                let n = n.as_ref().unwrap();
                match fields.iter().position(|(fname, _)| fname.as_deref() == Some(n.as_str())) {
                    Some(i) => {
                        out[i] = self.pattern(sp, &fields[i].1, binds, false)?;
                        seen += 1;
                    }
                    None => return self.no(line, format!("`{}::{}` has no field `{}`", en, vn, n)),
                }
            }
            if seen != fields.len() && !rest {
                return self.no(line, format!("pattern for `{}::{}` misses fields", en, vn));
            }
        } else {
            if subs.iter().any(|(_, sp)| matches!(sp, syn::Pat::Rest(_))) {
                return self.no(line, "`..` inside a tuple-variant pattern");
            }
            if subs.len() != fields.len() {
                return self.no(line, format!("pattern for `{}::{}` has {} sub-patterns for {} fields", en, vn, subs.len(), fields.len()));
            }
            for (i, (_, sp)) in subs.iter().enumerate() {
                out[i] = self.pattern(sp, &fields[i].1, binds, false)?;
            }
        }
        Ok(Pat::Ctor(en.to_string(), vn.to_string(), out))
    }

    pub(crate) fn match_expr(&mut self, line: usize, m: &syn::ExprMatch, want: Option<&Ty>, tail: bool) -> R<(E, Ty)> {
        let (s, st) = self.expr_nt(&m.expr, None)?;
        if matches!(self.resolve(&st), Ty::Res(..)) {
            return self.no(line, "`match` on a `Result`");
        }
        let mut arms = vec![];
        let mut ty: Option<Ty> = want.cloned();
        for a in &m.arms {
            self.push();
            let r = (|| -> R<Arm> {
                let mut binds = Binds::new();
                let pat = self.pattern(&a.pat, &st, &mut binds, false)?;
                self.commit(binds);
                let guard = match &a.guard {
                    Some((_, g)) => Some(self.expr_nt(g, Some(&Ty::Bool))?.0),
                    None => None,
                };
                self.tail_ok = tail;
                let (body, bt) = self.expr(&a.body, ty.as_ref())?;
                ty = Some(match &ty {
                    Some(t) => self.unify(line_of(&a.body), t, &bt, "`match` arms")?,
                    None => bt,
                });
                Ok(Arm { pat, guard, body })
            })();
            self.pop();
            arms.push(r?);
        }
        if arms.is_empty() {
            return self.no(line, "`match` without arms");
        }
        let cond = arms.iter().all(|a| pat_condable(&a.pat));
        let mat = arms.iter().all(|a| pat_matchable(&a.pat));
        if !cond && !mat {
            return self.no(line, "`match` mixes integer-literal patterns with enum patterns");
        }
        if cond && !mat && !pat_irrefutable(&arms.last().unwrap().pat) {
            return self.no(line, "`match` on integers/bools whose last arm is not a catch-all");
        }
        if cond && !mat && arms[..arms.len() - 1].iter().any(|a| a.guard.is_none() && pat_irrefutable(&a.pat)) {
            return self.no(line, "`match` with arms after a catch-all arm");
        }
        if cond && !mat && arms.iter().any(|a| or_binds(&a.pat)) {
            return self.no(line, "`match` on integers: a binding inside an or-pattern");
        }
        Ok((E::Match(Box::new(s), st, arms), ty.unwrap()))
    }

    // ---------------------------------------------------------------------------------
    // final resolution of inferred integer types
    // ---------------------------------------------------------------------------------

    fn zt(&self, t: &mut Ty, line: usize, what: &str) -> R<()> {
        let r = self.resolve(t);
        *t = self.default_ty(r, line, what)?;
        Ok(())
    }

    fn default_ty(&self, t: Ty, line: usize, what: &str) -> R<Ty> {
        Ok(match t {
            Ty::Var(i) => {
                if self.shift_vars.contains(&i) {
                    Ty::Int(32, true)
                } else {
                    return self.no(line, format!("cannot determine the integer type of {}", what));
                }
            }
            Ty::Tuple(v) => Ty::Tuple(v.into_iter().map(|x| self.default_ty(x, line, what)).collect::<R<Vec<_>>>()?),
            Ty::Opt(x) => Ty::Opt(Box::new(self.default_ty(*x, line, what)?)),
            Ty::Res(x, k) => Ty::Res(Box::new(self.default_ty(*x, line, what)?), k),
            other => other,
        })
    }

    fn zp(&self, p: &mut Pat) -> R<()> {
        match p {
            Pat::Int(v, t, line) => {
                self.zt(t, *line, "a literal pattern")?;
                self.lit_range(*v, t, *line)
            }
            Pat::Tuple(v) | Pat::Or(v) | Pat::Ctor(_, _, v) => {
                for x in v {
                    self.zp(x)?;
                }
                Ok(())
            }
            Pat::SomeP(x) => self.zp(x),
            _ => Ok(()),
        }
    }

    fn lit_range(&self, v: i128, t: &Ty, line: usize) -> R<()> {
        if let Ty::Int(b, s) = t {
            let (lo, hi) = int_range(*b, *s);
            if v < lo || v > hi {
                return self.no(line, format!("literal {} out of range for its type", v));
            }
        }
        Ok(())
    }

    pub fn zonk(&self, e: &mut E, line: usize) -> R<()> {
        match e {
            E::Var(_) | E::Bool(_) | E::Unit | E::Const(_) | E::NoneE | E::Panic | E::ErrE(_) => Ok(()),
            E::Int(v, t, l) => {
                self.zt(t, *l, &format!("the literal `{}`", v))?;
                self.lit_range(*v, t, *l)
            }
            E::Tuple(v) | E::Ctor(_, _, v) | E::Call(_, v, _) => {
                for x in v {
                    self.zonk(x, line)?;
                }
                Ok(())
            }
            E::StructLit(_, fs) => {
                for (_, x) in fs.iter_mut() {
                    self.zonk(x, line)?;
                }
                Ok(())
            }
            E::StructUpd(a, _, b) => {
                self.zonk(a, line)?;
                self.zonk(b, line)
            }
            E::Method(_, v, t) => {
                for x in v.iter_mut() {
                    self.zonk(x, line)?;
                }
                self.zt(t, line, "a method receiver")
            }
            E::TupleField(x, _, _) | E::Field(x, _) | E::SomeE(x) | E::Unwrap(x) | E::OkOr(x, _) | E::Return(x) | E::DebugAssert(x) | E::Assert(x) | E::OkE(x) | E::Try(x) => {
                self.zonk(x, line)
            }
            E::Bin(_, a, b, t1, t2) => {
                self.zonk(a, line)?;
                self.zonk(b, line)?;
                self.zt(t1, line, "an operand")?;
                self.zt(t2, line, "an operand")
            }
            E::Neg(x, t) => {
                self.zonk(x, line)?;
                self.zt(t, line, "an operand")?;
                if matches!(t, Ty::Int(_, false)) {
                    return self.no(line, "unary `-` on an unsigned integer");
                }
                Ok(())
            }
            E::Not(x, t) => {
                self.zonk(x, line)?;
                self.zt(t, line, "an operand")
            }
            E::Cast(x, f, t) => {
                self.zonk(x, line)?;
                self.zt(f, line, "a cast operand")?;
                self.zt(t, line, "a cast target")
            }
            E::And(a, b) | E::Or(a, b) | E::UnwrapOr(a, b) => {
                self.zonk(a, line)?;
                self.zonk(b, line)
            }
            E::TryInto(x, f, t, l) => {
                self.zonk(x, *l)?;
                self.zt(f, *l, "a `try_into` source")?;
                self.zt(t, *l, "the target of `try_into`")
            }
            E::IsSomeAnd(a, _, b) => {
                self.zonk(a, line)?;
                self.zonk(b, line)
            }
            E::If(c, t, f) => {
                self.zonk(c, line)?;
                self.zonk(t, line)?;
                self.zonk(f, line)
            }
            E::Match(s, t, arms) => {
                self.zonk(s, line)?;
                self.zt(t, line, "a `match` scrutinee")?;
                for a in arms {
                    self.zp(&mut a.pat)?;
                    if let Some(g) = &mut a.guard {
                        self.zonk(g, line)?;
                    }
                    self.zonk(&mut a.body, line)?;
                }
                Ok(())
            }
            E::Let(p, i, b) => {
                self.zp(p)?;
                self.zonk(i, line)?;
                self.zonk(b, line)
            }
            E::Inline(binds, body) => {
                for (_, a) in binds.iter_mut() {
                    self.zonk(a, line)?;
                }
                self.zonk(body, line)
            }
        }
    }
}

/// an `else`-less `if` whose block ends in a `return` statement
fn is_if_then_return(e: &syn::Expr) -> bool {
    match e {
        syn::Expr::If(i) if i.else_branch.is_none() && i.attrs.is_empty() => match i.then_branch.stmts.last() {
            Some(syn::Stmt::Semi(syn::Expr::Return(_), _)) | Some(syn::Stmt::Expr(syn::Expr::Return(_))) => true,
            _ => false,
        },
        _ => false,
    }
}

fn or_binds(p: &Pat) -> bool {
    match p {
        Pat::Or(v) => v.iter().any(|x| !pat_vars(x).is_empty() || or_binds(x)),
        Pat::Tuple(v) | Pat::Ctor(_, _, v) => v.iter().any(or_binds),
        Pat::SomeP(x) => or_binds(x),
        _ => false,
    }
}

pub fn pat_vars(p: &Pat) -> Vec<String> {
    match p {
        Pat::Var(v) => vec![v.clone()],
        Pat::Tuple(v) | Pat::Ctor(_, _, v) => v.iter().flat_map(pat_vars).collect(),
        Pat::Or(v) => v.first().map(pat_vars).unwrap_or_default(),
        Pat::SomeP(x) => pat_vars(x),
        _ => vec![],
    }
}

/// expressible as a boolean condition on the scrutinee (integer / bool literals)
pub fn pat_condable(p: &Pat) -> bool {
    match p {
        Pat::Wild | Pat::Var(_) | Pat::Int(..) | Pat::Bool(_) => true,
        Pat::Tuple(v) | Pat::Or(v) => v.iter().all(pat_condable),
        _ => false,
    }
}

/// expressible as a Lean `match` pattern (constructors)
pub fn pat_matchable(p: &Pat) -> bool {
    match p {
        Pat::Wild | Pat::Var(_) | Pat::NoneP | Pat::Bool(_) => true,
        Pat::Tuple(v) | Pat::Or(v) | Pat::Ctor(_, _, v) => v.iter().all(pat_matchable),
        Pat::SomeP(x) => pat_matchable(x),
        Pat::Int(..) => false,
    }
}

pub fn pat_irrefutable(p: &Pat) -> bool {
    match p {
        Pat::Wild | Pat::Var(_) => true,
        Pat::Tuple(v) => v.iter().all(pat_irrefutable),
        _ => false,
    }
}
