//! Typed intermediate representation between the syn front end and the Lean printer.

use std::fmt;

/// A refusal: the construct at `file:line` is outside the supported subset.
#[derive(Debug, Clone)]
pub struct Refuse {
    pub file: String,
    pub line: usize,
    pub what: String,
}

impl fmt::Display for Refuse {
    fn fmt(&self, f: &mut fmt::Formatter<'_>) -> fmt::Result {
        write!(f, "{}:{}: {}", self.file, self.line, self.what)
    }
}

pub type R<T> = Result<T, Refuse>;

#[derive(Debug, Clone, PartialEq, Eq)]
pub enum Ty {
    /// width in bits, signed?
    Int(u32, bool),
    Bool,
    Unit,
    Enum(String),
    Struct(String),
    Tuple(Vec<Ty>),
    Opt(Box<Ty>),
    /// `Result<T, E>`; the string identifies the Rust error type (alias name or `E` tokens) so
    /// that `?` between different error types (a hidden `From` conversion) is refused.
    Res(Box<Ty>, String),
    Never,
    /// integer type still to be inferred (from a literal or a `try_into` target)
    Var(usize),
}

#[derive(Debug, Clone, Copy, PartialEq, Eq)]
pub enum BinOp {
    Add,
    Sub,
    Mul,
    Div,
    Rem,
    BitAnd,
    BitOr,
    BitXor,
    Shl,
    Shr,
    Eq,
    Ne,
    Lt,
    Le,
    Gt,
    Ge,
}

#[derive(Debug, Clone, Copy, PartialEq, Eq)]
pub enum StdM {
    WrappingAdd,
    WrappingSub,
    WrappingMul,
    WrappingNeg,
    WrappingShl,
    WrappingShr,
    CheckedAdd,
    CheckedSub,
    CheckedMul,
    SaturatingAdd,
    SaturatingSub,
    OverflowingAdd,
    OverflowingSub,
    OverflowingMul,
    Min,
    Max,
    UnsignedAbs,
    CountOnes,
    LeadingZeros,
    IsSome,
    IsNone,
}

#[derive(Debug, Clone)]
pub enum Pat {
    Wild,
    Var(String),
    Tuple(Vec<Pat>),
    Ctor(String, String, Vec<Pat>),
    SomeP(Box<Pat>),
    NoneP,
    Int(i128, Ty, usize),
    Bool(bool),
    Or(Vec<Pat>),
}

#[derive(Debug, Clone)]
pub struct Arm {
    pub pat: Pat,
    pub guard: Option<E>,
    pub body: E,
}

#[derive(Debug, Clone)]
pub enum E {
    Var(String),
    /// value, type, source line (for "cannot determine type" refusals)
    Int(i128, Ty, usize),
    Bool(bool),
    Unit,
    Const(String),
    Tuple(Vec<E>),
    /// tuple, index, arity
    TupleField(Box<E>, usize, usize),
    Field(Box<E>, String),
    Ctor(String, String, Vec<E>),
    /// struct literal of a whitelisted struct: (field, value) in SOURCE order (evaluation order)
    StructLit(String, Vec<(String, E)>),
    /// functional update `{ base with field := value }` (from `self.field = e` under `&mut self`)
    StructUpd(Box<E>, String, Box<E>),
    SomeE(Box<E>),
    NoneE,
    /// op, lhs, rhs, type of lhs, type of rhs
    Bin(BinOp, Box<E>, Box<E>, Ty, Ty),
    Neg(Box<E>, Ty),
    Not(Box<E>, Ty),
    /// expr, from, to
    Cast(Box<E>, Ty, Ty),
    And(Box<E>, Box<E>),
    Or(Box<E>, Box<E>),
    /// std method on an integer/option receiver (receiver first), receiver type
    Method(StdM, Vec<E>, Ty),
    /// `x.try_into()` / `T::try_from(x)` as an `Option`: expr, from, to, line
    TryInto(Box<E>, Ty, Ty, usize),
    UnwrapOr(Box<E>, Box<E>),
    /// `Option::unwrap` / `expect`
    Unwrap(Box<E>),
    /// `opt.ok_or(ERR)` / `try_into().map_err(|_| ERR)`: a `Result`
    OkOr(Box<E>, String),
    IsSomeAnd(Box<E>, String, Box<E>),
    /// lean name, arguments, callee returns `Result`?
    Call(String, Vec<E>, bool),
    /// an inlined call of a non-whitelisted helper: (parameter, argument) pairs evaluated left to
    /// right, then the callee's body; a `Return` inside the body returns from the CALLEE
    Inline(Vec<(String, E)>, Box<E>),
    If(Box<E>, Box<E>, Box<E>),
    Match(Box<E>, Ty, Vec<Arm>),
    Let(Pat, Box<E>, Box<E>),
    Return(Box<E>),
    Panic,
    DebugAssert(Box<E>),
    Assert(Box<E>),
    OkE(Box<E>),
    ErrE(String),
    Try(Box<E>),
}

#[derive(Debug, Clone)]
pub struct EnumDef {
    pub name: String,
    /// variant name, fields (name if a struct variant, type)
    pub variants: Vec<(String, Vec<(Option<String>, Ty)>)>,
    pub derives_eq: bool,
    pub hash: String,
    pub file: String,
    pub line: usize,
}

#[derive(Debug, Clone)]
pub struct StructDef {
    pub name: String,
    pub fields: Vec<(String, Ty)>,
    pub hash: String,
    pub file: String,
    pub line: usize,
}

#[derive(Debug, Clone)]
pub struct ConstDef {
    pub lean: String,
    pub ty: Ty,
    pub value: i128,
    pub src: String,
    pub hash: String,
    pub file: String,
    pub line: usize,
}

#[derive(Debug, Clone)]
pub struct FnSig {
    pub lean: String,
    /// lean binder name, type (receiver first, named `self`)
    pub params: Vec<(String, Ty)>,
    pub ret: Ty,
    /// the method takes `&mut self` on a whitelisted struct: translated as a state-passing
    /// function returning `(result, self')`
    pub mut_self: bool,
}

#[derive(Debug, Clone)]
pub struct FnDef {
    pub sig: FnSig,
    pub body: E,
    pub deps: Vec<String>,
    pub errs: Vec<String>,
    /// header lines of the helpers inlined into this target
    pub inlined: Vec<(String, String)>,
    pub hash: String,
    pub file: String,
    pub line: usize,
    pub rust_path: String,
}
