//! Typed IR -> explicit `Res` terms (A-normal form, continuation passing over data) -> Lean text.

use crate::ir::*;
use crate::stmt::{pat_irrefutable, pat_matchable};
use std::rc::Rc;

#[derive(Debug, Clone)]
pub enum Comp {
    Ok(String),
    Err(String),
    Panic,
    /// any `Res`-typed term
    Term(String),
    Bind(Box<Comp>, String, Rc<Comp>),
    Let(String, String, Rc<Comp>),
    If(String, Box<Comp>, Box<Comp>),
    Match(String, Vec<(String, Comp)>),
}

#[derive(Clone)]
pub enum K {
    Yield,
    Then(String, Rc<Comp>),
}

pub struct Lower {
    tmp: usize,
    /// text of the implicit error-type argument passed to callees
    pub eps: String,
}

pub fn lean_ty(t: &Ty) -> String {
    match t {
        Ty::Int(b, _) => format!("BitVec {}", b),
        Ty::Bool => "Bool".into(),
        Ty::Unit => "Unit".into(),
        Ty::Enum(n) | Ty::Struct(n) => n.clone(),
        Ty::Tuple(v) => format!("({})", v.iter().map(lean_ty_arg).collect::<Vec<_>>().join(" × ")),
        Ty::Opt(x) => format!("Option {}", lean_ty_arg(x)),
        Ty::Res(x, _) => lean_ty(x),
        Ty::Never => "Unit".into(),
        Ty::Var(_) => "?".into(),
    }
}

pub fn lean_ty_arg(t: &Ty) -> String {
    let s = lean_ty(t);
    if s.contains(' ') && !s.starts_with('(') {
        format!("({})", s)
    } else {
        s
    }
}

fn lit(v: i128, t: &Ty) -> String {
    match t {
        Ty::Int(b, _) => {
            if v >= 0 {
                format!("{}#{}", v, b)
            } else {
                format!("(-({}#{}))", -v, b)
            }
        }
        _ => format!("{}", v),
    }
}

fn signed(t: &Ty) -> bool {
    matches!(t, Ty::Int(_, true))
}
fn bits(t: &Ty) -> u32 {
    match t {
        Ty::Int(b, _) => *b,
        _ => 0,
    }
}
fn su(t: &Ty) -> &'static str {
    if signed(t) {
        "S"
    } else {
        "U"
    }
}

fn tuple_proj(i: usize, n: usize) -> String {
    let mut s = String::new();
    for _ in 0..i.min(n - 1) {
        s.push_str(".2");
    }
    if i < n - 1 {
        s.push_str(".1");
    }
    s
}

fn contains_return(e: &E) -> bool {
    match e {
        E::Return(_) => true,
        E::Var(_) | E::Int(..) | E::Bool(_) | E::Unit | E::Const(_) | E::NoneE | E::Panic | E::ErrE(_) => false,
        E::Tuple(v) | E::Ctor(_, _, v) | E::Call(_, v, _) | E::Method(_, v, _) => v.iter().any(contains_return),
        E::StructLit(_, fs) => fs.iter().any(|(_, x)| contains_return(x)),
        E::StructUpd(a, _, b) => contains_return(a) || contains_return(b),
        E::TupleField(x, _, _) | E::Field(x, _) | E::SomeE(x) | E::Unwrap(x) | E::OkOr(x, _) | E::DebugAssert(x) | E::Assert(x) | E::OkE(x) | E::Try(x) | E::Neg(x, _) | E::Not(x, _) | E::Cast(x, _, _) | E::TryInto(x, _, _, _) => contains_return(x),
        E::Bin(_, a, b, _, _) | E::And(a, b) | E::Or(a, b) | E::UnwrapOr(a, b) | E::IsSomeAnd(a, _, b) | E::Let(_, a, b) => contains_return(a) || contains_return(b),
        E::If(c, t, f) => contains_return(c) || contains_return(t) || contains_return(f),
        E::Match(s, _, arms) => contains_return(s) || arms.iter().any(|a| a.guard.as_ref().map_or(false, contains_return) || contains_return(&a.body)),
        // a `return` in the inlined body returns from the callee, not from the enclosing fn
        E::Inline(binds, _) => binds.iter().any(|(_, a)| contains_return(a)),
    }
}

fn diverges(e: &E) -> bool {
    match e {
        E::Return(_) | E::Panic => true,
        E::Let(_, i, b) => diverges(i) || diverges(b),
        E::If(_, t, f) => diverges(t) && diverges(f),
        E::Match(_, _, arms) => arms.iter().all(|a| diverges(&a.body)),
        _ => false,
    }
}

/// Should the continuation be pushed into the branches of `e` (instead of joining the branches
/// with a bind)?  Yes when a branch can `return` (the continuation must be skipped there) or
/// when at most one branch continues (no duplication).
fn should_push(e: &E) -> bool {
    if contains_return(e) {
        return true;
    }
    match e {
        E::If(_, t, f) => [t, f].iter().filter(|x| !diverges(x)).count() <= 1,
        E::Match(_, _, arms) => arms.iter().all(|a| a.guard.is_none()) && arms.iter().filter(|a| !diverges(&a.body)).count() <= 1,
        _ => false,
    }
}

impl Lower {
    pub fn new(eps: &str) -> Self {
        Lower { tmp: 0, eps: eps.to_string() }
    }

    fn fresh(&mut self) -> String {
        self.tmp += 1;
        format!("t__{}", self.tmp)
    }

    fn lpat(&self, p: &Pat) -> String {
        match p {
            Pat::Wild => "_".into(),
            Pat::Var(v) => v.clone(),
            Pat::Tuple(v) => format!("({})", v.iter().map(|x| self.lpat(x)).collect::<Vec<_>>().join(", ")),
            Pat::Ctor(en, vn, v) => {
                if v.is_empty() {
                    format!("{}.{}", en, vn)
                } else {
                    format!("({}.{} {})", en, vn, v.iter().map(|x| self.lpat(x)).collect::<Vec<_>>().join(" "))
                }
            }
            Pat::SomeP(x) => format!("(some {})", self.lpat(x)),
            Pat::NoneP => "none".into(),
            Pat::Bool(b) => format!("{}", b),
            Pat::Int(v, t, _) => lit(*v, t),
            Pat::Or(_) => unreachable!("or-patterns are expanded by the caller"),
        }
    }

    /// alternatives of a (possibly nested) or-pattern, fully expanded
    fn expand_or(&self, p: &Pat) -> Vec<Pat> {
        match p {
            Pat::Or(v) => v.iter().flat_map(|x| self.expand_or(x)).collect(),
            Pat::Tuple(v) => self.product(v).into_iter().map(Pat::Tuple).collect(),
            Pat::Ctor(e, n, v) => self.product(v).into_iter().map(|x| Pat::Ctor(e.clone(), n.clone(), x)).collect(),
            Pat::SomeP(x) => self.expand_or(x).into_iter().map(|y| Pat::SomeP(Box::new(y))).collect(),
            other => vec![other.clone()],
        }
    }

    fn product(&self, v: &[Pat]) -> Vec<Vec<Pat>> {
        let mut out: Vec<Vec<Pat>> = vec![vec![]];
        for p in v {
            let alts = self.expand_or(p);
            let mut next = vec![];
            for pre in &out {
                for a in &alts {
                    let mut x = pre.clone();
                    x.push(a.clone());
                    next.push(x);
                }
            }
            out = next;
        }
        out
    }

    // ---------------------------------------------------------------------------------
    // operator nodes: children + term builder
    // ---------------------------------------------------------------------------------

    /// For an operator node: (children, is the built term a `Res` computation?).
    fn op_children<'e>(&self, e: &'e E) -> Option<(Vec<&'e E>, bool)> {
        Some(match e {
            E::Var(_) | E::Int(..) | E::Bool(_) | E::Unit | E::Const(_) | E::NoneE => (vec![], false),
            E::Tuple(v) | E::Ctor(_, _, v) => (v.iter().collect(), false),
            E::StructLit(_, fs) => (fs.iter().map(|(_, x)| x).collect(), false),
            E::StructUpd(a, _, b) => (vec![&**a, &**b], false),
            E::TupleField(x, _, _) | E::Field(x, _) | E::SomeE(x) | E::Not(x, _) | E::Cast(x, _, _) | E::TryInto(x, _, _, _) => (vec![&**x], false),
            E::Method(_, v, _) => (v.iter().collect(), false),
            E::UnwrapOr(a, b) => (vec![&**a, &**b], false),
            E::Bin(op, a, b, t, _) => {
                let monadic = matches!(t, Ty::Int(..)) && matches!(op, BinOp::Add | BinOp::Sub | BinOp::Mul | BinOp::Div | BinOp::Rem | BinOp::Shl | BinOp::Shr);
                (vec![&**a, &**b], monadic)
            }
            E::Neg(x, _) | E::Unwrap(x) | E::OkOr(x, _) | E::Assert(x) => (vec![&**x], true),
            E::Call(_, v, _) => (v.iter().collect(), true),
            E::And(a, b) | E::Or(a, b) if self.pure(b).is_some() => (vec![&**a, &**b], false),
            _ => return None,
        })
    }

    fn op_term(&self, e: &E, a: &[String]) -> String {
        match e {
            E::Var(v) => v.clone(),
            E::Int(v, t, _) => lit(*v, t),
            E::Bool(b) => format!("{}", b),
            E::Unit => "()".into(),
            E::Const(c) => c.clone(),
            E::NoneE => "none".into(),
            E::Tuple(_) => format!("({})", a.join(", ")),
            E::Ctor(en, vn, _) => {
                if a.is_empty() {
                    format!("{}.{}", en, vn)
                } else {
                    format!("({}.{} {})", en, vn, a.join(" "))
                }
            }
            E::StructLit(name, fs) => {
                let items: Vec<String> = fs.iter().zip(a.iter()).map(|((f, _), v)| format!("{} := {}", f, v)).collect();
                format!("({{ {} }} : {})", items.join(", "), name)
            }
            E::StructUpd(_, f, _) => format!("{{ {} with {} := {} }}", a[0], f, a[1]),
            E::TupleField(_, i, n) => format!("{}{}", a[0], tuple_proj(*i, *n)),
            E::Field(_, f) => format!("{}.{}", a[0], f),
            E::SomeE(_) => format!("(some {})", a[0]),
            E::Not(_, t) => {
                if matches!(t, Ty::Bool) {
                    format!("(!{})", a[0])
                } else {
                    format!("(~~~{})", a[0])
                }
            }
            E::Cast(_, from, to) => match from {
                Ty::Bool => format!("(Machine.castB {} {})", bits(to), a[0]),
                _ if bits(from) == bits(to) => a[0].clone(),
                _ => format!("(Machine.cast{} {} {})", su(from), bits(to), a[0]),
            },
            E::TryInto(_, from, to, _) => format!("(Machine.tryInto{}{} {} {})", su(from), su(to), bits(to), a[0]),
            E::UnwrapOr(..) => format!("(Option.getD {} {})", a[0], a[1]),
            E::And(..) => format!("({} && {})", a[0], a[1]),
            E::Or(..) => format!("({} || {})", a[0], a[1]),
            E::Method(m, _, t) => {
                let s = su(t);
                match m {
                    StdM::WrappingAdd => format!("({} + {})", a[0], a[1]),
                    StdM::WrappingSub => format!("({} - {})", a[0], a[1]),
                    StdM::WrappingMul => format!("({} * {})", a[0], a[1]),
                    StdM::WrappingNeg => format!("(-{})", a[0]),
                    StdM::WrappingShl => format!("(Machine.wshl {} {})", a[0], a[1]),
                    StdM::WrappingShr => format!("(Machine.wshr{} {} {})", s, a[0], a[1]),
                    StdM::CheckedAdd => format!("(Machine.checkedAdd{} {} {})", s, a[0], a[1]),
                    StdM::CheckedSub => format!("(Machine.checkedSub{} {} {})", s, a[0], a[1]),
                    StdM::CheckedMul => format!("(Machine.checkedMul{} {} {})", s, a[0], a[1]),
                    StdM::SaturatingAdd => format!("(Machine.satAdd{} {} {})", s, a[0], a[1]),
                    StdM::SaturatingSub => format!("(Machine.satSub{} {} {})", s, a[0], a[1]),
                    StdM::OverflowingAdd => format!("(Machine.ovfAdd{} {} {})", s, a[0], a[1]),
                    StdM::OverflowingSub => format!("(Machine.ovfSub{} {} {})", s, a[0], a[1]),
                    StdM::OverflowingMul => format!("(Machine.ovfMul{} {} {})", s, a[0], a[1]),
                    StdM::Min => format!("(Machine.min{} {} {})", s, a[0], a[1]),
                    StdM::Max => format!("(Machine.max{} {} {})", s, a[0], a[1]),
                    StdM::UnsignedAbs => format!("(Machine.unsignedAbs {})", a[0]),
                    StdM::CountOnes => format!("(Machine.countOnes {})", a[0]),
                    StdM::LeadingZeros => format!("(Machine.leadingZeros {})", a[0]),
                    StdM::IsSome => format!("(Option.isSome {})", a[0]),
                    StdM::IsNone => format!("(Option.isNone {})", a[0]),
                }
            }
            E::Bin(op, _, _, t, _) => {
                let s = su(t);
                let is_int = matches!(t, Ty::Int(..));
                match op {
                    BinOp::Add => format!("Machine.add{} p {} {}", s, a[0], a[1]),
                    BinOp::Sub => format!("Machine.sub{} p {} {}", s, a[0], a[1]),
                    BinOp::Mul => format!("Machine.mul{} p {} {}", s, a[0], a[1]),
                    BinOp::Div => format!("Machine.div{} p {} {}", s, a[0], a[1]),
                    BinOp::Rem => format!("Machine.rem{} p {} {}", s, a[0], a[1]),
                    BinOp::Shl => format!("Machine.shl p {} {}", a[0], a[1]),
                    BinOp::Shr => format!("Machine.shr{} p {} {}", s, a[0], a[1]),
                    BinOp::BitAnd => {
                        if is_int {
                            format!("({} &&& {})", a[0], a[1])
                        } else {
                            format!("({} && {})", a[0], a[1])
                        }
                    }
                    BinOp::BitOr => {
                        if is_int {
                            format!("({} ||| {})", a[0], a[1])
                        } else {
                            format!("({} || {})", a[0], a[1])
                        }
                    }
                    BinOp::BitXor => {
                        if is_int {
                            format!("({} ^^^ {})", a[0], a[1])
                        } else {
                            format!("(Bool.xor {} {})", a[0], a[1])
                        }
                    }
                    BinOp::Eq => format!("({} == {})", a[0], a[1]),
                    BinOp::Ne => format!("({} != {})", a[0], a[1]),
                    BinOp::Lt => format!("(BitVec.{}lt {} {})", if signed(t) { "s" } else { "u" }, a[0], a[1]),
                    BinOp::Le => format!("(BitVec.{}le {} {})", if signed(t) { "s" } else { "u" }, a[0], a[1]),
                    BinOp::Gt => format!("(BitVec.{}lt {} {})", if signed(t) { "s" } else { "u" }, a[1], a[0]),
                    BinOp::Ge => format!("(BitVec.{}le {} {})", if signed(t) { "s" } else { "u" }, a[1], a[0]),
                }
            }
            E::Neg(_, _) => format!("Machine.negS p {}", a[0]),
            E::Unwrap(_) => format!("Machine.unwrapOpt {}", a[0]),
            E::OkOr(_, tag) => format!("Machine.okOr {} E.{}", a[0], tag),
            E::Assert(_) => format!("Machine.assertThat {}", a[0]),
            E::Call(name, _, is_res) => {
                let mut s = name.clone();
                s.push_str(&format!(" (ε := {})", self.eps));
                if *is_res {
                    s.push_str(" E");
                }
                s.push_str(" p");
                for x in a {
                    s.push(' ');
                    s.push_str(x);
                }
                s
            }
            _ => unreachable!("op_term on a control node"),
        }
    }

    /// The Lean term of an effect-free expression, if it is one.
    pub fn pure(&self, e: &E) -> Option<String> {
        let (ch, monadic) = self.op_children(e)?;
        if monadic {
            return None;
        }
        let mut vals = vec![];
        for c in ch {
            vals.push(self.pure(c)?);
        }
        Some(self.op_term(e, &vals))
    }

    fn finish(&self, c: Comp, k: K) -> Comp {
        match k {
            K::Yield => c,
            K::Then(pat, body) => match c {
                Comp::Ok(_) if pat == "_" => (*body).clone(),
                Comp::Ok(v) => Comp::Let(pat, v, body),
                other => Comp::Bind(Box::new(other), pat, body),
            },
        }
    }

    fn with_vals(&mut self, es: &[&E], mut acc: Vec<String>, f: Box<dyn FnOnce(&mut Self, Vec<String>) -> Comp + '_>) -> Comp {
        if es.is_empty() {
            return f(self, acc);
        }
        let e = es[0];
        let rest: Vec<&E> = es[1..].to_vec();
        if let Some(v) = self.pure(e) {
            acc.push(v);
            return self.with_vals(&rest, acc, f);
        }
        let t = self.fresh();
        acc.push(t.clone());
        // the remaining operands are evaluated after this one
        let body = self.with_vals(&rest, acc, f);
        self.lower(e, K::Then(t, Rc::new(body)))
    }

    pub fn lower(&mut self, e: &E, k: K) -> Comp {
        if let Some((ch, monadic)) = self.op_children(e) {
            let e2 = e.clone();
            return self.with_vals(
                &ch,
                vec![],
                Box::new(move |s: &mut Self, vals: Vec<String>| {
                    let term = s.op_term(&e2, &vals);
                    if monadic {
                        s.finish(Comp::Term(term), k)
                    } else {
                        s.finish(Comp::Ok(term), k)
                    }
                }),
            );
        }
        // control nodes: join the branches unless the continuation has to go inside
        if let K::Then(pat, body) = &k {
            let branching = matches!(e, E::If(..) | E::Match(..) | E::And(..) | E::Or(..) | E::IsSomeAnd(..));
            if branching && !should_push(e) {
                let inner = self.lower(e, K::Yield);
                return Comp::Bind(Box::new(inner), pat.clone(), body.clone());
            }
        }
        match e {
            E::And(a, b) => self.lower(&E::If(a.clone(), b.clone(), Box::new(E::Bool(false))), k),
            E::Or(a, b) => self.lower(&E::If(a.clone(), Box::new(E::Bool(true)), b.clone()), k),
            E::If(c, t, f) => {
                let (t2, f2, k2) = ((**t).clone(), (**f).clone(), k.clone());
                self.with_vals(
                    &[&**c],
                    vec![],
                    Box::new(move |s: &mut Self, v: Vec<String>| {
                        let a = s.lower(&t2, k2.clone());
                        let b = s.lower(&f2, k2);
                        Comp::If(v[0].clone(), Box::new(a), Box::new(b))
                    }),
                )
            }
            E::Match(sc, st, arms) => {
                let (arms2, st2, k2) = (arms.clone(), st.clone(), k.clone());
                // the scrutinee is named so that guarded arms can fall through by re-matching
                let use_match = arms.iter().all(|a| pat_matchable(&a.pat));
                let name_it = arms.iter().any(|a| a.guard.is_some()) || !use_match;
                let sc_e: E = (**sc).clone();
                if name_it && !matches!(sc_e, E::Var(_)) {
                    let t = self.fresh();
                    let body = self.lower_arms(&t, &st2, &arms2, k2, use_match);
                    return self.lower(&sc_e, K::Then(t, Rc::new(body)));
                }
                self.with_vals(&[&**sc], vec![], Box::new(move |s: &mut Self, v: Vec<String>| s.lower_arms(&v[0], &st2, &arms2, k2, use_match)))
            }
            E::Let(p, i, b) => {
                let body = self.lower(b, k);
                let alts = self.expand_or(p);
                let pat = self.lpat(&alts[0]);
                self.lower(i, K::Then(pat, Rc::new(body)))
            }
            E::Return(x) => self.lower(x, K::Yield),
            E::Inline(binds, body) => {
                // Without an early `return` in the callee the body simply continues with `k`
                // (flattened).  With one, the callee is lowered as a computation of its own —
                // `Yield` inside it is "return from the callee" — and its result is bound to `k`.
                let direct = matches!(k, K::Yield) || !contains_return(body);
                let mut comp = if direct { self.lower(body, k.clone()) } else { self.lower(body, K::Yield) };
                for (name, arg) in binds.iter().rev() {
                    comp = self.lower(arg, K::Then(name.clone(), Rc::new(comp)));
                }
                if direct {
                    comp
                } else {
                    match k {
                        K::Then(pat, rest) => Comp::Bind(Box::new(comp), pat, rest),
                        K::Yield => comp,
                    }
                }
            }
            E::Panic => Comp::Panic,
            E::ErrE(t) => Comp::Err(t.clone()),
            E::OkE(x) => {
                let inner = self.lower(x, K::Yield);
                self.finish(inner, k)
            }
            E::Try(x) => {
                let inner = self.lower(x, K::Yield);
                self.finish(inner, k)
            }
            E::DebugAssert(c) => {
                let b = self.fresh();
                let check = self.lower(c, K::Then(b.clone(), Rc::new(Comp::Term(format!("Machine.assertThat {}", b)))));
                let whole = Comp::If("p.debugAsserts".into(), Box::new(check), Box::new(Comp::Ok("()".into())));
                self.finish(whole, k)
            }
            E::IsSomeAnd(o, v, body) => {
                let (v2, b2, k2) = (v.clone(), (**body).clone(), k.clone());
                self.with_vals(
                    &[&**o],
                    vec![],
                    Box::new(move |s: &mut Self, vals: Vec<String>| {
                        let yes = s.lower(&b2, k2.clone());
                        let no = s.finish(Comp::Ok("false".into()), k2);
                        Comp::Match(vals[0].clone(), vec![(format!("some {}", v2), yes), ("none".into(), no)])
                    }),
                )
            }
            _ => unreachable!("lower: unexpected node {:?}", e),
        }
    }

    /// condition under which the value named `s` matches `p`, plus the bindings it makes
    fn cond_of(&self, s: &str, p: &Pat, conds: &mut Vec<String>, binds: &mut Vec<(String, String)>) {
        match p {
            Pat::Wild => {}
            Pat::Var(v) => binds.push((v.clone(), s.to_string())),
            Pat::Int(v, t, _) => conds.push(format!("({} == {})", s, lit(*v, t))),
            Pat::Bool(b) => conds.push(if *b { s.to_string() } else { format!("(!{})", s) }),
            Pat::Tuple(v) => {
                for (i, x) in v.iter().enumerate() {
                    self.cond_of(&format!("{}{}", s, tuple_proj(i, v.len())), x, conds, binds);
                }
            }
            Pat::Or(v) => {
                let mut alts = vec![];
                for x in v {
                    let mut c = vec![];
                    let mut b = vec![];
                    self.cond_of(s, x, &mut c, &mut b);
                    alts.push(if c.is_empty() { "true".to_string() } else if c.len() == 1 { c[0].clone() } else { format!("({})", c.join(" && ")) });
                }
                conds.push(if alts.len() == 1 { alts[0].clone() } else { format!("({})", alts.join(" || ")) });
            }
            _ => unreachable!("cond_of on a constructor pattern"),
        }
    }

    fn lower_arms(&mut self, s: &str, st: &Ty, arms: &[Arm], k: K, use_match: bool) -> Comp {
        if arms.is_empty() {
            // a guarded last arm fell through: rustc's exhaustiveness check makes this unreachable,
            // but it is never emitted silently — Lean will reject the non-exhaustive match instead
            return Comp::Match(s.to_string(), vec![]);
        }
        if use_match {
            // A guarded arm `P if g => b` becomes `| P => if g then b else <fall-through>`.  The
            // fall-through re-matches the scrutinee against the unguarded arms before it (they
            // cannot match — we got past them — but make the match exhaustive for Lean, exactly as
            // rustc's exhaustiveness check counts only unguarded arms) and the arms after it.
            // Later arms that the guarded pattern subsumes are only reachable through that
            // fall-through, so they are left out of the outer match (Lean rejects redundant arms).
            let mut out = vec![];
            let mut guarded_seen: Vec<Pat> = vec![];
            for (i, a) in arms.iter().enumerate() {
                if guarded_seen.iter().any(|g| subsumes(g, &a.pat)) {
                    continue;
                }
                let alts = self.expand_or(&a.pat);
                let pat_txt = alts.iter().map(|x| self.lpat(x)).collect::<Vec<_>>().join(" | ");
                let body = match &a.guard {
                    None => self.lower(&a.body, k.clone()),
                    Some(g) => {
                        let gv = self.fresh();
                        let yes = self.lower(&a.body, k.clone());
                        let mut rest: Vec<Arm> = arms[..i].iter().filter(|x| x.guard.is_none()).cloned().collect();
                        rest.extend(arms[i + 1..].iter().cloned());
                        let no = self.lower_arms(s, st, &rest, k.clone(), use_match);
                        let test = Comp::If(gv.clone(), Box::new(yes), Box::new(no));
                        self.lower(g, K::Then(gv, Rc::new(test)))
                    }
                };
                if a.guard.is_some() {
                    guarded_seen.push(a.pat.clone());
                }
                out.push((pat_txt, body));
            }
            return Comp::Match(s.to_string(), out);
        }
        // integer / bool literal patterns: an if-chain
        let a = &arms[0];
        let mut conds = vec![];
        let mut binds = vec![];
        self.cond_of(s, &a.pat, &mut conds, &mut binds);
        let wrap = |mut c: Comp| -> Comp {
            for (v, t) in binds.iter().rev() {
                c = Comp::Let(v.clone(), t.clone(), Rc::new(c));
            }
            c
        };
        let last = arms.len() == 1;
        let body_k = k.clone();
        let inner = match &a.guard {
            None => self.lower(&a.body, body_k),
            Some(g) => {
                let gv = self.fresh();
                let yes = self.lower(&a.body, body_k);
                let no = self.lower_arms(s, st, &arms[1..], k.clone(), use_match);
                let test = Comp::If(gv.clone(), Box::new(yes), Box::new(no));
                self.lower(g, K::Then(gv, Rc::new(test)))
            }
        };
        if conds.is_empty() && (last || pat_irrefutable(&a.pat)) {
            return wrap(inner);
        }
        let c = if conds.len() == 1 { conds[0].clone() } else { format!("({})", conds.join(" && ")) };
        let rest = self.lower_arms(s, st, &arms[1..], k, use_match);
        Comp::If(c, Box::new(wrap(inner)), Box::new(rest))
    }
}

/// every value matching `q` also matches `p` (sound, not complete)
fn subsumes(p: &Pat, q: &Pat) -> bool {
    match (p, q) {
        (Pat::Wild, _) | (Pat::Var(_), _) => true,
        (_, Pat::Or(qs)) => qs.iter().all(|x| subsumes(p, x)),
        (Pat::Or(ps), _) => ps.iter().any(|x| subsumes(x, q)),
        (Pat::Tuple(a), Pat::Tuple(b)) => a.len() == b.len() && a.iter().zip(b.iter()).all(|(x, y)| subsumes(x, y)),
        (Pat::Ctor(e1, v1, a), Pat::Ctor(e2, v2, b)) => e1 == e2 && v1 == v2 && a.iter().zip(b.iter()).all(|(x, y)| subsumes(x, y)),
        (Pat::SomeP(a), Pat::SomeP(b)) => subsumes(a, b),
        (Pat::NoneP, Pat::NoneP) => true,
        (Pat::Bool(a), Pat::Bool(b)) => a == b,
        (Pat::Int(a, _, _), Pat::Int(b, _, _)) => a == b,
        _ => false,
    }
}

// -------------------------------------------------------------------------------------
// printing
// -------------------------------------------------------------------------------------

fn atomic(c: &Comp) -> bool {
    matches!(c, Comp::Panic)
}

pub fn print(c: &Comp, ind: usize) -> String {
    let pad = " ".repeat(ind);
    match c {
        Comp::Ok(v) => format!("{}Res.ok {}", pad, v),
        Comp::Err(t) => format!("{}Res.err E.{}", pad, t),
        Comp::Panic => format!("{}Res.panic", pad),
        Comp::Term(t) => format!("{}{}", pad, t),
        Comp::Bind(c1, pat, body) => {
            let first = match &**c1 {
                Comp::Term(t) | Comp::Ok(t) if !matches!(&**c1, Comp::Ok(_)) => format!("{}({})", pad, t),
                other => format!("{}(\n{}\n{})", pad, print(other, ind + 2), pad),
            };
            format!("{} >>= fun {} =>\n{}", first, pat, print(body, ind))
        }
        Comp::Let(pat, v, body) => format!("{}let {} := {};\n{}", pad, pat, v, print(body, ind)),
        Comp::If(cnd, a, b) => format!("{}if {} = true then\n{}\n{}else\n{}", pad, cnd, child(a, ind + 2), pad, child(b, ind + 2)),
        Comp::Match(s, arms) => {
            let mut out = format!("{}match {} with", pad, s);
            for (p, b) in arms {
                out.push_str(&format!("\n{}| {} =>\n{}", pad, p, child(b, ind + 4)));
            }
            out
        }
    }
}

fn child(c: &Comp, ind: usize) -> String {
    if atomic(c) || matches!(c, Comp::Ok(_) | Comp::Err(_) | Comp::Term(_)) {
        print(c, ind)
    } else {
        let pad = " ".repeat(ind);
        format!("{}(\n{}\n{})", pad, print(c, ind + 2), pad)
    }
}
