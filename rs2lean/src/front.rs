//! syn AST -> typed IR, with a small unification-based integer type inference.
//! Everything outside the supported subset is refused with file:line.

use crate::ir::*;
use crate::sha::sha256_hex;
use quote::ToTokens;
use std::collections::{BTreeMap, BTreeSet};
use syn::spanned::Spanned;

pub fn line_of<T: Spanned>(t: &T) -> usize {
    t.span().start().line
}

pub fn tok<T: ToTokens>(t: &T) -> String {
    t.to_token_stream().to_string()
}

/// Everything known about one target group (declarations shared by all its functions).
#[derive(Default)]
pub struct Decls {
    pub enums: BTreeMap<String, EnumDef>,
    pub structs: BTreeMap<String, StructDef>,
    /// (owner type or "", name) -> const
    pub consts: BTreeMap<(String, String), ConstDef>,
    /// (owner type or "", name) -> signature
    pub fns: BTreeMap<(String, String), FnSig>,
    /// names that denote `Result<T, _>` with one type argument
    pub result_aliases: Vec<String>,
    /// every other fn / inherent method of the group's source files: a call of one of these is
    /// INLINED at the call site (the set of generated definitions stays the whitelist)
    pub helpers: BTreeMap<(String, String), Helper>,
    /// every integer-looking constant of the group's source files that is not whitelisted: a use
    /// is replaced by its (compile-time evaluated) value
    pub const_srcs: BTreeMap<(String, String), ConstSrc>,
    /// header lines for the non-whitelisted items that were used (constants)
    pub used_extra: std::cell::RefCell<BTreeMap<String, String>>,
    const_stack: std::cell::RefCell<Vec<(String, String)>>,
}

/// a fn or inherent method of a source file of the group that is not whitelisted
#[derive(Clone)]
pub struct Helper {
    pub file: String,
    pub owner: String,
    pub name: String,
    pub sig: syn::Signature,
    pub block: syn::Block,
    pub line: usize,
    pub hash: String,
    /// why it cannot be inlined (under `#[cfg]`, defined twice, attribute in the body ...)
    pub unusable: Option<String>,
}

#[derive(Clone)]
pub struct ConstSrc {
    pub file: String,
    pub ident: syn::Ident,
    pub ty: syn::Type,
    pub expr: syn::Expr,
    pub unusable: Option<String>,
}

pub fn refuse<T>(file: &str, line: usize, what: impl Into<String>) -> R<T> {
    Err(Refuse { file: file.to_string(), line, what: what.into() })
}

const LEAN_KEYWORDS: &[&str] = &[
    "at", "from", "fun", "show", "have", "open", "then", "do", "in", "let", "end", "with", "by", "def",
    "theorem", "example", "where", "if", "else", "match", "instance", "structure", "inductive", "class",
    "namespace", "section", "variable", "universe", "import", "export", "mutual", "private", "protected",
    "noncomputable", "partial", "unsafe", "macro", "syntax", "notation", "infix", "infixl", "infixr",
    "prefix", "postfix", "deriving", "extends", "abbrev", "axiom", "opaque", "set_option", "using",
    "calc", "suffices", "obtain", "return", "mut", "for", "unless", "try", "catch", "finally", "nomatch",
    "nofun", "this", "Type", "Prop", "Sort", "true", "false", "some", "none", "default", "assert",
    "local", "scoped", "attribute", "omit", "include", "termination_by", "decreasing_by", "then",
    "forall", "exists", "λ", "pure", "bind", "id", "p",
];

pub fn lean_ident(s: &str) -> String {
    if LEAN_KEYWORDS.contains(&s) {
        format!("«{}_»", s)
    } else {
        s.to_string()
    }
}

pub fn int_ty_of_name(s: &str) -> Option<Ty> {
    Some(match s {
        "u8" => Ty::Int(8, false),
        "u16" => Ty::Int(16, false),
        "u32" => Ty::Int(32, false),
        "u64" => Ty::Int(64, false),
        "usize" => Ty::Int(64, false),
        "i8" => Ty::Int(8, true),
        "i16" => Ty::Int(16, true),
        "i32" => Ty::Int(32, true),
        "i64" => Ty::Int(64, true),
        "isize" => Ty::Int(64, true),
        _ => return None,
    })
}

pub fn int_range(bits: u32, signed: bool) -> (i128, i128) {
    if signed {
        (-(1i128 << (bits - 1)), (1i128 << (bits - 1)) - 1)
    } else {
        (0, (1i128 << bits) - 1)
    }
}

impl Decls {
    /// Resolve a declared Rust type.  `self_ty` is the `impl` type if any.
    pub fn ty(&self, file: &str, t: &syn::Type, self_ty: Option<&str>) -> R<Ty> {
        let line = line_of(t);
        match t {
            syn::Type::Paren(p) => self.ty(file, &p.elem, self_ty),
            syn::Type::Group(p) => self.ty(file, &p.elem, self_ty),
            syn::Type::Reference(r) => {
                if r.mutability.is_some() {
                    return refuse(file, line, format!("type `{}`: mutable reference", tok(t)));
                }
                self.ty(file, &r.elem, self_ty)
            }
            syn::Type::Tuple(tt) => {
                if tt.elems.is_empty() {
                    return Ok(Ty::Unit);
                }
                let mut v = vec![];
                for e in &tt.elems {
                    v.push(self.ty(file, e, self_ty)?);
                }
                Ok(Ty::Tuple(v))
            }
            syn::Type::Path(tp) if tp.qself.is_none() => {
                let seg = tp.path.segments.last().unwrap();
                let name = seg.ident.to_string();
                let args: Vec<&syn::Type> = match &seg.arguments {
                    syn::PathArguments::None => vec![],
                    syn::PathArguments::AngleBracketed(a) => {
                        let mut v = vec![];
                        for ga in &a.args {
                            match ga {
                                syn::GenericArgument::Type(t) => v.push(t),
                                _ => return refuse(file, line, format!("type `{}`: generic argument", tok(t))),
                            }
                        }
                        v
                    }
                    _ => return refuse(file, line, format!("type `{}`", tok(t))),
                };
                if args.is_empty() {
                    if let Some(it) = int_ty_of_name(&name) {
                        return Ok(it);
                    }
                    if name == "bool" {
                        return Ok(Ty::Bool);
                    }
                    if name == "Self" {
                        return match self_ty {
                            Some(s) if self.enums.contains_key(s) => Ok(Ty::Enum(s.to_string())),
                            Some(s) if self.structs.contains_key(s) => Ok(Ty::Struct(s.to_string())),
                            _ => refuse(file, line, "`Self` outside a whitelisted enum/struct impl"),
                        };
                    }
                    if self.enums.contains_key(&name) {
                        return Ok(Ty::Enum(name));
                    }
                    if self.structs.contains_key(&name) {
                        return Ok(Ty::Struct(name));
                    }
                    return refuse(file, line, format!("type `{}` is not an integer, bool or whitelisted enum/struct", tok(t)));
                }
                if name == "Option" && args.len() == 1 {
                    return Ok(Ty::Opt(Box::new(self.ty(file, args[0], self_ty)?)));
                }
                if name == "Result" && args.len() == 2 {
                    let key = format!("Result<{}>", tok(args[1]));
                    return Ok(Ty::Res(Box::new(self.ty(file, args[0], self_ty)?), key));
                }
                if self.result_aliases.contains(&name) && args.len() == 1 {
                    return Ok(Ty::Res(Box::new(self.ty(file, args[0], self_ty)?), name));
                }
                refuse(file, line, format!("type `{}`", tok(t)))
            }
            _ => refuse(file, line, format!("type `{}`", tok(t))),
        }
    }

    // ---------- declarations ----------

    pub fn add_enum(&mut self, file: &str, it: &syn::ItemEnum) -> R<()> {
        let line = line_of(it);
        if !it.generics.params.is_empty() {
            return refuse(file, line, format!("enum `{}` is generic", it.ident));
        }
        let name = it.ident.to_string();
        let mut derives_eq = false;
        for a in &it.attrs {
            if a.path.is_ident("derive") && a.tokens.to_string().split(|c: char| !c.is_alphanumeric()).any(|w| w == "PartialEq") {
                derives_eq = true;
            }
        }
        // two passes so that variants may mention the enum's own name (not needed, but harmless)
        let mut variants = vec![];
        for v in &it.variants {
            if v.discriminant.is_some() {
                return refuse(file, line_of(v), format!("enum `{}`: explicit discriminant", name));
            }
            let mut fields = vec![];
            match &v.fields {
                syn::Fields::Unit => {}
                syn::Fields::Unnamed(u) => {
                    for f in &u.unnamed {
                        fields.push((None, self.ty(file, &f.ty, Some(&name))?));
                    }
                }
                syn::Fields::Named(n) => {
                    for f in &n.named {
                        fields.push((Some(f.ident.as_ref().unwrap().to_string()), self.ty(file, &f.ty, Some(&name))?));
                    }
                }
            }
            variants.push((v.ident.to_string(), fields));
        }
        let mut stripped = it.clone();
        stripped.attrs.retain(|a| !a.path.is_ident("doc"));
        for v in stripped.variants.iter_mut() {
            v.attrs.retain(|a| !a.path.is_ident("doc"));
        }
        self.enums.insert(
            name.clone(),
            EnumDef { name, variants, derives_eq, hash: sha256_hex(tok(&stripped).as_bytes()), file: file.to_string(), line },
        );
        Ok(())
    }

    pub fn add_struct(&mut self, file: &str, it: &syn::ItemStruct) -> R<()> {
        let line = line_of(it);
        if !it.generics.params.is_empty() {
            return refuse(file, line, format!("struct `{}` is generic", it.ident));
        }
        let name = it.ident.to_string();
        let mut fields = vec![];
        match &it.fields {
            syn::Fields::Named(n) => {
                for f in &n.named {
                    fields.push((f.ident.as_ref().unwrap().to_string(), self.ty(file, &f.ty, Some(&name))?));
                }
            }
            _ => return refuse(file, line, format!("struct `{}`: only named fields are supported", name)),
        }
        let mut stripped = it.clone();
        stripped.attrs.retain(|a| !a.path.is_ident("doc"));
        self.structs.insert(
            name.clone(),
            StructDef { name, fields, hash: sha256_hex(tok(&stripped).as_bytes()), file: file.to_string(), line },
        );
        Ok(())
    }

    pub fn add_const(&mut self, file: &str, owner: &str, ident: &syn::Ident, ty: &syn::Type, expr: &syn::Expr) -> R<()> {
        let line = line_of(ident);
        let t = self.ty(file, ty, None)?;
        let (bits, signed) = match t {
            Ty::Int(b, s) => (b, s),
            _ => return refuse(file, line, format!("const `{}`: only integer constants are supported", ident)),
        };
        let v = self.const_eval(file, owner, expr, Some((bits, signed)))?;
        let (lo, hi) = int_range(bits, signed);
        if v < lo || v > hi {
            return refuse(file, line, format!("const `{}`: value {} out of range of its type", ident, v));
        }
        let lean = if owner.is_empty() { ident.to_string() } else { format!("{}.{}", owner, ident) };
        let src = format!("{}: {} = {}", ident, tok(ty), tok(expr));
        self.consts.insert(
            (owner.to_string(), ident.to_string()),
            ConstDef { lean, ty: t, value: v, hash: sha256_hex(src.as_bytes()), src, file: file.to_string(), line },
        );
        Ok(())
    }

    /// Compile-time evaluation of a constant expression (rustc rejects overflow in consts, so
    /// exact integer arithmetic with a range check per operation is faithful).
    fn const_eval(&self, file: &str, owner: &str, e: &syn::Expr, want: Option<(u32, bool)>) -> R<i128> {
        let line = line_of(e);
        let inrange = |v: i128| -> R<i128> {
            if let Some((b, s)) = want {
                let (lo, hi) = int_range(b, s);
                if v < lo || v > hi {
                    return refuse(file, line, format!("constant expression `{}` overflows", tok(e)));
                }
            }
            Ok(v)
        };
        match e {
            syn::Expr::Paren(p) => self.const_eval(file, owner, &p.expr, want),
            syn::Expr::Group(p) => self.const_eval(file, owner, &p.expr, want),
            syn::Expr::Lit(l) => match &l.lit {
                syn::Lit::Int(li) => {
                    let v: i128 = li.base10_parse::<u128>().ok().and_then(|v| i128::try_from(v).ok()).ok_or(Refuse {
                        file: file.into(),
                        line,
                        what: "integer literal too large".into(),
                    })?;
                    if !li.suffix().is_empty() {
                        match (int_ty_of_name(li.suffix()), want) {
                            (Some(Ty::Int(b, s)), Some((wb, ws))) if b == wb && s == ws => {}
                            (Some(_), None) => {}
                            _ => return refuse(file, line, format!("literal `{}`: suffix does not match the constant's type", tok(e))),
                        }
                    }
                    inrange(v)
                }
                _ => refuse(file, line, format!("constant expression `{}`", tok(e))),
            },
            syn::Expr::Unary(u) => match u.op {
                syn::UnOp::Neg(_) => inrange(-self.const_eval(file, owner, &u.expr, None)?),
                _ => refuse(file, line, format!("constant expression `{}`", tok(e))),
            },
            syn::Expr::Binary(b) => {
                let l = self.const_eval(file, owner, &b.left, want)?;
                let shift = matches!(b.op, syn::BinOp::Shl(_) | syn::BinOp::Shr(_));
                let r = self.const_eval(file, owner, &b.right, if shift { None } else { want })?;
                let v = match b.op {
                    syn::BinOp::Add(_) => l + r,
                    syn::BinOp::Sub(_) => l - r,
                    syn::BinOp::Mul(_) => l.checked_mul(r).ok_or(Refuse { file: file.into(), line, what: "constant overflow".into() })?,
                    syn::BinOp::Div(_) if r != 0 => l / r,
                    syn::BinOp::Rem(_) if r != 0 => l % r,
                    syn::BinOp::Shl(_) if (0..64).contains(&r) && want.map_or(true, |(b, _)| r < b as i128) && l >= 0 => l << r,
                    syn::BinOp::Shr(_) if (0..64).contains(&r) && want.map_or(true, |(b, _)| r < b as i128) && l >= 0 => l >> r,
                    syn::BinOp::BitAnd(_) if l >= 0 && r >= 0 => l & r,
                    syn::BinOp::BitOr(_) if l >= 0 && r >= 0 => l | r,
                    syn::BinOp::BitXor(_) if l >= 0 && r >= 0 => l ^ r,
                    _ => return refuse(file, line, format!("constant expression `{}`", tok(e))),
                };
                inrange(v)
            }
            syn::Expr::Path(p) if p.qself.is_none() => {
                let segs: Vec<String> = p.path.segments.iter().map(|s| s.ident.to_string()).collect();
                let (o, n) = match segs.len() {
                    1 => (String::new(), segs[0].clone()),
                    _ => {
                        let o = &segs[segs.len() - 2];
                        (if o == "Self" { owner.to_string() } else { o.clone() }, segs[segs.len() - 1].clone())
                    }
                };
                if let Some(Ty::Int(b, s)) = int_ty_of_name(&o) {
                    let (lo, hi) = int_range(b, s);
                    match n.as_str() {
                        "MAX" => return inrange(hi),
                        "MIN" => return inrange(lo),
                        _ => {}
                    }
                }
                match self.consts.get(&(o.clone(), n.clone())) {
                    Some(c) => {
                        if let (Ty::Int(b, s), Some((wb, ws))) = (&c.ty, want) {
                            if *b != wb || *s != ws {
                                return refuse(file, line, format!("constant `{}` has a different type", tok(e)));
                            }
                        }
                        inrange(c.value)
                    }
                    None => match self.auto_const(file, line, &o, &n)? {
                        Some((Ty::Int(b, s), v)) => {
                            if let Some((wb, ws)) = want {
                                if b != wb || s != ws {
                                    return refuse(file, line, format!("constant `{}` has a different type", tok(e)));
                                }
                            }
                            inrange(v)
                        }
                        _ => refuse(file, line, format!("constant `{}` is neither whitelisted nor an integer constant of the group's source files", tok(e).replace(' ', ""))),
                    },
                }
            }
            _ => refuse(file, line, format!("constant expression `{}`", tok(e))),
        }
    }

    /// Value of a NON-whitelisted integer constant of the group's source files (evaluated on
    /// demand; cycles are refused).
    pub fn auto_const(&self, _file: &str, line: usize, owner: &str, name: &str) -> R<Option<(Ty, i128)>> {
        let key = (owner.to_string(), name.to_string());
        let c = match self.const_srcs.get(&key) {
            Some(c) => c,
            None => return Ok(None),
        };
        let what = if owner.is_empty() { name.to_string() } else { format!("{}::{}", owner, name) };
        if let Some(why) = &c.unusable {
            return refuse(&c.file, line_of(&c.ident), format!("constant `{}` cannot be used: {}", what, why));
        }
        if self.const_stack.borrow().contains(&key) {
            return refuse(&c.file, line_of(&c.ident), format!("constant `{}` is defined in terms of itself", what));
        }
        let t = self.ty(&c.file, &c.ty, if owner.is_empty() { None } else { Some(owner) })?;
        let (bits, signed) = match t {
            Ty::Int(b, s) => (b, s),
            _ => return refuse(&c.file, line_of(&c.ident), format!("constant `{}` (used at line {}) is not an integer constant", what, line)),
        };
        self.const_stack.borrow_mut().push(key);
        let r = self.const_eval(&c.file, owner, &c.expr, Some((bits, signed)));
        self.const_stack.borrow_mut().pop();
        let v = r?;
        let src = format!("{}: {} = {}", c.ident, tok(&c.ty), tok(&c.expr));
        self.used_extra.borrow_mut().insert(
            format!("{}:{} const {}", c.file, line_of(&c.ident), what),
            format!("{} (value substituted)", sha256_hex(src.as_bytes())),
        );
        Ok(Some((Ty::Int(bits, signed), v)))
    }

    pub fn add_sig(&mut self, file: &str, owner: &str, sig: &syn::Signature) -> R<()> {
        let line = line_of(sig);
        let name = sig.ident.to_string();
        let what = if owner.is_empty() { name.clone() } else { format!("{}::{}", owner, name) };
        if sig.asyncness.is_some() || sig.unsafety.is_some() || sig.abi.is_some() || sig.variadic.is_some() {
            return refuse(file, line, format!("fn `{}`: async/unsafe/extern", what));
        }
        if !sig.generics.params.is_empty() || sig.generics.where_clause.is_some() {
            return refuse(file, line, format!("fn `{}`: generic parameters", what));
        }
        let self_ty = if owner.is_empty() { None } else { Some(owner) };
        // the Lean name `Owner.name` must not collide with what the structure declaration generates
        if let Some(sd) = self.structs.get(owner) {
            if name == "mk" || name == "rec" || name == "casesOn" || sd.fields.iter().any(|(f, _)| *f == name) {
                return refuse(file, line, format!("fn `{}`: its Lean name would collide with the constructor / a projection of struct `{}`", what, owner));
            }
        }
        let mut params = vec![];
        let mut mut_self = false;
        for a in &sig.inputs {
            match a {
                syn::FnArg::Receiver(r) => {
                    if r.mutability.is_some() {
                        // `&mut self` on a whitelisted struct: state-passing translation (the body
                        // may assign `self.field`; the result is `(value, self')`).  `mut self`
                        // (by value) and every other receiver type are refused.
                        if r.reference.is_none() || !self.structs.contains_key(owner) {
                            return refuse(file, line_of(a), format!("fn `{}`: `&mut self` / `mut self` on a type that is not a whitelisted struct", what));
                        }
                        mut_self = true;
                    }
                    let t = if self.enums.contains_key(owner) {
                        Ty::Enum(owner.to_string())
                    } else if self.structs.contains_key(owner) {
                        Ty::Struct(owner.to_string())
                    } else {
                        // a receiver of a type that is not translated is ABSTRACTED: it gets no
                        // parameter, so any use of `self` in the body (other than a declared
                        // opaque call) is an unknown identifier and refuses the target
                        continue;
                    };
                    params.push(("self".to_string(), t));
                }
                syn::FnArg::Typed(pt) => {
                    let id = match &*pt.pat {
                        syn::Pat::Ident(pi) if pi.by_ref.is_none() && pi.mutability.is_none() && pi.subpat.is_none() => pi.ident.to_string(),
                        syn::Pat::Wild(_) => "_".to_string(),
                        _ => return refuse(file, line_of(a), format!("fn `{}`: parameter pattern `{}`", what, tok(&pt.pat))),
                    };
                    if let syn::Type::Reference(r) = &*pt.ty {
                        if r.mutability.is_some() {
                            return refuse(file, line_of(a), format!("fn `{}`: `&mut` parameter", what));
                        }
                    }
                    params.push((id, self.ty(file, &pt.ty, self_ty)?));
                }
            }
        }
        let ret = match &sig.output {
            syn::ReturnType::Default => Ty::Unit,
            syn::ReturnType::Type(_, t) => self.ty(file, t, self_ty)?,
        };
        let lean = if owner.is_empty() { lean_ident(&name) } else { format!("{}.{}", owner, lean_ident(&name)) };
        if mut_self && matches!(ret, Ty::Res(..)) {
            return refuse(file, line, format!("fn `{}`: `&mut self` together with a `Result` return type", what));
        }
        self.fns.insert((owner.to_string(), name), FnSig { lean, params, ret, mut_self });
        Ok(())
    }
}

// =====================================================================================
// function bodies
// =====================================================================================

pub struct FnCx<'a> {
    pub d: &'a Decls,
    pub file: String,
    pub owner: String,
    pub ret: Ty,
    /// scopes of (rust name -> (lean name, type))
    pub(crate) scopes: Vec<Vec<(String, String, Ty)>>,
    pub(crate) used: BTreeSet<String>,
    /// local `use Enum::{A, B}` aliases: ident -> (enum, variant)
    pub(crate) aliases: Vec<BTreeMap<String, (String, String)>>,
    pub(crate) subst: Vec<Option<Ty>>,
    /// type variables that only ever were a shift amount (rustc falls back to i32)
    pub(crate) shift_vars: BTreeSet<usize>,
    pub deps: BTreeSet<String>,
    pub errs: BTreeSet<String>,
    /// the target being translated and the helpers currently being inlined into it
    pub(crate) inline_stack: Vec<(String, String)>,
    /// header lines of the helpers that were inlined
    pub inlined: BTreeMap<String, String>,
    /// locals bound to a formatted message (`let msg = format!(..)`): usable only as the
    /// payload of an error constructor, where they are abstracted like literal messages
    pub(crate) msg_vars: BTreeSet<String>,
    /// the target takes `&mut self` (state-passing translation)
    pub mut_self: bool,
    /// are we in tail-flow position of the target's body (the only place where an assignment
    /// to `self.field` can be translated without a join)?
    pub(crate) tail_ok: bool,
    /// opaque sub-expressions of the target (token text -> (parameter name, type)): calls of a
    /// trait method on a generic field, abstracted to an extra parameter
    pub opaque: Vec<(String, String, Ty)>,
    /// lean names of the successive versions of `self` (bound by `assign_self`)
    pub self_versions: BTreeSet<String>,
}

impl<'a> FnCx<'a> {
    pub fn new(d: &'a Decls, file: &str, owner: &str, sig: &FnSig) -> (Self, Vec<(String, Ty)>) {
        let mut cx = FnCx {
            d,
            file: file.to_string(),
            owner: owner.to_string(),
            ret: sig.ret.clone(),
            scopes: vec![vec![]],
            used: BTreeSet::new(),
            aliases: vec![BTreeMap::new()],
            subst: vec![],
            shift_vars: BTreeSet::new(),
            deps: BTreeSet::new(),
            errs: BTreeSet::new(),
            inline_stack: vec![],
            inlined: BTreeMap::new(),
            msg_vars: BTreeSet::new(),
            mut_self: sig.mut_self,
            tail_ok: sig.mut_self,
            opaque: vec![],
            self_versions: BTreeSet::new(),
        };
        cx.used.insert("p".into());
        cx.used.insert("ε".into());
        cx.used.insert("E".into());
        let mut params = vec![];
        for (n, t) in &sig.params {
            let ln = cx.bind(n, t.clone());
            params.push((ln, t.clone()));
        }
        (cx, params)
    }

    pub(crate) fn no<T>(&self, line: usize, what: impl Into<String>) -> R<T> {
        refuse(&self.file, line, what)
    }

    pub(crate) fn fresh_name(&mut self, base: &str) -> String {
        let base = if base == "_" { "_u".to_string() } else { base.to_string() };
        let mut cand = lean_ident(&base);
        let mut i = 0;
        while self.used.contains(&cand) {
            i += 1;
            cand = format!("{}_{}", base, i);
        }
        self.used.insert(cand.clone());
        cand
    }

    pub(crate) fn bind(&mut self, rust: &str, ty: Ty) -> String {
        let ln = self.fresh_name(rust);
        self.scopes.last_mut().unwrap().push((rust.to_string(), ln.clone(), ty));
        ln
    }

    pub(crate) fn lookup(&self, rust: &str) -> Option<(String, Ty)> {
        for sc in self.scopes.iter().rev() {
            for (r, l, t) in sc.iter().rev() {
                if r == rust {
                    return Some((l.clone(), t.clone()));
                }
            }
        }
        None
    }

    pub(crate) fn alias(&self, id: &str) -> Option<(String, String)> {
        for a in self.aliases.iter().rev() {
            if let Some(x) = a.get(id) {
                return Some(x.clone());
            }
        }
        None
    }

    pub(crate) fn push(&mut self) {
        self.scopes.push(vec![]);
        self.aliases.push(BTreeMap::new());
    }
    pub(crate) fn pop(&mut self) {
        self.scopes.pop();
        self.aliases.pop();
    }

    pub(crate) fn fresh_var(&mut self) -> Ty {
        self.subst.push(None);
        Ty::Var(self.subst.len() - 1)
    }

    pub fn resolve(&self, t: &Ty) -> Ty {
        match t {
            Ty::Var(i) => match &self.subst[*i] {
                Some(t2) => self.resolve(t2),
                None => t.clone(),
            },
            Ty::Tuple(v) => Ty::Tuple(v.iter().map(|x| self.resolve(x)).collect()),
            Ty::Opt(x) => Ty::Opt(Box::new(self.resolve(x))),
            Ty::Res(x, k) => Ty::Res(Box::new(self.resolve(x)), k.clone()),
            _ => t.clone(),
        }
    }

    pub(crate) fn unify(&mut self, line: usize, a: &Ty, b: &Ty, ctx: &str) -> R<Ty> {
        let a = self.resolve(a);
        let b = self.resolve(b);
        match (&a, &b) {
            (Ty::Never, _) => Ok(b),
            (_, Ty::Never) => Ok(a),
            (Ty::Var(i), Ty::Var(j)) => {
                if i != j {
                    self.subst[*i] = Some(b.clone());
                    if self.shift_vars.remove(i) {
                        self.shift_vars.insert(*j);
                    }
                }
                Ok(b)
            }
            (Ty::Var(i), Ty::Int(..)) => {
                self.subst[*i] = Some(b.clone());
                Ok(b)
            }
            (Ty::Int(..), Ty::Var(j)) => {
                self.subst[*j] = Some(a.clone());
                Ok(a)
            }
            (Ty::Tuple(x), Ty::Tuple(y)) if x.len() == y.len() => {
                let mut v = vec![];
                for (p, q) in x.iter().zip(y.iter()) {
                    v.push(self.unify(line, p, q, ctx)?);
                }
                Ok(Ty::Tuple(v))
            }
            (Ty::Opt(x), Ty::Opt(y)) => Ok(Ty::Opt(Box::new(self.unify(line, x, y, ctx)?))),
            (Ty::Res(x, k1), Ty::Res(y, k2)) => {
                if k1 != k2 {
                    return self.no(line, format!("{}: different `Result` error types `{}` / `{}` (a `From` conversion cannot be seen syntactically)", ctx, k1, k2));
                }
                Ok(Ty::Res(Box::new(self.unify(line, x, y, ctx)?), k1.clone()))
            }
            _ if a == b => Ok(a),
            _ => self.no(line, format!("{}: cannot reconcile types {:?} and {:?}", ctx, a, b)),
        }
    }

    pub(crate) fn want(&mut self, line: usize, got: &Ty, want: Option<&Ty>, ctx: &str) -> R<Ty> {
        match want {
            Some(w) => self.unify(line, got, w, ctx),
            None => Ok(self.resolve(got)),
        }
    }
}
