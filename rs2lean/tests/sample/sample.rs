// Synthetic targets exercising the whole supported subset of rs2lean.
// Translated by `rs2lean --file sample.rs --name FnSample`; compiled and RUN by rustc in both
// profiles (sample_main.rs) to obtain the expected outcomes, which Lean then re-computes on the
// translation (`decide`).

pub type SResult<T> = Result<T, SError>;

// (`SError { TooBig(String), Odd }` lives in sample_main.rs: error types are not translated, errors
// are abstracted to their constructor path)

#[derive(Debug, Clone, Copy, PartialEq, Eq)]
pub enum Color {
    Red,
    Green,
    Blue,
}

#[derive(Debug, Clone, Copy, PartialEq, Eq)]
pub enum Shape {
    Dot,
    Seg(u8, u8),
    Box3 { w: u16, h: u16, d: u16 },
}

#[derive(Debug, Clone, Copy)]
pub struct Pair {
    pub a: u32,
    pub b: i32,
}

pub const LIMIT: u32 = 10 * 100 + 24;
pub const SMALL: i8 = -(1 << 3);

impl Pair {
    pub const SCALE: u32 = LIMIT / 4;

    pub fn sum(&self) -> i32 {
        self.a as i32 + self.b
    }

    pub fn scaled(self, k: u32) -> u32 {
        self.a * k % Self::SCALE
    }
}

pub fn arith_u8(a: u8, b: u8) -> u8 {
    (a + b) * 2 - b
}

pub fn arith_i8(a: i8, b: i8) -> i8 {
    -(a - b) * 3 + SMALL
}

pub fn divrem_u(a: u8, b: u8) -> u8 {
    a / b + a % b
}

pub fn divrem_i(a: i8, b: i8) -> i8 {
    (a / b) ^ (a % b)
}

pub fn shifts(x: u8, k: u32) -> u8 {
    (x << k) | (x >> k)
}

pub fn shifts_signed(x: i8, k: i8) -> i8 {
    (x >> k) ^ (x << 1)
}

pub fn casts(x: i16) -> u64 {
    let a = x as u8; // truncate
    let b = x as i32; // sign extend
    let c = x as u16 as u32; // reinterpret, zero extend
    let d = (x < 0) as u64;
    (a as u64) + ((b as u32) as u64) * 3 + (c as u64) * 5 + d
}

pub fn wrapping(a: u8, b: u8) -> u8 {
    a.wrapping_add(b).wrapping_mul(3).wrapping_sub(b).wrapping_shl(9).wrapping_neg()
}

pub fn checked(a: i8, b: i8) -> i8 {
    let s = a.checked_add(b).unwrap_or(100);
    let d = a.checked_sub(b).unwrap_or(-100);
    let m = a.checked_mul(b).is_some_and(|v| v > 10);
    if m {
        s
    } else {
        d
    }
}

pub fn saturating(a: u8, b: u8, c: i8, d: i8) -> i16 {
    let x = a.saturating_add(b).saturating_sub(3);
    let y = c.saturating_add(d).saturating_sub(d);
    x as i16 - y as i16
}

pub fn overflowing(a: u8, b: u8) -> u8 {
    let (s, o) = a.overflowing_add(b);
    let r = a.overflowing_mul(b);
    if o || r.1 {
        s ^ r.0
    } else {
        s.min(r.0).max(7)
    }
}

pub fn conv(x: u32) -> u8 {
    let a: u8 = x.try_into().unwrap_or(255);
    let b = u16::try_from(x).unwrap_or(1);
    a ^ (b as u8)
}

pub fn conv_signed(x: i16) -> u8 {
    let a: u8 = x.try_into().unwrap_or(200);
    let b: i8 = x.try_into().unwrap_or(-1);
    a.wrapping_add(b as u8)
}

pub fn bits(x: i16) -> u32 {
    x.count_ones() * 100 + x.leading_zeros() + (x.unsigned_abs() as u32) * 1000
}

pub fn short_circuit(a: u8, b: u8) -> bool {
    // the right operand panics (division by zero) unless the left one decides
    (b == 0 || a / b > 2) && !(b != 0 && a % b == 1)
}

pub fn classify(c: Color, n: u8) -> u8 {
    match (c, n > 3) {
        (Color::Red, true) => 1,
        (Color::Red, false) | (Color::Green, _) => 2,
        (Color::Blue, big) => {
            if big {
                3
            } else {
                4
            }
        }
    }
}

pub fn int_match(n: u8, m: i8) -> u16 {
    let base = match n {
        0 => 10,
        1 | 2 => 20,
        k if k > 200 => k as u16,
        _ => 30,
    };
    match (n, m) {
        (0, -1) => base + 1,
        (_, 5) => base + 2,
        (x, _) => base + x as u16,
    }
}

pub fn area(s: Shape) -> u32 {
    match s {
        Shape::Dot => 0,
        Shape::Seg(a, b) if a > b => (a - b) as u32,
        Shape::Seg(a, b) => (b - a) as u32,
        Shape::Box3 { w, h, .. } => w as u32 * h as u32,
    }
}

pub fn mk_shape(k: u8) -> Shape {
    use Shape::{Dot, Seg};
    if k == 0 {
        return Dot;
    }
    if k < 10 {
        Seg(k, k * 2)
    } else {
        Shape::Seg(1, 2).grow()
    }
}

impl Shape {
    pub fn grow(self) -> Shape {
        self
    }
}

pub fn early(a: u8) -> u8 {
    let x = if a > 100 {
        return 1;
    } else {
        a + 1
    };
    if x % 2 == 0 {
        return x / 2;
    }
    debug_assert!(x != 7);
    x * 3
}

pub fn half(x: u32) -> SResult<u32> {
    if x % 2 == 1 {
        return Err(SError::Odd);
    }
    Ok(x / 2)
}

pub fn quarter_small(x: u32) -> SResult<u8> {
    let h = half(x)?;
    let q = half(h)?;
    q.try_into().map_err(|_| SError::TooBig("quarter does not fit".into()))
}

pub fn opt(x: u8) -> u8 {
    let o = if x > 5 { Some(x) } else { None };
    let p = x.checked_sub(3);
    o.unwrap_or(0) + p.unwrap_or(9) + (p.is_some() as u8) + (o.is_none() as u8)
}

pub fn asserts(x: u8) -> u8 {
    assert!(x != 3);
    debug_assert_eq!(x & 1, 0);
    match x {
        8 => unreachable!(),
        _ => x,
    }
}

// ---- helpers that are NOT whitelisted (`inl_*`): their calls are inlined by rs2lean ----

const INL_BIAS: u8 = 3 + 4;

fn inl_clamp(x: u8, hi: u8) -> u8 {
    if x > hi {
        return hi;
    }
    x
}

fn inl_pair(a: u8, b: u8) -> (u8, u8) {
    // (may overflow: a panic inside an inlined body)
    (a + b, inl_clamp(b, 9))
}

fn inl_half(x: u32) -> SResult<u32> {
    if x % 2 == 1 {
        return Err(SError::Odd);
    }
    Ok(x / 2)
}

impl Shape {
    fn inl_len(self, extra: u8) -> u8 {
        match self {
            Shape::Seg(a, b) if b >= a => return b - a + extra,
            Shape::Seg(a, b) => a - b + extra,
            _ => extra,
        }
    }
}

pub fn use_inline(a: u8, b: u8) -> u8 {
    // early return of the callee in a NON-tail position, arguments with effects, nesting
    let c = inl_clamp(a / b, 10) + INL_BIAS;
    let (s, t) = inl_pair(c, b);
    let u = inl_clamp(inl_clamp(s, 200), t + 100);
    if u > 150 {
        return 1;
    }
    u ^ t
}

pub fn use_inline_method(k: u8) -> u8 {
    let s = mk_shape(k);
    s.inl_len(k) + Shape::inl_len(Shape::Dot, 1)
}

pub fn use_inline_res(x: u32) -> SResult<u32> {
    let h = inl_half(x)?;
    let q = inl_half(h + 2)?;
    Ok(q + u32::from(INL_BIAS))
}

// ---- struct literals, `&mut self` as state passing, message locals / parameters ----

#[derive(Debug, Clone, Copy, PartialEq, Eq)]
pub struct Counter {
    pub pos: u16,
    pub left: u8,
    pub step: u8,
}

fn inl_limit(what: &str, v: u8, lim: u8) -> SResult<u8> {
    if v > lim {
        let msg = format!("{} too big (limit {})", what, lim);
        return Err(SError::TooBig(msg));
    }
    Ok(lim - v)
}

impl Counter {
    // shorthand fields
    pub fn make(pos: u16, left: u8, step: u8) -> Self {
        Self { pos, left, step }
    }

    // explicit fields in an order different from the declaration; the first one may overflow
    pub fn rotated(self) -> Counter {
        Counter {
            step: self.left + 1,
            left: self.step,
            pos: self.pos,
        }
    }

    // the shape of an iterator's `next`: early `return`, assignments in both branches of a tail
    // `if`, compound assignments that can overflow
    pub fn advance(&mut self) -> Option<u16> {
        if self.left == 0 {
            return None;
        }

        if self.left > self.step {
            let at = self.pos;
            self.left -= self.step;
            self.pos += self.step as u16 * 257;
            Some(at)
        } else {
            let at = self.pos;
            self.left = 0;
            Some(at)
        }
    }

    // assignments in the arms of a tail `match`, early return after an assignment, unit result
    pub fn nudge(&mut self, k: u8) {
        self.step ^= k;
        match k {
            0 => {
                self.pos = 0;
            }
            1 | 2 => {
                self.pos *= 2;
                if self.pos > 1000 {
                    return;
                }
                self.left &= 0x0f;
            }
            _ => self.left |= 0x80,
        }
    }

    // a message bound by `let msg = format!(..)` is only an error payload
    pub fn checked_step(&self, lim: u8) -> SResult<u8> {
        if self.step > lim {
            let msg = format!("step {} is larger than {}", self.step, lim);
            return Err(SError::TooBig(msg));
        };
        Ok(self.step)
    }
}

// a `&str` parameter of an inlined helper is message text
pub fn use_msg_param(v: u8) -> SResult<u8> {
    let r = inl_limit("value", v, 100)?;
    Ok(r + 1)
}

// `None` / `Some` of a struct
pub fn maybe_counter(k: u8) -> Option<Counter> {
    if k == 0 {
        return None;
    }
    Some(Counter::make(k as u16 * 300, k, 1))
}
