// Runs the synthetic targets of sample.rs with rustc's real semantics and prints one Lean
// `example` per call: the translation must compute the same outcome (ok value / error / panic).
// Built twice by the self-test: dev-like (overflow checks + debug assertions) and release-like.
#![allow(dead_code, unused)]

#[derive(Debug)]
pub enum SError {
    TooBig(String),
    Odd,
}

include!("sample.rs");

use std::panic::{catch_unwind, UnwindSafe};

fn prof() -> &'static str {
    if cfg!(debug_assertions) {
        "Profile.dev"
    } else {
        "Profile.release"
    }
}

fn bv(x: i128, bits: u32) -> String {
    let m = 1i128 << bits;
    format!("{}#{}", ((x % m) + m) % m, bits)
}

fn run<T>(call: &str, f: impl FnOnce() -> T + UnwindSafe, show: impl Fn(&T) -> String) {
    let r = match catch_unwind(f) {
        Ok(v) => show(&v),
        Err(_) => "Res.panic".to_string(),
    };
    println!("example : {} = {} := by decide", call.replace("PROF", prof()), r);
}

fn ok(s: String) -> String {
    format!("Res.ok ({})", s)
}

fn color(c: Color) -> &'static str {
    match c {
        Color::Red => "Color.Red",
        Color::Green => "Color.Green",
        Color::Blue => "Color.Blue",
    }
}

fn shape(s: Shape) -> String {
    match s {
        Shape::Dot => "Shape.Dot".into(),
        Shape::Seg(a, b) => format!("Shape.Seg {} {}", bv(a as i128, 8), bv(b as i128, 8)),
        Shape::Box3 { w, h, d } => format!("Shape.Box3 {} {} {}", bv(w as i128, 16), bv(h as i128, 16), bv(d as i128, 16)),
    }
}

fn sres<T>(r: &SResult<T>, show: impl Fn(&T) -> String) -> String {
    match r {
        Ok(v) => ok(show(v)),
        Err(SError::Odd) => "Res.err 0".into(),
        Err(SError::TooBig(_)) => "Res.err 1".into(),
    }
}

fn main() {
    std::panic::set_hook(Box::new(|_| {}));
    let u8s: [u8; 10] = [0, 1, 2, 3, 7, 8, 100, 128, 200, 255];
    let i8s: [i8; 8] = [-128, -127, -1, 0, 1, 3, 5, 127];
    let i16s: [i16; 9] = [-32768, -300, -129, -1, 0, 1, 127, 256, 32767];
    let u32s: [u32; 9] = [0, 1, 2, 7, 8, 255, 256, 1020, 70000];

    for &a in &u8s {
        for &b in &[0u8, 1, 3, 100, 255] {
            run(&format!("arith_u8 (ε := Nat) PROF {} {}", bv(a as i128, 8), bv(b as i128, 8)), move || arith_u8(a, b), |v| ok(bv(*v as i128, 8)));
            run(&format!("divrem_u (ε := Nat) PROF {} {}", bv(a as i128, 8), bv(b as i128, 8)), move || divrem_u(a, b), |v| ok(bv(*v as i128, 8)));
            run(&format!("wrapping (ε := Nat) PROF {} {}", bv(a as i128, 8), bv(b as i128, 8)), move || wrapping(a, b), |v| ok(bv(*v as i128, 8)));
            run(&format!("overflowing (ε := Nat) PROF {} {}", bv(a as i128, 8), bv(b as i128, 8)), move || overflowing(a, b), |v| ok(bv(*v as i128, 8)));
            run(&format!("short_circuit (ε := Nat) PROF {} {}", bv(a as i128, 8), bv(b as i128, 8)), move || short_circuit(a, b), |v| ok(format!("{}", v)));
        }
        for &k in &[0u32, 1, 7, 8, 9, 40] {
            run(&format!("shifts (ε := Nat) PROF {} {}", bv(a as i128, 8), bv(k as i128, 32)), move || shifts(a, k), |v| ok(bv(*v as i128, 8)));
        }
        for c in [Color::Red, Color::Green, Color::Blue] {
            run(&format!("classify (ε := Nat) PROF {} {}", color(c), bv(a as i128, 8)), move || classify(c, a), |v| ok(bv(*v as i128, 8)));
        }
        for &m in &[-1i8, 5, 0] {
            run(&format!("int_match (ε := Nat) PROF {} {}", bv(a as i128, 8), bv(m as i128, 8)), move || int_match(a, m), |v| ok(bv(*v as i128, 16)));
        }
        run(&format!("mk_shape (ε := Nat) PROF {}", bv(a as i128, 8)), move || mk_shape(a), |v| ok(shape(*v)));
        run(&format!("early (ε := Nat) PROF {}", bv(a as i128, 8)), move || early(a), |v| ok(bv(*v as i128, 8)));
        run(&format!("early (ε := Nat) PROF {}", bv(6, 8)), move || early(6), |v| ok(bv(*v as i128, 8)));
        run(&format!("opt (ε := Nat) PROF {}", bv(a as i128, 8)), move || opt(a), |v| ok(bv(*v as i128, 8)));
        run(&format!("asserts (ε := Nat) PROF {}", bv(a as i128, 8)), move || asserts(a), |v| ok(bv(*v as i128, 8)));
        run(&format!("saturating (ε := Nat) PROF {} {} {} {}", bv(a as i128, 8), bv(200, 8), bv(a as i8 as i128, 8), bv(-100, 8)), move || saturating(a, 200, a as i8, -100), |v| ok(bv(*v as i128, 16)));
        run(&format!("saturating (ε := Nat) PROF {} {} {} {}", bv(a as i128, 8), bv(2, 8), bv(a as i8 as i128, 8), bv(100, 8)), move || saturating(a, 2, a as i8, 100), |v| ok(bv(*v as i128, 16)));
    }
    for &a in &i8s {
        for &b in &i8s {
            run(&format!("arith_i8 (ε := Nat) PROF {} {}", bv(a as i128, 8), bv(b as i128, 8)), move || arith_i8(a, b), |v| ok(bv(*v as i128, 8)));
            run(&format!("divrem_i (ε := Nat) PROF {} {}", bv(a as i128, 8), bv(b as i128, 8)), move || divrem_i(a, b), |v| ok(bv(*v as i128, 8)));
            run(&format!("checked (ε := Nat) PROF {} {}", bv(a as i128, 8), bv(b as i128, 8)), move || checked(a, b), |v| ok(bv(*v as i128, 8)));
            run(&format!("shifts_signed (ε := Nat) PROF {} {}", bv(a as i128, 8), bv(b as i128, 8)), move || shifts_signed(a, b), |v| ok(bv(*v as i128, 8)));
        }
    }
    for &x in &i16s {
        run(&format!("casts (ε := Nat) PROF {}", bv(x as i128, 16)), move || casts(x), |v| ok(bv(*v as i128, 64)));
        run(&format!("conv_signed (ε := Nat) PROF {}", bv(x as i128, 16)), move || conv_signed(x), |v| ok(bv(*v as i128, 8)));
        run(&format!("bits (ε := Nat) PROF {}", bv(x as i128, 16)), move || bits(x), |v| ok(bv(*v as i128, 32)));
    }
    for &x in &u32s {
        run(&format!("conv (ε := Nat) PROF {}", bv(x as i128, 32)), move || conv(x), |v| ok(bv(*v as i128, 8)));
        run(&format!("half E PROF {}", bv(x as i128, 32)), move || half(x), |v| sres(v, |y| bv(*y as i128, 32)));
        run(&format!("quarter_small E PROF {}", bv(x as i128, 32)), move || quarter_small(x), |v| sres(v, |y| bv(*y as i128, 8)));
        let p = Pair { a: x, b: -5 };
        run(&format!("Pair.sum (ε := Nat) PROF ⟨{}, {}⟩", bv(x as i128, 32), bv(-5, 32)), move || p.sum(), |v| ok(bv(*v as i128, 32)));
        run(&format!("Pair.scaled (ε := Nat) PROF ⟨{}, {}⟩ {}", bv(x as i128, 32), bv(-5, 32), bv(70000, 32)), move || p.scaled(70000), |v| ok(bv(*v as i128, 32)));
    }
    for s in [Shape::Dot, Shape::Seg(3, 9), Shape::Seg(9, 3), Shape::Seg(4, 4), Shape::Box3 { w: 300, h: 500, d: 1 }, Shape::Box3 { w: 65535, h: 65535, d: 0 }] {
        run(&format!("area (ε := Nat) PROF ({})", shape(s)), move || area(s), |v| ok(bv(*v as i128, 32)));
    }
    for &a in &u8s {
        for &b in &[0u8, 1, 3, 100, 255] {
            run(&format!("use_inline (ε := Nat) PROF {} {}", bv(a as i128, 8), bv(b as i128, 8)), move || use_inline(a, b), |v| ok(bv(*v as i128, 8)));
        }
        run(&format!("use_inline_method (ε := Nat) PROF {}", bv(a as i128, 8)), move || use_inline_method(a), |v| ok(bv(*v as i128, 8)));
    }
    for &x in &u32s {
        run(&format!("use_inline_res E PROF {}", bv(x as i128, 32)), move || use_inline_res(x), |v| sres(v, |y| bv(*y as i128, 32)));
    }
    let ctr = |c: &Counter| format!("⟨{}, {}, {}⟩", bv(c.pos as i128, 16), bv(c.left as i128, 8), bv(c.step as i128, 8));
    let counters = [
        Counter { pos: 0, left: 0, step: 3 },
        Counter { pos: 10, left: 9, step: 3 },
        Counter { pos: 10, left: 3, step: 3 },
        Counter { pos: 65000, left: 200, step: 7 },
        Counter { pos: 600, left: 255, step: 255 },
        Counter { pos: 33000, left: 0xf3, step: 0 },
    ];
    for c in counters {
        run(&format!("Counter.make (ε := Nat) PROF {} {} {}", bv(c.pos as i128, 16), bv(c.left as i128, 8), bv(c.step as i128, 8)), move || Counter::make(c.pos, c.left, c.step), |v| ok(ctr(v)));
        run(&format!("Counter.rotated (ε := Nat) PROF {}", ctr(&c)), move || c.rotated(), |v| ok(ctr(v)));
        run(&format!("Counter.advance (ε := Nat) PROF {}", ctr(&c)), move || { let mut m = c; let r = m.advance(); (r, m) },
            |(r, m)| ok(format!("({}, {})", match r { Some(x) => format!("some {}", bv(*x as i128, 16)), None => "none".into() }, ctr(m))));
        for k in [0u8, 1, 2, 9] {
            run(&format!("Counter.nudge (ε := Nat) PROF {} {}", ctr(&c), bv(k as i128, 8)), move || { let mut m = c; m.nudge(k); m }, |m| ok(format!("((), {})", ctr(m))));
        }
        for lim in [0u8, 3, 254] {
            run(&format!("Counter.checked_step E PROF {} {}", ctr(&c), bv(lim as i128, 8)), move || c.checked_step(lim), |v| sres(v, |y| bv(*y as i128, 8)));
        }
    }
    for &a in &u8s {
        run(&format!("use_msg_param E PROF {}", bv(a as i128, 8)), move || use_msg_param(a), |v| sres(v, |y| bv(*y as i128, 8)));
        run(&format!("maybe_counter (ε := Nat) PROF {}", bv(a as i128, 8)), move || maybe_counter(a), |v| ok(match v { Some(c) => format!("some {}", ctr(c)), None => "none".into() }));
    }
    println!("example : LIMIT = {} := by decide", bv(LIMIT as i128, 32));
    println!("example : SMALL = {} := by decide", bv(SMALL as i128, 8));
    println!("example : Pair.SCALE = {} := by decide", bv(Pair::SCALE as i128, 32));
}
