#!/usr/bin/env python3
"""Self-test of the `fn` mode of tie G (rs2lean + Proofs/C*GenTie.lean).

  python3 rs2lean/tests/selftest.py [--keep]

Works on a SCRATCH copy of the four source files (work/rs2lean/selftest/repo/...) and a scratch
overlay of the generated Lean modules (work/rs2lean/selftest/overlay/CamVerif/Gen/*.olean, put in
front of LEAN_PATH), so neither /repo nor /verif/lean is touched and nothing has to be restored.

  (i)   an unsupported construct is refused with file:line, exit status 2, and the stale output
        of that group is removed;
  (ii)  semantic mutations of the targets make the corresponding `gen_*_agrees` proof FAIL;
  (iii) harmless rewrites keep every tie proof passing;
  (iv)  the unmodified sources pass, and the output is deterministic (second run rewrites nothing);
  (v)   semantics of the translation itself: tests/sample/sample.rs (a synthetic file using every
        construct of the supported subset) is translated, and ALSO compiled by rustc and run in a
        dev-like and a release-like profile; every observed outcome (value / error / panic,
        ~1700 calls) must be reproduced by kernel evaluation of the translation (`decide`).

Exit status 0 iff every expectation holds.
"""
import os
import re
import shutil
import subprocess
import sys
import time

ROOT = os.path.abspath(os.path.join(os.path.dirname(__file__), "..", ".."))
REPO = os.environ.get("VERIF_REPO", "/repo")
LEAN = os.path.join(ROOT, "lean")
BIN = os.path.join(ROOT, "rs2lean", "target", "release", "rs2lean")
WORK = os.path.join(ROOT, "work", "rs2lean", "selftest")
FILES = {
    "elem": "genapi/src/elem_type.rs",
    "masked": "genapi/src/masked_int_reg.rs",
    "memory": "impl/src/memory.rs",
    "cmd": "device/src/u3v/protocol/cmd.rs",
}
GROUPS = {
    "FnBitMask": "CamVerif/Proofs/C02GenTie.lean",
    "FnAccessRight": "CamVerif/Proofs/C20GenTie.lean",
    # several tie files: each one is checked against the regenerated module (the later ones import
    # the earlier ones' olean from the built library; they only use its error coding and closed forms)
    "FnCmd": ["CamVerif/Proofs/C10GenTie.lean", "CamVerif/Proofs/C10GenTie2.lean", "CamVerif/Proofs/C09GenTie.lean"],
}


def sh(cmd, **kw):
    p = subprocess.run(cmd, stdout=subprocess.PIPE, stderr=subprocess.STDOUT, text=True, **kw)
    return p.returncode, p.stdout


def lean_path():
    rc, out = sh(["lake", "env", "printenv", "LEAN_PATH"], cwd=LEAN)
    if rc != 0:
        sys.exit("cannot get LEAN_PATH from lake: " + out)
    return out.strip().splitlines()[-1]


def make_overlay(lp):
    """A symlink mirror of the built CamVerif library in which only Gen/Fn* are private copies.
    (Lean looks a module up in the FIRST search-path entry that has its top-level directory, so the
    overlay must offer the whole `CamVerif` tree.)"""
    overlay = os.path.join(WORK, "overlay")
    shutil.rmtree(overlay, ignore_errors=True)
    built = None
    for d in lp.split(":"):
        if os.path.isdir(os.path.join(d, "CamVerif")):
            built = os.path.join(d, "CamVerif")
            break
    if built is None:
        sys.exit("no built CamVerif library on LEAN_PATH (run `lake build CamVerif.Proofs.C02GenTie ...` once)")
    os.makedirs(os.path.join(overlay, "CamVerif", "Gen"))
    for name in os.listdir(built):
        src = os.path.join(built, name)
        if name == "Gen":
            for f in os.listdir(src):
                if not f.startswith("Fn"):
                    os.symlink(os.path.join(src, f), os.path.join(overlay, "CamVerif", "Gen", f))
        else:
            os.symlink(src, os.path.join(overlay, "CamVerif", name))
    top = os.path.join(os.path.dirname(built), "CamVerif.olean")
    if os.path.exists(top):
        os.symlink(top, os.path.join(overlay, "CamVerif.olean"))
    return overlay


def fresh_copy():
    repo = os.path.join(WORK, "repo")
    shutil.rmtree(repo, ignore_errors=True)
    for rel in FILES.values():
        dst = os.path.join(repo, rel)
        os.makedirs(os.path.dirname(dst), exist_ok=True)
        shutil.copyfile(os.path.join(REPO, rel), dst)
    return repo


def edit(repo, key, old, new, count=1):
    path = os.path.join(repo, FILES[key])
    s = open(path).read()
    if s.count(old) < 1:
        sys.exit(f"selftest is stale: `{old}` not found in {FILES[key]}")
    s = s.replace(old, new, count)
    open(path, "w").write(s)


def apply_patch(repo, name):
    """apply tests/patches/<name>.diff to the scratch copy (files outside the copy are skipped)"""
    path = os.path.join(ROOT, "rs2lean", "tests", "patches", name + ".diff")
    text = open(path).read()
    parts = re.split(r"(?m)^(?=diff --git )", text)
    kept = [p for p in parts if p.startswith("diff --git") and os.path.exists(os.path.join(repo, p.split()[2][2:]))]
    if not kept:
        sys.exit(f"selftest: patch {name} touches none of the copied files")
    r = subprocess.run(["patch", "-p1", "-s", "-d", repo], input="".join(kept), text=True, stdout=subprocess.PIPE, stderr=subprocess.STDOUT)
    if r.returncode != 0:
        sys.exit(f"selftest is stale: patch {name} does not apply:\n{r.stdout}")


def theorems_failing(tie_rel, out):
    """names of the theorems of the tie file in which Lean reported an error"""
    lines = open(os.path.join(LEAN, tie_rel)).read().splitlines()
    names = set()
    for m in re.finditer(re.escape(tie_rel) + r":(\d+):\d+: error", out):
        ln = int(m.group(1))
        for i in range(ln - 1, -1, -1):
            mm = re.match(r"\s*(?:theorem|example|def)\s+(\S+)?", lines[i])
            if mm:
                names.add(mm.group(1) if lines[i].lstrip().startswith("theorem") else "(example)")
                break
    return sorted(names)


def generate_and_prove(repo, group, lp):
    """rs2lean on `repo` into the overlay, compile the generated module, run the tie file.
    returns (rs2lean rc, rs2lean output, lean rc, failing theorem names, seconds)"""
    overlay = os.path.join(WORK, "overlay")
    gen_dir = os.path.join(overlay, "CamVerif", "Gen")
    os.makedirs(gen_dir, exist_ok=True)
    t0 = time.time()
    rc, out = sh([BIN, "--repo", repo, "--out", gen_dir, "--only", group])
    if rc != 0:
        return rc, out, None, [], time.time() - t0
    src = os.path.join(gen_dir, group + ".lean")
    env = dict(os.environ, LEAN_PATH=overlay + ":" + lp)
    rc2, out2 = sh(["lean", "-o", os.path.join(gen_dir, group + ".olean"), src], cwd=overlay, env=env)
    if rc2 != 0:
        return rc, out, rc2, ["(generated module does not elaborate) " + out2[:400]], time.time() - t0
    ties = GROUPS[group] if isinstance(GROUPS[group], list) else [GROUPS[group]]
    rc3, failing = 0, []
    for tie in ties:
        r, out3 = sh(["lean", tie], cwd=LEAN, env=env)
        rc3 = rc3 or r
        failing += theorems_failing(tie, out3)
    return rc, out, rc3, failing, time.time() - t0


def main():
    keep = "--keep" in sys.argv
    os.makedirs(WORK, exist_ok=True)
    with open(os.path.join(ROOT, "work", ".cargo-rs2lean.lock"), "w") as lk:
        import fcntl
        fcntl.flock(lk, fcntl.LOCK_EX)
        rc, out = sh(["cargo", "build", "--release", "--quiet", "--offline"], cwd=os.path.join(ROOT, "rs2lean"))
    if rc != 0:
        sys.exit("cargo build failed:\n" + out)
    lp = lean_path()
    make_overlay(lp)
    ok = True
    report = []

    def expect(name, cond, detail):
        nonlocal ok
        ok = ok and cond
        report.append(("PASS" if cond else "FAIL", name, detail))
        print(("PASS " if cond else "FAIL ") + name + " — " + detail, flush=True)

    # ---------------- (iv) baseline + determinism
    repo = fresh_copy()
    for g in GROUPS:
        rc, out, lrc, failing, dt = generate_and_prove(repo, g, lp)
        expect(f"baseline {g}", rc == 0 and lrc == 0 and not failing, f"rs2lean rc={rc}, tie rc={lrc}, failing={failing}, {dt:.1f}s")
    rc, out = sh([BIN, "--repo", repo, "--out", os.path.join(WORK, "overlay", "CamVerif", "Gen")])
    expect("deterministic (second run rewrites nothing)", rc == 0 and "WROTE" not in out, "no WROTE line" if "WROTE" not in out else out)

    # ---------------- (i) refusals
    refusals = [
        ("refuse `let mut`", "masked", "FnBitMask", "        let bits_len = reg_byte_len * 8;\n        match endianness {\n            Endianness::LE => lsb,",
         "        let mut bits_len = reg_byte_len * 8;\n        match endianness {\n            Endianness::LE => lsb,", r"masked_int_reg\.rs:(\d+): .*mut"),
        ("refuse a `for` loop", "memory", "FnAccessRight", "        debug_assert!(num >> 2_i32 == 0);",
         "        for _i in 0..2 {}\n        debug_assert!(num >> 2_i32 == 0);", r"memory\.rs:(\d+): .*for loop"),
        ("refuse an unlisted std method", "cmd", "FnCmd", ".saturating_sub(CommandPacket::<ReadMem>::ACK_HEADER_LENGTH)",
         ".pow(2)\n            .saturating_sub(CommandPacket::<ReadMem>::ACK_HEADER_LENGTH)", r"cmd\.rs:(\d+): .*pow"),
        ("refuse an untyped literal", "masked", "FnBitMask", "        let bits_len = reg_byte_len * 8;\n        match endianness {\n            Endianness::LE => lsb,",
         "        let unused = 7;\n        let bits_len = reg_byte_len * 8;\n        match endianness {\n            Endianness::LE => lsb,", r"masked_int_reg\.rs:(\d+): cannot determine the integer type"),
        ("refuse a helper whose signature is outside the subset (named)", "memory", "FnAccessRight", "        self.as_num() & 0b1 == 1",
         "        self.as_str().len() == 2", r"memory\.rs:(\d+): fn `AccessRight::as_str` \(inlined at"),
        ("refuse a call of something that is not in the group's files", "memory", "FnAccessRight", "        self.as_num() & 0b1 == 1",
         "        std::mem::size_of_val(&self) == 1", r"memory\.rs:(\d+): .*neither whitelisted nor a fn of the group"),
        ("refuse a recursive helper (named)", "cmd", "FnCmd", "fn into_scd_len(len: usize) -> Result<u16> {",
         "fn spin(n: usize) -> usize {\n    if n == 0 {\n        0\n    } else {\n        spin(n - 1)\n    }\n}\n\nfn into_scd_len(len: usize) -> Result<u16> {\n    let len = spin(len);",
         r"cmd\.rs:(\d+): call of `spin` which is \(mutually\) recursive"),
        ("refuse a helper whose body is outside the subset (at the construct)", "cmd", "FnCmd", "fn into_scd_len(len: usize) -> Result<u16> {",
         "fn slow(n: usize) -> usize {\n    let mut k = 0;\n    while k < n {\n        k += 1;\n    }\n    k\n}\n\nfn into_scd_len(len: usize) -> Result<u16> {\n    let len = slow(len);",
         r"cmd\.rs:(\d+): pattern `mut k`"),
        ("refuse an assignment to `self` before a join point (not in the tail flow)", "cmd", "FnCmd",
         "        if self.read_length as usize > self.maximum_read_length {\n            let next_item = ReadMem::new(self.address, self.maximum_read_length as u16);",
         "        if self.read_length > 4096 {\n            self.read_length = 4096;\n        }\n        if self.read_length as usize > self.maximum_read_length {\n            let next_item = ReadMem::new(self.address, self.maximum_read_length as u16);",
         r"cmd\.rs:(\d+): .*outside the tail flow"),
        ("refuse an assignment nested in an operand", "cmd", "FnCmd",
         "            let next_item = ReadMem::new(self.address, self.read_length);\n            self.read_length = 0;",
         "            let next_item = ReadMem::new(self.address, {\n                self.read_length = 0;\n                self.read_length\n            });",
         r"cmd\.rs:(\d+): .*outside the tail flow"),
        ("refuse a use of the abstracted generic receiver other than the declared opaque call", "cmd", "FnCmd",
         "        4 + CommandCcd::len() as usize + self.scd.scd_len() as usize",
         "        4 + CommandCcd::len() as usize + self.scd.scd_len() as usize + self.ccd.scd_len as usize",
         r"cmd\.rs:(\d+): unknown identifier `self`"),
        ("refuse a struct literal with `..base`", "cmd", "FnCmd",
         "        Ok(ReadMemChunks {\n            address: self.address,\n            read_length: self.read_length,\n            maximum_read_length,\n        })",
         "        let base = ReadMemChunks {\n            address: self.address,\n            read_length: self.read_length,\n            maximum_read_length,\n        };\n        Ok(ReadMemChunks {\n            address: self.address,\n            ..base\n        })",
         r"cmd\.rs:(\d+): struct literal with `\.\.base`"),
        ("refuse a message local used as a value", "cmd", "FnCmd",
         "            return Err(Error::InvalidPacket(msg.into()));\n        };\n        let maximum_read_length = ack_len - ack_header_length;",
         "            return Err(Error::InvalidPacket(msg.into()));\n        };\n        let msg = format!(\"{}\", ack_len);\n        let maximum_read_length = ack_len - ack_header_length - msg.len();",
         r"cmd\.rs:(\d+): unknown identifier `msg`"),
    ]
    for name, key, group, old, new, pat in refusals:
        repo = fresh_copy()
        edit(repo, key, old, new)
        stale = os.path.join(WORK, "overlay", "CamVerif", "Gen", group + ".lean")
        # make sure a previous (now stale) translation of the group exists
        sh([BIN, "--repo", REPO, "--out", os.path.dirname(stale), "--only", group])
        had = os.path.exists(stale)
        rc, out, lrc, failing, dt = generate_and_prove(repo, group, lp)
        m = re.search(pat, out)
        src_lines = open(os.path.join(repo, FILES[key])).read().splitlines()
        line_ok = False
        if m:
            ln = int(m.group(1))
            # the reported line must be where the inserted construct is
            # a reported line (the construct, or the call site named by "inlined at") must be at an
            # inserted / changed line (a method chain is reported at the line where it starts)
            new_lines = [l.strip() for l in new.strip().splitlines() if l.strip()]
            cands = [ln] + [int(x) for x in re.findall(r"inlined at [^:]+:(\d+)", out)]
            line_ok = any(src_lines[i].strip() in new_lines
                          for c in cands for i in range(max(0, c - 1), min(len(src_lines), c + 2)))
        gone = had and not os.path.exists(stale)
        msg = (out.strip().splitlines() or ["<no output>"])[0][:160]
        expect(name, rc == 2 and bool(m) and line_ok and gone, f"rc={rc}, stale output removed={gone}; {msg}")

    # ---------------- (ii) semantic mutations must break the named tie theorem
    mutations = [
        ("M1 mask width `msb - lsb + 1` -> `msb - lsb`", "masked", "FnBitMask",
         "(((1_u64 << (msb - lsb + 1)) - 1) << lsb) as i64", "(((1_u64 << (msb - lsb)) - 1) << lsb) as i64", ["gen_mask_agrees"]),
        ("M2 apply_mask logical `>>` -> arithmetic `>>`", "masked", "FnBitMask",
         "let res = (((reg_value & mask) as u64) >> lsb) as i64;", "let res = (reg_value & mask) >> lsb;", ["gen_apply_mask_agrees"]),
        ("M3 RO.meet(not readable) -> rhs (RO.meet(WO) = WO)", "memory", "FnAccessRight",
         "                if rhs.is_readable() {\n                    self\n                } else {\n                    NA\n                }",
         "                if rhs.is_readable() {\n                    self\n                } else {\n                    rhs\n                }", ["gen_meet_agrees"]),
        ("M4 ACK_HEADER_LENGTH 4 + 8 -> 4 + 4", "cmd", "FnCmd",
         "const ACK_HEADER_LENGTH: usize = 4 + 8;", "const ACK_HEADER_LENGTH: usize = 4 + 4;", ["gen_ACK_HEADER_LENGTH_agrees", "maximum_read_length_bv"]),
        ("M5 maximum_read_length clamps to 0 instead of u16::MAX", "cmd", "FnCmd",
         ".unwrap_or(u16::MAX)", ".unwrap_or(0)", ["maximum_read_length_bv"]),
        ("M6 from_num swaps RO and WO", "memory", "FnAccessRight",
         "            0b01 => Self::RO,\n            0b10 => Self::WO,", "            0b01 => Self::WO,\n            0b10 => Self::RO,", ["gen_from_num_agrees"]),
        ("M7 masked_value range check `value > max` -> `value >= max`", "masked", "FnBitMask",
         "if value > self.max(reg_byte_len, endianness, sign)", "if value >= self.max(reg_byte_len, endianness, sign)", ["gen_masked_value_agrees"]),
        ("M8 min: signed 64-bit special case dropped (`== 63` -> `== 64`)", "masked", "FnBitMask",
         "                if msb - lsb == 63 {\n                    i64::MIN", "                if msb - lsb == 64 {\n                    i64::MIN", ["gen_min_agrees"]),
        ("M9 big-endian renumbering off by one (`- 1` dropped in lsb)", "masked", "FnBitMask",
         "            Endianness::BE => bits_len - lsb - 1,", "            Endianness::BE => bits_len - lsb,", ["gen_lsb_agrees"]),
    ]
    # value-changing edits INSIDE inlined helpers (after a behaviour-preserving refactoring)
    mutations += [
        ("M10 C02-ref1 refactoring, then `- 1` dropped in the shared helper normalize_bit_pos", "masked", "FnBitMask",
         "            Endianness::BE => bits_len - bit_pos - 1,", "            Endianness::BE => bits_len - bit_pos,", ["gen_lsb_agrees", "gen_msb_agrees"], "C02-ref1"),
        ("M11 C02-ref1 refactoring, then bit_range returns (msb, lsb)", "masked", "FnBitMask",
         "        (\n            self.lsb(reg_byte_len, endianness),\n            self.msb(reg_byte_len, endianness),\n        )\n    }",
         "        (\n            self.msb(reg_byte_len, endianness),\n            self.lsb(reg_byte_len, endianness),\n        )\n    }", ["gen_mask_agrees", "gen_min_agrees"], "C02-ref1"),
        ("M12 C09-ref1 refactoring, then the new private constant PREFIX_MAGIC_LENGTH 4 -> 8", "cmd", "FnCmd",
         "const PREFIX_MAGIC_LENGTH: usize = 4;", "const PREFIX_MAGIC_LENGTH: usize = 8;", ["gen_ACK_HEADER_LENGTH_agrees", "maximum_read_length_bv"], "C09-ref1"),
    ]
    # the functions added to FnCmd in the growth round (struct targets, `&mut self`, opaque calls)
    mutations += [
        ("M13 ReadMemChunks::next no longer advances the address", "cmd", "FnCmd",
         "            self.address += self.maximum_read_length as u64;\n", "", ["next_bv"]),
        ("M14 ReadMemChunks::next `>` -> `>=` (full chunk also when it is the last one)", "cmd", "FnCmd",
         "if self.read_length as usize > self.maximum_read_length {", "if self.read_length as usize >= self.maximum_read_length {", ["next_bv"]),
        ("M15 ReadMem::chunks budget check `<=` -> `<`", "cmd", "FnCmd",
         "if ack_len <= ack_header_length {", "if ack_len < ack_header_length {", ["chunks_bv"]),
        ("M16 cmd_len counts the magic twice (`4 +` -> `8 +`)", "cmd", "FnCmd",
         "        4 + CommandCcd::len() as usize + self.scd.scd_len() as usize", "        8 + CommandCcd::len() as usize + self.scd.scd_len() as usize", ["cmd_len_bv"]),
        ("M17 maximum_ack_len `max` -> `min`", "cmd", "FnCmd",
         "std::cmp::max(scd_len, Self::MINIMUM_ACK_SCD_LENGTH)", "std::cmp::min(scd_len, Self::MINIMUM_ACK_SCD_LENGTH)", ["maximum_ack_len_bv"]),
        ("M18 <ReadMem as CommandScd>::scd_len 12 -> 16", "cmd", "FnCmd",
         "        // Address(8 bytes) + reserved(2bytes) + length(2 bytes)\n        12", "        // Address(8 bytes) + reserved(2bytes) + length(2 bytes)\n        16", ["rm_scd_len_bv"]),
        ("M19 value-substituted constant MINIMUM_ACK_SCD_LENGTH 4 -> 2", "cmd", "FnCmd",
         "const MINIMUM_ACK_SCD_LENGTH: u16 = 4;", "const MINIMUM_ACK_SCD_LENGTH: u16 = 2;", ["maximum_ack_len_bv"]),
        ("M20 <WriteMem as CommandScd>::ack_scd_len 4 -> 8", "cmd", "FnCmd",
         "        // Reserved(2bytes)+ length written(2bytes);\n        4", "        // Reserved(2bytes)+ length written(2bytes);\n        8", ["wm_ack_scd_len_bv"]),
        ("M21 inlined helper CommandCcd::len 8 -> 10", "cmd", "FnCmd",
         "        // flags(2bytes) + command_id(2bytes) + scd_len(2bytes) + request_id(2bytes)\n        8", "        // flags(2bytes) + command_id(2bytes) + scd_len(2bytes) + request_id(2bytes)\n        10", ["header_len_bv", "cmd_len_bv"]),
        ("M22 ReadMemChunks::next last chunk keeps its length (`self.read_length = 0` dropped)", "cmd", "FnCmd",
         "            let next_item = ReadMem::new(self.address, self.read_length);\n            self.read_length = 0;", "            let next_item = ReadMem::new(self.address, self.read_length);\n            self.read_length -= self.read_length / 2;", ["next_bv"]),
        ("M23 C06-ref2 refactoring, then the chunk item is built from the remaining length", "cmd", "FnCmd",
         "            let next_item = ReadMem::new(self.address, chunk_length);", "            let next_item = ReadMem::new(self.address, self.read_length);", ["next_bv"], "C06-ref2"),
        ("M24 C10-ref1 refactoring, then the shared helper payload_capacity returns one byte too many", "cmd", "FnCmd",
         "    Ok(packet_len - overhead)", "    Ok(packet_len - overhead + 1)", ["chunks_bv"], "C10-ref1"),
    ]
    for m in mutations:
        name, key, group, old, new, want = m[:6]
        repo = fresh_copy()
        if len(m) > 6:
            apply_patch(repo, m[6])
        edit(repo, key, old, new)
        rc, out, lrc, failing, dt = generate_and_prove(repo, group, lp)
        caught = rc == 0 and lrc not in (0, None) and all(w in failing for w in want)
        expect(name, caught, f"tie rc={lrc}, failing theorems={failing}, {dt:.1f}s")

    # ---------------- (iii) harmless rewrites must keep every proof passing
    harmless = [
        ("H1 reordered match arms (as_num, meet)", "FnAccessRight", [
            ("memory", "            Self::NA => 0b00,\n            Self::RO => 0b01,\n            Self::WO => 0b10,\n            Self::RW => 0b11,",
             "            Self::RW => 0b11,\n            Self::WO => 0b10,\n            Self::NA => 0b00,\n            Self::RO => 0b01,"),
            ("memory", "            NA => NA,\n        }", "        }"),
            ("memory", "        match self {\n            RW => {", "        match self {\n            NA => NA,\n            RW => {"),
        ]),
        ("H2 commuted operands `a & m` <-> `m & a`, `x | y` <-> `y | x`", "FnBitMask", [
            ("masked", "let res = (((reg_value & mask) as u64) >> lsb) as i64;", "let res = (((mask & reg_value) as u64) >> lsb) as i64;"),
            ("masked", "Ok((old_reg_value & !mask) | ((value << lsb) & mask))", "Ok((mask & (value << lsb)) | (!mask & old_reg_value))"),
            ("masked", "res | ((-1) ^ field_mask)", "(field_mask ^ (-1)) | res"),
        ]),
        ("H3 named width, `if`/`else` swapped, early return instead of else", "FnBitMask", [
            ("masked", "        if msb - lsb == 63 {\n            -1\n        } else {\n            // Compute in `u64`: `(1_i64 << 63) - 1` overflows for a 63 bits wide field.\n            (((1_u64 << (msb - lsb + 1)) - 1) << lsb) as i64\n        }",
             "        let d = msb - lsb;\n        if d != 63 {\n            let width = d + 1;\n            let ones = (1_u64 << width) - 1;\n            return (ones << lsb) as i64;\n        }\n        -1"),
        ]),
        ("H4 `saturating_sub` spelled with checked_sub().unwrap_or(0), min instead of try_into", "FnCmd", [
            ("cmd", "        maximum_ack_len\n            .saturating_sub(CommandPacket::<ReadMem>::ACK_HEADER_LENGTH)\n            .try_into()\n            .unwrap_or(u16::MAX)",
             "        let room = maximum_ack_len\n            .checked_sub(CommandPacket::<ReadMem>::ACK_HEADER_LENGTH)\n            .unwrap_or(0);\n        room.min(u16::MAX as usize) as u16"),
        ]),
        ("H5 is_writable by mask instead of shift", "FnAccessRight", [
            ("memory", "        self.as_num() >> 1_i32 == 1", "        self.as_num() & 0b10 == 0b10"),
        ]),
    ]
    harmless += [
        ("H6 refactoring C02-ref1 (helpers normalize_bit_pos / bit_range, tuple return)", "FnBitMask", [("patch", "C02-ref1", None)]),
        ("H7 refactoring C09-ref1 (private constant PREFIX_MAGIC_LENGTH in ACK_HEADER_LENGTH)", "FnCmd", [("patch", "C09-ref1", None)]),
        ("H8 refactoring C19-ref3 (named constants / const fn in MemoryProtection)", "FnAccessRight", [("patch", "C19-ref3", None)]),
        ("H9 cmd.rs: helpers with early return, `?`, usize::from, method + free fn", "FnCmd", [
            ("cmd", "    pub fn maximum_read_length(maximum_ack_len: usize) -> u16 {\n        // An acknowledge that can't even hold its header carries no data at all.\n        maximum_ack_len\n            .saturating_sub(CommandPacket::<ReadMem>::ACK_HEADER_LENGTH)\n            .try_into()\n            .unwrap_or(u16::MAX)\n    }",
             "    pub fn maximum_read_length(maximum_ack_len: usize) -> u16 {\n        let room = Self::payload_room(maximum_ack_len);\n        let clamped = clamp_u16(room);\n        clamped\n    }\n\n    fn payload_room(ack_len: usize) -> usize {\n        if ack_len <= HEADER_ROOM {\n            return 0;\n        }\n        ack_len - HEADER_ROOM\n    }"),
            ("cmd", "fn into_scd_len(len: usize) -> Result<u16> {\n    len.try_into()\n        .map_err(|_| Error::InvalidPacket(\"scd length must be less than u16::MAX\".into()))\n}",
             "const HEADER_ROOM: usize = CommandPacket::<ReadMem>::ACK_HEADER_LENGTH;\n\nfn clamp_u16(len: usize) -> u16 {\n    if len > usize::from(u16::MAX) {\n        return u16::MAX;\n    }\n    len as u16\n}\n\nfn checked_u16(len: usize) -> Result<u16> {\n    if len > usize::from(u16::MAX) {\n        return Err(Error::InvalidPacket(\"scd length must be less than u16::MAX\".into()));\n    }\n    Ok(len as u16)\n}\n\nfn into_scd_len(len: usize) -> Result<u16> {\n    let v = checked_u16(len)?;\n    Ok(v)\n}"),
        ]),
        ("H10 memory.rs: AccessRight bit helper, named constants, keep_if helper, tuple helper", "FnAccessRight", [
            ("memory", "        self.as_num() & 0b1 == 1", "        self.bit(Self::READ_BIT)"),
            ("memory", "        self.as_num() >> 1_i32 == 1", "        self.bit(Self::WRITE_BIT)"),
            ("memory", "    #[doc(hidden)]\n    #[must_use]\n    pub const fn as_num(self) -> u8 {",
             "    const READ_BIT: u8 = 0;\n    const WRITE_BIT: u8 = Self::READ_BIT + 1;\n\n    const fn bit(self, n: u8) -> bool {\n        (self.as_num() >> n) & 1 == 1\n    }\n\n    fn keep_if(self, cond: bool) -> Self {\n        if !cond {\n            return Self::NA;\n        }\n        self\n    }\n\n    fn rw(self) -> (bool, bool) {\n        (self.is_readable(), self.is_writable())\n    }\n\n    #[doc(hidden)]\n    #[must_use]\n    pub const fn as_num(self) -> u8 {"),
            ("memory", "            RO => {\n                if rhs.is_readable() {\n                    self\n                } else {\n                    NA\n                }\n            }\n            WO => {\n                if rhs.is_writable() {\n                    self\n                } else {\n                    NA\n                }\n            }",
             "            RO => {\n                let (r, _) = rhs.rw();\n                self.keep_if(r)\n            }\n            WO => {\n                let (_, w) = rhs.rw();\n                self.keep_if(w)\n            }"),
        ]),
    ]
    harmless += [
        ("H11 refactoring C06-ref2 (named chunk_length / chunk_end, u64::from, format! of a local)", "FnCmd", [("patch", "C06-ref2", None)]),
        ("H12 refactoring C06-ref3 (usize::from instead of `as usize`)", "FnCmd", [("patch", "C06-ref3", None)]),
        ("H13 refactoring C07-ref3 (cmd_len through Self::header_len(), usize::from)", "FnCmd", [("patch", "C07-ref3", None)]),
        ("H14 refactoring C10-ref1 (shared helper payload_capacity with a `&str` message parameter and `?`)", "FnCmd", [("patch", "C10-ref1", None)]),
        ("H15 next: early `return Some(..)` instead of `else`, state updated before the item is built", "FnCmd", [
            ("cmd", "        if self.read_length as usize > self.maximum_read_length {\n            let next_item = ReadMem::new(self.address, self.maximum_read_length as u16);\n            self.read_length -= self.maximum_read_length as u16;\n            self.address += self.maximum_read_length as u64;\n            Some(next_item)\n        } else {\n            let next_item = ReadMem::new(self.address, self.read_length);\n            self.read_length = 0;\n            Some(next_item)\n        }",
             "        let start = self.address;\n        if self.read_length as usize <= self.maximum_read_length {\n            let len = self.read_length;\n            self.read_length = 0;\n            return Some(ReadMem {\n                read_length: len,\n                address: start,\n            });\n        }\n        let step = self.maximum_read_length as u16;\n        self.read_length = self.read_length - step;\n        self.address = start + u64::from(step);\n        Some(ReadMem::new(start, step))"),
        ]),
    ]
    for name, group, edits in harmless:
        repo = fresh_copy()
        for key, old, new in edits:
            if key == "patch":
                apply_patch(repo, old)
            else:
                edit(repo, key, old, new)
        rc, out, lrc, failing, dt = generate_and_prove(repo, group, lp)
        expect(name, rc == 0 and lrc == 0 and not failing, f"rs2lean rc={rc} {out.strip().splitlines()[0][:120] if rc else ''}, tie rc={lrc}, failing={failing}, {dt:.1f}s")

    # ---------------- (iii b) a behaviour-preserving rewrite outside the subset is REFUSED (rc 2, the
    # check then falls back to tie C), never mistranslated
    repo = fresh_copy()
    apply_patch(repo, "C10-ref2")
    rc, out, lrc, failing, dt = generate_and_prove(repo, "FnCmd", lp)
    expect("refactoring C10-ref2 (`match u16::try_from(..)` with a guard) is refused, not mistranslated", rc == 2 and "REFUSED FnCmd" in out, f"rc={rc}; {(out.strip().splitlines() or ['<no output>'])[0][:160]}")

    # ---------------- (v) the translation computes what rustc computes
    sample_dir = os.path.join(ROOT, "rs2lean", "tests", "sample")
    overlay = os.path.join(WORK, "overlay")
    gen_dir = os.path.join(overlay, "CamVerif", "Gen")
    rc, out = sh([BIN, "--repo", sample_dir, "--out", gen_dir, "--file", "sample.rs", "--name", "FnSample"])
    env = dict(os.environ, LEAN_PATH=overlay + ":" + lp)
    rc2, out2 = sh(["lean", "-o", os.path.join(gen_dir, "FnSample.olean"), os.path.join(gen_dir, "FnSample.lean")], cwd=overlay, env=env) if rc == 0 else (1, "")
    expect("sample.rs translates and elaborates", rc == 0 and rc2 == 0, (out + out2).strip()[-300:] if (rc or rc2) else "ok")
    if rc == 0 and rc2 == 0:
        lines = ["import CamVerif.Gen.FnSample", "open CamVerif CamVerif.Gen.FnSample",
                 "def E : Errs Nat := { SError_Odd := 0, SError_TooBig := 1 }"]
        built = True
        for tag, flags in (("dev", ["-C", "overflow-checks=on", "-C", "debug-assertions=on"]),
                           ("rel", ["-C", "overflow-checks=off", "-C", "debug-assertions=off", "-O"])):
            exe = os.path.join(WORK, "sample_" + tag)
            rcc, outc = sh(["rustc", "--edition", "2021"] + flags + ["-o", exe, os.path.join(sample_dir, "sample_main.rs")])
            if rcc != 0:
                built = False
                expect("rustc builds sample_main.rs (" + tag + ")", False, outc[-400:])
                continue
            rcr, outr = sh([exe])
            lines += [l for l in outr.splitlines() if l.startswith("example")]
        if built:
            chk = os.path.join(overlay, "SampleCheck.lean")
            open(chk, "w").write("\n".join(lines) + "\n")
            t0 = time.time()
            rcl, outl = sh(["lean", chk], cwd=overlay, env=env)
            n = len(lines) - 3
            nerr = outl.count(": error")
            expect("rustc outcomes (dev + release) reproduced by the translation", rcl == 0 and nerr == 0 and n > 1000,
                   f"{n} calls, {nerr} mismatches, {time.time() - t0:.1f}s" + ("" if rcl == 0 else " :: " + outl[:400]))

    if not keep:
        shutil.rmtree(WORK, ignore_errors=True)
    n_fail = sum(1 for r in report if r[0] == "FAIL")
    print(f"\nselftest: {len(report) - n_fail}/{len(report)} expectations hold")
    return 0 if ok else 1


if __name__ == "__main__":
    sys.exit(main())
