// C20 harness, part 2 (included by bin/c20.rs): independent spec helpers, the session
// executor with its shadow-state property oracle, and the request/answer formatting.

fn err_name(e: &MemoryError) -> &'static str {
    match e {
        MemoryError::AddressNotReadable => "AddressNotReadable",
        MemoryError::AddressNotWritable => "AddressNotWritable",
        MemoryError::InvalidAddress => "InvalidAddress",
        MemoryError::InvalidRegisterData(_) => "InvalidRegisterData",
    }
}
fn err_code(e: &MemoryError) -> u64 {
    match e {
        MemoryError::AddressNotReadable => 1,
        MemoryError::AddressNotWritable => 2,
        MemoryError::InvalidAddress => 3,
        MemoryError::InvalidRegisterData(_) => 4,
    }
}
fn right_name(a: AccessRight) -> &'static str {
    a.as_str()
}
fn right_of(s: &str) -> AccessRight {
    match s {
        "NA" => AccessRight::NA,
        "RO" => AccessRight::RO,
        "WO" => AccessRight::WO,
        _ => AccessRight::RW,
    }
}
const RIGHTS: [AccessRight; 4] = [AccessRight::NA, AccessRight::RO, AccessRight::WO, AccessRight::RW];
/// independent spec of the lattice: 2-bit codes, meet = bitwise and
fn code(a: AccessRight) -> u8 {
    match a {
        AccessRight::NA => 0,
        AccessRight::RO => 1,
        AccessRight::WO => 2,
        AccessRight::RW => 3,
    }
}
fn of_code(c: u8) -> AccessRight {
    RIGHTS[(c & 3) as usize]
}

/// outcome of a fallible call under `catch`
fn res3<T>(r: &Result<Result<T, MemoryError>, ()>) -> String {
    match r {
        Err(()) => "panic".into(),
        Ok(Err(e)) => format!("err {}", err_name(e)),
        Ok(Ok(_)) => "ok".into(),
    }
}

fn hash16(h: u64) -> String {
    format!("{:016x}", h)
}
fn list(v: &[usize]) -> String {
    if v.is_empty() {
        "-".into()
    } else {
        v.iter().map(|x| x.to_string()).collect::<Vec<_>>().join(",")
    }
}

// ---------------------------------------------------------------- declared kinds (mirror side)

#[derive(Clone, Debug)]
enum Kind {
    Scalar { ty: &'static str, size: usize },
    Str,
    Bytes,
    Bf { ty: &'static str, bits: u32, signed: bool, lsb: u32, msb: u32 }, // normalised
}

fn int_bits(ty: &str) -> u32 {
    ty[1..].parse().unwrap()
}

fn kind_of(kind: &'static str, endian: &str) -> Kind {
    if kind == "str" {
        Kind::Str
    } else if kind == "bytes" {
        Kind::Bytes
    } else if let Some(rest) = kind.strip_prefix("bf:") {
        let p: Vec<&'static str> = rest.split(':').collect();
        let bits = int_bits(p[0]);
        let (l, m): (u32, u32) = (p[1].parse().unwrap(), p[2].parse().unwrap());
        let (lsb, msb) = if endian == "LE" { (l, m) } else { (bits - 1 - l, bits - 1 - m) };
        Kind::Bf { ty: p[0], bits, signed: p[0].starts_with('i'), lsb, msb }
    } else {
        Kind::Scalar { ty: kind, size: (int_bits(kind) / 8) as usize }
    }
}

fn mask_w(bits: u32) -> u64 {
    if bits == 64 { u64::MAX } else { (1u64 << bits) - 1 }
}
/// independent spec: the bits lsb..=msb
fn spec_mask(lsb: u32, msb: u32) -> u64 {
    mask_w(msb - lsb + 1) << lsb
}
/// independent spec: value range of a field of `width` bits (as i128)
fn spec_range(signed: bool, width: u32) -> (i128, i128) {
    if signed {
        (-(1i128 << (width - 1)), (1i128 << (width - 1)) - 1)
    } else {
        (0, (1i128 << width) - 1)
    }
}
/// numeric reading of a `bits`-wide pattern
fn numeric(signed: bool, bits: u32, pat: u64) -> i128 {
    let pat = pat & mask_w(bits);
    if signed && (pat >> (bits - 1)) & 1 == 1 {
        pat as i128 - (1i128 << bits)
    } else {
        pat as i128
    }
}
fn word_from(endian: &str, b: &[u8]) -> u64 {
    let it: Box<dyn Iterator<Item = &u8>> = if endian == "LE" { Box::new(b.iter().rev()) } else { Box::new(b.iter()) };
    it.fold(0u64, |a, x| (a << 8) | *x as u64)
}
fn word_to(endian: &str, size: usize, w: u64) -> Vec<u8> {
    let mut v: Vec<u8> = (0..size).map(|i| (w >> (8 * i)) as u8).collect();
    if endian != "LE" {
        v.reverse();
    }
    v
}

// ---------------------------------------------------------------- one live memory + shadow state

struct RegRef {
    map: &'static MapDesc,
    reg: &'static RegDesc,
    kind: Kind,
}
impl RegRef {
    fn range(&self) -> Range<usize> {
        self.reg.address..self.reg.address + self.reg.length
    }
    /// declaration is well formed in the sense of the property (len = size of the type)
    fn well_formed(&self) -> bool {
        match &self.kind {
            Kind::Scalar { size, .. } => self.reg.len == *size,
            Kind::Bf { bits, .. } => self.reg.len == (*bits / 8) as usize,
            _ => true,
        }
    }
}

struct Inst {
    desc: &'static MemDesc,
    mem: Box<dyn DynMem>,
    regs: Vec<RegRef>,
    log: Arc<Mutex<Vec<usize>>>,
    history: Vec<String>,
    sh_raw: Vec<u8>,
    sh_rights: Vec<AccessRight>,
    sh_obs: Vec<Range<usize>>,
}

fn map_desc(name: &str) -> &'static MapDesc {
    all_maps().into_iter().find(|m| m.name == name).unwrap()
}
fn mem_desc(name: &str) -> &'static MemDesc {
    all_mems().into_iter().find(|m| m.name == name).unwrap()
}

fn intersects(a: &Range<usize>, b: &Range<usize>) -> bool {
    a.start.max(b.start) < a.end.min(b.end)
}

struct Ctx<'a> {
    rep: &'a mut Report,
}

thread_local! {
    static SIG_SEEN: std::cell::RefCell<std::collections::HashMap<String, u32>> = Default::default();
}

impl Ctx<'_> {
    /// at most 2 stored examples per distinct signature (all are counted)
    fn violation(&mut self, inst: &Inst, sig: Value, what: String) {
        let n = SIG_SEEN.with(|m| { let mut m = m.borrow_mut(); let c = m.entry(sig.to_string()).or_insert(0); *c += 1; *c });
        if n <= 2 {
            self.rep.violation(sig, &what, json!({"mem": inst.desc.name, "ops": inst.history}));
        } else {
            self.rep.n_violations += 1;
            *self.rep.dist.entry(format!("violation-repeats:{}", sig["kind"].as_str().unwrap_or("?"))).or_insert(0) += 1;
        }
    }
}

impl Inst {
    fn reg_index(&self, map: &str, reg: &str) -> usize {
        self.regs.iter().position(|r| r.map.name == map && r.reg.name == reg).unwrap()
    }

    fn raw_digest(&self) -> String {
        hash16(fnv_bytes(FNV_INIT, self.mem.raw()))
    }
    fn prot_cells(&self) -> Vec<u8> {
        let n = self.mem.raw().len();
        (0..n).map(|i| self.mem.prot().access_right(i).as_num()).collect()
    }
    fn prot_digest(&self) -> String {
        hash16(fnv_bytes(FNV_INIT, &self.prot_cells()))
    }
    fn drain_log(&self) -> Vec<usize> {
        std::mem::take(&mut *self.log.lock().unwrap())
    }

    /// `c20 new X`: construct, derive the shadow state from the DECLARATIONS and check it.
    fn create(cx: &mut Ctx, name: &str) -> Option<Inst> {
        let desc = mem_desc(name);
        let req = format!("c20 new {name}");
        let made = catch(|| (desc.new)());
        let mem = match made {
            Ok(m) => m,
            Err(()) => {
                cx.rep.expect(req, "panic".into());
                cx.rep.violation(json!({"kind": "new", "mem": name}), "Memory::new() panics", json!({"mem": name, "ops": []}));
                return None;
            }
        };
        let mut regs = vec![];
        for m in desc.maps {
            let md = map_desc(m);
            for r in md.regs {
                regs.push(RegRef { map: md, reg: r, kind: kind_of(r.kind, md.endian) });
            }
        }
        // independent spec of the size (from the DECLARATIONS: base + explicit or running offset + len,
        // not from the generated base()/size()/ADDRESS constants) and of the initial rights
        let spec_end = |m: &MapDesc| -> usize {
            let (mut running, mut end) = (0usize, 0usize);
            for r in m.regs {
                let o = r.offset.unwrap_or(running);
                running = o + r.len;
                end = end.max(running);
            }
            m.base + end
        };
        let size = desc.maps.iter().map(|m| spec_end(map_desc(m))).max().unwrap();
        // a memory whose size or register placement is not the specified one cannot be driven
        // further (every range below assumes the layout): report it concretely, skip this memory,
        // keep going with the rest of the family
        let bad_map = desc.maps.iter().map(|m| map_desc(m)).find(|m| m.base_fn + m.size_fn != spec_end(m)
            || m.regs.iter().any(|r| r.address + r.length > size));
        if mem.raw().len() != size || bad_map.is_some() {
            let which = bad_map.map_or("-", |m| m.name);
            cx.rep.expect(req, format!("ok size={} raw={} prot=-", mem.raw().len(), hash16(fnv_bytes(FNV_INIT, mem.raw()))));
            cx.rep.violation(json!({"kind": "layout", "what": "memory-size", "mem": name, "map": which}),
                &format!("size()/layout wrong for map {which}: Memory {name} has {} bytes, the declarations need {size}", mem.raw().len()),
                json!({"mem": name, "ops": []}));
            cx.rep.count("memory-skipped:layout-wrong");
            return None;
        }
        let mut rights = vec![AccessRight::NA; size];
        for r in &regs {
            for i in r.range() {
                if i < size {
                    rights[i] = right_of(r.reg.access);
                }
            }
        }
        let inst = Inst {
            desc,
            sh_raw: mem.raw().to_vec(),
            mem,
            regs,
            log: Arc::new(Mutex::new(vec![])),
            history: vec![],
            sh_rights: rights,
            sh_obs: vec![],
        };
        cx.rep.expect(req, format!("ok size={} raw={} prot={}", inst.mem.raw().len(), inst.raw_digest(), inst.prot_digest()));
        if inst.mem.raw().len() != size {
            cx.violation(&inst, json!({"kind": "layout", "what": "memory-size"}), format!("memory size {} != max(base+size) {}", inst.mem.raw().len(), size));
        }
        let cells: Vec<u8> = inst.sh_rights.iter().map(|r| code(*r)).collect();
        if inst.mem.raw().len() == size && inst.prot_cells() != cells {
            cx.violation(&inst, json!({"kind": "cells", "what": "initial-protection"}), "initial protection differs from the declared rights".into());
        }
        Some(inst)
    }

    /// expected decoding of a register from the shadow image (independent spec); None = no oracle
    fn spec_read(&self, r: &RegRef) -> Option<Result<Val, &'static str>> {
        if !r.well_formed() {
            return None;
        }
        let d = &self.sh_raw[r.range()];
        Some(match &r.kind {
            Kind::Scalar { .. } => Ok(Val::Word(word_from(r.map.endian, d))),
            Kind::Bytes => Ok(Val::Bytes(d.to_vec())),
            Kind::Str => {
                let end = d.iter().position(|c| *c == 0).unwrap_or(d.len());
                if d[..end].iter().all(|c| *c < 128) { Ok(Val::Str(d[..end].to_vec())) } else { Err("InvalidRegisterData") }
            }
            Kind::Bf { bits, signed, lsb, msb, .. } => {
                let w = word_from(r.map.endian, d);
                let f = (w & spec_mask(*lsb, *msb)) >> lsb;
                let width = msb - lsb + 1;
                let num = numeric(*signed, width, f);
                Ok(Val::Word((num as i64 as u64) & mask_w(*bits)))
            }
        })
    }

    /// expected effect of a typed write on the shadow image: Ok(new bytes of the range) / Err
    fn spec_write(&self, r: &RegRef, v: &Val) -> Option<Result<Vec<u8>, &'static str>> {
        if !r.well_formed() {
            return None;
        }
        let d = &self.sh_raw[r.range()];
        Some(match (&r.kind, v) {
            (Kind::Scalar { size, .. }, Val::Word(w)) => Ok(word_to(r.map.endian, *size, *w)),
            (Kind::Bytes, Val::Bytes(b)) => if b.len() == r.reg.len { Ok(b.clone()) } else { Err("InvalidRegisterData") },
            (Kind::Str, Val::Str(s)) => {
                if s.iter().any(|c| *c >= 128) || s.len() > r.reg.len {
                    Err("InvalidRegisterData")
                } else {
                    let mut o = s.clone();
                    o.resize(r.reg.len, 0);
                    Ok(o)
                }
            }
            (Kind::Bf { bits, signed, lsb, msb, .. }, Val::Word(w)) => {
                let num = numeric(*signed, *bits, *w);
                let (lo, hi) = spec_range(*signed, msb - lsb + 1);
                if num < lo || num > hi {
                    Err("InvalidRegisterData")
                } else {
                    let old = word_from(r.map.endian, d);
                    let m = spec_mask(*lsb, *msb);
                    Ok(word_to(r.map.endian, (*bits / 8) as usize, (old & !m) | ((*w << lsb) & m)))
                }
            }
            _ => return None,
        })
    }

    /// expected `Register::serialize(v)` (independent spec); None = no oracle
    fn spec_serialize(&self, r: &RegRef, v: &Val) -> Option<Result<Vec<u8>, &'static str>> {
        Some(match (&r.kind, v) {
            (Kind::Scalar { size, .. }, Val::Word(w)) => Ok(word_to(r.map.endian, *size, *w)),
            (Kind::Bytes, Val::Bytes(b)) => if b.len() == r.reg.len { Ok(b.clone()) } else { Err("InvalidRegisterData") },
            (Kind::Str, Val::Str(s)) => {
                if s.iter().any(|c| *c >= 128) || s.len() > r.reg.len {
                    Err("InvalidRegisterData")
                } else if s.contains(&0) {
                    return None; // F-C20-5 class: accepted today, a refusal would be fine too
                } else {
                    let mut o = s.clone();
                    o.resize(r.reg.len, 0);
                    Ok(o)
                }
            }
            (Kind::Bf { bits, signed, lsb, msb, .. }, Val::Word(w)) => {
                let num = numeric(*signed, *bits, *w);
                let (lo, hi) = spec_range(*signed, msb - lsb + 1);
                if num < lo || num > hi {
                    Err("InvalidRegisterData")
                } else {
                    Ok(word_to(r.map.endian, (*bits / 8) as usize, (*w << lsb) & spec_mask(*lsb, *msb)))
                }
            }
            _ => return None,
        })
    }

    fn check_state(&mut self, cx: &mut Ctx, op: &str) {
        if self.mem.raw() != &self.sh_raw[..] {
            cx.violation(self, json!({"kind": "memory-image", "op": op}), format!("memory image after {op} differs from the specified one"));
            self.sh_raw = self.mem.raw().to_vec();
        }
    }

    fn check_fired(&mut self, cx: &mut Ctx, op: &str, ok: bool, written: Range<usize>, fired: &[usize]) {
        let expected: Vec<usize> = if ok {
            self.sh_obs.iter().enumerate().filter(|(_, r)| intersects(r, &written)).map(|(i, _)| i).collect()
        } else {
            vec![]
        };
        if fired != &expected[..] {
            let extra: Vec<usize> = fired.iter().filter(|i| !expected.contains(i)).cloned().collect();
            let reg_empty = extra.iter().any(|i| self.sh_obs[*i].is_empty());
            cx.violation(self, json!({"kind": "observers", "op": op, "call_ok": ok, "write_empty": written.is_empty(),
                "reg_empty": reg_empty, "extra": !extra.is_empty(), "missing": expected.iter().any(|i| !fired.contains(i))}),
                format!("{op} over {written:?}: observers fired {fired:?}, overlapping {expected:?}"));
        }
    }

    /// Execute one request line (without the leading `c20`), oracle + queue for the model.
    fn exec(&mut self, cx: &mut Ctx, line: &str) {
        let t: Vec<&str> = line.split(' ').collect();
        let name = self.desc.name;
        self.history.push(line.to_string());
        cx.rep.count(&format!("op:{}", t[0]));
        let size = self.sh_raw.len();
        match t[0] {
            "rr" => {
                let (s, e): (usize, usize) = (t[1].parse().unwrap(), t[2].parse().unwrap());
                let r = catch(|| self.mem.read_raw_v(s..e));
                let ans = match &r {
                    Ok(Ok(b)) => format!("ok {}", hex(b)),
                    _ => res3(&r),
                };
                let expected = if s > e || e > size {
                    "err InvalidAddress".to_string()
                } else if !self.sh_rights[s..e].iter().all(|a| code(*a) & 1 == 1) {
                    "err AddressNotReadable".to_string()
                } else {
                    format!("ok {}", hex(&self.sh_raw[s..e]))
                };
                cx.rep.case(&format!("{name} {line} {}", self.prot_digest()), matches!(r, Ok(Ok(_))));
                cx.rep.count(&format!("rr:{}", ans.split(' ').take(2).filter(|x| !x.chars().all(|c| c.is_ascii_hexdigit() || c == '-')).collect::<Vec<_>>().join(" ")));
                if ans != expected {
                    cx.violation(self, json!({"kind": "raw", "op": "read_raw", "expected": expected.split(' ').last().unwrap_or(""), "got": ans.split(' ').last().unwrap_or(""),
                        "empty": s == e, "reversed": s > e, "beyond": e > size}), format!("read_raw({s}..{e}) = {ans}, specified {expected}"));
                }
                self.check_state(cx, "read_raw");
                cx.rep.expect(format!("c20 rr {name} {s} {e}"), ans);
            }
            "wr" => {
                let a: usize = t[1].parse().unwrap();
                let buf = unhex(t[2]);
                self.drain_log();
                let r = catch(|| self.mem.write_raw_v(a, &buf));
                let fired = self.drain_log();
                let end = a.checked_add(buf.len());
                let expected = match end {
                    None => "err InvalidAddress",
                    Some(e) if e > size => "err InvalidAddress",
                    Some(e) if !self.sh_rights[a..e].iter().all(|x| code(*x) & 2 == 2) => "err AddressNotWritable",
                    _ => "ok",
                };
                let got = res3(&r);
                cx.rep.case(&format!("{name} {line} {}", self.prot_digest()), got == "ok" && !buf.is_empty());
                cx.rep.count(&format!("wr:{got}"));
                if got != expected {
                    cx.violation(self, json!({"kind": "raw", "op": "write_raw", "expected": expected.split(' ').last().unwrap(), "got": got.split(' ').last().unwrap(),
                        "empty": buf.is_empty(), "overflow": end.is_none(), "beyond": end.map_or(true, |e| e > size)}),
                        format!("write_raw({a}, {} bytes) = {got}, specified {expected}", buf.len()));
                }
                if expected == "ok" {
                    self.sh_raw[a..a + buf.len()].copy_from_slice(&buf);
                }
                self.check_state(cx, "write_raw");
                self.check_fired(cx, "write_raw", got == "ok", a..end.unwrap_or(a), &fired);
                cx.rep.expect(format!("c20 wr {name} {a} {}", hex(&buf)), format!("{got} fired={} raw={}", list(&fired), self.raw_digest()));
            }
            "rd" => {
                let i = self.reg_index(t[1], t[2]);
                let r = catch(|| match self.mem.reg_op(i, Op::Read) { Out::Val(v) => v, _ => unreachable!() });
                let ans = match &r {
                    Ok(Ok(v)) => format!("ok {}", v.show()),
                    _ => res3(&r),
                };
                cx.rep.case(&format!("{name} {line} {}", self.raw_digest()), matches!(r, Ok(Ok(_))));
                if let Some(exp) = self.spec_read(&self.regs[i]) {
                    let exp = match exp { Ok(v) => format!("ok {}", v.show()), Err(e) => format!("err {e}") };
                    if exp != ans {
                        let k = self.regs[i].reg.kind;
                        cx.violation(self, json!({"kind": "typed_read", "ty": k}), format!("read::<{}::{}>() = {ans}, specified {exp}", t[1], t[2]));
                    }
                } else {
                    cx.rep.count("no-oracle:len!=size_of(ty)");
                }
                self.check_state(cx, "read");
                cx.rep.expect(format!("c20 rd {name} {} {}", t[1], t[2]), ans);
            }
            "wt" => {
                let i = self.reg_index(t[1], t[2]);
                let v = Val::parse(t[3]);
                self.drain_log();
                let r = catch(|| match self.mem.reg_op(i, Op::Write(&v)) { Out::Unit(v) => v, _ => panic!("bad value kind") });
                let fired = self.drain_log();
                let got = res3(&r);
                let range = self.regs[i].range();
                cx.rep.case(&format!("{name} {line} {}", self.raw_digest()), got == "ok");
                cx.rep.count(&format!("wt:{got}"));
                let mut spec = self.spec_write(&self.regs[i], &v);
                // F-C20-5 class (ASCII string with NUL that fits): a refusal is as good as the
                // (known) acceptance-with-truncation; only the latter is reported, as known finding
                if let (Val::Str(sv), Some(Ok(_))) = (&v, &spec) {
                    if sv.contains(&0) && got == "err InvalidRegisterData" {
                        cx.rep.count("str-with-nul:refused");
                        spec = Some(Err("InvalidRegisterData"));
                    }
                }
                match &spec {
                    Some(exp) => {
                        let exp_s = match exp { Ok(_) => "ok".to_string(), Err(e) => format!("err {e}") };
                        if exp_s != got {
                            let sig = self.bf_sig(i, "range");
                            cx.violation(self, sig, format!("write::<{}::{}>({}) = {got}, specified {exp_s}", t[1], t[2], v.show()));
                        }
                        if let Ok(bytes) = exp {
                            self.sh_raw[range.clone()].copy_from_slice(bytes);
                        }
                        if self.mem.raw() != &self.sh_raw[..] {
                            let sig = self.bf_sig(i, "isolation");
                            cx.violation(self, sig, format!("write::<{}::{}>({}): memory image differs from the specified one", t[1], t[2], v.show()));
                            self.sh_raw = self.mem.raw().to_vec();
                        }
                        // typed round trip: what was written reads back
                        if got == "ok" {
                            let back = catch(|| match self.mem.reg_op(i, Op::Read) { Out::Val(v) => v, _ => unreachable!() });
                            let same = matches!(&back, Ok(Ok(b)) if *b == v);
                            if !same {
                                let mut sig = self.bf_sig(i, "roundtrip");
                                if let Val::Str(s) = &v {
                                    sig["nul"] = json!(s.contains(&0));
                                    // the known finding F-C20-5 is exactly: accepted, and reads back as the
                                    // prefix before the first NUL (anything else is a different defect)
                                    let prefix: Vec<u8> = s.iter().cloned().take_while(|c| *c != 0).collect();
                                    sig["truncated_at_first_nul"] = json!(s.contains(&0) && matches!(&back, Ok(Ok(Val::Str(b))) if *b == prefix));
                                }
                                let b = match &back { Ok(Ok(b)) => format!("ok {}", b.show()), _ => res3(&back) };
                                cx.violation(self, sig, format!("write::<{}::{}>({}) then read = {b}", t[1], t[2], v.show()));
                            }
                        }
                    }
                    None => {
                        cx.rep.count("no-oracle:len!=size_of(ty)");
                        self.sh_raw = self.mem.raw().to_vec();
                    }
                }
                self.check_fired(cx, "write", got == "ok", range, &fired);
                cx.rep.expect(format!("c20 wt {name} {} {} {}", t[1], t[2], v.show()), format!("{got} fired={} raw={}", list(&fired), self.raw_digest()));
            }
            "ar" => {
                let i = self.reg_index(t[1], t[2]);
                let r = catch(|| match self.mem.reg_op(i, Op::Access) { Out::Right(a) => a, _ => unreachable!() });
                let ans = match r { Ok(a) => format!("ok {}", right_name(a)), Err(()) => "panic".into() };
                let exp = of_code(self.sh_rights[self.regs[i].range()].iter().fold(3u8, |a, x| a & code(*x)));
                cx.rep.case(&format!("{name} {line} {}", self.prot_digest()), true);
                if ans != format!("ok {}", right_name(exp)) {
                    cx.violation(self, json!({"kind": "cells", "what": "range-right"}), format!("access_right::<{}::{}>() = {ans}, meet of the cells = {}", t[1], t[2], right_name(exp)));
                }
                cx.rep.expect(format!("c20 ar {name} {} {}", t[1], t[2]), ans);
            }
            "sar" => {
                let i = self.reg_index(t[1], t[2]);
                let a = right_of(t[3]);
                let r = catch(|| { self.mem.reg_op(i, Op::SetAccess(a)); });
                let got = if r.is_ok() { "ok" } else { "panic" };
                for j in self.regs[i].range() {
                    self.sh_rights[j] = a;
                }
                cx.rep.case(&format!("{name} {line} {}", self.prot_digest()), true);
                let cells: Vec<u8> = self.sh_rights.iter().map(|r| code(*r)).collect();
                if got != "ok" || self.prot_cells() != cells {
                    cx.violation(self, json!({"kind": "cells", "what": "set-range"}), format!("set_access_right::<{}::{}>({}) : cells differ from 'only the register's bytes change'", t[1], t[2], t[3]));
                }
                self.check_state(cx, "set_access_right");
                cx.rep.expect(format!("c20 sar {name} {} {} {}", t[1], t[2], t[3]), format!("{got} prot={}", self.prot_digest()));
            }
            "obs" => {
                let i = self.reg_index(t[1], t[2]);
                let o = Obs(self.log.clone(), self.sh_obs.len());
                self.mem.reg_op(i, Op::Observe(o));
                self.sh_obs.push(self.regs[i].range());
                cx.rep.case(&format!("{name} {line} {}", self.sh_obs.len()), true);
                cx.rep.expect(format!("c20 obs {name} {} {}", t[1], t[2]), format!("ok n={}", self.mem.n_observers()));
            }
            "pg" => {
                let a: usize = t[1].parse().unwrap();
                let r = catch(|| self.mem.prot().access_right(a));
                let ans = match r { Ok(x) => format!("ok {}", right_name(x)), Err(()) => "panic".into() };
                cx.rep.case(&format!("{name} {line} {}", self.prot_digest()), a < size);
                if a < size && ans != format!("ok {}", right_name(self.sh_rights[a])) {
                    cx.violation(self, json!({"kind": "cells", "what": "cell"}), format!("protection.access_right({a}) = {ans}"));
                }
                cx.rep.expect(format!("c20 pg {name} {a}"), ans);
            }
            "ser" => {
                let i = self.reg_index(t[1], t[2]);
                let v = Val::parse(t[3]);
                let r = catch(|| match self.mem.reg_op(i, Op::Serialize(&v)) { Out::Bytes(b) => b, _ => panic!("bad value kind") });
                let ans = match &r { Ok(Ok(b)) => format!("ok {}", hex(b)), _ => res3(&r) };
                cx.rep.case(&format!("ser {} {} {}", t[1], t[2], t[3]), matches!(r, Ok(Ok(_))));
                if let Some(exp) = self.spec_serialize(&self.regs[i], &v) {
                    let exp = match exp { Ok(b) => format!("ok {}", hex(&b)), Err(e) => format!("err {e}") };
                    if exp != ans {
                        let sig = self.bf_sig(i, "serialize");
                        cx.violation(self, sig, format!("{}::{}::serialize({}) = {ans}, specified {exp}", t[1], t[2], v.show()));
                    }
                }
                self.check_state(cx, "serialize");
                cx.rep.expect(format!("c20 ser {} {} {}", t[1], t[2], v.show()), ans);
            }
            "parse" => {
                let i = self.reg_index(t[1], t[2]);
                let d = unhex(t[3]);
                let r = catch(|| match self.mem.reg_op(i, Op::Parse(&d)) { Out::Val(v) => v, _ => unreachable!() });
                let ans = match &r { Ok(Ok(v)) => format!("ok {}", v.show()), _ => res3(&r) };
                cx.rep.case(&format!("parse {} {} {}", t[1], t[2], t[3]), matches!(r, Ok(Ok(_))));
                // oracle for strings: data of the register's length
                if let Kind::Str = self.regs[i].kind {
                    if d.len() == self.regs[i].reg.len {
                        let end = d.iter().position(|c| *c == 0).unwrap_or(d.len());
                        let exp = if d[..end].iter().all(|c| *c < 128) { format!("ok s:{}", hex(&d[..end])) } else { "err InvalidRegisterData".to_string() };
                        if exp != ans {
                            cx.violation(self, json!({"kind": "typed", "what": "parse", "ty": "str"}), format!("{}::{}::parse({}) = {ans}, specified {exp}", t[1], t[2], t[3]));
                        }
                    }
                }
                cx.rep.expect(format!("c20 parse {} {} {}", t[1], t[2], hex(&d)), ans);
            }
            "sweep" => self.exec_sweep(cx, &t),
            other => panic!("unknown op {other}"),
        }
    }

    fn bf_sig(&self, i: usize, what: &str) -> Value {
        let r = &self.regs[i];
        match &r.kind {
            Kind::Bf { ty, bits, signed, lsb, msb } => json!({"kind": "bitfield", "what": what, "ty": ty, "signed": signed,
                "width": msb - lsb + 1, "lsb": lsb, "msb": msb, "top": *msb == bits - 1, "endian": r.map.endian}),
            Kind::Str => json!({"kind": "typed", "what": what, "ty": "str"}),
            Kind::Bytes => json!({"kind": "typed", "what": what, "ty": "bytes"}),
            Kind::Scalar { ty, .. } => json!({"kind": "typed", "what": what, "ty": ty}),
        }
    }

    /// `sweep M R lo hi step`: every value of the grid on the current image (restored each time).
    fn exec_sweep(&mut self, cx: &mut Ctx, t: &[&str]) {
        let name = self.desc.name;
        let i = self.reg_index(t[1], t[2]);
        let (lo, hi, step): (u64, u64, u64) = (t[3].parse().unwrap(), t[4].parse().unwrap(), t[5].parse().unwrap());
        let range = self.regs[i].range();
        let kind = self.regs[i].kind.clone();
        let endian = self.regs[i].map.endian;
        let base_img = self.sh_raw.clone();
        let old_word = word_from(endian, &base_img[range.clone()]);
        let (mut h, mut n, mut okc) = (FNV_INIT, 0u64, 0u64);
        let mut bad: Vec<(u64, String, &'static str)> = vec![];
        let mut evals: Vec<(u64, bool)> = vec![];
        let res = {
            let mem = &mut self.mem;
            catch(|| {
                mem.sweep(i, lo, hi, step, &mut |v, w, r, raw| {
                    n += 1;
                    h = fnv_u64(h, v);
                    h = fnv_u64(h, match w { Ok(()) => 0, Err(e) => err_code(e) });
                    h = fnv_bytes(h, raw);
                    match r {
                        Ok(Val::Word(x)) => { h = fnv_u64(fnv_u64(h, 0), *x); }
                        Ok(_) => {}
                        Err(e) => { h = fnv_u64(h, err_code(e)); }
                    }
                    // property oracle (independent spec)
                    let (in_range, exp_word) = match &kind {
                        Kind::Bf { bits, signed, lsb, msb, .. } => {
                            let num = numeric(*signed, *bits, v);
                            let (l, u) = spec_range(*signed, msb - lsb + 1);
                            let m = spec_mask(*lsb, *msb);
                            (num >= l && num <= u, (old_word & !m) | ((v << lsb) & m))
                        }
                        _ => (true, v),
                    };
                    if evals.len() < 64 { evals.push((v, w.is_ok())); }
                    if w.is_ok() { okc += 1; }
                    if w.is_ok() != in_range {
                        bad.push((v, format!("write({v}) = {}, in range: {in_range}", if w.is_ok() { "ok" } else { "err" }), "range"));
                    } else if in_range {
                        let mut img = base_img.clone();
                        img[range.clone()].copy_from_slice(&word_to(endian, range.len(), exp_word));
                        if raw != &img[..] {
                            bad.push((v, format!("write({v}): image {} differs from specified {}", hex(raw), hex(&img)), "isolation"));
                        } else if !matches!(r, Ok(Val::Word(x)) if *x == v) {
                            bad.push((v, format!("write({v}) then read = {:?}", r.as_ref().map(|x| x.show()).map_err(err_name)), "roundtrip"));
                        }
                    } else if raw != &base_img[..] {
                        bad.push((v, format!("refused write({v}) changed the image"), "isolation"));
                    }
                })
            })
        };
        for (v, ok) in &evals {
            cx.rep.case(&format!("{name} {} {} {v} {}", t[1], t[2], hash16(fnv_bytes(FNV_INIT, &base_img))), *ok);
        }
        cx.rep.evaluations += n - evals.len() as u64;
        cx.rep.count("sweep:requests");
        *cx.rep.dist.entry("sweep:values".into()).or_insert(0) += n;
        for (v, what, w) in bad.iter().take(3) {
            let sig = self.bf_sig(i, w);
            self.history.push(format!("wt {} {} w:{v}", t[1], t[2]));
            cx.violation(self, sig, format!("{}::{}: {what}", t[1], t[2]));
            self.history.pop();
        }
        let ans = if res.is_ok() { format!("ok n={n} okc={okc} h={}", hash16(h)) } else { "panic".to_string() };
        cx.rep.expect(format!("c20 sweep {name} {} {} {lo} {hi} {step}", t[1], t[2]), ans);
    }
}
