//! Shared by the C01 and C02 harness bins (`#[path]`-included, not part of the lib):
//! GenApi XML scaffolding, a recording in-memory `Device`, canonical formatting.

use cameleon_genapi::{Device, GenApiError};
use std::collections::BTreeMap;

pub const XML_HEAD: &str = r#"<RegisterDescription ModelName="VerifModel" VendorName="Verif" StandardNameSpace="None" SchemaMajorVersion="1" SchemaMinorVersion="1" SchemaSubMinorVersion="0" MajorVersion="1" MinorVersion="0" SubMinorVersion="0" ProductGuid="01234567-0123-0123-0123-0123456789ab" VersionGuid="76543210-3210-3210-3210-ba9876543210" xmlns="http://www.genicam.org/GenApi/Version_1_1">
<Port Name="Device"></Port>
<Port Name="ChunkPort"><ChunkID>12ab</ChunkID></Port>
<Port Name="SwapPort"><SwapEndianess>Yes</SwapEndianess></Port>
"#;
pub const XML_TAIL: &str = "</RegisterDescription>\n";

pub fn err_name(e: &GenApiError) -> &'static str {
    match e {
        GenApiError::Device(_) => "Device",
        GenApiError::NotWritable => "NotWritable",
        GenApiError::InvalidNode(_) => "InvalidNode",
        GenApiError::InvalidData(_) => "InvalidData",
        GenApiError::ChunkDataMissing => "ChunkDataMissing",
        GenApiError::InvalidBuffer(_) => "InvalidBuffer",
    }
}

#[derive(Clone, Debug, PartialEq, Eq)]
pub struct Access {
    pub write: bool,
    pub addr: i64,
    pub len: usize,
    pub bytes: Vec<u8>,
}

/// In-memory device: a byte window `img` at `base`, zero elsewhere (writes outside
/// the window are kept in `outside`), every performed access recorded in `log`.
/// `refuse` lists the 0-based access attempts the device answers with an error.
#[derive(Clone)]
pub struct RecDevice {
    pub base: i64,
    pub img: Vec<u8>,
    pub outside: BTreeMap<i128, u8>,
    pub log: Vec<Access>,
    pub refuse: Vec<u64>,
    pub attempts: u64,
    /// one-shot fault consumed by the NEXT write_mem (cached, implementation-only passes)
    pub next_write_fault: Option<WriteFault>,
    /// one-shot fault consumed by the NEXT read_mem
    pub next_read_fault: Option<ReadFault>,
    /// number of one-shot faults that fired
    pub faults_fired: u64,
}

/// How a faulty device answers one write: all report an error to the caller.
#[derive(Clone, Copy, Debug, PartialEq, Eq)]
pub enum WriteFault {
    /// nothing applied
    Refuse,
    /// the whole write is applied, the acknowledge is lost
    LostAck,
    /// only the first `k` bytes are applied
    Partial(usize),
}

/// How a faulty device answers one read: all report an error to the caller.
#[derive(Clone, Copy, Debug, PartialEq, Eq)]
pub enum ReadFault {
    /// buffer untouched
    Refuse,
    /// the buffer is filled with the device bytes, then the error is reported
    FilledThenFail,
    /// the buffer is filled with garbage, then the error is reported
    GarbageThenFail,
}

impl RecDevice {
    pub fn new(base: i64, img: Vec<u8>, refuse: Vec<u64>) -> Self {
        RecDevice { base, img, outside: BTreeMap::new(), log: vec![], refuse, attempts: 0, next_write_fault: None, next_read_fault: None, faults_fired: 0 }
    }
    fn get(&self, a: i128) -> u8 {
        let off = a - self.base as i128;
        if off >= 0 && (off as usize) < self.img.len() {
            self.img[off as usize]
        } else {
            *self.outside.get(&a).unwrap_or(&0)
        }
    }
    fn set(&mut self, a: i128, b: u8) {
        let off = a - self.base as i128;
        if off >= 0 && (off as usize) < self.img.len() {
            self.img[off as usize] = b;
        } else {
            self.outside.insert(a, b);
        }
    }
    pub fn log_str(&self) -> String {
        if self.log.is_empty() {
            return "-".into();
        }
        self.log
            .iter()
            .map(|a| format!("{}:{}:{}:{}", if a.write { "W" } else { "R" }, a.addr, a.len, camharness::hex(&a.bytes)))
            .collect::<Vec<_>>()
            .join(",")
    }
    pub fn writes(&self) -> usize {
        self.log.iter().filter(|a| a.write).count()
    }
    pub fn refuse_str(&self) -> String {
        if self.refuse.is_empty() {
            "-".into()
        } else {
            self.refuse.iter().map(|x| x.to_string()).collect::<Vec<_>>().join(",")
        }
    }
}

impl Device for RecDevice {
    fn read_mem(&mut self, address: i64, buf: &mut [u8]) -> Result<(), Box<dyn std::error::Error + Send + Sync>> {
        let n = self.attempts;
        self.attempts += 1;
        if self.refuse.contains(&n) {
            return Err("device refused the read".into());
        }
        if let Some(f) = self.next_read_fault.take() {
            self.faults_fired += 1;
            match f {
                ReadFault::Refuse => {}
                ReadFault::FilledThenFail => {
                    for (i, b) in buf.iter_mut().enumerate() {
                        *b = self.get(address as i128 + i as i128);
                    }
                }
                ReadFault::GarbageThenFail => {
                    for (i, b) in buf.iter_mut().enumerate() {
                        *b = 0xA5 ^ (i as u8).wrapping_mul(37);
                    }
                }
            }
            return Err("device read fault".into());
        }
        for (i, b) in buf.iter_mut().enumerate() {
            *b = self.get(address as i128 + i as i128);
        }
        self.log.push(Access { write: false, addr: address, len: buf.len(), bytes: buf.to_vec() });
        Ok(())
    }

    fn write_mem(&mut self, address: i64, data: &[u8]) -> Result<(), Box<dyn std::error::Error + Send + Sync>> {
        let n = self.attempts;
        self.attempts += 1;
        if self.refuse.contains(&n) {
            return Err("device refused the write".into());
        }
        if let Some(f) = self.next_write_fault.take() {
            self.faults_fired += 1;
            let k = match f { WriteFault::Refuse => 0, WriteFault::LostAck => data.len(), WriteFault::Partial(k) => k.min(data.len()) };
            for (i, b) in data.iter().take(k).enumerate() {
                self.set(address as i128 + i as i128, *b);
            }
            if k > 0 {
                // what reached the device is logged (it is a performed, if unacknowledged, write)
                self.log.push(Access { write: true, addr: address, len: k, bytes: data[..k].to_vec() });
            }
            return Err("device write fault".into());
        }
        for (i, b) in data.iter().enumerate() {
            self.set(address as i128 + i as i128, *b);
        }
        self.log.push(Access { write: true, addr: address, len: data.len(), bytes: data.to_vec() });
        Ok(())
    }
}

/// Canonical answer: result, access log, final window image.  For a call that ends in an
/// error the property only says "no device write": the exact read log is NOT compared there
/// (a stronger refusal that fails before touching the device is as good), only the number of
/// write entries and the image.  Successful calls and panics keep the exact log (footprint).
pub fn answer(res: &str, dev: &RecDevice) -> String {
    if res.starts_with("err") {
        format!("{res};W={};{}", dev.writes(), camharness::hex(&dev.img))
    } else {
        format!("{res};{};{}", dev.log_str(), camharness::hex(&dev.img))
    }
}
