//! Shared plumbing of the correspondence harness: seeded PRNG, the pipe to the
//! Lean driver `camdrv`, panic capture, and the per-run report consumed by `/verif/check`.

use std::collections::{BTreeMap, HashSet};
use std::io::{BufRead, BufReader, Write};
use std::process::{Command, Stdio};

pub use serde_json::{json, Value};

pub struct Args {
    pub tier: String,
    pub seed: u64,
    pub out: String,
    pub camdrv: String,
    pub replay: Option<String>,
}

impl Args {
    pub fn thorough(&self) -> bool {
        self.tier == "thorough"
    }
}

pub fn parse_args() -> Args {
    let mut a = Args {
        tier: "quick".into(),
        seed: 1,
        out: "result.json".into(),
        camdrv: "/verif/lean/.lake/build/bin/camdrv".into(),
        replay: None,
    };
    let v: Vec<String> = std::env::args().collect();
    let mut i = 1;
    while i < v.len() {
        match v[i].as_str() {
            "--tier" => {
                a.tier = v[i + 1].clone();
                i += 1;
            }
            "--seed" => {
                a.seed = v[i + 1].parse().unwrap_or(1);
                i += 1;
            }
            "--out" => {
                a.out = v[i + 1].clone();
                i += 1;
            }
            "--camdrv" => {
                a.camdrv = v[i + 1].clone();
                i += 1;
            }
            "--replay" => {
                a.replay = Some(v[i + 1].clone());
                i += 1;
            }
            _ => {}
        }
        i += 1;
    }
    a
}

/// Build profile this harness (and hence the repo crates) was compiled in.
pub fn profile() -> &'static str {
    if cfg!(debug_assertions) {
        "dev"
    } else {
        "release"
    }
}

/// splitmix64 — every random choice of a run derives from one state.
#[derive(Clone)]
pub struct Rng(pub u64);

impl Rng {
    pub fn new(seed: u64) -> Self {
        Rng(seed.wrapping_mul(0x9E37_79B9_7F4A_7C15) ^ 0xD1B5_4A32_D192_ED03)
    }
    pub fn next_u64(&mut self) -> u64 {
        self.0 = self.0.wrapping_add(0x9E37_79B9_7F4A_7C15);
        let mut z = self.0;
        z = (z ^ (z >> 30)).wrapping_mul(0xBF58_476D_1CE4_E5B9);
        z = (z ^ (z >> 27)).wrapping_mul(0x94D0_49BB_1331_11EB);
        z ^ (z >> 31)
    }
    pub fn below(&mut self, n: u64) -> u64 {
        if n == 0 {
            0
        } else {
            self.next_u64() % n
        }
    }
    pub fn range(&mut self, lo: u64, hi_incl: u64) -> u64 {
        lo + self.below(hi_incl - lo + 1)
    }
    pub fn bool(&mut self) -> bool {
        self.next_u64() & 1 == 1
    }
    pub fn chance(&mut self, num: u64, den: u64) -> bool {
        self.below(den) < num
    }
    pub fn pick<'a, T>(&mut self, xs: &'a [T]) -> &'a T {
        &xs[self.below(xs.len() as u64) as usize]
    }
    pub fn bytes(&mut self, n: usize) -> Vec<u8> {
        (0..n).map(|_| self.next_u64() as u8).collect()
    }
    /// u64 biased to boundaries.
    pub fn interesting_u64(&mut self) -> u64 {
        match self.below(8) {
            0 => 0,
            1 => 1,
            2 => u64::MAX,
            3 => u64::MAX - self.below(70000),
            4 => 1u64 << self.below(64),
            5 => (1u64 << self.below(64)).wrapping_sub(1),
            6 => self.below(100_000),
            _ => self.next_u64(),
        }
    }
    /// i64 biased to boundaries.
    pub fn interesting_i64(&mut self) -> i64 {
        match self.below(10) {
            0 => 0,
            1 => 1,
            2 => -1,
            3 => i64::MAX,
            4 => i64::MIN,
            5 => i64::MAX - self.below(5) as i64,
            6 => i64::MIN + self.below(5) as i64,
            7 => (self.below(2001) as i64) - 1000,
            8 => ((1u64 << self.below(64)) as i64).wrapping_add(self.below(3) as i64 - 1),
            _ => self.next_u64() as i64,
        }
    }
}

pub fn hex(b: &[u8]) -> String {
    if b.is_empty() {
        return "-".into();
    }
    let mut s = String::with_capacity(b.len() * 2);
    for x in b {
        s.push_str(&format!("{:02x}", x));
    }
    s
}

pub fn unhex(s: &str) -> Vec<u8> {
    if s == "-" {
        return vec![];
    }
    (0..s.len() / 2)
        .map(|i| u8::from_str_radix(&s[2 * i..2 * i + 2], 16).unwrap())
        .collect()
}

pub const FNV_INIT: u64 = 0xcbf2_9ce4_8422_2325;
pub fn fnv_bytes(mut h: u64, bs: &[u8]) -> u64 {
    for b in bs {
        h = (h ^ (*b as u64)).wrapping_mul(0x100_0000_01b3);
    }
    h
}
pub fn fnv_u64(h: u64, n: u64) -> u64 {
    fnv_bytes(h, &n.to_le_bytes())
}

/// Run `f`, turning a panic into `Err(())`.  The default hook is silenced once.
pub fn catch<T>(f: impl FnOnce() -> T) -> Result<T, ()> {
    static ONCE: std::sync::Once = std::sync::Once::new();
    ONCE.call_once(|| std::panic::set_hook(Box::new(|_| {})));
    std::panic::catch_unwind(std::panic::AssertUnwindSafe(f)).map_err(|_| ())
}

/// Feed request lines to one Lean driver process and collect one answer per line.
fn run_model_one(camdrv: &str, reqs: &[String]) -> Vec<String> {
    let mut child = Command::new(camdrv)
        .stdin(Stdio::piped())
        .stdout(Stdio::piped())
        .spawn()
        .unwrap_or_else(|e| panic!("cannot start model driver {camdrv}: {e}"));
    let mut stdin = child.stdin.take().unwrap();
    let payload: String = reqs.iter().map(|r| format!("{r}\n")).collect();
    let writer = std::thread::spawn(move || {
        let _ = stdin.write_all(payload.as_bytes());
    });
    let out = BufReader::new(child.stdout.take().unwrap());
    let answers: Vec<String> = out.lines().map(|l| l.unwrap_or_default()).collect();
    let _ = writer.join();
    let _ = child.wait();
    answers
}

/// Feed all request lines to the Lean driver (stateless, one answer per line).  Large batches
/// are split over several driver processes; the answers come back in request order.
pub fn run_model(camdrv: &str, reqs: &[String]) -> Vec<String> {
    run_model_par(camdrv, reqs, false)
}

/// `parallel = true` is only sound for drivers whose answer to a line does not depend on
/// earlier lines.
pub fn run_model_par(camdrv: &str, reqs: &[String], parallel: bool) -> Vec<String> {
    let workers = if parallel { std::cmp::min(12, reqs.len() / 4000 + 1) } else { 1 };
    if workers <= 1 {
        return run_model_one(camdrv, reqs);
    }
    let per = reqs.len().div_ceil(workers);
    std::thread::scope(|sc| {
        let handles: Vec<_> = reqs
            .chunks(per)
            .map(|chunk| sc.spawn(move || run_model_one(camdrv, chunk)))
            .collect();
        let mut all = Vec::with_capacity(reqs.len());
        for (h, chunk) in handles.into_iter().zip(reqs.chunks(per)) {
            let mut a = h.join().unwrap();
            // keep alignment even if one worker died early
            a.resize(chunk.len(), "<missing>".to_string());
            all.extend(a);
        }
        all
    })
}

/// What one harness run found; serialised for `/verif/check`.
pub struct Report {
    pub property: String,
    pub rule: String,
    pub evaluations: u64,
    nontrivial: HashSet<u64>,
    pub samples: Vec<Value>,
    pub dist: BTreeMap<String, u64>,
    pub disagreements: Vec<Value>,
    pub n_disagreements: u64,
    pub violations: Vec<Value>,
    pub n_violations: u64,
    pub extra: BTreeMap<String, Value>,
    /// Set when the driver is stateless per line: large batches are then split over several
    /// driver processes.
    pub parallel_model: bool,
    sig_counts: BTreeMap<String, u64>,
    /// (request line, implementation answer) queued for the model.
    pending: Vec<(String, String)>,
}

impl Report {
    pub fn new(property: &str, rule: &str) -> Self {
        Report {
            property: property.into(),
            rule: rule.into(),
            evaluations: 0,
            nontrivial: HashSet::new(),
            samples: vec![],
            dist: BTreeMap::new(),
            disagreements: vec![],
            n_disagreements: 0,
            violations: vec![],
            n_violations: 0,
            extra: BTreeMap::new(),
            parallel_model: false,
            sig_counts: BTreeMap::new(),
            pending: vec![],
        }
    }
    pub fn count(&mut self, key: &str) {
        *self.dist.entry(key.into()).or_insert(0) += 1;
    }
    /// Register one evaluated case; `canonical` identifies it, `nontrivial` per the rule.
    pub fn case(&mut self, canonical: &str, nontrivial: bool) {
        self.evaluations += 1;
        if nontrivial {
            self.nontrivial.insert(fnv_bytes(FNV_INIT, canonical.as_bytes()));
        }
    }
    pub fn sample(&mut self, v: Value) {
        if self.samples.len() < 12 {
            self.samples.push(v);
        }
    }
    /// Number of requests queued for the model and not yet flushed.
    pub fn pending_len(&self) -> usize {
        self.pending.len()
    }
    /// Queue a request for the model together with the implementation's answer.
    pub fn expect(&mut self, request: String, impl_answer: String) {
        self.pending.push((request, impl_answer));
    }
    /// The implementation itself violates the property (oracle failure).
    /// `sig` is the specific signature matched against known_findings.json.
    pub fn violation(&mut self, sig: Value, what: &str, replay: Value) {
        self.n_violations += 1;
        // keep a few examples PER DISTINCT SIGNATURE so that a flood of one (possibly known)
        // class can never hide a different one
        let key = sig.to_string();
        let seen = self.sig_counts.entry(key).or_insert(0);
        *seen += 1;
        if *seen <= 3 && self.violations.len() < 600 {
            self.violations
                .push(json!({"sig": sig, "what": what, "replay": replay}));
        }
    }
    /// Send everything queued to the model and diff.
    pub fn flush_model(&mut self, camdrv: &str) {
        let pend = std::mem::take(&mut self.pending);
        if pend.is_empty() {
            return;
        }
        let reqs: Vec<String> = pend.iter().map(|p| p.0.clone()).collect();
        let answers = run_model_par(camdrv, &reqs, self.parallel_model);
        if answers.len() != reqs.len() {
            self.n_disagreements += 1;
            self.disagreements.push(json!({
                "request": "<stream>", "impl": format!("{} requests", reqs.len()),
                "model": format!("{} answers (driver died or desynchronised)", answers.len())}));
        }
        for (i, (req, imp)) in pend.iter().enumerate() {
            let model = answers.get(i).map(|s| s.as_str()).unwrap_or("<missing>");
            if model != imp {
                self.n_disagreements += 1;
                if self.disagreements.len() < 40 {
                    self.disagreements
                        .push(json!({"request": req, "impl": imp, "model": model}));
                }
            }
        }
        *self.dist.entry("model_requests".into()).or_insert(0) += reqs.len() as u64;
    }
    pub fn write(&mut self, args: &Args) {
        self.flush_model(&args.camdrv);
        let v = json!({
            "property": self.property,
            "tier": args.tier,
            "seed": args.seed,
            "profile": profile(),
            "rule": self.rule,
            "evaluations": self.evaluations,
            "distinct_nontrivial": self.nontrivial.len(),
            "samples": self.samples,
            "input_distribution": self.dist,
            "n_disagreements": self.n_disagreements,
            "disagreements": self.disagreements,
            "n_violations": self.n_violations,
            "violations": self.violations,
            "violation_signatures": self.sig_counts,
            "extra": self.extra,
        });
        std::fs::write(&args.out, serde_json::to_string_pretty(&v).unwrap()).unwrap();
    }
}
