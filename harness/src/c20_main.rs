// C20 harness, part 3 (included by bin/c20.rs): definitions sent to the model, generators, main.

/// Family description -> model (`map`/`reg`/`endmap`/`mem` lines).  The model answers with the
/// layout IT computes; the implementation side of the diff is the macro-generated constants.
fn send_definitions(rep: &mut Report, with_oracle: bool) {
    rep.expect(format!("c20 profile {}", profile()), "ok".into());
    for m in all_maps() {
        rep.expect(format!("c20 map {} {} {}", m.name, m.base, m.endian), "ok".into());
        let mut running = 0usize;
        let mut max_end = None::<usize>;
        for r in m.regs {
            let off = r.offset.map_or("-".to_string(), |o| o.to_string());
            rep.expect(
                format!("c20 reg {} {} {} {} {} {} {}", m.name, r.name, r.kind, r.len, off, r.access, r.init.unwrap_or("-")),
                format!("ok addr={} len={} access={}", r.address, r.length, right_name(r.access_const)),
            );
            if with_oracle {
                // independent spec: base + explicit offset, else base + end of the previous register
                let o = r.offset.unwrap_or(running);
                running = o + r.len;
                max_end = Some(max_end.map_or(running, |x: usize| x.max(running)));
                rep.case(&format!("layout {} {}", m.name, r.name), true);
                rep.count("layout:register");
                let mut bad = r.address != m.base + o || r.length != r.len || right_name(r.access_const) != r.access;
                if let (Some((l, ms)), Some(rest)) = (r.lsb_msb, r.kind.strip_prefix("bf:")) {
                    let p: Vec<&str> = rest.split(':').collect();
                    bad |= l.to_string() != p[1] || ms.to_string() != p[2];
                }
                if bad {
                    rep.violation(json!({"kind": "layout", "map": m.name, "reg": r.name}),
                        &format!("{}::{}: ADDRESS {} LENGTH {} (declared base {} offset {:?} len {})", m.name, r.name, r.address, r.length, m.base, r.offset, r.len),
                        json!({"mem": "-", "ops": []}));
                }
            }
        }
        rep.expect(format!("c20 endmap {}", m.name), format!("ok base={} size={}", m.base_fn, m.size_fn));
        if with_oracle && (m.base_fn != m.base || Some(m.size_fn) != max_end) {
            rep.violation(json!({"kind": "layout", "map": m.name, "reg": "-"}), &format!("{}: base() {} size() {}", m.name, m.base_fn, m.size_fn), json!({"mem": "-", "ops": []}));
        }
    }
    for m in all_mems() {
        rep.expect(format!("c20 mem {} {}", m.name, m.maps.join(" ")), "ok".into());
    }
}

/// flush the queue and re-declare the family for the next driver process
fn flush(rep: &mut Report, args: &Args) {
    rep.flush_model(&args.camdrv);
    send_definitions(rep, false);
}

// ---------------------------------------------------------------- AccessRight + standalone MemoryProtection

fn pure_functions(rep: &mut Report) {
    for a in RIGHTS {
        rep.expect(format!("c20 num {}", right_name(a)), format!("ok {}", a.as_num()));
        rep.expect(format!("c20 isr {}", right_name(a)), format!("ok {}", a.is_readable()));
        rep.expect(format!("c20 isw {}", right_name(a)), format!("ok {}", a.is_writable()));
        if a.as_num() != code(a) || a.is_readable() != (code(a) & 1 == 1) || a.is_writable() != (code(a) & 2 == 2) {
            rep.violation(json!({"kind": "lattice", "what": "codes"}), "as_num/is_readable/is_writable", json!({"mem": "-", "ops": []}));
        }
        for b in RIGHTS {
            let m = a.meet(b);
            rep.case(&format!("meet {} {}", right_name(a), right_name(b)), true);
            rep.expect(format!("c20 meet {} {}", right_name(a), right_name(b)), format!("ok {}", right_name(m)));
            if code(m) != code(a) & code(b) {
                rep.violation(json!({"kind": "lattice", "what": "meet"}), &format!("meet({:?},{:?}) = {:?}", a, b, m), json!({"mem": "-", "ops": []}));
            }
        }
    }
    for n in 0..=255u8 {
        let r = catch(|| AccessRight::from_num(n));
        rep.case(&format!("fromnum {n}"), r.is_ok());
        rep.expect(format!("c20 fromnum {} {n}", profile()), match r { Ok(a) => format!("ok {}", right_name(a)), Err(()) => "panic".into() });
    }
}

fn protection_histories(rep: &mut Report, rng: &mut Rng, thorough: bool) {
    let mut sizes: Vec<usize> = (0..=18).collect();
    sizes.extend([31, 32, 33, 100, 1023]);
    let rounds = if thorough { 600 } else { 120 };
    for &n in &sizes {
        let mut p = MemoryProtection::new(n);
        let mut sh = vec![AccessRight::NA; n];
        rep.expect(format!("c20 pnew {n}"), "ok".into());
        let viol = |rep: &mut Report, what: String| {
            rep.violation(json!({"kind": "cells", "what": "standalone"}), &what, json!({"mem": "-", "ops": [], "note": "standalone MemoryProtection history"}));
        };
        for _ in 0..rounds {
            let addr = |rng: &mut Rng| -> usize {
                match rng.below(10) {
                    0 => n + rng.below(9) as usize,
                    1 => rng.interesting_u64() as usize,
                    _ => rng.below(n.max(1) as u64) as usize,
                }
            };
            let a = addr(rng);
            let b = match rng.below(3) { 0 => a.saturating_add(rng.below(6) as usize), 1 => addr(rng), _ => a.saturating_add(rng.below(n as u64 + 2) as usize).min(n + 3) };
            let r = *rng.pick(&RIGHTS);
            match rng.below(7) {
                0 | 1 => {
                    let res = catch(|| p.set_access_right(a, r));
                    if a < n { sh[a] = r; }
                    rep.case(&format!("pset {n} {a} {:?}", r), a < n);
                    rep.count("prot:set");
                    if a < n && res.is_err() { viol(rep, format!("set_access_right({a}) panics, size {n}")); }
                    rep.expect(format!("c20 pset {a} {}", right_name(r)), if res.is_ok() { "ok".into() } else { "panic".into() });
                }
                2 | 3 => {
                    let res = catch(|| p.access_right(a));
                    rep.case(&format!("pget {n} {a} {:?}", sh.get(a)), a < n);
                    rep.count("prot:get");
                    if a < n && !matches!(res, Ok(x) if x == sh[a]) { viol(rep, format!("access_right({a}) = {:?}, cell holds {:?}", res, sh[a])); }
                    rep.expect(format!("c20 pget {} {a}", profile()), match res { Ok(x) => format!("ok {}", right_name(x)), Err(()) => "panic".into() });
                }
                4 => {
                    let (s, e) = (a.min(n + 2), b.min(n + 2));
                    let res = catch(|| p.access_right_with_range(s..e));
                    rep.case(&format!("pgetr {n} {s} {e}"), s < e && e <= n);
                    rep.count("prot:get-range");
                    if e <= n {
                        let exp = if s < e { of_code(sh[s..e].iter().fold(3, |x, y| x & code(*y))) } else { AccessRight::RW };
                        if !matches!(res, Ok(x) if x == exp) { viol(rep, format!("access_right_with_range({s}..{e}) = {:?}, meet = {:?}", res, exp)); }
                    }
                    rep.expect(format!("c20 pgetr {} {s} {e}", profile()), match res { Ok(x) => format!("ok {}", right_name(x)), Err(()) => "panic".into() });
                }
                5 => {
                    let (s, e) = (a.min(n + 2), b.min(n + 2));
                    let res = catch(|| p.set_access_right_with_range(s..e, r));
                    for i in s..e.min(n) { sh[i] = r; }
                    rep.case(&format!("psetr {n} {s} {e}"), s < e && e <= n);
                    rep.count("prot:set-range");
                    if e <= n && res.is_err() { viol(rep, format!("set_access_right_with_range({s}..{e}) panics")); }
                    rep.expect(format!("c20 psetr {s} {e} {}", right_name(r)), if res.is_ok() { "ok".into() } else { "panic".into() });
                }
                _ => {
                    let res = p.verify_address(a);
                    let res2 = p.verify_address_with_range(a..b);
                    rep.case(&format!("pver {n} {a} {b}"), res.is_ok());
                    rep.count("prot:verify");
                    if res.is_ok() != (a < n) || res2.is_ok() != (a >= b || b <= n) { viol(rep, format!("verify_address({a}) / range {a}..{b}, size {n}")); }
                    rep.expect(format!("c20 pver {a}"), match res { Ok(()) => "ok".into(), Err(e) => format!("err {}", err_name(&e)) });
                    rep.expect(format!("c20 pverr {a} {b}"), match res2 { Ok(()) => "ok".into(), Err(e) => format!("err {}", err_name(&e)) });
                }
            }
        }
        // all cells at the end
        for i in 0..n {
            let x = p.access_right(i);
            if x != sh[i] { viol(rep, format!("final cell {i}: {:?} vs {:?}", x, sh[i])); }
        }
        let cells: Vec<u8> = (0..n).map(|i| p.access_right(i).as_num()).collect();
        rep.expect("c20 pdump".into(), format!("ok {}", hex(&cells)));
    }
}

// ---------------------------------------------------------------- value batteries

fn scalar_values(bits: u32, rng: &mut Rng, n_rand: usize) -> Vec<u64> {
    let m = mask_w(bits);
    let mut v = vec![0, 1, 2, m, m - 1, m >> 1, (m >> 1) + 1, (m >> 1) + 2, 0x5555_5555_5555_5555 & m, 0xAAAA_AAAA_AAAA_AAAA & m];
    if bits >= 32 {
        // float specials: inf, -inf, NaNs (quiet, signalling, payload), -0.0, subnormal
        v.extend(if bits == 32 { vec![0x7f80_0000, 0xff80_0000, 0x7fc0_0000, 0x7fa0_0001, 0xffc1_2345, 0x8000_0000, 1] }
                 else { vec![0x7ff0_0000_0000_0000, 0xfff0_0000_0000_0000, 0x7ff8_0000_0000_0000, 0x7ff4_0000_0000_0001, 0xfff8_0000_0001_2345, 0x8000_0000_0000_0000, 1] });
    }
    for _ in 0..n_rand {
        v.push(rng.interesting_u64() & m);
    }
    v.sort();
    v.dedup();
    v
}

fn bf_values(bits: u32, signed: bool, lsb: u32, msb: u32, rng: &mut Rng, n_rand: usize) -> Vec<u64> {
    let m = mask_w(bits);
    let width = msb - lsb + 1;
    let (lo, hi) = spec_range(signed, width);
    let mut v: Vec<u64> = vec![];
    for d in [-2i128, -1, 0, 1, 2] {
        for c in [lo, hi, 0] {
            v.push(((c + d) as i64 as u64) & m);
        }
    }
    v.extend([m, m >> 1, (m >> 1) + 1, 1u64 << (width - 1), (1u64 << (width - 1)).wrapping_sub(1) & m]);
    for _ in 0..n_rand {
        v.push(match rng.below(3) {
            0 => rng.next_u64() & mask_w(width),
            1 => ((lo + (rng.next_u64() as i128 & (hi - lo))) as i64 as u64) & m,
            _ => rng.interesting_u64() & m,
        });
    }
    v.sort();
    v.dedup();
    v
}

fn string_values(len: usize) -> Vec<Vec<u8>> {
    let mut v: Vec<Vec<u8>> = vec![vec![], b"a".to_vec(), vec![b'x'; len], vec![b'y'; len + 1], vec![0x7f; len.min(3)],
        "é".as_bytes().to_vec(), "aé".as_bytes().to_vec(), "\u{80}".as_bytes().to_vec(),
        b"a\0b".to_vec(), b"ab\0".to_vec(), b"\0".to_vec(), b"\0z".to_vec()];
    if len > 1 { v.push(vec![b'z'; len - 1]); }
    v
}

// ---------------------------------------------------------------- per-memory generators

fn typed_batteries(cx: &mut Ctx, name: &str, rng: &mut Rng, thorough: bool) {
    let Some(mut inst) = Inst::create(cx, name) else { return };
    let n_rand = if thorough { 60 } else { 12 };
    for i in 0..inst.regs.len() {
        let (mn, rn, kind, len) = (inst.regs[i].map.name, inst.regs[i].reg.name, inst.regs[i].kind.clone(), inst.regs[i].reg.len);
        inst.exec(cx, &format!("rd {mn} {rn}"));
        inst.exec(cx, &format!("ar {mn} {rn}"));
        match kind {
            Kind::Scalar { size, .. } => {
                let bits = (size * 8) as u32;
                if bits <= 16 && inst.regs[i].well_formed() {
                    inst.exec(cx, &format!("sweep {mn} {rn} 0 {} 1", mask_w(bits)));
                }
                for v in scalar_values(bits, rng, n_rand) {
                    inst.exec(cx, &format!("ser {mn} {rn} w:{v}"));
                    inst.exec(cx, &format!("wt {mn} {rn} w:{v}"));
                    inst.exec(cx, &format!("rd {mn} {rn}"));
                }
            }
            Kind::Str => {
                for s in string_values(len) {
                    inst.exec(cx, &format!("ser {mn} {rn} s:{}", hex(&s)));
                    inst.exec(cx, &format!("wt {mn} {rn} s:{}", hex(&s)));
                    inst.exec(cx, &format!("rd {mn} {rn}"));
                }
                // bytes that only a RAW write can put there: valid non-ASCII UTF-8, invalid UTF-8,
                // non-ASCII behind the terminating NUL
                let addr = inst.regs[i].reg.address;
                let saved = right_name(inst.sh_rights.get(addr).copied().unwrap_or(AccessRight::NA));
                if len > 0 {
                    inst.exec(cx, &format!("sar {mn} {rn} RW"));
                    for raw in [&[0xc3u8, 0xa9, 0x00][..], &[0x61, 0xc3, 0xa9], &[0xff, 0x00], &[0x61, 0x00, 0xc3, 0xa9], &[0xc3], &[0x80], &[0x7f, 0x00, 0xff]] {
                        let d = &raw[..raw.len().min(len)];
                        inst.exec(cx, &format!("wr {addr} {}", hex(d)));
                        inst.exec(cx, &format!("rd {mn} {rn}"));
                        let mut full = d.to_vec();
                        full.resize(len, 0);
                        inst.exec(cx, &format!("parse {mn} {rn} {}", hex(&full)));
                        full.iter_mut().skip(d.len()).for_each(|x| *x = 0x41);
                        inst.exec(cx, &format!("parse {mn} {rn} {}", hex(&full)));
                    }
                    inst.exec(cx, &format!("sar {mn} {rn} {saved}"));
                }
            }
            Kind::Bytes => {
                for l in [len.saturating_sub(1), len, len + 1, 0] {
                    let b = rng.bytes(l);
                    inst.exec(cx, &format!("ser {mn} {rn} b:{}", hex(&b)));
                    inst.exec(cx, &format!("wt {mn} {rn} b:{}", hex(&b)));
                    inst.exec(cx, &format!("rd {mn} {rn}"));
                }
            }
            Kind::Bf { bits, signed, lsb, msb, .. } => {
                for v in bf_values(bits, signed, lsb, msb, rng, 4) {
                    inst.exec(cx, &format!("ser {mn} {rn} w:{v}"));
                    inst.exec(cx, &format!("wt {mn} {rn} w:{v}"));
                    inst.exec(cx, &format!("rd {mn} {rn}"));
                }
            }
        }
    }
    // direct trait calls: parse on data of foreign length / content
    for i in 0..inst.regs.len() {
        let (mn, rn, len) = (inst.regs[i].map.name, inst.regs[i].reg.name, inst.regs[i].reg.len);
        for l in [0, 1, len.saturating_sub(1), len, len + 1, len + 9] {
            let mut d = rng.bytes(l);
            if rng.chance(1, 3) { for x in d.iter_mut() { *x &= 0x7f; } }
            if rng.chance(1, 3) && !d.is_empty() { let k = rng.below(d.len() as u64) as usize; d[k] = 0; }
            inst.exec(cx, &format!("parse {mn} {rn} {}", hex(&d)));
        }
    }
}

/// all raw (start,end) / (addr,len) pairs around a small memory, after some right changes
fn raw_grid(cx: &mut Ctx, name: &str, rng: &mut Rng, slack: usize) {
    let Some(mut inst) = Inst::create(cx, name) else { return };
    let n = inst.sh_raw.len();
    // perturb the rights of a few registers, register observers on a few
    for _ in 0..6 {
        let i = rng.below(inst.regs.len() as u64) as usize;
        let (mn, rn) = (inst.regs[i].map.name, inst.regs[i].reg.name);
        inst.exec(cx, &format!("sar {mn} {rn} {}", right_name(*rng.pick(&RIGHTS))));
        if rng.bool() { inst.exec(cx, &format!("obs {mn} {rn}")); }
    }
    let lo = if n > 40 { n - 40 } else { 0 };
    let mut pts: Vec<usize> = (lo..=n + slack).collect();
    if lo > 0 { pts.extend([0, 1, lo / 2]); }
    for &s in &pts {
        for &e in &pts {
            inst.exec(cx, &format!("rr {s} {e}"));
        }
        for len in 0..=(n + slack).saturating_sub(s).min(12) {
            let buf: Vec<u8> = (0..len).map(|k| (s * 7 + k * 13 + 1) as u8).collect();
            inst.exec(cx, &format!("wr {s} {}", hex(&buf)));
            if len > 0 && (s + len) % 3 == 0 {
                inst.exec(cx, &format!("wr {s} {}", hex(&buf))); // same bytes again
            }
        }
    }
    for &(s, e) in &[(usize::MAX, usize::MAX), (usize::MAX - 1, usize::MAX), (usize::MAX, 0), (n, usize::MAX), (0, usize::MAX),
                     (1usize << 32, 1usize << 32), (1_000_000, 1_000_000), (1usize << 63, (1usize << 63) + 1)] {
        inst.exec(cx, &format!("rr {s} {e}"));
    }
    for &(a, l) in &[(usize::MAX, 0usize), (usize::MAX, 1), (usize::MAX - 3, 4), (usize::MAX - 3, 3), (1usize << 32, 0), (1_000_000, 0), (n + 1, 0), (n, 0), (n, 1)] {
        inst.exec(cx, &format!("wr {a} {}", hex(&vec![0xEE; l])));
    }
}

/// bit-field memories: backgrounds x fields x value sweeps
fn bitfield_sweeps(cx: &mut Ctx, name: &str, rng: &mut Rng, thorough: bool, seed: u64) {
    let Some(mut inst) = Inst::create(cx, name) else { return };
    let mapn = inst.desc.maps[0];
    let bits = match &inst.regs[inst.reg_index(mapn, "Whole")].kind { Kind::Scalar { size, .. } => (*size * 8) as u32, _ => unreachable!() };
    let m = mask_w(bits);
    let bgs = [0u64, m, rng.next_u64() & m, 0xA5A5_5A5A_3CC3_9669 & m];
    for (bi, bg) in bgs.iter().enumerate() {
        inst.exec(cx, &format!("wt {mapn} Lo b:{:02x}", 0x11 + bi));
        inst.exec(cx, &format!("wt {mapn} Hi b:{:02x}", 0xE0 + bi));
        inst.exec(cx, &format!("wt {mapn} Whole w:{bg}"));
        let fields: Vec<usize> = (0..inst.regs.len()).filter(|i| matches!(inst.regs[*i].kind, Kind::Bf { .. })).collect();
        for (fi, &i) in fields.iter().enumerate() {
            let rn = inst.regs[i].reg.name;
            let Kind::Bf { signed, lsb, msb, .. } = inst.regs[i].kind.clone() else { unreachable!() };
            if bits == 8 {
                inst.exec(cx, &format!("sweep {mapn} {rn} 0 255 1"));
            } else if bits == 16 {
                let full = thorough || (fi as u64 + seed + bi as u64 * 5) % 16 == 0;
                if full && bi < 2 || (thorough && bi < 3) {
                    inst.exec(cx, &format!("sweep {mapn} {rn} 0 65535 1"));
                } else {
                    inst.exec(cx, &format!("sweep {mapn} {rn} {} 65535 251", (fi + bi) % 251));
                }
            }
            if bits >= 16 && bi < 3 {
                for v in bf_values(bits, signed, lsb, msb, rng, if thorough { 24 } else { 6 }) {
                    inst.exec(cx, &format!("wt {mapn} {rn} w:{v}"));
                    inst.exec(cx, &format!("wt {mapn} Whole w:{bg}"));
                }
            }
        }
    }
}

/// random call histories (raw + typed + rights + observers) on one memory
fn history(cx: &mut Ctx, name: &str, rng: &mut Rng, steps: usize) {
    let Some(mut inst) = Inst::create(cx, name) else { return };
    let n = inst.sh_raw.len();
    for _ in 0..steps {
        let i = rng.below(inst.regs.len() as u64) as usize;
        let (mn, rn, kind, len) = (inst.regs[i].map.name, inst.regs[i].reg.name, inst.regs[i].kind.clone(), inst.regs[i].reg.len);
        let r = inst.regs[i].range();
        // raw addresses biased to register boundaries
        let near = |rng: &mut Rng| -> usize {
            match rng.below(12) {
                0 => n + rng.below(3) as usize,
                1 => rng.interesting_u64() as usize,
                2..=5 => (r.start + rng.below(len as u64 + 2) as usize).saturating_sub(1),
                _ => rng.below(n as u64 + 1) as usize,
            }
        };
        match rng.below(16) {
            0 | 1 => inst.exec(cx, &format!("sar {mn} {rn} {}", right_name(*rng.pick(&RIGHTS)))),
            2 => inst.exec(cx, &format!("obs {mn} {rn}")),
            3 => inst.exec(cx, &format!("ar {mn} {rn}")),
            4 | 5 | 6 => {
                let s = near(rng);
                let e = match rng.below(6) { 0 => s, 1 => near(rng), _ => s.saturating_add(rng.below(len as u64 + 3) as usize) };
                inst.exec(cx, &format!("rr {s} {e}"));
            }
            7 | 8 | 9 | 10 => {
                let a = near(rng);
                let l = match rng.below(5) { 0 => 0, 1 => len, _ => rng.below(len as u64 + 3) as usize };
                inst.exec(cx, &format!("wr {a} {}", hex(&rng.bytes(l))));
            }
            11 => {
                if rng.bool() {
                    inst.exec(cx, &format!("pg {}", near(rng)));
                } else {
                    // raw write of exactly what the range already holds
                    let a = near(rng).min(n);
                    let l = (rng.below(len as u64 + 3) as usize).min(n - a);
                    let cur = inst.sh_raw[a..a + l].to_vec();
                    inst.exec(cx, &format!("wr {a} {}", hex(&cur)));
                }
            }
            12 => inst.exec(cx, &format!("rd {mn} {rn}")),
            _ => {
                let v = match kind {
                    Kind::Scalar { size, .. } => format!("w:{}", rng.interesting_u64() & mask_w(size as u32 * 8)),
                    Kind::Bf { bits, signed, lsb, msb, .. } => { let vs = bf_values(bits, signed, lsb, msb, rng, 3); format!("w:{}", *rng.pick(&vs)) }
                    Kind::Str => { let vs = string_values(len); { let s: &Vec<u8> = rng.pick::<Vec<u8>>(&vs); format!("s:{}", hex(s)) } }
                    Kind::Bytes => { let l = if rng.chance(4, 5) { len } else { len + 1 }; format!("b:{}", hex(&rng.bytes(l))) }
                };
                inst.exec(cx, &format!("wt {mn} {rn} {v}"));
            }
        }
    }
}

/// raw reads / writes of 16..1024 bytes spanning three and more registers, first all writable,
/// then with an interior RO / NA / WO cell or register (a block-wise rewrite of the per-cell
/// protection loops would have to get these right)
fn big_raw(cx: &mut Ctx, name: &str, rng: &mut Rng) {
    let Some(mut inst) = Inst::create(cx, name) else { return };
    let n = inst.sh_raw.len();
    let regs: Vec<(&'static str, &'static str, Range<usize>)> = inst.regs.iter().map(|r| (r.map.name, r.reg.name, r.range())).collect();
    for (mn, rn, _) in &regs {
        inst.exec(cx, &format!("sar {mn} {rn} RW"));
    }
    inst.exec(cx, &format!("obs {} {}", regs[1].0, regs[1].1));
    inst.exec(cx, &format!("obs {} {}", regs[regs.len() - 1].0, regs[regs.len() - 1].1));
    let lens = [16usize, 17, 31, 32, 33, 63, 64, 65, 127, 128, 129, 255, 256, 257, 300, 317, 511, 512, 513, 1000, 1023, 1024];
    let starts = [0usize, 1, 2, 3, 4, 5, 7, 8, 290, 299, 300, 301, 316, 317, 318];
    let round = |inst: &mut Inst, cx: &mut Ctx, rng: &mut Rng| {
        for &l in &lens {
            for &a in &starts {
                if a + l > n + 2 { continue; }
                inst.exec(cx, &format!("rr {a} {}", a + l));
                inst.exec(cx, &format!("wr {a} {}", hex(&rng.bytes(l))));
            }
            // right-aligned at the end of the memory and one beyond
            if l <= n {
                inst.exec(cx, &format!("rr {} {n}", n - l));
                inst.exec(cx, &format!("wr {} {}", n - l, hex(&rng.bytes(l))));
                inst.exec(cx, &format!("wr {} {}", n - l + 1, hex(&rng.bytes(l))));
            }
        }
    };
    round(&mut inst, cx, rng);
    // interior obstacles, one at a time
    for (k, right) in [(1usize, "RO"), (3, "NA"), (2, "WO"), (3, "RO")] {
        let (mn, rn, _) = regs[k.min(regs.len() - 1)];
        inst.exec(cx, &format!("sar {mn} {rn} {right}"));
        round(&mut inst, cx, rng);
        inst.exec(cx, &format!("ar {mn} {rn}"));
        inst.exec(cx, &format!("sar {mn} {rn} RW"));
    }
}

/// every register observed (zero-length ones included), everything writable, then raw and typed
/// writes around / over / exactly on every register, each raw one repeated with identical bytes
fn observer_scenario(cx: &mut Ctx, name: &str, rng: &mut Rng) {
    let Some(mut inst) = Inst::create(cx, name) else { return };
    let n = inst.sh_raw.len();
    let regs: Vec<(&'static str, &'static str, Range<usize>, bool)> =
        inst.regs.iter().take(48).map(|r| (r.map.name, r.reg.name, r.range(), r.well_formed())).collect();
    for (mn, rn, _, _) in &regs {
        inst.exec(cx, &format!("sar {mn} {rn} RW"));
        inst.exec(cx, &format!("obs {mn} {rn}"));
    }
    for (mn, rn, r, wf) in &regs {
        let lo = r.start.saturating_sub(1);
        let hi = (r.end + 1).min(n);
        for (a, e) in [(lo, hi), (r.start, r.end), (lo, r.start), (r.end.min(n), hi), (r.start, r.start), (lo, (r.start + 1).min(n)), (r.start, (r.start + 1).min(n))] {
            if a > e { continue; }
            let cur = inst.sh_raw[a..e].to_vec();
            inst.exec(cx, &format!("wr {a} {}", hex(&cur)));          // unchanged bytes
            let fresh = rng.bytes(e - a);
            inst.exec(cx, &format!("wr {a} {}", hex(&fresh)));
            inst.exec(cx, &format!("wr {a} {}", hex(&fresh)));        // and again, now unchanged
        }
        if *wf {
            // typed write of what the register reads (when it reads)
            let i = inst.reg_index(mn, rn);
            if let Ok(Out::Val(Ok(v))) = catch(|| inst.mem.reg_op(i, Op::Read)) {
                inst.exec(cx, &format!("wt {mn} {rn} {}", v.show()));
            }
        }
    }
}

/// B5: which `BitField<ty, LSB, MSB>` declarations the macro accepts.  Each case is a one-register
/// map in a scratch crate (path dependency on the repository under test) that `cargo check`
/// either compiles or rejects; the model answers from `bfNormalise` + `bfVerify`.
fn declaration_cases(rep: &mut Report) {
    let manifest = std::fs::read_to_string(concat!(env!("CARGO_MANIFEST_DIR"), "/Cargo.toml")).unwrap();
    let line = manifest.lines().find(|l| l.starts_with("cameleon-impl")).unwrap();
    let impl_path = line.split('"').nth(1).unwrap().to_string();
    let dir = std::env::current_dir().unwrap().join("c20-decl");
    let _ = std::fs::create_dir_all(dir.join("src/bin"));
    std::fs::write(dir.join("Cargo.toml"), format!(
        "[package]\nname = \"c20decl\"\nversion = \"0.0.0\"\nedition = \"2018\"\n\n[workspace]\n\n[dependencies]\ncameleon-impl = {{ path = \"{impl_path}\" }}\n")).unwrap();
    let _ = std::fs::copy(concat!(env!("CARGO_MANIFEST_DIR"), "/Cargo.lock"), dir.join("Cargo.lock"));
    // (endianness, type, LSB literal, MSB literal)
    let cases: &[(&str, &str, u32, u32)] = &[
        ("LE", "u8", 1, 4), ("LE", "u8", 5, 3), ("LE", "u8", 0, 8), ("LE", "u8", 7, 7), ("LE", "i16", 0, 16),
        ("LE", "u32", 31, 31), ("LE", "u64", 0, 63), ("LE", "u64", 0, 62), ("LE", "i64", 0, 63), ("LE", "i64", 64, 64),
        ("BE", "u16", 15, 0), ("BE", "u16", 3, 9), ("BE", "u8", 8, 0), ("BE", "i32", 0, 0), ("BE", "u64", 63, 0), ("BE", "u8", 3, 8),
    ];
    for (i, (e, ty, l, m)) in cases.iter().enumerate() {
        let len = int_bits(ty) / 8;
        std::fs::write(dir.join(format!("src/bin/case{i}.rs")), format!(
            "use cameleon_impl::memory::*;\n#[register_map(base = 0, endianness = {e})]\npub enum M {{\n    #[register(len = {len}, access = RW, ty = BitField<{ty}, LSB = {l}, MSB = {m}>)]\n    F,\n}}\n#[memory]\npub struct Mem {{ m: M }}\nfn main() {{ let mut x = Mem::new(); let _ = x.write::<M::F>(0); }}\n")).unwrap();
    }
    for (i, (e, ty, l, m)) in cases.iter().enumerate() {
        let out = std::process::Command::new("cargo")
            .args(["check", "--offline", "--quiet", "--bin", &format!("case{i}")])
            .current_dir(&dir)
            .env("CARGO_TARGET_DIR", dir.join("target"))
            .env_remove("RUSTFLAGS")
            .output();
        let ans = match out {
            Ok(o) if o.status.success() => "accept",
            Ok(_) => "reject",
            Err(_) => "cargo-unavailable",
        };
        // independent spec of the accepted declarations
        let bits = int_bits(ty);
        let spec = if *e == "LE" { l <= m && *m < bits } else { m <= l && *l < bits };
        rep.case(&format!("decl {e} {ty} {l} {m}"), ans == "accept");
        rep.count(&format!("declaration:{ans}"));
        if (ans == "accept") != spec {
            rep.violation(json!({"kind": "declaration", "endian": e, "ty": ty, "lsb": l, "msb": m}),
                &format!("BitField<{ty}, LSB = {l}, MSB = {m}> ({e}): {ans}"), json!({"mem": "-", "ops": []}));
        }
        rep.expect(format!("c20 accepts {e} {ty} {l} {m}"), ans.into());
    }
}

fn main() {
    let args = parse_args();
    let _ = catch(|| ());
    if std::env::var("C20_DEBUG").is_ok() {
        std::panic::set_hook(Box::new(|i| eprintln!("panic: {i}")));
    }
    let mut rep = Report::new(
        "C20",
        "family of register maps declared with the real macros (see harness/src/c20_maps.rs); a case is one API call on one memory state \
         (distinct by memory, call, arguments and state digest), non-trivial when the call succeeds (raw/typed access returning data or changing the image, \
         right/observer calls always); value sweeps register their first 64 values individually and the rest in `evaluations`",
    );
    let mut rng = Rng::new(args.seed);
    send_definitions(&mut rep, args.replay.is_none());

    if let Some(path) = &args.replay {
        let v: Value = serde_json::from_str(&std::fs::read_to_string(path).unwrap()).unwrap();
        let r = &v["replay"];
        let mem = r["mem"].as_str().unwrap_or("-");
        if mem != "-" {
            let mut cx = Ctx { rep: &mut rep };
            if let Some(mut inst) = Inst::create(&mut cx, mem) {
                for l in r["ops"].as_array().unwrap() {
                    inst.exec(&mut cx, l.as_str().unwrap());
                }
            }
        } else {
            pure_functions(&mut rep);
            protection_histories(&mut rep, &mut rng, args.thorough());
        }
        rep.write(&args);
        return;
    }

    let thorough = args.thorough();
    // past failures first
    if let Ok(dir) = std::fs::read_dir("/verif/corpus/C20") {
        let mut files: Vec<_> = dir.filter_map(|e| e.ok()).map(|e| e.path()).filter(|p| p.extension().map_or(false, |x| x == "json")).collect();
        files.sort();
        for f in files {
            let v: Value = serde_json::from_str(&std::fs::read_to_string(&f).unwrap()).unwrap();
            let r = &v["replay"];
            let mut cx = Ctx { rep: &mut rep };
            if let Some(mut inst) = Inst::create(&mut cx, r["mem"].as_str().unwrap()) {
                for l in r["ops"].as_array().unwrap() {
                    inst.exec(&mut cx, l.as_str().unwrap());
                }
            }
            rep.count("corpus-file");
        }
    }
    pure_functions(&mut rep);
    declaration_cases(&mut rep);
    protection_histories(&mut rep, &mut rng, thorough);
    {
        let mut cx = Ctx { rep: &mut rep };
        for m in all_mems() {
            typed_batteries(&mut cx, m.name, &mut rng, thorough);
        }
    }
    flush(&mut rep, &args);
    {
        let mut cx = Ctx { rep: &mut rep };
        for m in ["MemMix", "MemMixRev", "MemScLE", "MemScBE", "MemBfBase", "MemFar", "MemBf8BE", "MemInner"] {
            observer_scenario(&mut cx, m, &mut rng);
        }
        big_raw(&mut cx, "MemBig", &mut rng);
    }
    {
        let mut cx = Ctx { rep: &mut rep };
        for m in ["MemBf8LE", "MemBf16BE", "MemScLE", "MemMix", "MemMixRev", "MemBfBase", "MemInner"] {
            raw_grid(&mut cx, m, &mut rng, 3);
        }
        if thorough {
            for m in ["MemBf8BE", "MemBf16LE", "MemBf32LE", "MemBf64BE", "MemScBE", "MemFar"] {
                raw_grid(&mut cx, m, &mut rng, 3);
            }
        }
    }
    flush(&mut rep, &args);
    for m in all_mems().into_iter().filter(|m| m.name.starts_with("MemBf") && m.name != "MemBfBase") {
        let mut cx = Ctx { rep: &mut rep };
        bitfield_sweeps(&mut cx, m.name, &mut rng, thorough, args.seed);
        flush(&mut rep, &args);
    }
    {
        let rounds = if thorough { 40 } else { 6 };
        let steps = if thorough { 400 } else { 250 };
        for _ in 0..rounds {
            let mut cx = Ctx { rep: &mut rep };
            for m in all_mems() {
                history(&mut cx, m.name, &mut rng, steps);
            }
        }
    }
    rep.extra.insert("family".into(), json!({
        "maps": all_maps().len(), "registers": all_maps().iter().map(|m| m.regs.len()).sum::<usize>(), "memories": all_mems().len(),
        "bitfields_8_16": "all (lsb,msb) x {unsigned,signed} x {LE,BE}", "bitfields_32_64": "boundary (lsb,msb) pairs x {unsigned,signed} x {LE,BE}",
        "inner_visibility_probe": format!("{:?} / pub(crate) map from the crate root: base {}", maps::INNER_VIS_PROBE, maps::inner::InC::base()),
        "bitfields_64_full_width": "included (compile since the i128 min/max fix)"}));
    rep.write(&args);
}
