//! C19 helper: parse a GenApi XML file (the bytes the GenTL probe read through `GCReadPort`)
//! with the REAL `cameleon-genapi` crate and print what the probe compares with the info
//! queries and with the model's register layout.
//!
//!   c19_xml <file.xml>
//!
//! Output (one item per line, tab separated):
//!   desc <vendor> <model> <major.minor.subminor> <schema major.minor.subminor> <tooltip> <product guid>
//!   reg  <node name> <address> <length> <access mode>      (IntReg / MaskedIntReg / StringReg, immediate values)
//!   str  <node name> <value>                               (String nodes with an immediate value)
//!   port <node name>
//!   int  <node name> <value>                               (Integer nodes with an immediate value)
//!   enum <node name> <symbolic=value,...>                  (Enumeration nodes and their entries)
//! Exit code 2 + `error <msg>` when the XML does not parse.

use cameleon_genapi::{
    builder::GenApiBuilder,
    elem_type::{AccessMode, AddressKind, ImmOrPNode},
    interface::{IEnumeration, INode},
    store::NodeData,
    NodeStore, RegisterBase, ValueStore,
};

fn reg_line(name: &str, rb: &RegisterBase) -> String {
    let addr = match rb.address_kinds() {
        [AddressKind::Address(ImmOrPNode::Imm(a))] => a.to_string(),
        _ => "?".into(),
    };
    let len = match rb.length_elem() {
        ImmOrPNode::Imm(l) => l.to_string(),
        ImmOrPNode::PNode(_) => "?".into(),
    };
    let acc = match rb.access_mode() {
        AccessMode::RO => "RO",
        AccessMode::WO => "WO",
        AccessMode::RW => "RW",
    };
    format!("reg\t{name}\t{addr}\t{len}\t{acc}")
}

fn main() {
    let path = std::env::args().nth(1).expect("usage: c19_xml <file.xml>");
    let bytes = std::fs::read(&path).expect("cannot read file");
    let xml = match String::from_utf8(bytes) {
        Ok(s) => s,
        Err(e) => {
            println!("error\tnot utf-8: {e}");
            std::process::exit(2);
        }
    };
    use cameleon_genapi::store::{DefaultCacheStore, DefaultNodeStore, DefaultValueStore};
    let parsed = std::panic::catch_unwind(|| {
        GenApiBuilder::<DefaultNodeStore, DefaultValueStore, DefaultCacheStore>::default().build(&xml)
    });
    let (desc, store, cx) = match parsed {
        Ok(Ok(v)) => v,
        Ok(Err(e)) => {
            println!("error\t{e}");
            std::process::exit(2);
        }
        Err(_) => {
            println!("error\tparser panicked");
            std::process::exit(2);
        }
    };
    println!(
        "desc\t{}\t{}\t{}.{}.{}\t{}.{}.{}\t{}\t{}",
        desc.vendor_name(),
        desc.model_name(),
        desc.major_version(),
        desc.minor_version(),
        desc.subminor_version(),
        desc.schema_major_version(),
        desc.schema_minor_version(),
        desc.schema_subminor_version(),
        desc.tooltip().unwrap_or("-"),
        desc.product_guid()
    );
    let mut lines = vec![];
    store.visit_nodes(|n| match n {
        NodeData::IntReg(r) => lines.push(reg_line(r.name(&store), r.register_base())),
        NodeData::MaskedIntReg(r) => lines.push(reg_line(r.name(&store), r.register_base())),
        NodeData::StringReg(r) => lines.push(reg_line(r.name(&store), r.register_base())),
        NodeData::String(s) => {
            if let ImmOrPNode::Imm(id) = s.value_elem() {
                let v = cx.value_store().str_value(id).cloned().unwrap_or_default();
                lines.push(format!("str\t{}\t{}", s.name(&store), v));
            }
        }
        NodeData::Port(p) => lines.push(format!("port\t{}", p.name(&store))),
        NodeData::Integer(i) => {
            if let Some(id) = i.value_kind().imm() {
                if let Some(v) = cx.value_store().integer_value(id) {
                    lines.push(format!("int\t{}\t{}", i.name(&store), v));
                }
            }
        }
        NodeData::Enumeration(e) => {
            let ents: Vec<String> = e
                .entries(&store)
                .iter()
                .filter_map(|id| match store.node(*id) {
                    NodeData::EnumEntry(ent) => Some(format!("{}={}", ent.symbolic(), ent.value())),
                    _ => None,
                })
                .collect();
            lines.push(format!("enum\t{}\t{}", e.name(&store), ents.join(",")));
        }
        _ => {}
    });
    lines.sort();
    for l in lines {
        println!("{l}");
    }
}
